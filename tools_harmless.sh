#!/bin/sh
# usage: tools_harmless.sh <dir with h*.diff> <props...> — applies each behaviour-preserving patch, runs the checks, reverts
export GOFLAGS=-mod=mod GOPROXY=off GOSUMDB=off GOTOOLCHAIN=local
D="$1"; shift
cd /verif
for p in "$D"/h*.diff; do
  git -C /repo apply "$p" || { echo "$(basename $p): does not apply"; continue; }
  for c in "$@"; do
    out=$(./check $c --tier quick 2>&1)
    v=$(echo "$out" | grep "^OK\|^VIOLATION" | tail -1 | cut -c1-120)
    case "$v" in OK*) ;; *) echo "$(basename $p) $c: $v"; echo "$out" | grep "violation:" | head -2 | cut -c1-300;; esac
  done
  git -C /repo checkout -- . ; git -C /repo clean -fdq
  echo "$(basename $p) done"
done
