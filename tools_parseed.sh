#!/bin/sh
export GOFLAGS=-mod=mod GOPROXY=off GOSUMDB=off GOTOOLCHAIN=local
P="$1"; SEED="${2:-1}"; TIER="${3:-quick}"
git -C /repo apply "$P" || exit 2
python3 - "$SEED" "$TIER" <<'PY'
import sys
sys.path.insert(0,'/verif/lib')
import par_common
s = par_common.observe(int(sys.argv[1]), sys.argv[2])
print({k:v for k,v in s.items() if k in ('programs','executions','ok','wall_s')})
for p,hs in sorted(s['hits'].items()):
    print("PAR", p, len(hs), hs[0]['what'][:300])
PY
git -C /repo checkout -- . ; git -C /repo status --short | head
