#!/bin/sh
# thorough sweep with a given seed: tools_thorough_seed.sh <seed>
export VERIF_SEED=$1
exec /verif/tools_thorough.sh C16 C14 C13 C17 C20 C02 C04 C10 C11 C15 C18 C01 C03 C05 C06 C07 C08 C09 C12 C19
