#!/usr/bin/env python3
"""Writes /verif/seeded/<id>/<k>/meta.json for every confirmed seeded change and
/verif/seeded/MATRIX.md from seeded/_verify.json (confirmation in scratch worktrees) and
seeded/_matrix.json (which quick checks alarm with the change applied)."""
import json
import os
import re

BASE = "/verif/seeded"


def section(notes, *titles):
    for t in titles:
        m = re.search(r"^#+\s*%s.*?\n(.*?)(?=^#+\s|\Z)" % t, notes, re.M | re.S | re.I)
        if m:
            return " ".join(m.group(1).split())[:900]
    return ""


def main():
    ver = {(r["id"], r["k"]): r for r in json.load(open(os.path.join(BASE, "_verify.json")))}
    mat = json.load(open(os.path.join(BASE, "_matrix.json"))) if os.path.exists(os.path.join(BASE, "_matrix.json")) else {}
    rows = []
    for pid in sorted(os.listdir(BASE)):
        if not re.match(r"C\d\d$", pid):
            continue
        for k in sorted(os.listdir(os.path.join(BASE, pid))):
            d = os.path.join(BASE, pid, k)
            if not os.path.exists(os.path.join(d, "patch.diff")):
                continue
            notes = open(os.path.join(d, "notes.md")).read() if os.path.exists(os.path.join(d, "notes.md")) else ""
            title = (notes.split("\n")[0].lstrip("# ").strip() if notes else "")
            v = ver.get((pid, k), {})
            row = mat.get("%s/%s" % (pid, k), {})
            files = sorted(set(re.findall(r"^\+\+\+ b/(\S+)", open(os.path.join(d, "patch.diff")).read(), re.M)))
            alarms = {p: r for p, r in row.items() if r != "ok"}
            meta = {
                "property": pid,
                "change": title,
                "files_touched": files,
                "breaks": section(notes, "Which part", "What breaks"),
                "needs_to_manifest": section(notes, "What it needs", "Needs", "How it manifests"),
                "demonstration": "run.sh <checkout> (exit 0 = property holds, non-zero = violated)",
                "confirmed_by_me": {
                    "how": "tools_verify_seeds.py: scratch worktree of /repo under /tmp; demonstration on the unchanged tree; git apply; go build; go test -vet=off -count=1 ./... in . and internal/tests; demonstration with the change; worktree removed",
                    "demo_on_unchanged_tree_exit": v.get("demo_clean_rc"),
                    "change_builds": v.get("build_rc") == 0,
                    "suite_failures_with_change": v.get("suite_failures"),
                    "baseline_failure_allowed": "TestPanicRecovered (fails on the unchanged tree too)",
                    "demo_with_change_exit": v.get("demo_changed_rc"),
                    "confirmed": v.get("confirmed"),
                },
                "checks_run_with_change_applied": sorted(row),
                "detected_by_own_property_check": row.get(pid, "not run"),
                "other_checks_that_alarm": {p: r[:160] for p, r in alarms.items() if p != pid},
                "checks_that_stay_quiet": sorted(p for p, r in row.items() if r == "ok"),
            }
            json.dump(meta, open(os.path.join(d, "meta.json"), "w"), indent=1)
            rows.append((pid, k, title, v.get("confirmed"), row.get(pid, "not run"), sorted(p for p in alarms if p != pid)))
    with open(os.path.join(BASE, "MATRIX.md"), "w") as f:
        f.write("# Seeded changes: confirmation and detection\n\n")
        f.write("Every change compiles, passes the repository's test suite (only the baseline failure `TestPanicRecovered` remains) and is shown to break its property by its own "
                "demonstration (`run.sh`); all of that was re-run by `tools_verify_seeds.py` in scratch worktrees. `home check` is the verdict of `./check <property> --tier quick` with "
                "the change applied to /repo (`tools_matrix.py`): `alarm-input` = VIOLATION with a concrete failing input in the replay, `alarm-no-input` = VIOLATION … no-failing-input-found. "
                "Other alarms are the other properties' checks that also report (a broken scheduler correspondence is visible to every Layer-0 property; a broken dataflow to every generated-code property).\n\n")
        f.write("| seed | change | confirmed | home check | other alarms |\n|---|---|---|---|---|\n")
        for pid, k, title, conf, home, others in rows:
            f.write("| %s/%s | %s | %s | %s | %s |\n" % (pid, k, title.replace("|", "/")[:110], "yes" if conf else "NO", home.replace("|", "/")[:150], " ".join(others)))
    print(len(rows), "seeds;", sum(1 for r in rows if r[4].startswith("alarm")), "detected by their own property's check")


if __name__ == "__main__":
    main()
