#!/bin/sh
# runs every quick check on the unchanged tree for several seeds; prints anything that is not OK
export GOFLAGS=-mod=mod GOPROXY=off GOSUMDB=off GOTOOLCHAIN=local
cd /verif
for s in "$@"; do
  for p in C01 C02 C03 C04 C05 C06 C07 C08 C09 C10 C11 C12 C13 C14 C15 C16 C17 C18 C19 C20; do
    out=$(VERIF_SEED=$s ./check $p --tier quick 2>&1)
    echo "$out" | grep -q "^OK property=$p" || { echo "seed $s $p:"; echo "$out" | grep "violation\|VIOLATION" | cut -c1-400; }
  done
  echo "seed $s done $(date +%H:%M:%S)"
done
