#!/bin/sh
# usage: tools_genseed.sh <patch.diff> [seed] [tier] — applies a seeded change to /repo, runs the generated-code correspondence, reverts
export GOFLAGS=-mod=mod GOPROXY=off GOSUMDB=off GOTOOLCHAIN=local
P="$1"; SEED="${2:-1}"; TIER="${3:-quick}"
git -C /repo apply "$P" || exit 2
python3 - "$SEED" "$TIER" <<'PY'
import sys
sys.path.insert(0,'/verif/lib')
import gen_common, json
s = gen_common.observe(int(sys.argv[1]), sys.argv[2])
print({k:v for k,v in s.items() if k in ('flows','executions','wall_s','cff_ok','build_ok')})
for p,hs in sorted(s['hits'].items()):
    print(p, len(hs), hs[0]['what'][:300])
PY
git -C /repo checkout -- . ; git -C /repo status --short | head
