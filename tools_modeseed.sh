#!/bin/sh
# usage: tools_modeseed.sh <patch.diff> [seed] [tier] — seeded change vs generation-mode comparisons
export GOFLAGS=-mod=mod GOPROXY=off GOSUMDB=off GOTOOLCHAIN=local
P="$1"; SEED="${2:-1}"; TIER="${3:-quick}"
git -C /repo apply "$P" || exit 2
python3 - "$SEED" "$TIER" <<'PY'
import sys
sys.path.insert(0,'/verif/lib')
import gen_modes, gen_common
s = gen_modes.observe(int(sys.argv[1]), sys.argv[2])
print(s['counts'])
for p,hs in sorted(s['hits'].items()):
    print("MODES", p, len(hs), hs[0]['what'][:300])
s = gen_common.observe(int(sys.argv[1]), sys.argv[2])
for p,hs in sorted(s['hits'].items()):
    print("GEN", p, len(hs), hs[0]['what'][:300])
PY
git -C /repo checkout -- . ; git -C /repo status --short | head
