#!/usr/bin/env python3
"""Detection matrix: applies each seeded change to /repo in turn, runs every quick check,
records which properties alarm (and whether with a concrete input), reverts. Writes
/verif/seeded/_matrix.json. Must not run concurrently with anything else using /repo."""
import json
import os
import re
import subprocess
import sys

ENV = dict(os.environ, GOFLAGS="-mod=mod", GOPROXY="off", GOSUMDB="off", GOTOOLCHAIN="local")
PROPS = ["C%02d" % i for i in range(1, 21)]
SCHED = ["C01", "C03", "C05", "C06", "C07", "C08", "C09", "C12", "C19"]
GEN = ["C02", "C04", "C10", "C11", "C13", "C15", "C17", "C18", "C20"]


def family(pid, patch):
    """the checks worth running for a change: those whose ties look at the files it touches"""
    txt = open(patch).read()
    fam = {pid}
    if "scheduler/" in txt:
        fam |= set(SCHED) | {"C02", "C10"}
    if "internal/" in txt or "emitter" in txt or "cmd/cff" in txt:
        fam |= set(GEN) | {"C01", "C03", "C06", "C07", "C09", "C14", "C16"}
    return [p for p in PROPS if p in fam]


def sh(cmd, cwd=None, timeout=3600):
    p = subprocess.run(cmd, shell=True, cwd=cwd, env=ENV, stdout=subprocess.PIPE, stderr=subprocess.STDOUT, text=True, timeout=timeout)
    return p.returncode, p.stdout


def main():
    base = "/verif/seeded"
    seeds = []
    for pid in sorted(os.listdir(base)):
        if re.match(r"C\d\d$", pid):
            for k in sorted(os.listdir(os.path.join(base, pid))):
                if os.path.exists(os.path.join(base, pid, k, "patch.diff")) and (not sys.argv[1:] or pid in sys.argv[1:] or ("%s/%s" % (pid, k)) in sys.argv[1:]):
                    seeds.append((pid, k))
    path = os.path.join(base, "_matrix.json")
    res = json.load(open(path)) if os.path.exists(path) else {}
    for pid, k in seeds:
        if "%s/%s" % (pid, k) in res and not os.environ.get("REDO"):
            continue
        rc, out = sh("git -C /repo status --porcelain")
        if out.strip():
            print("repo not clean", out)
            return 1
        rc, out = sh("git -C /repo apply %s/%s/%s/patch.diff" % (base, pid, k))
        if rc != 0:
            print("apply failed", pid, k, out)
            continue
        row = {}
        try:
            import concurrent.futures

            def one(p):
                rc, out = sh("./check %s --tier quick" % p, cwd="/verif", timeout=3000)
                lines = [l for l in out.split("\n") if l.startswith("VIOLATION") or l.startswith("OK ")]
                last = lines[-1] if lines else "?"
                if last.startswith("OK"):
                    return p, "ok"
                if "no-failing-input-found" in last:
                    return p, "alarm-no-input"
                if last.startswith("VIOLATION"):
                    what = ""
                    m = re.search(r"replay=(\S+)", last)
                    if m and os.path.exists(m.group(1)):
                        what = json.load(open(m.group(1))).get("what", "")[:300]
                    return p, "alarm-input: " + what
                return p, "error: " + out[-200:]
            # the checks of one change run side by side (they coordinate through the locks of lib/common.py)
            with concurrent.futures.ThreadPoolExecutor(max_workers=int(os.environ.get("MATRIX_PAR", "6"))) as ex:
                for p, v in ex.map(one, family(pid, "%s/%s/%s/patch.diff" % (base, pid, k))):
                    row[p] = v
        finally:
            sh("git -C /repo checkout -- . && git -C /repo clean -fdq")
        res["%s/%s" % (pid, k)] = row
        json.dump(res, open(path, "w"), indent=1)
        print(pid, k, "home:", row.get(pid, "?")[:120], "| alarms:", [p for p in row if row[p] != "ok"], "| quiet:", [p for p in row if row[p] == "ok"], flush=True)
    return 0


if __name__ == "__main__":
    sys.exit(main())
