#!/usr/bin/env python3
"""Detection matrix: applies each seeded change to /repo in turn, runs every quick check,
records which properties alarm (and whether with a concrete input), reverts. Writes
/verif/seeded/_matrix.json. Must not run concurrently with anything else using /repo."""
import json
import os
import re
import subprocess
import sys

ENV = dict(os.environ, GOFLAGS="-mod=mod", GOPROXY="off", GOSUMDB="off", GOTOOLCHAIN="local")
PROPS = ["C%02d" % i for i in range(1, 21)]


def sh(cmd, cwd=None, timeout=3600):
    p = subprocess.run(cmd, shell=True, cwd=cwd, env=ENV, stdout=subprocess.PIPE, stderr=subprocess.STDOUT, text=True, timeout=timeout)
    return p.returncode, p.stdout


def main():
    base = "/verif/seeded"
    seeds = []
    for pid in sorted(os.listdir(base)):
        if re.match(r"C\d\d$", pid):
            for k in sorted(os.listdir(os.path.join(base, pid))):
                if os.path.exists(os.path.join(base, pid, k, "patch.diff")) and (not sys.argv[1:] or pid in sys.argv[1:]):
                    seeds.append((pid, k))
    path = os.path.join(base, "_matrix.json")
    res = json.load(open(path)) if os.path.exists(path) else {}
    for pid, k in seeds:
        rc, out = sh("git -C /repo status --porcelain")
        if out.strip():
            print("repo not clean", out)
            return 1
        rc, out = sh("git -C /repo apply %s/%s/%s/patch.diff" % (base, pid, k))
        if rc != 0:
            print("apply failed", pid, k, out)
            continue
        row = {}
        try:
            for p in PROPS:
                rc, out = sh("./check %s --tier quick" % p, cwd="/verif", timeout=3000)
                lines = [l for l in out.split("\n") if l.startswith("VIOLATION") or l.startswith("OK ")]
                last = lines[-1] if lines else "?"
                if last.startswith("OK"):
                    row[p] = "ok"
                elif "no-failing-input-found" in last:
                    row[p] = "alarm-no-input"
                elif last.startswith("VIOLATION"):
                    what = ""
                    m = re.search(r"replay=(\S+)", last)
                    if m and os.path.exists(m.group(1)):
                        what = json.load(open(m.group(1))).get("what", "")[:300]
                    row[p] = "alarm-input: " + what
                else:
                    row[p] = "error: " + out[-200:]
        finally:
            sh("git -C /repo checkout -- . && git -C /repo clean -fdq")
        res["%s/%s" % (pid, k)] = row
        json.dump(res, open(path, "w"), indent=1)
        print(pid, k, "home:", row.get(pid, "?")[:120], "| alarms:", [p for p in PROPS if row[p] != "ok"], flush=True)
    return 0


if __name__ == "__main__":
    sys.exit(main())
