#!/bin/bash
# usage: tools_seedtest.sh <patch.diff> <prop> [<prop> ...]
# Applies a seeded change to /repo, runs the quick checks, restores /repo.
P=$(readlink -f "$1"); shift
cd /verif
git -C /repo apply "$P" || { echo "APPLY FAILED"; exit 2; }
for id in "$@"; do
  timeout 900 ./check $id 2>/dev/null | grep -E "^(OK|VIOLATION|KNOWN)" | sed "s/^/[$id] /"
done
git -C /repo checkout -- .
git -C /repo status --short | head -3
