// adapter ties the root package's scheduler glue (scheduler.go: cff.NewScheduler,
// adaptSchedulerEmitter, schedulerAdapter.Emit) to the scheduler model's reports: the
// generated code and users receive scheduler State only through a cff.SchedulerEmitter
// handed to cff.NewScheduler, so the theorems about emitted reports (C19) reach them only
// if the adapter delivers exactly the loop's reports, in order, synchronously inside the
// loop's tick arm. Built with -tags verif: the scheduler's hook gives the loop's own
// sequence of events; the user-side emitter records what arrives. One JSON object per
// case on stdout; the check driver judges it.
package main

import (
	"context"
	"encoding/json"
	"flag"
	"fmt"
	"os"
	"sync"
	"time"

	"go.uber.org/cff"
	"go.uber.org/cff/scheduler"
	"go.uber.org/cff/verifh/internal/rng"
)

type entry struct {
	K  string `json:"k"`            // tick | begin | end | loop | waitret
	St []int  `json:"st,omitempty"` // Pending Ready Waiting IdleWorkers Concurrency
}

// cases run concurrently; one log per case. A scheduler is attributed to the case that was
// creating it (creations are serialised), an emitter knows its case.
var (
	mu        sync.Mutex
	logs      = map[int][]entry{}
	schedCase = map[uintptr]int{}
	createMu  sync.Mutex
	creating  int
)

func add(c int, k string, st []int) {
	mu.Lock()
	logs[c] = append(logs[c], entry{K: k, St: st})
	mu.Unlock()
}

func caseOf(sched uintptr) int {
	mu.Lock()
	defer mu.Unlock()
	return schedCase[sched]
}

func vec(p, r, w, i, c int) []int { return []int{p, r, w, i, c} }

type userEmitter struct {
	c     int
	delay time.Duration
}

func (u *userEmitter) EmitScheduler(s cff.SchedulerState) {
	st := vec(s.Pending, s.Ready, s.Waiting, s.IdleWorkers, s.Concurrency)
	add(u.c, "begin", st)
	time.Sleep(u.delay)
	add(u.c, "end", st)
}

type caseCfg struct {
	Case    int    `json:"case"`
	N       int    `json:"n"`
	COE     bool   `json:"coe"`
	Jobs    int    `json:"jobs"`
	JobMS   []int  `json:"job_ms"`
	Deps    []int  `json:"deps"` // job i depends on Deps[i] (-1 none)
	DelayMS int    `json:"delay_ms"`
	Emitter string `json:"emitter"` // user | nil
}

type record struct {
	Cfg     caseCfg `json:"cfg"`
	Log     []entry `json:"log"`
	WaitErr string  `json:"wait_err"`
	Late    int     `json:"late"` // log entries that appeared after Wait had returned and the settle time passed
}

func main() {
	seed := flag.Uint64("seed", 1, "seed")
	count := flag.Int("count", 6, "cases")
	flag.Parse()
	r := rng.New(*seed)
	scheduler.VerifHook = func(e scheduler.VerifEvent) {
		if e.Kind == scheduler.VerifNewSched {
			mu.Lock()
			schedCase[e.Sched] = creating
			mu.Unlock()
			return
		}
		c := caseOf(e.Sched)
		switch e.Kind {
		case scheduler.VerifLTick:
			add(c, "tick", vec(e.State.Pending, e.State.Ready, e.State.Waiting, e.State.IdleWorkers, e.State.Concurrency))
		case scheduler.VerifLIter, scheduler.VerifLDispatched, scheduler.VerifLEnqRecv, scheduler.VerifLEnqClosed, scheduler.VerifLDoneRecv, scheduler.VerifLReturn:
			add(c, "loop", nil)
		case scheduler.VerifCWaitRetFin, scheduler.VerifCWaitRetCtx:
			add(c, "waitret", nil)
		}
	}
	var cfgs []caseCfg
	for c := 0; c < *count; c++ {
		cfg := caseCfg{Case: c, N: 1 + r.Intn(4), COE: r.Intn(2) == 0, Jobs: 1 + r.Intn(5), DelayMS: r.Intn(45), Emitter: "user"}
		if c == *count-1 {
			cfg.Emitter = "nil"
		}
		for i := 0; i < cfg.Jobs; i++ {
			cfg.JobMS = append(cfg.JobMS, 60+r.Intn(200))
			d := -1
			if i > 0 && r.Intn(2) == 0 {
				d = r.Intn(i)
			}
			cfg.Deps = append(cfg.Deps, d)
		}
		// at least one job long enough for two ticks of the adapter's fixed 100 ms flush period
		cfg.JobMS[0] = 230 + r.Intn(60)
		cfgs = append(cfgs, cfg)
	}
	recs := make([]record, len(cfgs))
	var wg sync.WaitGroup
	for c := range cfgs {
		wg.Add(1)
		go func(c int) {
			defer wg.Done()
			recs[c] = runCase(cfgs[c])
		}(c)
	}
	wg.Wait()
	enc := json.NewEncoder(os.Stdout)
	for _, rec := range recs {
		enc.Encode(rec)
	}
}

func runCase(cfg caseCfg) record {
	p := cff.SchedulerParams{Concurrency: cfg.N, ContinueOnError: cfg.COE}
	if cfg.Emitter == "user" {
		p.Emitter = &userEmitter{c: cfg.Case, delay: time.Duration(cfg.DelayMS) * time.Millisecond}
	}
	createMu.Lock()
	creating = cfg.Case
	s := cff.NewScheduler(p)
	createMu.Unlock()
	var sj []*scheduler.ScheduledJob
	for i := 0; i < cfg.Jobs; i++ {
		ms := cfg.JobMS[i]
		j := cff.Job{Run: func(context.Context) error { time.Sleep(time.Duration(ms) * time.Millisecond); return nil }}
		if cfg.Deps[i] >= 0 {
			j.Dependencies = []*scheduler.ScheduledJob{sj[cfg.Deps[i]]}
		}
		sj = append(sj, s.Enqueue(context.Background(), j))
	}
	err := s.Wait(context.Background())
	mu.Lock()
	n := len(logs[cfg.Case])
	mu.Unlock()
	// more than two flush periods: a detached or still-running delivery shows up here
	time.Sleep(260 * time.Millisecond)
	mu.Lock()
	rec := record{Cfg: cfg, Log: append([]entry(nil), logs[cfg.Case]...), Late: len(logs[cfg.Case]) - n}
	mu.Unlock()
	if err != nil {
		rec.WaitErr = fmt.Sprint(err)
	}
	return rec
}
