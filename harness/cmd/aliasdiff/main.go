// aliasdiff drives the real printImportAlias (through the verif export hook) with the
// per-file maps GenerateFile keeps: one line per file,
//   "<taken names, comma separated> | <dir>/<base> <pkgname> | <dir>/<base> <pkgname> ..."
// and prints the names returned, then the final addImports sorted by path.
package main

import (
	"bufio"
	"fmt"
	"os"
	"sort"
	"strings"

	"go.uber.org/cff/internal"
)

func main() {
	sc := bufio.NewScanner(os.Stdin)
	sc.Buffer(make([]byte, 1<<20), 1<<20)
	out := bufio.NewWriter(os.Stdout)
	defer out.Flush()
	for sc.Scan() {
		parts := strings.Split(sc.Text(), "|")
		aliases := map[string]struct{}{}
		for _, n := range strings.Split(strings.TrimSpace(parts[0]), ",") {
			if n != "" {
				aliases[n] = struct{}{}
			}
		}
		addImports := map[string]string{}
		var names []string
		for _, req := range parts[1:] {
			f := strings.Fields(req)
			if len(f) != 2 {
				continue
			}
			names = append(names, internal.VerifPrintImportAlias(f[0], f[1], addImports, aliases))
		}
		var keys []string
		for k := range addImports {
			keys = append(keys, k)
		}
		sort.Strings(keys)
		var adds []string
		for _, k := range keys {
			adds = append(adds, k+"="+addImports[k])
		}
		fmt.Fprintf(out, "%s ; %s\n", strings.Join(names, " "), strings.Join(adds, ","))
	}
}
