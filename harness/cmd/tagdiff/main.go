// tagdiff runs the real build-tag inversion of cff (internal/buildtag.go,
// reached through the verif export hook) on generated constraint expressions
// and headers, and prints one JSON object per case. The model is run on the
// same inputs by the check driver.
package main

import (
	"bytes"
	"encoding/json"
	"flag"
	"fmt"
	"go/build/constraint"
	"os"
	"strings"

	"go.uber.org/cff/internal"
	"go.uber.org/cff/verifh/internal/rng"
)

var tagNames = []string{"cff", "a", "b", "c"}

// allTags adds the pseudo tag that constraint.Parse produces for an empty
// "// +build" line.
var allTags = []string{"cff", "a", "b", "c", "ignore"}

func tagIndex(s string) int {
	for i, t := range allTags {
		if t == s {
			return i
		}
	}
	return -1
}

// polish prints an expression in the prefix notation the model driver reads.
func polish(e constraint.Expr) string {
	switch x := e.(type) {
	case *constraint.TagExpr:
		i := tagIndex(x.Tag)
		if i < 0 {
			panic("unknown tag " + x.Tag)
		}
		return fmt.Sprintf("T %d", i)
	case *constraint.NotExpr:
		return "N " + polish(x.X)
	case *constraint.AndExpr:
		return "A " + polish(x.X) + " " + polish(x.Y)
	case *constraint.OrExpr:
		return "O " + polish(x.X) + " " + polish(x.Y)
	}
	panic("unknown expr")
}

func clone(e constraint.Expr) constraint.Expr {
	switch x := e.(type) {
	case *constraint.TagExpr:
		return &constraint.TagExpr{Tag: x.Tag}
	case *constraint.NotExpr:
		return &constraint.NotExpr{X: clone(x.X)}
	case *constraint.AndExpr:
		return &constraint.AndExpr{X: clone(x.X), Y: clone(x.Y)}
	case *constraint.OrExpr:
		return &constraint.OrExpr{X: clone(x.X), Y: clone(x.Y)}
	}
	panic("unknown expr")
}

// all expressions of depth <= d over ntags tags.
func enum(d, ntags int) []constraint.Expr {
	var base []constraint.Expr
	for i := 0; i < ntags; i++ {
		base = append(base, &constraint.TagExpr{Tag: tagNames[i]})
	}
	if d == 0 {
		return base
	}
	sub := enum(d-1, ntags)
	out := append([]constraint.Expr{}, base...)
	for _, x := range sub {
		out = append(out, &constraint.NotExpr{X: x})
	}
	for _, x := range sub {
		for _, y := range sub {
			out = append(out, &constraint.AndExpr{X: x, Y: y})
			out = append(out, &constraint.OrExpr{X: x, Y: y})
		}
	}
	return out
}

func randExpr(r *rng.R, depth int) constraint.Expr {
	if depth == 0 || r.Chance(1, 5) {
		// cff is over-represented on purpose
		if r.Chance(2, 5) {
			return &constraint.TagExpr{Tag: "cff"}
		}
		return &constraint.TagExpr{Tag: tagNames[r.Intn(len(tagNames))]}
	}
	switch r.Intn(3) {
	case 0:
		return &constraint.NotExpr{X: randExpr(r, depth-1)}
	case 1:
		return &constraint.AndExpr{X: randExpr(r, depth-1), Y: randExpr(r, depth-1)}
	default:
		return &constraint.OrExpr{X: randExpr(r, depth-1), Y: randExpr(r, depth-1)}
	}
}

// parseable go:build text of an expression; double negation is written with
// parentheses because the Go parser rejects "!!x".
func gobuildText(e constraint.Expr) string {
	switch x := e.(type) {
	case *constraint.TagExpr:
		return x.Tag
	case *constraint.NotExpr:
		if _, ok := x.X.(*constraint.TagExpr); ok {
			return "!" + gobuildText(x.X)
		}
		return "!(" + gobuildText(x.X) + ")"
	case *constraint.AndExpr:
		return "(" + gobuildText(x.X) + " && " + gobuildText(x.Y) + ")"
	case *constraint.OrExpr:
		return "(" + gobuildText(x.X) + " || " + gobuildText(x.Y) + ")"
	}
	panic("unknown")
}

// a random "// +build" line: space = OR, comma = AND, ! on tags only.
func randPlusLine(r *rng.R) string {
	var opts []string
	for i, n := 0, 1+r.Intn(3); i < n; i++ {
		var terms []string
		for j, m := 0, 1+r.Intn(3); j < m; j++ {
			t := tagNames[r.Intn(len(tagNames))]
			if r.Chance(2, 5) {
				t = "cff"
			}
			if r.Chance(1, 3) {
				t = "!" + t
			}
			terms = append(terms, t)
		}
		opts = append(opts, strings.Join(terms, ","))
	}
	return "// +build " + strings.Join(opts, " ")
}

type astCase struct {
	Kind string `json:"kind"`
	In   string `json:"in"`
	Out  string `json:"out"`
	Has  bool   `json:"has"`
}

type headerCase struct {
	Kind      string   `json:"kind"`
	Src       []string `json:"src"`
	Out       []string `json:"out"`
	SrcGB     []string `json:"src_gb"` // polish of every parsable //go:build line, in order
	OutGB     []string `json:"out_gb"`
	SrcPB     []string `json:"src_pb"` // polish of every parsable // +build line, in order
	OutPB     []string `json:"out_pb"`
	OthersSrc []string `json:"others_src"`
	OthersOut []string `json:"others_out"`
	OracleOK  bool     `json:"oracle_ok"`
	OracleMsg string   `json:"oracle_msg,omitempty"`
}

func evalWith(e constraint.Expr, mask int, flipCff bool) bool {
	return e.Eval(func(tag string) bool {
		i := tagIndex(tag)
		v := mask&(1<<uint(i)) != 0
		if flipCff && i == 0 {
			v = !v
		}
		return v
	})
}

func classify(lines []string) (gb, pb []constraint.Expr, others []string) {
	for _, l := range lines {
		isGo, isPlus := constraint.IsGoBuild(l), constraint.IsPlusBuild(l)
		if isGo || isPlus {
			if e, err := constraint.Parse(l); err == nil {
				if isGo {
					gb = append(gb, e)
				} else {
					pb = append(pb, e)
				}
				continue
			}
		}
		others = append(others, l)
	}
	return
}

func polishAll(es []constraint.Expr) []string {
	out := []string{}
	for _, e := range es {
		out = append(out, polish(e))
	}
	return out
}

func headerCaseOf(src []string) headerCase {
	var buf bytes.Buffer
	in := strings.Join(src, "\n") + "\n"
	hc := headerCase{Kind: "header", Src: src, OracleOK: true}
	if err := internal.VerifWriteInvertedCffTag(&buf, []byte(in)); err != nil {
		hc.OracleOK, hc.OracleMsg = false, "error: "+err.Error()
		return hc
	}
	outText := buf.String()
	out := strings.Split(strings.TrimSuffix(outText, "\n"), "\n")
	hc.Out = out
	sgb, spb, sothers := classify(src)
	ogb, opb, oothers := classify(out)
	hc.SrcGB, hc.OutGB, hc.SrcPB, hc.OutPB = polishAll(sgb), polishAll(ogb), polishAll(spb), polishAll(opb)
	hc.OthersSrc, hc.OthersOut = sothers, oothers
	if hc.OthersSrc == nil {
		hc.OthersSrc = []string{}
	}
	if hc.OthersOut == nil {
		hc.OthersOut = []string{}
	}
	// direct oracle: truth tables with the cff tag flipped
	fail := func(m string) { hc.OracleOK = false; hc.OracleMsg = m }
	if len(sgb) != len(ogb) {
		fail("number of //go:build lines changed")
		return hc
	}
	for mask := 0; mask < 1<<uint(len(tagNames)); mask++ {
		for i := range sgb {
			if evalWith(ogb[i], mask, false) != evalWith(sgb[i], mask, true) {
				fail(fmt.Sprintf("go:build line %d differs at tag mask %d", i, mask))
				return hc
			}
		}
		sel := func(es []constraint.Expr, flip bool) bool {
			for _, e := range es {
				if !evalWith(e, mask, flip) {
					return false
				}
			}
			return true
		}
		if sel(opb, false) != sel(spb, true) {
			fail(fmt.Sprintf("+build conjunction differs at tag mask %d", mask))
			return hc
		}
	}
	if strings.Join(sothers, "\n") != strings.Join(oothers, "\n") {
		fail("non-constraint lines changed")
	}
	return hc
}

func main() {
	seed := flag.Uint64("seed", 1, "seed")
	nrand := flag.Int("nrand", 500, "random deep expressions")
	nhdr := flag.Int("nheaders", 300, "random headers")
	depth := flag.Int("depth", 2, "exhaustive depth over {cff,a,b}")
	flag.Parse()
	r := rng.New(*seed)
	enc := json.NewEncoder(os.Stdout)

	var exprs []constraint.Expr
	exprs = append(exprs, enum(*depth, 3)...)
	for i := 0; i < *nrand; i++ {
		exprs = append(exprs, randExpr(r, 3+r.Intn(5)))
	}
	for _, e := range exprs {
		c := clone(e)
		has := internal.VerifHasCffTag(c)
		internal.VerifInvertCffConstraint(&c)
		enc.Encode(astCase{Kind: "ast", In: polish(e), Out: polish(c), Has: has})
	}

	fillers := []string{"// Copyright 2023 somebody", "", "// Package foo does things.", "//go:generate echo hi",
		"//go:build", "// +build", "//go:build cff &&", "//  +build cff", "/* block */"}
	for i := 0; i < *nhdr; i++ {
		var lines []string
		n := 1 + r.Intn(6)
		hasGB := false
		for j := 0; j < n; j++ {
			switch k := r.Intn(10); {
			case k < 3 && !hasGB:
				hasGB = true
				lines = append(lines, "//go:build "+gobuildText(randExpr(r, 1+r.Intn(4))))
			case k < 7:
				lines = append(lines, randPlusLine(r))
			default:
				lines = append(lines, fillers[r.Intn(len(fillers))])
			}
		}
		enc.Encode(headerCaseOf(lines))
	}
	// every exhaustive expression also goes through the text pipeline as a //go:build line
	for _, e := range enum(*depth, 3) {
		enc.Encode(headerCaseOf([]string{"//go:build " + gobuildText(e)}))
	}
}
