// gonorm prints, for each Go file given, its token stream without comments (hence
// without line directives), one token per line, files separated by "== <path>" lines.
// Two files with equal streams are the same code up to comments and layout.
package main

import (
	"bufio"
	"fmt"
	"go/scanner"
	"go/token"
	"os"
)

func main() {
	out := bufio.NewWriter(os.Stdout)
	defer out.Flush()
	for _, path := range os.Args[1:] {
		src, err := os.ReadFile(path)
		if err != nil {
			fmt.Fprintf(out, "== %s\nERROR %v\n", path, err)
			continue
		}
		fmt.Fprintf(out, "== %s\n", path)
		fset := token.NewFileSet()
		f := fset.AddFile(path, fset.Base(), len(src))
		var s scanner.Scanner
		nerr := 0
		s.Init(f, src, func(token.Position, string) { nerr++ }, 0) // comments skipped
		for {
			_, tok, lit := s.Scan()
			if tok == token.EOF {
				break
			}
			if tok == token.SEMICOLON {
				lit = ";"
			}
			fmt.Fprintf(out, "%s %q\n", tok, lit)
		}
		if nerr > 0 {
			fmt.Fprintf(out, "ERROR %d scan errors\n", nerr)
		}
	}
}
