// schedrun drives the real scheduler (built from /repo with -tags verif) on
// generated configurations and records, per execution, the configuration and
// the hook events. One JSON object per execution on stdout. The check driver
// linearises each record and replays it through the Coq model.
package main

import (
	"bufio"
	"context"
	"encoding/json"
	"errors"
	"flag"
	"fmt"
	"os"
	"runtime"
	"strings"
	"sync"
	"sync/atomic"
	"time"

	"go.uber.org/cff/scheduler"
	"go.uber.org/cff/verifh/internal/rng"
	"go.uber.org/multierr"
)

// ---------------------------------------------------------------- contexts

// hctx is a context fully under the harness's control whose Err identifies it. Like
// hand-written contexts in the wild (merged or shutdown-aware contexts) it has its own Done and
// Err but inherits its values from a standard, cancellable parent that stays alive: whether it
// is done can only be learnt from Done/Err, not from the standard library's cancel contexts
// reachable through Value.
type hctx struct {
	parent       context.Context
	parentCancel context.CancelFunc
	id           int
	dl           bool // ends like an expired deadline (errors.Is DeadlineExceeded) instead of a cancel
	mu           sync.Mutex
	done         chan struct{}
	err          atomic.Value // *ctxErr
}

type ctxErr struct {
	id int
	dl bool
}

func (e *ctxErr) Error() string { return fmt.Sprintf("context %d done", e.id) }
func (e *ctxErr) Unwrap() error {
	if e.dl {
		return context.DeadlineExceeded
	}
	return context.Canceled
}

func newCtx(id int, dl bool) *hctx {
	p, cancel := context.WithCancel(context.Background())
	return &hctx{parent: p, parentCancel: cancel, id: id, dl: dl, done: make(chan struct{})}
}

func (c *hctx) Deadline() (time.Time, bool)       { return time.Time{}, false }
func (c *hctx) Done() <-chan struct{}             { return c.done }
func (c *hctx) Value(key interface{}) interface{} { return c.parent.Value(key) }
func (c *hctx) Err() error {
	if e, ok := c.err.Load().(*ctxErr); ok {
		return e
	}
	return nil
}
func (c *hctx) cancel() bool {
	c.mu.Lock()
	defer c.mu.Unlock()
	if c.err.Load() != nil {
		return false
	}
	c.err.Store(&ctxErr{c.id, c.dl})
	close(c.done)
	return true
}

// ---------------------------------------------------------------- configuration

type jobPlan struct {
	Deps    []int  `json:"deps"`
	Ctx     int    `json:"ctx"`
	Outcome string `json:"outcome"` // ok | err | exit
	Cancel  int    `json:"cancel"`  // context to cancel inside the body, -1 none
	SleepUs int    `json:"sleep_us"`
	Yields  int    `json:"yields"`
	// caller pacing before Enqueue of this job
	WaitDone int `json:"wait_done"` // wait until the loop has processed the result of this job, -1 none
	PaceUs   int `json:"pace_us"`
	// the body blocks until the caller's Enqueue of this job index has returned, -1 none
	HoldUntil int `json:"hold_until"`
}

type config struct {
	Case       int       `json:"case"`
	N          int       `json:"n"`    // Config.Concurrency as passed (0 = default)
	NEff       int       `json:"neff"` // effective
	CoE        bool      `json:"coe"`
	Emitter    bool      `json:"emitter"`
	FlushNs    int       `json:"flush_ns"`
	Procs      int       `json:"gomaxprocs"`
	Jobs       []jobPlan `json:"jobs"`
	PreCancel  []int     `json:"pre_cancel"`
	ExtCancel  int       `json:"ext_cancel"` // context cancelled from another goroutine, -1 none
	ExtAfterUs int       `json:"ext_after_us"`
	Perturb    [3]int    `json:"perturb"` // per-mille: loop iter, worker pre-post, other
	Shape      string    `json:"shape"`
	// which contexts end with a deadline-style error rather than a cancel-style one
	CtxDeadline [3]bool `json:"ctx_deadline"`
	// job that cancels the Wait context and then blocks until Wait has returned, -1 none
	Straggler int `json:"straggler"`
}

func genConfig(r *rng.R, idx, maxJobs int) config {
	c := config{Case: idx, ExtCancel: -1, Straggler: -1}
	for i := range c.CtxDeadline {
		c.CtxDeadline[i] = r.Chance(1, 3)
	}
	switch r.Intn(10) {
	case 0:
		c.N = 1
	case 1, 2, 3:
		c.N = 2
	case 4, 5:
		c.N = 3
	case 6:
		c.N = 4
	case 7:
		c.N = 8
	case 8:
		c.N = 0
	default:
		c.N = 1 + r.Intn(16)
	}
	c.CoE = r.Chance(1, 2)
	c.Emitter = r.Chance(1, 2)
	c.FlushNs = []int{1, 1000, 5000, 20000}[r.Intn(4)]
	c.Procs = []int{1, 2, 4, 16}[r.Intn(4)]
	c.Perturb = [3]int{[]int{0, 50, 300, 700}[r.Intn(4)], []int{0, 50, 300}[r.Intn(3)], []int{0, 20, 100}[r.Intn(3)]}

	n := 0
	switch r.Intn(12) {
	case 0:
		n = 0
	case 1:
		n = 1
	default:
		n = 1 + r.Intn(maxJobs)
	}
	shape := r.Intn(6)
	c.Shape = []string{"random", "chain", "independent", "fanin", "layers", "dupdeps"}[shape]
	for k := 0; k < n; k++ {
		jp := jobPlan{Ctx: 0, Outcome: "ok", Cancel: -1, WaitDone: -1, HoldUntil: -1}
		switch shape {
		case 0: // random DAG
			if k > 0 && r.Chance(3, 4) {
				for d, m := 0, 1+r.Intn(3); d < m; d++ {
					jp.Deps = append(jp.Deps, r.Intn(k))
				}
			}
		case 1: // chain with occasional extra edge
			if k > 0 {
				jp.Deps = append(jp.Deps, k-1)
				if k > 2 && r.Chance(1, 4) {
					jp.Deps = append(jp.Deps, r.Intn(k-1))
				}
			}
		case 2: // independent
		case 3: // fan-in: sinks depending on many
			if k > 2 && r.Chance(1, 3) {
				for d, m := 0, 2+r.Intn(7); d < m; d++ {
					jp.Deps = append(jp.Deps, r.Intn(k))
				}
			}
		case 4: // layers of width 3
			if k >= 3 {
				base := (k/3 - 1) * 3
				for d := 0; d < 3; d++ {
					if r.Chance(2, 3) {
						jp.Deps = append(jp.Deps, base+d)
					}
				}
			}
		case 5: // duplicate deps
			if k > 0 {
				d := r.Intn(k)
				jp.Deps = append(jp.Deps, d, d)
				if r.Chance(1, 2) {
					jp.Deps = append(jp.Deps, r.Intn(k), d)
				}
			}
		}
		if jp.Deps == nil {
			jp.Deps = []int{}
		}
		if r.Chance(1, 6) {
			jp.Ctx = 1 + r.Intn(2)
		}
		c.Jobs = append(c.Jobs, jp)
	}
	if c.Jobs == nil {
		c.Jobs = []jobPlan{}
	}
	// faults: none / one / several
	nf := 0
	switch r.Intn(5) {
	case 0, 1:
		nf = 0
	case 2, 3:
		nf = 1
	default:
		nf = 1 + r.Intn(4)
	}
	for f := 0; f < nf && n > 0; f++ {
		k := r.Intn(n)
		switch r.Intn(6) {
		case 0, 1, 2:
			c.Jobs[k].Outcome = "err"
		case 3:
			c.Jobs[k].Outcome = "exit"
		case 4:
			c.Jobs[k].Cancel = c.Jobs[k].Ctx
		default:
			c.Jobs[k].Cancel = r.Intn(3)
			if r.Chance(1, 2) {
				c.Jobs[k].Outcome = "err"
			}
		}
	}
	for k := range c.Jobs {
		if r.Chance(1, 3) {
			c.Jobs[k].SleepUs = 1 + r.Intn(200)
		}
		if r.Chance(1, 3) {
			c.Jobs[k].Yields = 1 + r.Intn(3)
		}
		if k > 0 && r.Chance(1, 5) {
			// enqueue this job only after an earlier job's result was processed
			if len(c.Jobs[k].Deps) > 0 && r.Chance(2, 3) {
				c.Jobs[k].WaitDone = c.Jobs[k].Deps[r.Intn(len(c.Jobs[k].Deps))]
			} else {
				c.Jobs[k].WaitDone = r.Intn(k)
			}
		}
		if r.Chance(1, 6) {
			c.Jobs[k].PaceUs = 1 + r.Intn(100)
		}
	}
	switch r.Intn(10) {
	case 0:
		c.PreCancel = []int{r.Intn(3)}
	case 1:
		c.ExtCancel = r.Intn(3)
		c.ExtAfterUs = r.Intn(300)
	}
	if c.PreCancel == nil {
		c.PreCancel = []int{}
	}
	if n > 0 && r.Chance(1, 12) {
		// a job that cancels the Wait context and keeps running until Wait returned
		k := r.Intn(n)
		c.Straggler = k
		c.Jobs[k].Cancel = 0
		c.Jobs[k].Outcome = "ok"
	}
	return c
}

// backlogConfig is a scripted execution: both workers run a job that ends only after the
// caller has submitted total jobs, so more than a thousand ready jobs pile up in the loop
// while the caller keeps calling Enqueue.
func backlogConfig(idx, total int) config {
	c := config{Case: idx, N: 2, ExtCancel: -1, Straggler: -1, Procs: 4, Shape: "backlog", PreCancel: []int{}, FlushNs: 1000}
	for k := 0; k < total; k++ {
		jp := jobPlan{Ctx: 0, Outcome: "ok", Cancel: -1, WaitDone: -1, HoldUntil: -1, Deps: []int{}}
		if k < 2 {
			jp.HoldUntil = total - 1
		}
		c.Jobs = append(c.Jobs, jp)
	}
	return c
}

// ---------------------------------------------------------------- recording

type event struct {
	Seq    int    `json:"seq"`
	Kind   string `json:"k"`
	Worker int    `json:"w"`           // worker goroutine number (order of first appearance), -1
	Job    int    `json:"j"`           // job index, -1
	Err    string `json:"e,omitempty"` // encoded error
	State  []int  `json:"st,omitempty"`
	G      string `json:"g,omitempty"` // c caller, l loop, w worker, x harness
}

var kindNames = map[int]string{
	scheduler.VerifWStart: "WStart", scheduler.VerifWGot: "WGot", scheduler.VerifWSkip: "WSkip",
	scheduler.VerifWRun: "WRun", scheduler.VerifWEnd: "WEnd", scheduler.VerifWPrePost: "WPrePost",
	scheduler.VerifWPosted: "WPosted", scheduler.VerifWDie: "WDie", scheduler.VerifWExit: "WExit",
	scheduler.VerifCEnqSend: "CEnqSend", scheduler.VerifCEnqSent: "CEnqSent",
	scheduler.VerifCWaitCalled: "CWaitCalled", scheduler.VerifCWaitRetCtx: "CWaitRetCtx",
	scheduler.VerifCWaitRetFin: "CWaitRetFin", scheduler.VerifLIter: "LIter",
	scheduler.VerifLDispatched: "LDispatched", scheduler.VerifLEnqRecv: "LEnqRecv",
	scheduler.VerifLEnqClosed: "LEnqClosed", scheduler.VerifLDoneRecv: "LDoneRecv",
	scheduler.VerifLTick: "LTick", scheduler.VerifLReturn: "LReturn", scheduler.VerifLDrained: "LDrained",
	scheduler.VerifLFinished: "LFinished", scheduler.VerifNewSched: "New",
}

type jobErr struct{ k int }

func (e *jobErr) Error() string { return fmt.Sprintf("job %d failed", e.k) }

func encErr(err error) string {
	if err == nil {
		return ""
	}
	if err == scheduler.VerifErrJobInvalid {
		return "I"
	}
	var je *jobErr
	if errors.As(err, &je) {
		return fmt.Sprintf("U%d", je.k)
	}
	var ce *ctxErr
	if errors.As(err, &ce) {
		return fmt.Sprintf("C%d", ce.id)
	}
	if err.Error() == "job exited unexpectedly" {
		return "X"
	}
	return "?" + err.Error()
}

type recorder struct {
	mu       sync.Mutex
	events   []event
	jobIdx   map[*scheduler.ScheduledJob]int
	nextJob  int
	workers  map[uintptr]int
	perturb  [3]int
	pseed    uint64
	pctr     uint64
	doneSeen map[int]bool
	loopLeft bool
	cond     *sync.Cond
	// body-level observations
	bodySeq   int64
	bodyStart [][]int64
	bodyEnd   [][]int64
	inflight  int32
	maxFlight int32
	lastTick  []int
	dupTicks  int
	sched     uintptr
}

func (r *recorder) add(ev event) int {
	ev.Seq = len(r.events)
	r.events = append(r.events, ev)
	return ev.Seq
}

func (r *recorder) hook(ev scheduler.VerifEvent) {
	// events of another scheduler (a straggler of an earlier execution) are not ours
	// (the first event of an execution fixes its scheduler: workers may report before New does)
	atomic.CompareAndSwapUintptr(&r.sched, 0, ev.Sched)
	if atomic.LoadUintptr(&r.sched) != ev.Sched {
		return
	}
	if ev.Kind == scheduler.VerifLIter {
		r.perturbAt(ev.Kind)
		return
	}
	r.mu.Lock()
	if ev.Kind == scheduler.VerifLTick && r.lastTick != nil {
		// consecutive reports with no loop event in between describe the same
		// state: keep the first, count the rest
		s := ev.State
		lt := r.lastTick
		if lt[0] == s.Pending && lt[1] == s.Ready && lt[2] == s.Waiting && lt[3] == s.IdleWorkers && lt[4] == s.Concurrency {
			r.dupTicks++
			r.mu.Unlock()
			r.perturbAt(ev.Kind)
			return
		}
	}
	if k := kindNames[ev.Kind]; len(k) > 0 && k[0] == 'L' {
		r.lastTick = nil
	}
	e := event{Kind: kindNames[ev.Kind], Worker: -1, Job: -1, Err: encErr(ev.Err)}
	if ev.Job != nil {
		idx, ok := r.jobIdx[ev.Job]
		if !ok {
			// first sight of a job is always the caller's EnqSend
			idx = r.nextJob
			r.nextJob++
			r.jobIdx[ev.Job] = idx
		}
		e.Job = idx
	}
	if ev.Worker != 0 {
		w, ok := r.workers[ev.Worker]
		if !ok {
			w = len(r.workers)
			r.workers[ev.Worker] = w
		}
		e.Worker = w
	}
	if ev.Kind == scheduler.VerifLTick {
		s := ev.State
		e.State = []int{s.Pending, s.Ready, s.Waiting, s.IdleWorkers, s.Concurrency, ev.Ongoing}
		r.lastTick = e.State
	}
	if ev.Kind == scheduler.VerifNewSched {
		e.State = []int{ev.Concurrency}
	}
	r.add(e)
	if ev.Kind == scheduler.VerifLDoneRecv {
		r.doneSeen[e.Job] = true
		r.cond.Broadcast()
	}
	if ev.Kind == scheduler.VerifLReturn {
		r.loopLeft = true
		r.cond.Broadcast()
	}
	r.mu.Unlock()
	r.perturbAt(ev.Kind)
}

// perturbAt yields or sleeps, decided by the per-run seed and a global counter.
func (r *recorder) perturbAt(kind int) {
	p := r.perturb[2]
	switch kind {
	case scheduler.VerifLIter:
		p = r.perturb[0]
	case scheduler.VerifWPrePost, scheduler.VerifWPosted:
		p = r.perturb[1]
	}
	if p > 0 {
		x := rng.New(r.pseed ^ atomic.AddUint64(&r.pctr, 1)).U64()
		if int(x%1000) < p {
			if (x>>20)&1 == 0 {
				runtime.Gosched()
			} else {
				time.Sleep(time.Duration(1+(x>>24)%40) * time.Microsecond)
			}
		}
	}
}

type emitRec struct{ rec *recorder }

func (e emitRec) Emit(s scheduler.State) {}

type result struct {
	Cfg        config    `json:"cfg"`
	Events     []event   `json:"events"`
	WaitErr    []string  `json:"wait_err"`
	Hang       string    `json:"hang,omitempty"` // goroutine dump if the execution did not quiesce
	MaxFlight  int       `json:"max_inflight"`
	BodyStart  [][]int64 `json:"body_start"`
	BodyEnd    [][]int64 `json:"body_end"`
	LeakedG    int       `json:"leaked_goroutines"`
	DupTicks   int       `json:"dup_ticks"`
	CallerHung bool      `json:"caller_hung"`
	HangStable bool      `json:"hang_stable"`
	// a job whose Dependencies slice (owned by the caller) no longer holds what the caller put there, -1 none
	DepsMutated int `json:"deps_mutated"`
}

func schedGoroutines() (int, string) {
	buf := make([]byte, 4<<20)
	n := runtime.Stack(buf, true)
	s := string(buf[:n])
	cnt := 0
	for _, g := range strings.Split(s, "\n\n") {
		if strings.Contains(g, "cff/scheduler.worker") || strings.Contains(g, "cff/scheduler.(*Scheduler).run") {
			cnt++
		}
	}
	return cnt, s
}

var hangAfter = flag.Duration("hang-after", 4*time.Second, "declare a hang when the caller has not returned after this long")
var quiesceFor = flag.Duration("quiesce", 3*time.Second, "how long to wait for the loop and the workers to end after the caller returned")

// stableDump reduces a goroutine dump to the multiset of scheduler frames, so
// that two dumps can be compared for "nothing moved".
func stableDump(d string) string {
	var keep []string
	for _, g := range strings.Split(d, "\n\n") {
		if strings.Contains(g, "cff/scheduler.") {
			lines := strings.Split(g, "\n")
			if len(lines) > 1 {
				keep = append(keep, lines[0]+"|"+lines[1])
			}
		}
	}
	return strings.Join(keep, ";")
}

func runCase(c config, seed uint64) result {
	runtime.GOMAXPROCS(c.Procs)
	rec := &recorder{jobIdx: map[*scheduler.ScheduledJob]int{}, workers: map[uintptr]int{},
		perturb: c.Perturb, pseed: seed, doneSeen: map[int]bool{}}
	rec.cond = sync.NewCond(&rec.mu)
	n := len(c.Jobs)
	rec.bodyStart = make([][]int64, n)
	rec.bodyEnd = make([][]int64, n)
	curRec.Store(rec)

	ctxs := []*hctx{newCtx(0, c.CtxDeadline[0]), newCtx(1, c.CtxDeadline[1]), newCtx(2, c.CtxDeadline[2])}
	doCancel := func(id int, who string, job int) {
		rec.mu.Lock()
		rec.add(event{Kind: "CancelBegin", Worker: -1, Job: job, Err: fmt.Sprintf("C%d", id), G: who})
		rec.mu.Unlock()
		ctxs[id].cancel()
		rec.mu.Lock()
		rec.add(event{Kind: "CancelEnd", Worker: -1, Job: job, Err: fmt.Sprintf("C%d", id), G: who})
		rec.mu.Unlock()
	}
	for _, id := range c.PreCancel {
		doCancel(id, "pre", -1)
	}

	cfg := scheduler.Config{Concurrency: c.N, ContinueOnError: c.CoE}
	if c.Emitter {
		cfg.Emitter = emitRec{rec}
		cfg.StateFlushFrequency = time.Duration(c.FlushNs)
	}
	s := cfg.New()

	if c.ExtCancel >= 0 {
		go func() {
			time.Sleep(time.Duration(c.ExtAfterUs) * time.Microsecond)
			doCancel(c.ExtCancel, "ext", -1)
		}()
	}

	release := make(chan struct{})
	depsMutated := int32(-1)
	var keptDeps [][]*scheduler.ScheduledJob
	reached := make([]chan struct{}, n)
	for k := range reached {
		reached[k] = make(chan struct{})
	}
	// the caller runs under a watchdog: a scheduler that deadlocks must not hang the harness
	var err error
	callerDone := make(chan struct{})
	go func() {
		defer close(callerDone)
		sjs := make([]*scheduler.ScheduledJob, n)
		for k := 0; k < n; k++ {
			k := k
			jp := c.Jobs[k]
			if jp.WaitDone >= 0 {
				// pace: wait until the loop processed that job's result (or left), bounded
				deadline := time.Now().Add(30 * time.Millisecond)
				rec.mu.Lock()
				for !rec.doneSeen[jp.WaitDone] && !rec.loopLeft && time.Now().Before(deadline) {
					rec.mu.Unlock()
					time.Sleep(20 * time.Microsecond)
					rec.mu.Lock()
				}
				rec.mu.Unlock()
			}
			if jp.PaceUs > 0 {
				time.Sleep(time.Duration(jp.PaceUs) * time.Microsecond)
			}
			var deps []*scheduler.ScheduledJob
			for _, d := range jp.Deps {
				deps = append(deps, sjs[d])
			}
			sjs[k] = s.Enqueue(ctxs[jp.Ctx], scheduler.Job{
				Dependencies: deps,
				Run: func(ctx context.Context) error {
					fl := atomic.AddInt32(&rec.inflight, 1)
					for {
						m := atomic.LoadInt32(&rec.maxFlight)
						if fl <= m || atomic.CompareAndSwapInt32(&rec.maxFlight, m, fl) {
							break
						}
					}
					st := atomic.AddInt64(&rec.bodySeq, 1)
					rec.mu.Lock()
					rec.bodyStart[k] = append(rec.bodyStart[k], st)
					rec.mu.Unlock()
					finish := func() {
						en := atomic.AddInt64(&rec.bodySeq, 1)
						rec.mu.Lock()
						rec.bodyEnd[k] = append(rec.bodyEnd[k], en)
						rec.mu.Unlock()
						atomic.AddInt32(&rec.inflight, -1)
					}
					for y := 0; y < jp.Yields; y++ {
						runtime.Gosched()
					}
					if jp.SleepUs > 0 {
						time.Sleep(time.Duration(jp.SleepUs) * time.Microsecond)
					}
					if jp.Cancel >= 0 {
						doCancel(jp.Cancel, "job", k)
					}
					if c.Straggler == k {
						<-release
					}
					if jp.HoldUntil >= 0 && jp.HoldUntil < n {
						select {
						case <-reached[jp.HoldUntil]:
						case <-release:
						}
					}
					switch jp.Outcome {
					case "err":
						finish()
						return &jobErr{k}
					case "exit":
						finish()
						runtime.Goexit()
					}
					finish()
					return nil
				},
			})
			close(reached[k])
			// the Dependencies slice stays the caller's: it reads it again right after Enqueue (under the
			// race detector a write by the scheduler shows up here) and once more after Wait
			for i, d := range jp.Deps {
				if deps[i] != sjs[d] {
					atomic.CompareAndSwapInt32(&depsMutated, -1, int32(k))
				}
			}
			keptDeps = append(keptDeps, deps)
		}
		err = s.Wait(ctxs[0])
		for k, deps := range keptDeps {
			for i, d := range c.Jobs[k].Deps {
				if deps[i] != sjs[d] {
					atomic.CompareAndSwapInt32(&depsMutated, -1, int32(k))
				}
			}
		}
	}()
	hung := false
	var pacing time.Duration // the caller's scripted pauses do not count as being stuck
	for _, jp := range c.Jobs {
		if jp.PaceUs >= 100000 {
			pacing += time.Duration(jp.PaceUs) * time.Microsecond
		}
	}
	select {
	case <-callerDone:
	case <-time.After(*hangAfter + pacing):
		hung = true
	}
	close(release) // the straggler may finish now

	res := result{Cfg: c, DepsMutated: int(atomic.LoadInt32(&depsMutated))}
	if hung {
		// stable all-blocked dump: taken twice, a while apart
		_, d1 := schedGoroutines()
		time.Sleep(200 * time.Millisecond)
		g, d2 := schedGoroutines()
		res.LeakedG = g
		res.Hang = "caller did not return (Enqueue/Wait blocked)\n" + d2
		res.HangStable = stableDump(d1) == stableDump(d2)
		res.CallerHung = true
		curRec.Store(nil)
		rec.mu.Lock()
		res.Events = append([]event{}, rec.events...)
		res.BodyStart, res.BodyEnd = rec.bodyStart, rec.bodyEnd
		rec.mu.Unlock()
		res.WaitErr = []string{}
		for _, e := range res.Events {
			if e.Kind == "New" {
				res.Cfg.NEff = e.State[0]
			}
		}
		return res
	}
	for _, e := range multierr.Errors(err) {
		res.WaitErr = append(res.WaitErr, encErr(e))
	}
	if res.WaitErr == nil {
		res.WaitErr = []string{}
	}
	// quiescence: loop finished and every worker goroutine ended
	deadline := time.Now().Add(*quiesceFor)
	for {
		rec.mu.Lock()
		starts, ends, fin := 0, 0, false
		for _, e := range rec.events {
			switch e.Kind {
			case "WStart":
				starts++
			case "WExit", "WDie":
				ends++
			case "LFinished":
				fin = true
			}
		}
		neff := 0
		for _, e := range rec.events {
			if e.Kind == "New" {
				neff = e.State[0]
			}
		}
		rec.mu.Unlock()
		// every worker of the pool started (N) and each start is matched by an exit or a death
		if fin && starts >= neff && starts == ends {
			g, _ := schedGoroutines()
			if g == 0 {
				break
			}
		}
		if time.Now().After(deadline) {
			_, d1 := schedGoroutines()
			time.Sleep(200 * time.Millisecond)
			g, dump := schedGoroutines()
			if g == 0 {
				break // they were only slow
			}
			res.LeakedG = g
			res.Hang = dump
			res.HangStable = stableDump(d1) == stableDump(dump)
			break
		}
		time.Sleep(50 * time.Microsecond)
	}
	curRec.Store(nil)
	rec.mu.Lock()
	res.Events = rec.events
	res.BodyStart, res.BodyEnd = rec.bodyStart, rec.bodyEnd
	res.DupTicks = rec.dupTicks
	rec.mu.Unlock()
	res.MaxFlight = int(atomic.LoadInt32(&rec.maxFlight))
	for _, e := range res.Events {
		if e.Kind == "New" {
			res.Cfg.NEff = e.State[0]
		}
	}
	return res
}

// runConc exercises concurrent use of Enqueue: independent jobs are enqueued from
// several goroutines at once (no hooks: the race detector is the observer here).
type concResult struct {
	Kind    string   `json:"kind"`
	Jobs    int      `json:"jobs"`
	Callers int      `json:"callers"`
	N       int      `json:"n"`
	CoE     bool     `json:"coe"`
	RanOnce bool     `json:"ran_once"`
	WaitErr []string `json:"wait_err"`
}

func runConc(r *rng.R) concResult {
	n := 1 + r.Intn(64)
	g := 2 + r.Intn(6)
	conc := 1 + r.Intn(8)
	coe := r.Bool()
	s := scheduler.Config{Concurrency: conc, ContinueOnError: coe}.New()
	counts := make([]int32, n)
	ctx := context.Background()
	var wg sync.WaitGroup
	for c := 0; c < g; c++ {
		c := c
		wg.Add(1)
		go func() {
			defer wg.Done()
			for k := c; k < n; k += g {
				k := k
				s.Enqueue(ctx, scheduler.Job{Run: func(context.Context) error {
					atomic.AddInt32(&counts[k], 1)
					return nil
				}})
			}
		}()
	}
	wg.Wait()
	err := s.Wait(ctx)
	res := concResult{Kind: "conc", Jobs: n, Callers: g, N: conc, CoE: coe, RanOnce: true, WaitErr: []string{}}
	for _, e := range multierr.Errors(err) {
		res.WaitErr = append(res.WaitErr, encErr(e))
	}
	for k := range counts {
		if atomic.LoadInt32(&counts[k]) != 1 {
			res.RanOnce = false
		}
	}
	return res
}

// faninResult is the outcome of the scripted wide fan-in: one job depending on n others, all of
// them unfinished when it is submitted (they are held until its Enqueue has returned).
type faninResult struct {
	Kind        string   `json:"kind"`
	Deps        int      `json:"deps"`
	JRuns       int32    `json:"j_runs"`
	DoneAtStart int32    `json:"deps_done_at_first_start"`
	Returned    bool     `json:"wait_returned"`
	WaitErr     []string `json:"wait_err"`
}

func runFanin(n int) faninResult {
	curRec.Store(nil)
	res := faninResult{Kind: "fanin", Deps: n, DoneAtStart: -1, WaitErr: []string{}}
	s := scheduler.Config{Concurrency: 4}.New()
	ctx := context.Background()
	// group B (most of the dependencies) waits for a gate job that ends only when the fan-in job has
	// started or a grace period has passed; group A runs freely. A fan-in job that starts while the
	// gate is still held has not waited for all of its dependencies.
	na := n / 2
	if n > 65536 {
		na = n%65536 + 100
	}
	gate := make(chan struct{})
	gateA := make(chan struct{})
	started := make(chan struct{})
	var done, jruns, atStart int32
	atStart = -1
	deps := make([]*scheduler.ScheduledJob, 0, n)
	finished := make(chan error, 1)
	go func() {
		// every dependency is unfinished when the fan-in job is submitted: group A is held by a gate job
		// of its own that is released right after that Enqueue
		ga := s.Enqueue(ctx, scheduler.Job{Run: func(context.Context) error { <-gateA; return nil }})
		g := s.Enqueue(ctx, scheduler.Job{Run: func(context.Context) error { <-gate; return nil }})
		work := func(context.Context) error { atomic.AddInt32(&done, 1); return nil }
		for k := 0; k < n; k++ {
			j := scheduler.Job{Run: work, Dependencies: []*scheduler.ScheduledJob{ga}}
			if k >= na {
				j.Dependencies = []*scheduler.ScheduledJob{g}
			}
			deps = append(deps, s.Enqueue(ctx, j))
		}
		s.Enqueue(ctx, scheduler.Job{Dependencies: deps, Run: func(context.Context) error {
			if atomic.AddInt32(&jruns, 1) == 1 {
				atomic.StoreInt32(&atStart, atomic.LoadInt32(&done))
				close(started)
			}
			return nil
		}})
		time.Sleep(20 * time.Millisecond) // let the loop take the fan-in job in
		close(gateA)
		select {
		case <-started:
		case <-time.After(400 * time.Millisecond):
		}
		close(gate)
		finished <- s.Wait(ctx)
	}()
	select {
	case err := <-finished:
		res.Returned = true
		for _, e := range multierr.Errors(err) {
			res.WaitErr = append(res.WaitErr, encErr(e))
		}
	case <-time.After(30 * time.Second):
	}
	time.Sleep(20 * time.Millisecond) // a second run of the fan-in job, if any, shows up now
	res.JRuns = atomic.LoadInt32(&jruns)
	res.DoneAtStart = atomic.LoadInt32(&atStart)
	return res
}

// manyFailConfig is a scripted execution: ContinueOnError and n independent jobs that all fail,
// each with an error value of its own.
func manyFailConfig(idx, n int) config {
	c := config{Case: idx, N: 4, CoE: true, ExtCancel: -1, Straggler: -1, Procs: 4, Shape: "many-failures", PreCancel: []int{}, FlushNs: 1000}
	for k := 0; k < n; k++ {
		c.Jobs = append(c.Jobs, jobPlan{Ctx: 0, Outcome: "err", Cancel: -1, WaitDone: -1, HoldUntil: -1, Deps: []int{}})
	}
	return c
}

// lateEnqueueConfig is a scripted execution: the first job fails (fail-fast), the caller learns
// that the loop has processed the failure, stays quiet for pauseMs and only then submits the
// remaining jobs and calls Wait.
func lateEnqueueConfig(idx, pauseMs int) config {
	c := config{Case: idx, N: 2, ExtCancel: -1, Straggler: -1, Procs: 4, Shape: "late-enqueue", PreCancel: []int{}, FlushNs: 1000}
	for k := 0; k < 4; k++ {
		jp := jobPlan{Ctx: 0, Outcome: "ok", Cancel: -1, WaitDone: -1, HoldUntil: -1, Deps: []int{}}
		if k == 0 {
			jp.Outcome = "err"
		}
		if k == 1 {
			jp.WaitDone = 0
			jp.PaceUs = pauseMs * 1000
		}
		c.Jobs = append(c.Jobs, jp)
	}
	return c
}

// curRec is the recorder of the execution in progress. The scheduler's hook variable is
// written once, before any scheduler exists; which recorder receives the events is an
// atomic pointer, so that goroutines of an earlier execution never race with the harness.
var curRec atomic.Pointer[recorder]

func dispatchHook(ev scheduler.VerifEvent) {
	if r := curRec.Load(); r != nil {
		r.hook(ev)
	}
}

func main() {
	scheduler.VerifHook = dispatchHook
	seed := flag.Uint64("seed", 1, "seed")
	nconc := flag.Int("conc", 0, "additional executions with concurrent Enqueue (no hooks)")
	count := flag.Int("count", 100, "executions")
	maxJobs := flag.Int("maxjobs", 24, "max jobs per execution")
	only := flag.Int("only", -1, "run only this case index")
	from := flag.Int("from", 0, "skip the cases before this index (continue a run that stopped after a stuck execution)")
	backlog := flag.Int("backlog", 0, "after the random cases, one scripted execution with this many jobs submitted while both workers are busy")
	fanin := flag.Int("fanin", 0, "a scripted execution (no hooks): one job depending on this many unfinished jobs")
	manyFail := flag.Int("manyfail", 0, "a scripted execution: ContinueOnError and this many jobs that all fail")
	lateEnq := flag.Int("lateenq", 0, "a scripted execution: the caller goes on submitting this many milliseconds after a fail-fast failure")
	flag.Parse()
	w := bufio.NewWriterSize(os.Stdout, 1<<20)
	defer w.Flush()
	enc := json.NewEncoder(w)
	master := rng.New(*seed)
	for i := 0; i < *nconc; i++ {
		enc.Encode(runConc(master.Fork()))
	}
	for i := 0; i < *count; i++ {
		cs := master.U64()
		if (*only >= 0 && i != *only) || i < *from {
			continue
		}
		r := rng.New(cs)
		c := genConfig(r, i, *maxJobs)
		res := runCase(c, cs)
		enc.Encode(res)
		if res.Hang != "" {
			// goroutines of the stuck scheduler would pollute later executions
			w.Flush()
			fmt.Fprintf(os.Stderr, "stopping after case %d: execution did not quiesce\n", i)
			return
		}
	}
	if *backlog > 0 && (*only < 0 || *only == *count) && *from <= *count {
		res := runCase(backlogConfig(*count, *backlog), 0)
		enc.Encode(res)
		if res.Hang != "" {
			return
		}
	}
	if *lateEnq > 0 && (*only < 0 || *only == *count+1) && *from <= *count+1 {
		res := runCase(lateEnqueueConfig(*count+1, *lateEnq), 0)
		enc.Encode(res)
		if res.Hang != "" {
			return
		}
	}
	if *manyFail > 0 && (*only < 0 || *only == *count+2) && *from <= *count+2 {
		res := runCase(manyFailConfig(*count+2, *manyFail), 0)
		enc.Encode(res)
		if res.Hang != "" {
			return
		}
	}
	if *fanin > 0 && *only < 0 {
		enc.Encode(runFanin(*fanin))
	}
}
