// emstack drives the real cff.EmitterStack: programs of definitions
//   v_k = EmitterStack(arg...)      arg ::= L<id> (a recording emitter) | N (cff.NopEmitter) | V<j> (an earlier v_j)
// are read one per line ("L1 L2 ; V0 L3 ; V0 L4"); all definitions are evaluated first
// (so aliasing between stacks shows), then every method of every emitter kind is called
// on every v_k and the recording emitters that received the call are printed.
package main

import (
	"bufio"
	"context"
	"errors"
	"fmt"
	"os"
	"strconv"
	"strings"
	"time"

	"go.uber.org/cff"
)

type rec struct {
	id  int
	log *[]string
}

type ctxKey struct{}

var (
	theCtx   = context.WithValue(context.Background(), ctxKey{}, "ctx")
	theErr   = errors.New("the error")
	thePanic = struct{ X int }{42}
	theDur   = 1234 * time.Millisecond
	theState = cff.SchedulerState{Pending: 7, Ready: 3, Waiting: 2, IdleWorkers: 1, Concurrency: 3}
	taskInfo = &cff.TaskInfo{Name: "task", File: "f.go", Line: 3, Column: 4}
	dirInfo  = &cff.DirectiveInfo{Name: "dir", Directive: cff.FlowDirective, File: "f.go", Line: 1, Column: 2}
	flowInfo = &cff.FlowInfo{Name: "flow", File: "f.go", Line: 1, Column: 2}
	parInfo  = &cff.ParallelInfo{Name: "par", File: "f.go", Line: 5, Column: 6}
	schInfo  = &cff.SchedulerInfo{Name: "sch", Directive: cff.ParallelDirective, File: "f.go", Line: 7, Column: 8}
)

func (r *rec) hit(method string, ok bool) {
	*r.log = append(*r.log, fmt.Sprintf("%s=%d=%v", method, r.id, ok))
}

type recTask struct{ r *rec }
type recFlow struct{ r *rec }
type recPar struct{ r *rec }
type recSch struct{ r *rec }

func (r *rec) TaskInit(t *cff.TaskInfo, d *cff.DirectiveInfo) cff.TaskEmitter {
	r.hit("TaskInit", t == taskInfo && d == dirInfo)
	return recTask{r}
}
func (r *rec) FlowInit(f *cff.FlowInfo) cff.FlowEmitter {
	r.hit("FlowInit", f == flowInfo)
	return recFlow{r}
}
func (r *rec) ParallelInit(p *cff.ParallelInfo) cff.ParallelEmitter {
	r.hit("ParallelInit", p == parInfo)
	return recPar{r}
}
func (r *rec) SchedulerInit(s *cff.SchedulerInfo) cff.SchedulerEmitter {
	r.hit("SchedulerInit", s == schInfo)
	return recSch{r}
}
func (t recTask) TaskSuccess(c context.Context)           { t.r.hit("TaskSuccess", c == theCtx) }
func (t recTask) TaskError(c context.Context, e error)    { t.r.hit("TaskError", c == theCtx && e == theErr) }
func (t recTask) TaskErrorRecovered(c context.Context, e error) {
	t.r.hit("TaskErrorRecovered", c == theCtx && e == theErr)
}
func (t recTask) TaskSkipped(c context.Context, e error) { t.r.hit("TaskSkipped", c == theCtx && e == theErr) }
func (t recTask) TaskPanic(c context.Context, v interface{}) {
	t.r.hit("TaskPanic", c == theCtx && v == interface{}(thePanic))
}
func (t recTask) TaskPanicRecovered(c context.Context, v interface{}) {
	t.r.hit("TaskPanicRecovered", c == theCtx && v == interface{}(thePanic))
}
func (t recTask) TaskDone(c context.Context, d time.Duration) { t.r.hit("TaskDone", c == theCtx && d == theDur) }
func (f recFlow) FlowSuccess(c context.Context)               { f.r.hit("FlowSuccess", c == theCtx) }
func (f recFlow) FlowError(c context.Context, e error)        { f.r.hit("FlowError", c == theCtx && e == theErr) }
func (f recFlow) FlowDone(c context.Context, d time.Duration) { f.r.hit("FlowDone", c == theCtx && d == theDur) }
func (p recPar) ParallelSuccess(c context.Context)            { p.r.hit("ParallelSuccess", c == theCtx) }
func (p recPar) ParallelError(c context.Context, e error) {
	p.r.hit("ParallelError", c == theCtx && e == theErr)
}
func (p recPar) ParallelDone(c context.Context, d time.Duration) {
	p.r.hit("ParallelDone", c == theCtx && d == theDur)
}
func (s recSch) EmitScheduler(st cff.SchedulerState) { s.r.hit("EmitScheduler", st == theState) }

func main() {
	sc := bufio.NewScanner(os.Stdin)
	sc.Buffer(make([]byte, 1<<20), 1<<20)
	out := bufio.NewWriter(os.Stdout)
	defer out.Flush()
	for sc.Scan() {
		line := strings.TrimSpace(sc.Text())
		if line == "" {
			continue
		}
		var log []string
		var vars []cff.Emitter
		for _, def := range strings.Split(line, ";") {
			var args []cff.Emitter
			for _, tok := range strings.Fields(def) {
				if tok == "E" {
					continue
				}
				n, _ := strconv.Atoi(tok[1:])
				switch tok[0] {
				case 'L':
					args = append(args, &rec{id: n, log: &log})
				case 'N':
					args = append(args, cff.NopEmitter())
				case 'V':
					args = append(args, vars[n])
				}
			}
			vars = append(vars, cff.EmitterStack(args...))
		}
		var res []string
		for _, v := range vars {
			log = nil
			te := v.TaskInit(taskInfo, dirInfo)
			te.TaskSuccess(theCtx)
			te.TaskError(theCtx, theErr)
			te.TaskErrorRecovered(theCtx, theErr)
			te.TaskSkipped(theCtx, theErr)
			te.TaskPanic(theCtx, thePanic)
			te.TaskPanicRecovered(theCtx, thePanic)
			te.TaskDone(theCtx, theDur)
			fe := v.FlowInit(flowInfo)
			fe.FlowSuccess(theCtx)
			fe.FlowError(theCtx, theErr)
			fe.FlowDone(theCtx, theDur)
			pe := v.ParallelInit(parInfo)
			pe.ParallelSuccess(theCtx)
			pe.ParallelError(theCtx, theErr)
			pe.ParallelDone(theCtx, theDur)
			se := v.SchedulerInit(schInfo)
			se.EmitScheduler(theState)
			res = append(res, strings.Join(log, ","))
		}
		fmt.Fprintln(out, strings.Join(res, "|"))
	}
}
