// emsession drives the real cff.EmitterStack through sessions: a line is
//   <definitions as for emstack> # <ops>
// where the ops act on the last definition: IT / IF / IP / IS call TaskInit / FlowInit /
// ParallelInit / SchedulerInit (creating the combination's next child), E<h> calls the Done
// method (EmitScheduler for a scheduler child) of the combination's child h. A recording
// emitter numbers its own children in creation order; the log printed is, in global order,
// "<id>:I<kind>" and "<id>:E<own child>".
package main

import (
	"bufio"
	"context"
	"fmt"
	"os"
	"strconv"
	"strings"
	"time"

	"go.uber.org/cff"
)

type rec struct {
	id  int
	n   int
	log *[]string
}

type child struct {
	r *rec
	h int
}

func (r *rec) init(kind string) child {
	*r.log = append(*r.log, fmt.Sprintf("%d:I%s", r.id, kind))
	c := child{r, r.n}
	r.n++
	return c
}
func (c child) ev() { *c.r.log = append(*c.r.log, fmt.Sprintf("%d:E%d", c.r.id, c.h)) }

type recTask struct{ child }
type recFlow struct{ child }
type recPar struct{ child }
type recSch struct{ child }

func (r *rec) TaskInit(*cff.TaskInfo, *cff.DirectiveInfo) cff.TaskEmitter { return recTask{r.init("T")} }
func (r *rec) FlowInit(*cff.FlowInfo) cff.FlowEmitter                       { return recFlow{r.init("F")} }
func (r *rec) ParallelInit(*cff.ParallelInfo) cff.ParallelEmitter           { return recPar{r.init("P")} }
func (r *rec) SchedulerInit(*cff.SchedulerInfo) cff.SchedulerEmitter        { return recSch{r.init("S")} }

func (t recTask) TaskSuccess(context.Context)                     {}
func (t recTask) TaskError(context.Context, error)                {}
func (t recTask) TaskErrorRecovered(context.Context, error)       {}
func (t recTask) TaskSkipped(context.Context, error)              {}
func (t recTask) TaskPanic(context.Context, interface{})          {}
func (t recTask) TaskPanicRecovered(context.Context, interface{}) {}
func (t recTask) TaskDone(context.Context, time.Duration)         { t.ev() }
func (f recFlow) FlowSuccess(context.Context)                     {}
func (f recFlow) FlowError(context.Context, error)                {}
func (f recFlow) FlowDone(context.Context, time.Duration)         { f.ev() }
func (p recPar) ParallelSuccess(context.Context)                  {}
func (p recPar) ParallelError(context.Context, error)             {}
func (p recPar) ParallelDone(context.Context, time.Duration)      { p.ev() }
func (s recSch) EmitScheduler(cff.SchedulerState)                 { s.ev() }

func main() {
	sc := bufio.NewScanner(os.Stdin)
	sc.Buffer(make([]byte, 1<<20), 1<<20)
	out := bufio.NewWriter(os.Stdout)
	defer out.Flush()
	ctx := context.Background()
	for sc.Scan() {
		line := strings.TrimSpace(sc.Text())
		if line == "" {
			continue
		}
		parts := strings.SplitN(line, "#", 2)
		var log []string
		recs := map[int]*rec{}
		var vars []cff.Emitter
		for _, def := range strings.Split(parts[0], ";") {
			var args []cff.Emitter
			for _, tok := range strings.Fields(def) {
				if tok == "E" {
					continue
				}
				n, _ := strconv.Atoi(tok[1:])
				switch tok[0] {
				case 'L':
					if recs[n] == nil {
						recs[n] = &rec{id: n, log: &log}
					}
					args = append(args, recs[n])
				case 'N':
					args = append(args, cff.NopEmitter())
				case 'V':
					args = append(args, vars[n])
				}
			}
			vars = append(vars, cff.EmitterStack(args...))
		}
		v := vars[len(vars)-1]
		var kids []interface{}
		for _, op := range strings.Fields(parts[1]) {
			switch {
			case op == "IT":
				kids = append(kids, v.TaskInit(&cff.TaskInfo{}, &cff.DirectiveInfo{}))
			case op == "IF":
				kids = append(kids, v.FlowInit(&cff.FlowInfo{}))
			case op == "IP":
				kids = append(kids, v.ParallelInit(&cff.ParallelInfo{}))
			case op == "IS":
				kids = append(kids, v.SchedulerInit(&cff.SchedulerInfo{}))
			case op[0] == 'E':
				h, _ := strconv.Atoi(op[1:])
				switch k := kids[h].(type) {
				case cff.TaskEmitter:
					k.TaskDone(ctx, time.Second)
				case cff.FlowEmitter:
					k.FlowDone(ctx, time.Second)
				case cff.ParallelEmitter:
					k.ParallelDone(ctx, time.Second)
				case cff.SchedulerEmitter:
					k.EmitScheduler(cff.SchedulerState{})
				}
			}
		}
		fmt.Fprintln(out, strings.Join(log, " "))
	}
}
