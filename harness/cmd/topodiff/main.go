// topodiff runs the real toposort of internal/graph.go (through the verif export hook) on
// graphs read one per line, "count | deps of node 0 ; deps of node 1 ; ...", and prints
// the order it returns.
package main

import (
	"bufio"
	"fmt"
	"os"
	"strconv"
	"strings"

	"go.uber.org/cff/internal"
)

func main() {
	sc := bufio.NewScanner(os.Stdin)
	sc.Buffer(make([]byte, 1<<20), 1<<20)
	out := bufio.NewWriter(os.Stdout)
	defer out.Flush()
	for sc.Scan() {
		parts := strings.SplitN(sc.Text(), "|", 2)
		if len(parts) != 2 {
			continue
		}
		count, _ := strconv.Atoi(strings.TrimSpace(parts[0]))
		deps := make([][]int, count)
		for i, d := range strings.Split(parts[1], ";") {
			if i >= count {
				break
			}
			for _, tok := range strings.Fields(d) {
				n, _ := strconv.Atoi(tok)
				deps[i] = append(deps[i], n)
			}
		}
		order := internal.VerifToposort(count, func(i int) []int { return deps[i] })
		strs := make([]string, len(order))
		for i, n := range order {
			strs[i] = strconv.Itoa(n)
		}
		fmt.Fprintln(out, strings.Join(strs, " "))
	}
}
