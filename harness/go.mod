module go.uber.org/cff/verifh

go 1.19

require (
	go.uber.org/cff v0.0.0
	go.uber.org/multierr v1.11.0
)

require (
	golang.org/x/mod v0.17.0 // indirect
	golang.org/x/sync v0.7.0 // indirect
	golang.org/x/tools v0.20.0 // indirect
)

replace go.uber.org/cff => /repo
