"""C16, second half: which files cff writes and what it preserves. A generated module with
several packages (equal base names in different directories, test files, files without
directives, files without the tag) is processed by the real cff with ./... and with -file
selections; the set of files written must be exactly the documented one (output names from
the extracted gen_filename), nothing else may change, and in every output all declarations
other than the functions containing directives must be token-identical to the source,
with all source imports still present."""
import hashlib
import os
import re

import common

FLOW_FN = '''func %(name)s(ctx context.Context) (string, error) {
	before := "%(name)s"
	var out string
	err := cff.Flow(ctx,
		cff.Params(len(before)),
		cff.Results(&out),
		cff.Task(func(n int) string { return before + strconv.Itoa(n) }),
	)
	after := out + "!"
	return after, err
}
'''

HELPERS = '''
// Keep is declared before the directive and must be preserved.
func Keep%(k)s(xs []int) (s int) {
	for i, x := range xs {
		if i%%2 == 0 {
			s += x << 1
		}
	}
	return s
}

type Rec%(k)s struct {
	A, B int `json:"a"`
}

var table%(k)s = map[string][]Rec%(k)s{"k": {{A: 1, B: 2}}}

const (
	c%(k)sA = iota
	c%(k)sB
)
'''


BAD_FILE = '''//go:build cff

package b

import (
	"context"

	"go.uber.org/cff"
)

// ill-formed: the second Params value is consumed by nothing
func BadB(ctx context.Context) (string, error) {
	var out string
	err := cff.Flow(ctx,
		cff.Params(1, "unused"),
		cff.Results(&out),
		cff.Task(func(n int) float64 { return float64(n) }),
		cff.Task(func(f float64) string { return "x" }),
	)
	return out, err
}
'''  # BAD_FLOW


def model_files(files, withdir, bad):
    """the layout as FileSelModel sees it: directory ids, base names, which files fail, which contain a directive"""
    dirs = sorted({os.path.dirname(f) for f in files})
    L = []
    for f in sorted(files):
        if f.endswith(".go"):
            L.append("F %d %s %d %d" % (dirs.index(os.path.dirname(f)), os.path.basename(f), 1 if f in bad else 0, 1 if (f in withdir or f in bad) else 0))
    return dirs, L


def model_outcome(dirs, L, sel, only_dir=None):
    lines = [l for l in L if only_dir is None or int(l.split()[1]) == dirs.index(only_dir)]
    out = common.model_run("filesel", ["S " + " ".join(sel) + " | " + " ; ".join(lines)])[0]
    ex, _, ws = out.partition(" | W ")
    written = set()
    for w in [x.strip() for x in ws.split(";") if x.strip()]:
        if w.startswith("="):
            written.add(w[1:])
        else:
            d, _, n = w.partition("/")
            written.add(os.path.join(dirs[int(d)], n))
    return ex.split()[1], written


def cff_file(pkg, names, k, tag="//go:build cff", test=False):
    imports = ['"context"', '"strconv"', "", '"go.uber.org/cff"']
    if test:
        imports = ['"context"', '"strconv"', '"testing"', "", '"go.uber.org/cff"']
    src = [tag, "", "package " + pkg, "", "import ("] + ["\t" + i if i else "" for i in imports] + [")", ""]
    src.append(HELPERS % {"k": k})
    for n in names:
        src.append(FLOW_FN % {"name": n})
    if test:
        src.append("func Test%s(t *testing.T) {\n\tif s, err := %s(context.Background()); err != nil || s == \"\" {\n\t\tt.Fatal(s, err)\n\t}\n}\n" % (k, names[0]))
    src.append("// trailing comment\nfunc Last%s() string { return strconv.Quote(\"last\") }\n" % k)
    return "\n".join(src)


def layout():
    files = {
        "a/foo.go": cff_file("a", ["FooA1", "FooA2"], "A"),
        "a/foo_test.go": cff_file("a", ["FooAT"], "AT", test=True),
        "a/subfoo.go": cff_file("a", ["SubFooA"], "AS"),        # its name ends in the name of another file
        # the constraint directly above the package clause / glued to the package documentation (no blank line)
        "a/adjoin.go": cff_file("a", ["AdjoinA"], "AJ").replace("//go:build cff\n\npackage a", "//go:build cff\npackage a", 1),
        "a/docglued.go": cff_file("a", ["DocGluedA"], "DG").replace("//go:build cff\n\npackage a", "//go:build cff\n// Package a is documented here.\npackage a", 1),
        "a/plain.go": "package a\n\n// no directive, no tag\nfunc Plain() int { return 1 }\n",
        "a/tagged_no_directive.go": "//go:build cff\n\npackage a\n\nfunc TaggedOnly() int { return 2 }\n",
        "b/foo.go": cff_file("b", ["FooB1"], "B"),
        "b/bar.go": cff_file("b", ["BarB1"], "BB", tag="//go:build cff && !windows"),
        "c/deep/foo.go": cff_file("deep", ["FooC1"], "C"),
    }
    files["b/bad.go"] = BAD_FILE
    with_directives = ["a/foo.go", "a/foo_test.go", "a/subfoo.go", "a/adjoin.go", "a/docglued.go", "b/foo.go", "b/bar.go", "c/deep/foo.go"]
    return files, with_directives


def snapshot(root):
    snap = {}
    for d, _, fs in os.walk(root):
        for fn in fs:
            if fn in ("go.mod", "go.sum"):
                continue      # rewritten by the go command itself under GOFLAGS=-mod=mod, not by cff
            p = os.path.join(d, fn)
            snap[os.path.relpath(p, root)] = hashlib.sha1(open(p, "rb").read()).hexdigest()
    return snap


def func_chunks(tokens):
    """token stream -> {top-level function name: tokens}, plus the preamble under ''"""
    chunks, cur, name = {}, [], ""
    i = 0
    while i < len(tokens):
        t = tokens[i]
        if t.startswith("func ") and i + 1 < len(tokens) and tokens[i + 1].startswith("IDENT "):
            chunks[name] = cur
            name = tokens[i + 1].split(" ", 1)[1].strip('"')
            cur = []
        cur.append(t)
        i += 1
    chunks[name] = cur
    return chunks


def apply(chk):
    files, withdir = layout()
    mod = common.make_gen_module("files-%d" % chk.seed)
    for rel, txt in files.items():
        p = os.path.join(mod, rel)
        os.makedirs(os.path.dirname(p), exist_ok=True)
        open(p, "w").write(txt)
    gonorm = common.go_build("gonorm", tags="verif")
    names = common.model_run("genname", [os.path.basename(f) for f in withdir])
    expected = {os.path.join(os.path.dirname(f), n) for f, n in zip(withdir, names)}
    before = snapshot(mod)
    rc, out = common.run_cff(mod, "./...")
    chk.count(1, key=("files", "./..."))
    after = snapshot(mod)
    bad = {"b/bad.go"}
    dirs, mfiles = model_files(files, set(withdir), bad)
    mexit, mwritten = model_outcome(dirs, mfiles, [])
    if "panic:" in out or "goroutine 1 [" in out:
        chk.violate("cff crashed on the layout module", {"output": out[-3000:], "module": mod})
        return
    if (rc != 0) != (mexit != "0"):
        chk.violate("cff ./... exited with status %d on a layout in which %s is rejected and every other file is accepted (FileSelModel: exit %s)" % (rc, sorted(bad), mexit),
                    {"exit_status": rc, "model_exit": mexit, "cff_output": out[-1500:], "module": mod})
        return
    if not any("bad.go" in l for l in out.split("\n")):
        chk.violate("cff rejected b/bad.go without a diagnostic naming the file", {"cff_output": out[-1500:], "module": mod})
        return
    if mwritten != expected:
        chk.fail_no_input("FileSelModel and the documented outputs disagree on the layout: %s vs %s" % (sorted(mwritten), sorted(expected)),
                          {"theorem": "correspondence FileSelModel.run_tool ~ cmd/cff/main.go run (model side)", "model": sorted(mwritten), "expected": sorted(expected)})
        return
    created = {f for f in after if f not in before}
    modified = {f for f in before if after.get(f) != before[f]}
    if created != expected or modified:
        chk.violate("cff ./... wrote %s and modified %s; the documented outputs are %s" % (sorted(created), sorted(modified), sorted(expected)),
                    {"layout": sorted(files), "created": sorted(created), "modified": sorted(modified), "expected": sorted(expected), "cff_output": out[-1500:], "module": mod})
        return
    # the constraint of every output is the inversion of its source's: without the cff tag the go tool
    # selects the outputs and not the sources, with it the sources and not the outputs
    for tags in ("", "cff"):
        rc2, o2, e2 = common.run(["go", "list", "-tags", tags, "-f", "{{.Dir}}|{{join .GoFiles \" \"}} {{join .TestGoFiles \" \"}}", "./..."],
                                 cwd=mod, env=common.GOENV, check=False, timeout=600)
        sel = set()
        for line in o2.split("\n"):
            d, _, fs = line.partition("|")
            for fn in fs.split():
                sel.add(os.path.relpath(os.path.join(d, fn), mod))
        chk.count(1, key=("files", "go list", tags))
        for f, n in zip(withdir, names):
            g = os.path.join(os.path.dirname(f), n)
            want_src, want_gen = (tags == "cff"), (tags != "cff")
            if (f in sel) != want_src or (g in sel) != want_gen:
                chk.violate("with build tags [%s] the go tool %s %s and %s its output %s: the output's constraint is not the source's with cff inverted" % (
                    tags, "selects" if f in sel else "ignores", f, "selects" if g in sel else "ignores", g),
                    {"tags": tags, "source": f, "generated": g, "source_header": open(os.path.join(mod, f)).read()[:200],
                     "generated_header": open(os.path.join(mod, g)).read()[:300], "module": mod})
                return
    # what is preserved
    toks = {}
    paths = [os.path.join(mod, f) for f in withdir] + [os.path.join(mod, f) for f in sorted(expected)]
    rc, o, e = common.run([gonorm] + paths, timeout=300)
    cur = None
    for line in o.split("\n"):
        if line.startswith("== "):
            cur = os.path.relpath(line[3:], mod)
            toks[cur] = []
        elif cur and line:
            toks[cur].append(line)
    for f, n in zip(withdir, names):
        g = os.path.join(os.path.dirname(f), n)
        src, gen = func_chunks(toks[f]), func_chunks(toks[g])
        chk.count(1, key=("preserved", f))
        for fn_name, body in src.items():
            has_dir = any(t.startswith('IDENT "Flow"') or t.startswith('IDENT "Parallel"') for t in body)
            if fn_name == "":
                # preamble: package clause and imports; imports may only be added
                simp = {t for t in body if t.startswith("STRING ")}
                gimp = {t for t in gen.get("", []) if t.startswith("STRING ")}
                if not simp <= gimp:
                    chk.violate("%s: imports of the source are missing from %s: %s" % (f, g, sorted(simp - gimp)), {"source": f, "generated": g, "module": mod})
                    return
            elif not has_dir and gen.get(fn_name) != body:
                chk.violate("%s: declaration %s of the source file is not preserved token for token in %s" % (f, fn_name, g),
                            {"source": f, "generated": g, "function": fn_name, "source_tokens": body[:40], "generated_tokens": (gen.get(fn_name) or [])[:40], "module": mod})
                return
            elif has_dir:
                # the statements around the directive survive
                for probe in ('STRING "\\"' + fn_name + '\\""', 'STRING "\\"!\\""'):
                    if probe not in (gen.get(fn_name) or []):
                        chk.violate("%s: the statements around the directive in %s are not preserved in %s" % (f, fn_name, g), {"source": f, "generated": g, "module": mod})
                        return
    # -file selections: only the selected file is processed; explicit output paths are honoured
    # selections judged by FileSelModel: a rejected file, a name no file has, a repeated input
    for pkgdir, sels in (("b", ["bad.go"]), ("b", ["bad.go", "foo.go"]), ("a", ["nosuch.go"]), ("a", ["foo.go", "foo.go=" + os.path.join(mod, "out", "y_gen.go")]),
                         ("a", ["oo.go"]), ("a", ["foo.go", "subfoo.go"])):
        for f in snapshot(mod):
            if f not in before:
                os.remove(os.path.join(mod, f))
        b2 = snapshot(mod)
        extra = []
        for x in sels:
            extra += ["-file", x]
        rc, out = common.run_cff(mod, "./" + pkgdir, extra=extra)
        chk.count(1, key=("filesel", pkgdir, tuple(sels)))
        a2 = snapshot(mod)
        created = {f for f in a2 if f not in b2}
        modified = {f for f in b2 if a2.get(f) != b2[f]}
        mexit, mwritten = model_outcome(dirs, mfiles, sels, only_dir=pkgdir)
        mwritten = {os.path.relpath(w, mod) if os.path.isabs(w) else w for w in mwritten}
        if (rc != 0) != (mexit != "0") or created != mwritten or modified:
            chk.violate("cff %s ./%s exited %d, wrote %s and modified %s; by the selection rules (FileSelModel) it exits %s and writes exactly %s" % (
                " ".join(extra), pkgdir, rc, sorted(created), sorted(modified), "non-zero" if mexit != "0" else "0", sorted(mwritten)),
                {"selection": sels, "package": pkgdir, "exit_status": rc, "created": sorted(created), "modified": sorted(modified),
                 "model_exit": mexit, "model_written": sorted(mwritten), "cff_output": out[-1000:], "module": mod})
            return
    # (a relative OUTPUT is relative to the directory the tool runs in, here the module root)
    for sel, outp in (("foo.go", None), ("foo.go", os.path.join(mod, "out", "x_gen.go")), ("subfoo.go", None),
                      ("foo.go", "rel_gen.go"), ("foo.go", os.path.join("out", "rel2_gen.go"))):
        for f in snapshot(mod):
            if f not in before:
                os.remove(os.path.join(mod, f))
        if outp:
            os.makedirs(os.path.dirname(os.path.join(mod, outp)), exist_ok=True)
        b2 = snapshot(mod)
        arg = "%s=%s" % (sel, outp) if outp else sel
        rc, out = common.run_cff(mod, "./a", extra=["-file", arg])
        chk.count(1, key=("files", arg))
        a2 = snapshot(mod)
        created = {f for f in a2 if f not in b2}
        modified = {f for f in b2 if a2.get(f) != b2[f]}
        want = {os.path.relpath(os.path.join(mod, outp), mod)} if outp else {"a/" + sel[:-3] + "_gen.go"}
        if rc != 0 or created != want or modified:
            chk.violate("cff -file=%s ./a wrote %s and modified %s (exit %d); expected exactly %s" % (arg, sorted(created), sorted(modified), rc, sorted(want)),
                        {"created": sorted(created), "modified": sorted(modified), "expected": sorted(want), "cff_output": out[-1000:], "module": mod})
            return
    # the outputs build without the tag and the test in the generated test file passes
    for f in snapshot(mod):
        if f not in before:
            os.remove(os.path.join(mod, f))
    common.run_cff(mod, "./...")
    rc, o, e = common.run(["go", "test", "-count=1", "./..."], cwd=mod, env=common.GOENV, check=False, timeout=900)
    chk.count(1, key=("files", "go test"))
    if rc != 0:
        chk.violate("the layout module does not build/test without the cff tag after generation: %s" % ([l for l in (o + e).split("\n") if ".go:" in l] or [(o + e)[-200:]])[0],
                    {"output": (o + e)[-2000:], "module": mod})
    chk.cov["correspondence"]["files_written_and_preserved"] = {
        "kind": "real cff on a multi-package layout (equal base names in different directories, a test file, files without directives or without the tag, a compound constraint): set of files written vs extracted gen_filename, directory snapshots, token-identical preservation of every declaration without directive, imports only added, -file=IN and -file=IN=OUT selections, a rejected file among accepted ones (exit status, no output for it), selections of a rejected file / a name no file has / a suffix of a name / a repeated input judged by the extracted FileSelModel.run_tool, go test of the result",
        "files_with_directives": len(withdir), "files_total": len(files)}
