"""Differential correspondence of TopoModel.toposort with the real toposort of
internal/graph.go (verif export hook) on generated acyclic graphs, plus the property itself
on the real output: a permutation of the nodes in which every node follows its dependencies."""
import random

import common
import coq_cases


def gen_graph(r):
    n = r.randint(1, 14)
    perm = list(range(n))
    r.shuffle(perm)
    rank = {v: i for i, v in enumerate(perm)}
    deps = []
    for v in range(n):
        lower = [u for u in range(n) if rank[u] < rank[v]]
        k = r.choice([0, 0, 1, 1, 2, 3])
        ds = [r.choice(lower) for _ in range(k)] if lower else []     # duplicates allowed
        deps.append(ds)
    return n, deps


def apply(chk, ncases):
    r = random.Random(chk.seed * 97 + 2)
    graphs = [gen_graph(r) for _ in range(ncases)]
    lines = ["%d | %s" % (n, " ; ".join(" ".join(str(d) for d in ds) for ds in deps)) for n, deps in graphs]
    exe = common.go_build("topodiff", tags="verif")
    rc, out, err = common.run([exe], input="\n".join(lines) + "\n", timeout=600)
    real = out.split("\n")
    model = common.model_run("topo", lines)
    for (n, deps), line, a, b in zip(graphs, lines, real, model):
        chk.count(1, key=("topo", line), nontrivial=n >= 2)
        order = [int(x) for x in a.split()]
        pos = {v: i for i, v in enumerate(order)}
        if sorted(order) != list(range(n)) or any(pos[d] > pos[v] for v in range(n) for d in deps[v]):
            chk.violate("toposort of the graph `%s` returns %s: not a permutation of the nodes in which every node follows its dependencies "
                        "(the generated code would use a job before declaring it)" % (line, order), {"graph": line, "real": a, "model": b})
            return
        if a.split() != b.split():
            chk.fail_no_input("correspondence TopoModel.toposort ~ internal/graph.go toposort no longer holds on `%s`: real %s, model %s" % (line, a, b),
                              {"correspondence": "toposort", "graph": line, "real": a, "model": b})
            return
    ex = []
    for (n, deps), b in list(zip(graphs, model))[:8]:
        fn = "fun n => match n with %s_ => [] end" % "".join("%d => %s | " % (i, coq_cases.coq_list(ds)) for i, ds in enumerate(deps))
        ex.append("toposort (%s) %d %d = %s" % (fn, n + 1, n, coq_cases.coq_list(b.split())))
    coq_cases.check_examples(chk, "topo", "TopoModel", ex, "orders computed by the extracted toposort re-computed inside Coq")
    chk.cov["correspondence"]["toposort"] = {"kind": "real toposort (internal/graph.go) vs extracted TopoModel.toposort on seeded acyclic graphs with duplicate dependencies; validity of the real order checked directly",
                                             "graphs": len(graphs)}
