"""Behavioural correspondence for generated Flow code: generate programs, run the real
cff on them, build and execute the result under scenario tables, and compare every
execution with the Coq model's prediction (FlowSemModel, via the extracted flowobs)."""
import hashlib
import json
import os
import re
import time

import common
import progen


def _hash_sources():
    h = hashlib.sha1()
    for fn in ("progen.py", "flowgen.py", "gen_common.py"):
        h.update(open(os.path.join(common.VERIF, "lib", fn), "rb").read())
    h.update(open(os.path.join(common.COQ, "FlowSemModel.v"), "rb").read())
    h.update(open(os.path.join(common.MODEL, "driver.ml"), "rb").read())
    return h.hexdigest()[:12]


ASSUMPTIONS = [
    "user functions are the harness stubs: their behaviour is a function of the scenario table (ok / error / panic with four kinds of value / cancel; predicates true / false / panic) and their results are printed terms over their arguments",
    "the correspondence is sampled: seeded generated flows (layered DAGs, shuffled listing order, predicates, FallbackWith, Invoke, instrumentation, bare-identifier arguments named like generated identifiers), every single-failure scenario and random sleeps; the theorems are not sampled",
    "Go runtime, go/types and gofmt are trusted; generated programs run without the race detector in the quick tier",
]

OUTCOME_EVENTS = ("TaskSuccess", "TaskError", "TaskErrorRecovered", "TaskPanic", "TaskPanicRecovered")


def check_events(flow, run, hits):
    """C18 rules on the recorded emitter events of one execution."""
    evs = run.get("events") or []
    if flow.emitters == 0:
        return
    per = {}
    for e in evs:
        name, rest = e.split(":", 1)
        per.setdefault(name, []).append(rest)
    seqs = [per.get("e%d" % k, []) for k in range(flow.emitters)]
    for k in range(1, flow.emitters):
        if sorted(seqs[k]) != sorted(seqs[0]):
            hits.setdefault("C18", []).append("emitters combined in a stack received different events: %s vs %s" % (seqs[0][:6], seqs[k][:6]))
            return
    ev = seqs[0]
    fname = flow.name()
    if flow.instr_flow:
        outcome = [e for e in ev if e.startswith("FlowSuccess ") or e.startswith("FlowError ")]
        done = [e for e in ev if e.startswith("FlowDone ")]
        if len(outcome) != 1:
            hits.setdefault("C18", []).append("%d Flow outcome events emitted: %s" % (len(outcome), outcome))
        elif run["err"] == "nil" and not outcome[0].startswith("FlowSuccess"):
            hits.setdefault("C18", []).append("flow returned nil but emitted %s" % outcome[0])
        elif run["err"] != "nil" and outcome[0] != "FlowError %s %s" % (fname, run["err"]):
            hits.setdefault("C18", []).append("flow returned %s but emitted %s" % (run["err"], outcome[0]))
        if len(done) != 1:
            hits.setdefault("C18", []).append("FlowDone emitted %d times" % len(done))
        elif len(outcome) == 1 and ev.index(done[0]) < ev.index(outcome[0]):
            hits.setdefault("C18", []).append("FlowDone emitted before the flow's outcome event: %s" % ev)
    called = set(c.split("(")[0] for c in run["calls"])
    for t in flow.tasks:
        if not t["instr"]:
            continue
        tid = "t%d" % t["id"]
        outs = [e for e in ev if e.split(" ")[0] in OUTCOME_EVENTS and e.split(" ")[1] == tid]
        dones = [e for e in ev if e == "TaskDone " + tid]
        skipped = [e for e in ev if e.startswith("TaskSkipped " + tid + " ")]
        if tid in called:
            sc = run["scenario"].get(tid, "ok")
            want = {"ok": "TaskSuccess", "cancel": "TaskSuccess", "err": "TaskErrorRecovered" if t["fallback"] else "TaskError",
                    "panic": "TaskPanicRecovered" if t["fallback"] else "TaskPanic"}["panic" if sc.startswith("panic") else ("err" if sc.startswith("err") else sc)]
            if len(outs) != 1 or not outs[0].startswith(want + " "):
                hits.setdefault("C18", []).append("task %s (%s) emitted outcome events %s, expected exactly one %s" % (tid, sc, outs, want))
            if len(dones) != 1:
                hits.setdefault("C18", []).append("task %s was invoked and emitted %d TaskDone events" % (tid, len(dones)))
        else:
            if run["err"] == "nil" and len(skipped) != 1:
                hits.setdefault("C18", []).append("task %s was not invoked in a flow returning nil and emitted %d TaskSkipped events" % (tid, len(skipped)))
            if dones:
                hits.setdefault("C18", []).append("task %s was not invoked but emitted TaskDone" % tid)


def compare(flow, run, pred):
    """Returns {property: [messages]} for one execution against the model's prediction."""
    hits = {}

    def bad(p, m):
        hits.setdefault(p, []).append(m)
    m = re.match(r"ERR=(.*) ; RES=(.*) ; CALLS=(.*) ; BLOCKED=(.*) ; OP=(.*) ; UNIQ=(.*) ; PROV=(.*) ; JOBS=(.*)$", pred)
    perr, pres, pcalls, pblocked = m.group(1), m.group(2), m.group(3), m.group(4)
    if m.group(5) != "agree":
        bad("MODEL", "the operational model (FlowOpModel, canonical schedule) and the flow semantics (FlowSemModel) disagree: %s" % m.group(5))
    if m.group(6) != "true" or m.group(7) != "true":
        bad("MODEL", "unique_providers_b / all_provided_b is false on a flow the generator built as well-formed (the hypotheses of the C02 theorems)")
    pcalls = [c for c in pcalls.split(";") if c]
    pblocked = set(b for b in pblocked.split(",") if b)
    called = [c.split("(")[0] for c in run["calls"]]
    scen = run["scenario"]
    if perr != "nil":
        perr = "|".join((scen.get(a.split(":")[1], "panic") + ":" + a.split(":")[1]) if a.startswith("panic:") else a for a in perr.split("|"))
    cancelled = run.get("precancel") or any(v == "cancel" and k in called for k, v in scen.items())
    if run.get("precancel"):
        if run["err"] != "ctx":
            bad("C09", "the context was cancelled before the directive ran and the directive returned %s" % run["err"])
        if run["calls"]:
            bad("C09", "the context was cancelled before the directive ran and user functions were still called: %s" % run["calls"])
    if cancelled and run["err"] == "ctx":
        # cancellation is a failure the model does not contain: the flow may stop anywhere
        if any(r != "sentinel" for r in run["results"]):
            bad("C07", "Results targets were written although the flow returned the context's error: %s" % run["results"])
        for c in run["calls"]:
            if c not in pcalls:
                bad("C07", "call %s is not one the directive describes (scenario %s)" % (c, scen))
        finish_common(flow, run, hits, bad, scen)
        return hits
    if len(set(run["calls"])) != len(run["calls"]) or len(set(called)) != len(called):
        bad("C02", "a function was called more than once: %s" % run["calls"])
    if perr == "nil":
        if run["err"] != "nil":
            ps = set()
            if any(t["fallback"] and (scen.get("t%d" % t["id"], "ok") != "ok" or scen.get("q%d" % t["id"], "true") != "true") for t in flow.tasks) or \
                    any(v == "false" for v in scen.values()):
                ps.add("C11")
            if run["err"].startswith("panic"):
                ps.add("C04")
            if not ps:
                ps.add("C02")
            for p in sorted(ps):
                bad(p, "the flow returned %s although no task failure remains unabsorbed (scenario %s)" % (run["err"], scen))
        else:
            want = pres.split(";") if flow.results else []
            if run["results"] != want:
                p = "C11" if scen else "C02"
                bad(p, "Results hold %s, the dataflow of the directive gives %s (scenario %s)" % (run["results"], want, scen))
            if sorted(run["calls"]) != sorted(pcalls):
                p = "C11" if scen else "C02"
                bad(p, "calls made %s differ from the calls the directive describes %s (scenario %s)" % (run["calls"], pcalls, scen))
    else:
        allowed = perr.split("|")
        if run["err"] == "nil":
            p = "C04" if any(a.startswith("panic") for a in allowed) else "C07"
            bad(p, "the flow returned nil although %s (scenario %s)" % (allowed, scen))
        elif run["err"] not in allowed:
            p = "C04" if any(a.startswith("panic") for a in allowed) else "C07"
            bad(p, "the flow returned %s, expected one of %s (scenario %s)" % (run["err"], allowed, scen))
        if any(r != "sentinel" for r in run["results"]):
            bad("C07", "Results targets were written although the flow returned an error: %s" % run["results"])
        for c in run["calls"]:
            if c not in pcalls:
                bad("C07", "call %s is not one the directive describes (scenario %s; allowed %s)" % (c, scen, pcalls))
        for cname in called:
            if cname in pblocked:
                bad("C07", "task %s was invoked although it depends on a failed task (scenario %s)" % (cname, scen))
    finish_common(flow, run, hits, bad, scen)
    return hits


def finish_common(flow, run, hits, bad, scen):
    # C15: arguments evaluated once, in source order, before any task
    if run["args"] != list(range(flow.nargs)):
        bad("C15", "argument expressions evaluated in order %s, source order is 0..%d" % (run["args"], flow.nargs - 1))
    if not run["args_before_start"]:
        bad("C15", "an argument expression was evaluated after a task had started")
    ex = run.get("extras") or {}
    for k, want in sorted(flow.expect_extras.items()):
        if k == "clock":
            if run["err"] == "nil" and ex.get("clock") != want:
                bad("C15", "a plain argument expression written after %s call arguments was evaluated after %s of them" % (want, ex.get("clock")))
        elif k == "local":
            if any(c.split("(")[0] == getattr(flow, "local_task", "?") for c in run["calls"]) and ex.get("local") != want:
                bad("C15", "a local variable of the enclosing function that a task's function literal mentions had the value %s inside the task, the caller's value is %s: the literal's free variable was captured by an identifier of the generated code" % (ex.get("local"), want))
        elif ex.get(k) != want:
            bad("C15", "a Results pointer named by a variable was read after a later argument expression had reassigned the variable")
    if any("late" in c for c in run["calls"]) or any("late" in v for v in run["results"]):
        bad("C15", "an argument naming a variable was read after a later argument expression had reassigned it: calls %s results %s" % (run["calls"], run["results"]))
    if run.get("ctx_bad"):
        bad("C09", "functions %s did not receive the directive's context" % run["ctx_bad"])
    if not flow.has_conc and run.get("gomaxprocs") and run["max_inflight"] > max(run["gomaxprocs"], 4):
        bad("C03", "%d task functions in flight in a flow without cff.Concurrency under GOMAXPROCS=%d: the default limit is max(GOMAXPROCS, 4)" % (run["max_inflight"], run["gomaxprocs"]))
    if flow.has_conc and run["conc"] > 0 and run["max_inflight"] > run["conc"]:
        bad("C03", "%d task functions in flight with Concurrency(%d)" % (run["max_inflight"], run["conc"]))
    if run.get("leaked", 0) > 0 or not run.get("quiesced", True):
        bad("C06", "%d goroutines started by the directive were still alive 3 s after it returned (scenario %s)" % (run.get("leaked", 0), scen))
    else:
        check_events(flow, run, hits)
    return hits


JOB_RE = re.compile(r"(\w+?)(\d+)\.\w+\s*=\s*\w+\.Enqueue\(\s*\w+\s*,\s*\w+\.Job\{(.*?)\}\)", re.S)
DEPS_RE = re.compile(r"Dependencies:\s*\[\]\*\w+\.ScheduledJob\{([^}]*)\}")


def parse_job_graph(text, flow):
    """The Dependencies lists of one generated function, renamed to the model's job names
    (tasks by ascending serial = listing order; predicates likewise). The spelling of the
    generated identifiers is not relied upon beyond "<letters><number>.<field>": the jobs
    are the assignments of an Enqueue call with a Job literal; the two kinds of job variable are
    told apart by their counts. Returns None when the text cannot be read with confidence (then
    no verdict is based on it)."""
    jobs = []
    for m in JOB_RE.finditer(text):
        dm = DEPS_RE.search(m.group(3))
        deps = []
        for d in (dm.group(1).split(",") if dm else []):
            d = d.strip()
            if not d:
                continue
            mm = re.match(r"(\w+?)(\d+)\.\w+$", d)
            if not mm:
                return None
            deps.append((mm.group(1), int(mm.group(2))))
        jobs.append(((m.group(1), int(m.group(2))), deps))
    prefixes = {}
    for (pre, n), _ in jobs:
        prefixes.setdefault(pre, set()).add(n)
    ntasks = len(flow.tasks)
    withpred = [t["id"] for t in flow.tasks if t["pred"] is not None]
    if len(jobs) != ntasks + len(withpred) or len(set(j for j, _ in jobs)) != len(jobs) or not 1 <= len(prefixes) <= 2:
        return None
    tpre = [p for p, ns in prefixes.items() if len(ns) == ntasks]
    ppre = [p for p, ns in prefixes.items() if len(ns) == len(withpred)]
    if len(prefixes) == 1:
        if withpred:
            return None
        tp, pp = tpre[0] if tpre else None, None
    elif ntasks != len(withpred):
        tp = tpre[0] if tpre else None
        pp = [p for p in prefixes if p != tp][0]
        if tp is None or len(prefixes[pp]) != len(withpred):
            return None
    else:
        # as many predicates as tasks: the predicate jobs are those no job but one depends on... keep to the names
        tp, pp = ("task", "pred") if set(prefixes) == {"task", "pred"} else (None, None)
    if tp is None:
        return None
    ren = {}
    for i, n in enumerate(sorted(prefixes[tp])):
        ren[(tp, n)] = "t%d" % i
    if pp is not None:
        for i, n in enumerate(sorted(prefixes[pp])):
            ren[(pp, n)] = "q%d" % withpred[i]
    if any(d not in ren for _, deps in jobs for d in deps):
        return None
    return {ren[j]: sorted(ren[d] for d in deps) for j, deps in jobs}


def prologue_case(text):
    """(assigned order, body mentions) of one generated function, positions ranked."""
    lhs = [(m.start(1), m.group(1)) for m in re.finditer(r"^[ \t]*(?:var[ \t]+)?(_\d+_\d+)[ \t]*:?=[ \t]", text, re.M)]
    lhs_at = {a for a, _ in lhs}
    body = [m.group(0) for m in re.finditer(r"\b_\d+_\d+\b", text) if m.start(0) not in lhs_at]

    def key(v):
        a, b = v[1:].split("_")
        return (int(a), int(b))
    rank = {v: i for i, v in enumerate(sorted(set(body) | {v for _, v in lhs}, key=key))}
    return [rank[v] for _, v in lhs], [rank[v] for v in body]


def split_functions(text):
    out = {}
    parts = re.split(r"^func (Flow\d+)\(", text, flags=re.M)
    for i in range(1, len(parts), 2):
        out[parts[i]] = parts[i + 1]
    return out


@common.serialised("gen")
def observe(seed, tier):
    key = "gen-%s-%s-%d-%s" % (common.repo_tree_hash(), _hash_sources(), seed, tier)
    cpath = os.path.join(common.CACHE, key + ".json")
    os.makedirs(common.CACHE, exist_ok=True)
    if os.path.exists(cpath):
        return json.load(open(cpath))
    t0 = time.time()
    quick = tier == "quick"
    nflows = 72 if quick else 1500
    flows, ntypes, r = progen.gen_flows(seed, nflows)
    summary = {"flows": len(flows), "executions": 0, "hits": {}, "samples": [], "dist": {"scenario": {}, "tasks": {}, "features": {}},
               "cff_ok": True, "build_ok": True}

    def hit(p, what, payload):
        lst = summary["hits"].setdefault(p, [])
        if len(lst) < 4:
            lst.append({"what": what, "payload": payload})

    def prepare(tag):
        """write the package, run the real cff on it, type-check the output"""
        mod = common.make_gen_module("beh-%d-%s%s" % (seed, tier, tag))
        gdir = os.path.join(mod, "gen")
        os.makedirs(gdir)
        for name, text in progen.render_package(flows, ntypes).items():
            os.makedirs(os.path.dirname(os.path.join(gdir, name)), exist_ok=True)
            open(os.path.join(gdir, name), "w").write(text)
        rdir = os.path.join(mod, "cmd", "runner")
        os.makedirs(rdir)
        open(os.path.join(rdir, "main.go"), "w").write(progen.render_runner(flows, None, None))
        summary["module"] = mod
        summary["cff_ok"], summary["build_ok"] = True, True
        rc, out = common.run_cff(mod, "./gen")
        summary["cff_output"] = out[-1500:]
        if rc != 0 or "panic:" in out:
            summary["cff_ok"] = False
            hit("C13", "cff failed on a package of well-formed flows (exit %d): %s" % (rc, out.strip().split("\n")[-1][:200]),
                {"output": out[-4000:], "module": mod})
            return mod, gdir
        # every file with directives has an output
        for fn in sorted(os.listdir(gdir)):
            if re.match(r"flows\w*\.go$", fn) and not fn.endswith("_gen.go") and not os.path.exists(os.path.join(gdir, fn[:-3] + "_gen.go")):
                summary["build_ok"] = False
                hit("C13", "cff exited 0 but wrote no output for %s, which contains directives: without the cff tag its functions do not exist" % fn,
                    {"file": fn, "source_head": open(os.path.join(gdir, fn)).read()[:1500], "module": mod, "cff_output": out[-1000:]})
        # the output must type-check without the cff tag and contain no directive call
        for fn in sorted(os.listdir(gdir)):
            if fn.endswith("_gen.go"):
                txt = open(os.path.join(gdir, fn)).read()
                if re.search(r"\b(cff|cffx)\.(Flow|Parallel)\(", txt):
                    hit("C13", "generated file %s still contains a directive call" % fn, {"file": fn})
        rc, o, e = common.run(["go", "build", "./gen/..."], cwd=mod, env=common.GOENV, check=False, timeout=900)
        if rc != 0:
            summary["build_ok"] = False
            errs = [l for l in (o + e).split("\n") if re.search(r"_gen\.go:\d+", l)]
            # which generated functions do not compile, and do they use locals named like generated identifiers?
            culprits = []
            for l in errs[:20]:
                m = re.search(r"(flows\d+_gen\.go):(\d+)", l)
                if m:
                    lines = open(os.path.join(gdir, m.group(1))).read().split("\n")[:int(m.group(2))]
                    fnm = [re.match(r"func (Flow\d+)\(", x).group(1) for x in lines if re.match(r"func (Flow\d+)\(", x)]
                    if fnm:
                        culprits.append(fnm[-1])
            summary["culprits"] = sorted(set(culprits))
            byname = {f.name(): f for f in flows}
            msg = (errs[0].split(": ", 1)[-1] if errs else (o + e).strip().split("\n")[-1])[:200]
            hit("C13", "the generated package does not type-check without the cff tag: %s" % msg,
                {"output": (o + e)[-4000:], "module": mod, "functions": sorted(set(culprits))})
            if culprits and all(byname[c].bare for c in culprits if c in byname):
                c0 = culprits[0]
                hit("C15", "generated code for %s, whose argument expressions name local variables called like identifiers the generated code declares, does not compile: %s" % (c0, msg),
                    {"go_function": c0, "source": byname[c0].render(), "output": (o + e)[-3000:], "module": mod})
        return mod, gdir

    mod, gdir = prepare("")
    if summary["cff_ok"] and not summary["build_ok"] and any(f.bare or f.clock for f in flows):
        # keep the other properties decidable: retry with literal arguments only
        for f in flows:
            f.bare, f.clock = False, False
        summary["plain_fallback"] = True
        mod, gdir = prepare("-plain")
    # generated functions that do not compile: leave them out (the failure stays reported) so that
    # the rest of the package can still be executed and a concrete failing input be searched for
    tries = 0
    while summary["cff_ok"] and not summary["build_ok"] and summary.get("culprits") and tries < 8:
        drop = set(summary["culprits"])
        keep = [f for f in flows if f.name() not in drop]
        if not keep or len(keep) == len(flows):
            break
        summary["build_failed"] = True
        summary.setdefault("dropped_uncompilable", []).extend(sorted(drop))
        flows[:] = keep
        summary["culprits"] = []
        tries += 1
        mod, gdir = prepare("-less%d" % tries)
    gotext = {}
    if summary["cff_ok"]:
        for fn in sorted(os.listdir(gdir)):
            if fn.endswith("_gen.go"):
                gotext.update(split_functions(open(os.path.join(gdir, fn)).read()))
    if gotext:
        names = sorted(gotext)
        cases = [prologue_case(gotext[n]) for n in names]
        outs = common.model_run("prologue", [" ".join(str(x) for x in body) for _, body in cases])
        summary["prologues"] = len(cases)
        for n, (assigned, body), out in zip(names, cases, outs):
            want = [int(x) for x in out.split()]
            if body and not assigned:
                # mentions but no assignment of the shape the reader knows: the text is not read with confidence, no verdict
                summary["prologues_unreadable"] = summary.get("prologues_unreadable", 0) + 1
                continue
            if assigned != want:
                hit("C15", "the prologue of %s assigns the hoisted expressions in order %s (ranks of source positions); sorted, duplicate-free order of the mentioned expressions is %s" % (n, assigned, want),
                    {"go_function": n, "assigned": assigned, "model_prologue": want, "mentions": body, "module": mod})
    if summary["cff_ok"] and summary["build_ok"]:
        exe = os.path.join(mod, "runner.bin")
        common.run(["go", "build", "-o", exe, "./cmd/runner"], cwd=mod, env=common.GOENV, timeout=900)
        plan = []
        for fi, f in enumerate(flows):
            scs = f.scenarios(r, quick=quick)
            for si, (label, sc) in enumerate(scs):
                concs = [1, 2, 0] if label == "allok" else [[1, 2, 4, 0][(fi + si) % 4]]
                for cval in concs:
                    sl = {}
                    if r.random() < 0.5:
                        for t in f.tasks:
                            if r.random() < 0.5:
                                sl["t%d" % t["id"]] = r.randint(1, 400)
                            if t["pred"] is not None and r.random() < 0.3:
                                sl["q%d" % t["id"]] = r.randint(1, 200)
                    plan.append({"flow": f.name(), "label": label, "conc": cval, "scenario": sc, "sleeps": sl})
        for f in flows:
            if getattr(f, "wide", False):
                # default concurrency: with GOMAXPROCS=2 at most max(2,4) task functions may be in flight
                plan.append({"flow": f.name(), "label": "wide", "conc": 0, "scenario": {}, "gomaxprocs": 2,
                             "sleeps": {"t%d" % t["id"]: 3000 for t in f.tasks}})
        for fi, f in enumerate(flows):
            if fi % 3 == 0:
                plan.append({"flow": f.name(), "label": "precancel", "conc": [1, 2, 0][fi % 3], "scenario": {}, "sleeps": {}, "precancel": True})
        json.dump(plan, open(os.path.join(mod, "plan.json"), "w"))
        rc, out, err = common.run([exe], input=json.dumps(plan), check=False, timeout=3000)
        runs = [json.loads(l) for l in out.split("\n") if l.strip()]
        if rc != 0 or len(runs) != len(plan):
            last = [l for l in err.split("\n") if l.startswith("RUN ")]
            entry = plan[len(runs)] if len(runs) < len(plan) else None
            hit("C04", "the process running generated code died (exit %d) during %s" % (rc, last[-1] if last else "?"),
                {"stderr_tail": err[-3000:], "plan_entry": entry})
            if entry and (entry.get("precancel") or "cancel" in entry.get("scenario", {}).values()):
                hit("C09", "a Flow called with a cancelled context did not return: the process died (exit %d) during %s" % (rc, last[-1] if last else "?"),
                    {"stderr_tail": err[-3000:], "plan_entry": entry})
        byname = {f.name(): f for f in flows}
        lines = []
        for run in runs:
            f = byname[run["flow"]]
            lines.append(f.model_line() + " # " + " ".join(
                "%s=%s" % (k, "panic" if v.startswith("panic") else ("err" if v.startswith("err") else v)) for k, v in sorted(run["scenario"].items()) if v != "cancel"))
        preds = common.model_run("flowobs", lines) if lines else []
        graphs_checked = set()
        for run, pred in zip(runs, preds):
            f = byname[run["flow"]]
            if f.name() not in graphs_checked:
                graphs_checked.add(f.name())
                want = {}
                for ent in pred.rsplit("JOBS=", 1)[1].split(";"):
                    if ent:
                        j, ds = ent.split(":")
                        want[j] = sorted(d for d in ds.split(",") if d)
                got = parse_job_graph(gotext.get(f.name(), ""), f)
                if got is None:
                    # the generated text is not of the shape the reader knows: no structural verdict
                    summary["graphs_unreadable"] = summary.get("graphs_unreadable", 0) + 1
                    got = want
                else:
                    summary["graphs"] = summary.get("graphs", 0) + 1
                gs = {j: sorted(set(d)) for j, d in got.items()}
                ws = {j: sorted(set(d)) for j, d in want.items()}
                if gs != ws:
                    missing = {j: sorted(set(ws[j]) - set(gs.get(j, []))) for j in ws if set(ws[j]) - set(gs.get(j, [])) or j not in gs}
                    if missing:
                        # a job may then run before the job that assigns what it reads (Layer 0 allows that schedule)
                        for p in ("C02", "C01"):
                            hit(p, "the generated code omits dependencies the dataflow needs (job: missing providers) %s: the scheduler may run the job before its provider" % missing,
                                {"flow": f.model_line(), "go_function": f.name(), "generated": got, "model": want, "module": mod})
                        # a task that does not wait for its own predicate reads the predicate's flag and its captured
                        # panic before they are written: the predicate's verdict (C11) and its panic (C04) can be lost
                        lost_pred = {j: m for j, m in missing.items() if j.startswith("t") and ("q" + j[1:]) in m}
                        if lost_pred:
                            for p in ("C04", "C11"):
                                hit(p, "task job(s) %s do not depend on the job of their own predicate: in a schedule that runs the task job first, a panic of the predicate is never reported (C04_lost_predicate_edge_refuted) and a task whose predicate returns true is not invoked (C11_lost_predicate_edge_refuted)" % sorted(lost_pred),
                                    {"flow": f.model_line(), "go_function": f.name(), "generated": got, "model": want, "module": mod})
                    else:
                        hit("GRAPH", "the Dependencies lists in the generated code have edges the model's job graph lacks: generated %s, model %s" % (gs, ws),
                            {"flow": f.model_line(), "go_function": f.name(), "generated": got, "model": want})
                    extra_pred = {j: sorted(set(gs[j]) - set(ws.get(j, []))) for j in gs if j.startswith("q") and set(gs[j]) - set(ws.get(j, []))}
                    if extra_pred:
                        hit("C11", "the predicate job waits for jobs that provide none of its own inputs (job: extra dependencies) %s: the predicate is not evaluated as soon as its own inputs are available" % extra_pred,
                            {"flow": f.model_line(), "go_function": f.name(), "generated": got, "model": want, "module": mod})
            summary["executions"] += 1
            if len(f.tasks) >= 2 or run["scenario"] or run.get("precancel"):
                summary.setdefault("distinct_keys", []).append(hashlib.sha1(json.dumps(
                    [f.model_line(), run["scenario"], run["conc"], bool(run.get("precancel"))], sort_keys=True).encode()).hexdigest()[:12])
            summary["dist"]["scenario"][run["label"]] = summary["dist"]["scenario"].get(run["label"], 0) + 1
            for p, msgs in compare(f, run, pred).items():
                hit(p, msgs[0], {"flow": f.model_line(), "go_function": f.name(), "scenario": run["scenario"], "conc": run["conc"],
                                 "observed": {k: run[k] for k in ("err", "results", "calls", "args", "events")},
                                 "model_prediction": pred, "all": msgs[:4], "module": mod})
            if len(summary.setdefault("coqcases", [])) < (8 if quick else 60) and summary["executions"] % 7 == 0 and not run.get("precancel"):
                summary["coqcases"].append([f.model_line(), {k: ("panic" if v.startswith("panic") else ("err" if v.startswith("err") else v)) for k, v in run["scenario"].items() if v != "cancel"}, pred])
            if len(summary["samples"]) < 3 and run["label"] != "allok":
                summary["samples"].append({"flow": f.model_line(), "scenario": run["scenario"], "observed_err": run["err"],
                                           "observed_calls": run["calls"], "model": pred})
        for f in flows:
            k = str(len(f.tasks))
            summary["dist"]["tasks"][k] = summary["dist"]["tasks"].get(k, 0) + 1
            for feat, on in (("predicate", any(t["pred"] is not None for t in f.tasks)), ("fallback", any(t["fallback"] for t in f.tasks)),
                             ("instrumented", f.emitters > 0), ("invoke", any(t["invoke"] for t in f.tasks)),
                             ("ctx", any(t["wantctx"] for t in f.tasks))):
                if on:
                    summary["dist"]["features"][feat] = summary["dist"]["features"].get(feat, 0) + 1
    summary["wall_s"] = round(time.time() - t0, 1)
    with open(cpath, "w") as fh:
        json.dump(summary, fh)
    return summary


def race_run(mod, key, limit):
    """Builds the runner of an already generated module with the Go race detector and executes
    the first `limit` entries of its plan. Returns {"executions", "races", "report", "during"}."""
    cpath = os.path.join(common.CACHE, key + "-race.json")
    if os.path.exists(cpath):
        return json.load(open(cpath))
    res = {"executions": 0, "races": 0, "report": "", "during": ""}
    planp = os.path.join(mod, "plan.json")
    if os.path.exists(planp):
        plan = json.load(open(planp))[:limit]
        exe = os.path.join(mod, "runner-race.bin")
        rc, o, e = common.run(["go", "build", "-race", "-o", exe, "./cmd/runner"], cwd=mod, env=common.GOENV, check=False, timeout=1800)
        if rc == 0:
            env = dict(common.GOENV)
            env["GORACE"] = "halt_on_error=0"
            rc, out, err = common.run([exe], input=json.dumps(plan), env=env, check=False, timeout=3000)
            res["executions"] = len([l for l in out.split("\n") if l.strip()])
            res["races"] = err.count("WARNING: DATA RACE")
            if res["races"]:
                i = err.index("WARNING: DATA RACE")
                res["report"] = err[i:i + 2500]
                runs = [l for l in err[:i].split("\n") if l.startswith("RUN ")]
                res["during"] = runs[-1] if runs else ""
        else:
            res["build_error"] = (o + e)[-500:]
    with open(cpath, "w") as fh:
        json.dump(res, fh)
    return res


def apply_race(chk, limit):
    """C12: the generated plumbing (vN / pN variables, ran flags, Results copies) under the race detector"""
    s = observe(chk.seed, chk.tier)
    if not (s["cff_ok"] and s["build_ok"]):
        return
    key = "gen-%s-%s-%d-%s" % (common.repo_tree_hash(), _hash_sources(), chk.seed, chk.tier)
    r = race_run(s["module"], key, limit)
    chk.cov["evaluations"] += r["executions"]
    chk.cov.setdefault("correspondence", {})["generated_flows_race_detector"] = {
        "kind": "runner of the generated flows built with -race, executed on the scenario plan", "executions": r["executions"], "races": r["races"]}
    if r["races"]:
        chk.violate("the Go race detector reports a data race in generated Flow code during %s" % r["during"], {"report": r["report"], "during": r["during"], "module": s["module"]})


def apply(chk, pid):
    s = observe(chk.seed, chk.tier)
    chk.cov["evaluations"] += s["executions"]
    chk.cov["traces_validated_against_impl"] = chk.cov.get("traces_validated_against_impl", 0) + s["executions"]
    chk.cov.setdefault("correspondence", {})["generated_flows"] = {
        "kind": "programs generated from abstract flows are compiled by the real cff, built and executed under scenario tables; every execution is compared with FlowSemModel's prediction (extracted)",
        "flows": s["flows"], "executions": s["executions"], "job_graphs_compared_with_generated_code": s.get("graphs", 0),
        "prologues_compared_with_model": s.get("prologues", 0),
        "input_distribution": s["dist"]}
    for smp in s["samples"][:2]:
        chk.sample(smp)
    for k in s.get("distinct_keys", []):
        chk.distinct.add(("gen", k))
    rule = ("generated flows: seeded layered DAGs (1-6 tasks, shuffled listing; predicates, FallbackWith, Invoke, ctx parameters, instrumentation, spelling variants of the file), "
            "each executed under the all-ok scenario at three concurrency levels, every single-failure scenario (error, panic with four kinds of value, predicate false/panic, in-task "
            "cancellation) and a pre-cancelled context; distinct = different (abstract flow, scenario, concurrency); non-trivial = at least two tasks or a non-empty scenario")
    if rule not in chk.cov["rule"]:
        chk.cov["rule"] = (chk.cov["rule"] + " | " if chk.cov["rule"] else "") + rule
    for h in s["hits"].get(pid, [])[:1]:
        chk.violate(h["what"], h["payload"])
    if pid in ("C01", "C02"):
        for h in s["hits"].get("GRAPH", [])[:1]:
            chk.fail_no_input("correspondence job-graph(generated code) = jdeps(model) no longer holds: " + h["what"], {"correspondence": "job graph", "detail": h["payload"]})
    for h in s["hits"].get("MODEL", [])[:1]:
        chk.fail_no_input("the two Coq models of a Flow disagree with each other: " + h["what"], {"theorem": "FlowOpModel vs FlowSemModel (extracted)", "detail": h["payload"]})
    if pid != "C13" and (not (s["cff_ok"] and s["build_ok"]) or s.get("build_failed")):
        chk.fail_no_input("correspondence generated-code/FlowSemModel could not run: the generated package was not produced or does not build",
                          {"correspondence": "generated_flows", "hits": s["hits"].get("C13", [])[:1]})
    return s
