"""Shared machinery of the /verif checks: building the Coq development, the
extracted model and the Go harness from the current trees, re-checking a
property's theorems, writing evidence, reporting violations and known findings."""
import hashlib
import json
import os
import re
import subprocess
import sys
import time

VERIF = os.path.dirname(os.path.dirname(os.path.abspath(__file__)))
REPO = os.environ.get("VERIF_REPO", "/repo")
COQ = os.path.join(VERIF, "coq")
MODEL = os.path.join(VERIF, "model")
HARNESS = os.path.join(VERIF, "harness")
CACHE = os.path.join(VERIF, ".cache")
BIN = os.path.join(CACHE, "bin")
EVIDENCE = os.path.join(VERIF, "evidence")
REPLAYS = os.path.join(VERIF, "replays")

GOENV = dict(os.environ)
GOENV.update({
    "GOFLAGS": "-mod=mod", "GOPROXY": "off", "GOSUMDB": "off", "GOTOOLCHAIN": "local",
    "CGO_ENABLED": os.environ.get("CGO_ENABLED", "1"),
})

TRUSTED_BASE = [
    "Coq 8.16.1 kernel (coqc; vm_compute used for witnesses and finite sweeps; native_compute not used)",
    "no axioms: Print Assumptions of every property theorem is re-read on every run",
    "extraction: ExtrOcamlBasic only (bool, option, unit, list, prod, sumbool, sumor; andb, orb, negb, fst, snd), OCaml 4.13.1, hand-written driver model/driver.ml (parsing/printing)",
    "correspondence harness (Go, /verif/harness) and this driver (python3)",
    "verif-tagged hooks in /repo assumed not to change behaviour other than timing",
]


class Violation(Exception):
    def __init__(self, what, replay, found_input=True):
        super().__init__(what)
        self.what = what
        self.replay = replay
        self.found_input = found_input


_HELD = {}


class locked:
    """Exclusive advisory lock on a named resource of the shared cache (checks of different
    properties may run at the same time: they share builds, generated modules and cached
    observations). Re-entrant within one process."""

    def __init__(self, name):
        self.name = re.sub(r"[^A-Za-z0-9_.-]", "_", name)

    def __enter__(self):
        if _HELD.get(self.name, 0) == 0:
            import fcntl
            d = os.path.join(CACHE, "locks")
            os.makedirs(d, exist_ok=True)
            self.f = open(os.path.join(d, self.name + ".lock"), "w")
            fcntl.flock(self.f, fcntl.LOCK_EX)
            _HELD[self.name + "#f"] = self.f
        _HELD[self.name] = _HELD.get(self.name, 0) + 1
        return self

    def __exit__(self, *a):
        _HELD[self.name] -= 1
        if _HELD[self.name] == 0:
            import fcntl
            f = _HELD.pop(self.name + "#f")
            fcntl.flock(f, fcntl.LOCK_UN)
            f.close()
        return False


def serialised(name):
    """Decorator for the observation functions: one process at a time per (name, arguments); the
    others wait and then find the cached result."""
    def deco(fn):
        def wrapper(*a, **kw):
            with locked("%s-%s" % (name, "-".join(str(x) for x in a[:2]))):
                return fn(*a, **kw)
        wrapper.__name__ = fn.__name__
        wrapper.__doc__ = fn.__doc__
        return wrapper
    return deco


def log(*a):
    print(*a, file=sys.stderr, flush=True)


def run(cmd, cwd=None, env=None, timeout=1800, check=True, input=None):
    """Run a command; return (rc, stdout, stderr). Strips the conda warning line."""
    p = subprocess.run(cmd, cwd=cwd, env=env or os.environ, timeout=timeout, input=input,
                       stdout=subprocess.PIPE, stderr=subprocess.PIPE, text=True,
                       shell=isinstance(cmd, str))
    out = "\n".join(l for l in p.stdout.split("\n") if "conda.cli.condarc" not in l)
    err = "\n".join(l for l in p.stderr.split("\n") if "conda.cli.condarc" not in l)
    if check and p.returncode != 0:
        raise RuntimeError("command failed (%d): %s\n%s\n%s" % (p.returncode, cmd, out[-4000:], err[-4000:]))
    return p.returncode, out, err


# ---------------------------------------------------------------- Coq

def coq_files():
    with open(os.path.join(COQ, "_CoqProject")) as f:
        return [l.strip() for l in f if l.strip().endswith(".v")]


def coq_build():
    """Full .vo build of the development (no-op when up to date)."""
    if not os.path.exists(os.path.join(COQ, "Makefile")):
        run("coq_makefile -f _CoqProject -o Makefile", cwd=COQ)
    rc, out, err = run("timeout 3000 make -j16", cwd=COQ, check=False, timeout=3100)
    return rc == 0, out + err


HYGIENE_RE = re.compile(
    r"\b(Admitted|admit|Axiom|Axioms|Parameter|Parameters|Conjecture|Admit Obligations)\b|Unset Guard|bypass_check|type-in-type|impredicative-set")


def strip_coq_comments(text):
    out, depth, i = [], 0, 0
    while i < len(text):
        if text.startswith("(*", i):
            depth += 1
            i += 2
        elif text.startswith("*)", i) and depth > 0:
            depth -= 1
            i += 2
        else:
            if depth == 0:
                out.append(text[i])
            i += 1
    return "".join(out)


def coq_hygiene():
    """No Admitted/admit/Axiom/Parameter/... anywhere in the development (comments stripped)."""
    bad = []
    for root, _, files in os.walk(COQ):
        for fn in files:
            if fn.endswith(".v"):
                p = os.path.join(root, fn)
                txt = strip_coq_comments(open(p).read())
                for n, line in enumerate(txt.split("\n"), 1):
                    if HYGIENE_RE.search(line):
                        bad.append("%s:%d: %s" % (os.path.relpath(p, VERIF), n, line.strip()))
    return bad


THEOREM_RE = re.compile(r"^\s*(Theorem|Lemma|Corollary|Example|Fact|Proposition)\s+([A-Za-z0-9_']+)", re.M)


def count_obligations(files):
    names = []
    for f in files:
        p = os.path.join(COQ, f)
        if os.path.exists(p):
            txt = strip_coq_comments(open(p).read())
            names += [m.group(2) for m in THEOREM_RE.finditer(txt)]
    return names


def prop_recheck(pid, dep_files):
    """Re-compile props/<pid>.v from scratch; return dict with the theorem names, the
    Print Assumptions verdicts and the obligations (theorems+lemmas in dep_files)."""
    with locked("coq"):
        return _prop_recheck(pid, dep_files)


def _prop_recheck(pid, dep_files):
    t0 = time.time()
    ok, out = coq_build()
    res = {"build_ok": ok, "build_log": out[-3000:] if not ok else ""}
    pf = "props/%s.v" % pid
    vo = os.path.join(COQ, "props", pid + ".vo")
    if os.path.exists(vo):
        os.remove(vo)
    rc, o, e = run("timeout 900 coqc -Q . CffVerif %s" % pf, cwd=COQ, check=False, timeout=1000)
    res["prop_ok"] = rc == 0
    res["prop_log"] = (o + e)[-3000:]
    closed = o.count("Closed under the global context")
    axioms = re.findall(r"^Axioms:\n((?:.+\n)+)", o, re.M)
    res["closed"] = closed
    res["axioms"] = [a.strip() for a in axioms]
    thms = count_obligations([pf])
    res["theorems"] = thms
    allnames = count_obligations([pf] + dep_files)
    res["obligations"] = len(allnames)
    res["discharged"] = len(allnames) if (ok and rc == 0) else 0
    res["hygiene"] = coq_hygiene()
    res["wall_s"] = time.time() - t0
    return res


def coqchk():
    """Independent re-check of the compiled development with coqchk (once per state of the
    Coq sources; about two minutes). Returns {"ok", "axioms", "summary"}."""
    with locked("coq"):
        return _coqchk()


def _coqchk():
    h = hashlib.sha1()
    for root, _, files in sorted(os.walk(COQ)):
        for fn in sorted(files):
            if fn.endswith(".v") or fn == "_CoqProject":
                h.update(open(os.path.join(root, fn), "rb").read())
    os.makedirs(CACHE, exist_ok=True)
    cpath = os.path.join(CACHE, "coqchk-%s.json" % h.hexdigest()[:16])
    if os.path.exists(cpath):
        return json.load(open(cpath))
    mods = []
    for f in coq_files():
        mods.append("CffVerif." + f[:-2].replace("/", "."))
    rc, out, err = run("timeout 3000 coqchk -silent -o -Q . CffVerif " + " ".join(mods), cwd=COQ, check=False, timeout=3100)
    txt = out + err
    m = re.search(r"\* Axioms:(.*?)\n\s*\n\* Constants/Inductives relying on type-in-type:(.*?)\n\s*\n\* Constants/Inductives relying on unsafe \(co\)fixpoints:(.*?)\n\s*\n\* Inductives whose positivity is assumed:(.*?)\n", txt + "\n\n", re.S)
    res = {"ok": rc == 0, "axioms": m.group(1).strip() if m else "?", "type_in_type": m.group(2).strip() if m else "?",
           "unsafe_fixpoints": m.group(3).strip() if m else "?", "assumed_positivity": m.group(4).strip() if m else "?",
           "modules": len(mods), "summary": txt[txt.find("CONTEXT SUMMARY"):][:1500]}
    os.makedirs(EVIDENCE, exist_ok=True)
    with open(os.path.join(EVIDENCE, "coqchk.txt"), "w") as fh:
        fh.write("coqchk -silent -o -Q . CffVerif <%d modules of _CoqProject>\nexit %d\n%s\n" % (len(mods), rc, res["summary"]))
    with open(cpath, "w") as fh:
        json.dump(res, fh)
    return res


# ---------------------------------------------------------------- model binary

def model_build():
    """(Re)build the extracted OCaml model if any .vo or the driver is newer."""
    exe = os.path.join(MODEL, "cffmodel")
    with locked("coq"), locked("model"):
        newest = 0
        for fn in os.listdir(COQ):        # the models; props/*.vo are re-compiled by every check and are not extracted
            if fn.endswith(".vo"):
                newest = max(newest, os.path.getmtime(os.path.join(COQ, fn)))
        for fn in ("driver.ml", "Extract.v"):
            newest = max(newest, os.path.getmtime(os.path.join(MODEL, fn)))
        if not os.path.exists(exe) or os.path.getmtime(exe) < newest:
            run("sh ./build.sh", cwd=MODEL, timeout=900)
    return exe


def model_run(sub, lines, args=()):
    exe = model_build()
    rc, out, err = run([exe, sub] + list(args), input="\n".join(lines) + "\n", timeout=3000)
    res = out.split("\n")
    if res and res[-1] == "":
        res.pop()
    return res


# ---------------------------------------------------------------- Go side

def repo_tree_hash():
    """Hash of /repo's working tree (tracked + untracked non-ignored content)."""
    rc, out, _ = run("git -C %s rev-parse HEAD; git -C %s status --porcelain; git -C %s diff" % (REPO, REPO, REPO))
    return hashlib.sha1(out.encode()).hexdigest()[:16]


def go_sum():
    src = os.path.join(REPO, "go.sum")
    dst = os.path.join(HARNESS, "go.sum")
    if not os.path.exists(dst) or open(src).read() != open(dst).read():
        tmp = "%s.%d" % (dst, os.getpid())
        with open(tmp, "w") as f:
            f.write(open(src).read())
        os.replace(tmp, dst)


def go_build(cmdname, race=False, tags="verif"):
    """Build a harness command against /repo's current working tree (hooks on)."""
    os.makedirs(BIN, exist_ok=True)
    go_sum()
    out = os.path.join(BIN, cmdname + ("-race" if race else ""))
    tmp = "%s.%d" % (out, os.getpid())
    cmd = ["go", "build", "-tags", tags, "-o", tmp]
    if race:
        cmd.append("-race")
    cmd.append("./cmd/" + cmdname)
    with locked("gobuild-" + os.path.basename(out)):
        run(cmd, cwd=HARNESS, env=GOENV, timeout=1200)
        os.replace(tmp, out)      # a copy another check is executing stays valid
    return out


def cff_build():
    """Build the cff binary from /repo's working tree."""
    os.makedirs(BIN, exist_ok=True)
    out = os.path.join(BIN, "cff")
    tmp = "%s.%d" % (out, os.getpid())
    with locked("gobuild-cff"):
        run(["go", "build", "-o", tmp, "./cmd/cff"], cwd=REPO, env=GOENV, timeout=1200)
        os.replace(tmp, out)
    return out


# ---------------------------------------------------------------- evidence / verdicts

def known_findings():
    p = os.path.join(VERIF, "known_findings.json")
    if os.path.exists(p):
        return json.load(open(p))
    return {"findings": [], "fixed": []}


def write_replay(pid, payload):
    os.makedirs(REPLAYS, exist_ok=True)
    blob = json.dumps(payload, indent=1, sort_keys=True, default=str)
    h = hashlib.sha1(blob.encode()).hexdigest()[:10]
    path = os.path.join(REPLAYS, "%s-%s.json" % (pid, h))
    with open(path, "w") as f:
        f.write(blob)
    return path


def write_evidence(pid, tier, seed, coverage, assumptions, wall_s, violations):
    os.makedirs(EVIDENCE, exist_ok=True)
    ev = {
        "property_id": pid, "tier": tier, "seed": seed, "level": "proof",
        "coverage": coverage, "assumptions": assumptions,
        "wall_s": round(wall_s, 2), "violations": violations,
    }
    with open(os.path.join(EVIDENCE, pid + ".json"), "w") as f:
        json.dump(ev, f, indent=1, default=str)


class Check:
    """One run of one property's check. Collects proof status, correspondence
    statistics and violations, then writes evidence and prints the verdict."""

    def __init__(self, pid, tier, seed, dep_files):
        self.pid, self.tier, self.seed = pid, tier, seed
        self.dep_files = dep_files
        self.t0 = time.time()
        self.cov = {"evaluations": 0, "distinct_nontrivial": 0, "traces_validated_against_impl": 0,
                    "samples": [], "rule": "", "correspondence": {}}
        self.assumptions = []
        self.violations = []      # (what, replay_path, found_input)
        self.known_hits = []
        self.distinct = set()

    # -- proofs
    def recheck_proofs(self):
        r = prop_recheck(self.pid, self.dep_files)
        self.cov["obligations"] = r["obligations"]
        self.cov["discharged"] = r["discharged"]
        self.cov["theorems"] = r["theorems"]
        self.cov["print_assumptions"] = {"closed_under_global_context": r["closed"], "axioms": r["axioms"]}
        self.cov["checker_cmd"] = "make -C coq (coq_makefile, full .vo build) && coqc -Q . CffVerif props/%s.v" % self.pid
        self.cov["trusted_base"] = list(TRUSTED_BASE)
        self.cov["proof_wall_s"] = round(r["wall_s"], 1)
        if r["hygiene"]:
            self.fail_no_input("hygiene: forbidden vernacular in the development: %s" % r["hygiene"][:5],
                               {"theorem": "hygiene", "lines": r["hygiene"]})
        if not r["build_ok"]:
            self.fail_no_input("Coq development does not build", {"theorem": "make", "log": r["build_log"]})
        elif not r["prop_ok"]:
            self.fail_no_input("props/%s.v does not check" % self.pid, {"theorem": "props/%s.v" % self.pid, "log": r["prop_log"]})
        elif r["axioms"]:
            self.fail_no_input("property theorems depend on axioms", {"theorem": "Print Assumptions", "axioms": r["axioms"]})
        if self.tier == "thorough" and r["build_ok"]:
            ck = coqchk()
            self.cov["coqchk"] = {k: ck[k] for k in ("ok", "axioms", "type_in_type", "unsafe_fixpoints", "assumed_positivity", "modules")}
            if not ck["ok"] or any(ck[k] != "<none>" for k in ("axioms", "type_in_type", "unsafe_fixpoints", "assumed_positivity")):
                self.fail_no_input("coqchk does not accept the compiled development without axioms or disabled checks", {"theorem": "coqchk", "summary": ck["summary"]})
        return r

    # -- bookkeeping
    def count(self, n=1, key=None, nontrivial=True):
        self.cov["evaluations"] += n
        if key is not None and nontrivial:
            self.distinct.add(key)

    def sample(self, s, cap=6):
        if len(self.cov["samples"]) < cap:
            self.cov["samples"].append(s)

    def violate(self, what, payload):
        """A concrete failing input was found."""
        payload = dict(payload)
        payload.update({"property": self.pid, "what": what, "seed": self.seed, "tier": self.tier,
                        "rerun": "cd /verif && VERIF_SEED=%d ./check %s --tier %s" % (self.seed, self.pid, self.tier)})
        # known finding?
        for f in known_findings().get("findings", []):
            if f["property"] == self.pid and re.search(f["match"], what):
                if f["id"] not in [k["id"] for k in self.known_hits]:
                    self.known_hits.append(f)
                return
        path = write_replay(self.pid, payload)
        self.violations.append((what, path, True))

    def fail_no_input(self, what, payload):
        payload = dict(payload)
        payload.update({"property": self.pid, "what": what, "seed": self.seed, "tier": self.tier,
                        "no_failing_input_found": True,
                        "rerun": "cd /verif && VERIF_SEED=%d ./check %s --tier %s" % (self.seed, self.pid, self.tier)})
        path = write_replay(self.pid, payload)
        self.violations.append((what, path, False))

    def finish(self):
        self.cov["distinct_nontrivial"] = len(self.distinct)
        wall = time.time() - self.t0
        # a violation with a concrete input supersedes the no-input ones
        write_evidence(self.pid, self.tier, self.seed, self.cov, self.assumptions, wall, len(self.violations))
        for f in self.known_hits:
            print("KNOWN-FINDING: property=%s %s" % (self.pid, f["what"]))
        if not self.violations:
            print("OK property=%s tier=%s evaluations=%d obligations=%d/%d wall=%.1fs" % (
                self.pid, self.tier, self.cov["evaluations"], self.cov.get("discharged", 0),
                self.cov.get("obligations", 0), wall))
            return 0
        withinput = [v for v in self.violations if v[2]]
        chosen = withinput[0] if withinput else self.violations[0]
        for v in self.violations:
            log("violation: %s (%s)" % (v[0], v[1]))
        line = "VIOLATION property=%s replay=%s" % (self.pid, chosen[1])
        if not chosen[2]:
            line += " no-failing-input-found"
        print(line)
        return 1


# ---------------------------------------------------------------- generated Go modules

def make_gen_module(name):
    """A scratch Go module under .cache/gen/<name> that resolves go.uber.org/cff to /repo."""
    import shutil
    d = os.path.join(CACHE, "gen", name)
    if os.path.exists(d):
        shutil.rmtree(d)
    os.makedirs(d)
    with open(os.path.join(d, "go.mod"), "w") as f:
        f.write("module example.com/vgen\n\ngo 1.19\n\nrequire go.uber.org/cff v0.0.0\n\nreplace go.uber.org/cff => %s\n" % REPO)
    with open(os.path.join(d, "go.sum"), "w") as f:
        f.write(open(os.path.join(REPO, "go.sum")).read())
    return d


def run_cff(moddir, pattern, extra=()):
    """Run the cff binary built from /repo on a package pattern; returns (rc, stdout+stderr)."""
    exe = cff_build()
    rc, out, err = run([exe] + list(extra) + [pattern], cwd=moddir, env=GOENV, check=False, timeout=1800)
    return rc, out + "\n" + err
