"""Tie of ParSigModel (compile_par_task, compile_slice, compile_map, compile_end, the
End-vs-ContinueOnError rule) to internal/compile_parallel.go: one cff.Parallel per file with
one item (a task, a Slice or a Map, with zero to two End options, with or without
ContinueOnError) over random function shapes. The real cff's verdict and diagnostics must be
the model's; the accepted files' generated code must build (the element calls
fn(ctx?, idx?, val) / fn(ctx?, key, val) are the signatures: C14_parallel_slice_shape,
C14_parallel_map_shape)."""
import os
import random
import re

import common
import coq_cases

GO = {"c": "context.Context", "e": "error", "b": "bool", "0": "int", "1": "string", "2": "T2", "3": "int64", "9": "interface{}"}

# model diagnostic -> regex of the message the code prints for it (by item kind where the text differs)
RX = {
    "PFn:SVariadic": r"variadic functions are not yet supported",
    "PFn:SCtxPos": r"only the first argument may be context\.Context",
    "PFn:SErrPos": r"only the last result may be an error",
    "PTaskArgs": r"parallel tasks function is invalid: the only allowed argument is a single context\.Context parameter",
    "PTaskResults": r"parallel tasks function is invalid: the only allowed return value is an error",
    "PSliceResults": r"the only allowed return value is an error",
    "PSliceArity": r"slice function expects one or two non-context arguments",
    "PSliceIndex": r"the first non-context argument of the slice function must be an int",
    "PSliceElem": r"slice element of type .* cannot be passed as a parameter",
    "PMapResults": r"the only allowed return value is an error",
    "PMapArity": r"map function expects two non-context arguments",
    "PMapKey": r"key element of type .* cannot be passed as a parameter",
    "PMapVal": r"value element of type .* cannot be passed as a parameter",
    "PEndArgs:S": r"the only allowed argument is a single context\.Context parameter",
    "PEndResults:S": r"the only allowed return value is an error",
    "PEndArgs:M": r"MapEnd functions should accept at most one context\.Context parameter",
    "PEndResults:M": r"MapEnd functions should return an error or nothing",
    "PEndTwice:S": r"cff\.Slice accepts at most one cff\.SliceEnd option",
    "PEndTwice:M": r"cff\.Map accepts at most one cff\.MapEnd option",
    "PEndWithCOE:S": r'"cff\.SliceEnd" is an invalid option when "ContinueOnError" is used',
    "PEndWithCOE:M": r'"cff\.MapEnd" is an invalid option when "ContinueOnError" is used',
}
FOLLOW_ON = r"failed to compile"     # "slice function failed to compile", "parallel task failed to compile", ...


def sig(v, ps, rs):
    return "%d %s > %s" % (1 if v else 0, " ".join(ps), " ".join(rs))


class Case:
    def __init__(self):
        self.kind = "T"       # T, S, M
        self.task_style = "Task"
        self.fn = (False, [], [])
        self.elem = None      # S: elem type; M: (key, val)
        self.ends = []
        self.coe = False

    def line(self):
        if self.kind == "T":
            item = "T " + sig(*self.fn)
        elif self.kind == "S":
            item = "S %s @ %s" % (sig(*self.fn), self.elem)
        else:
            item = "M %s @ %s %s" % (sig(*self.fn), self.elem[0], self.elem[1])
        for e in self.ends:
            item += " ; E " + sig(*e)
        return "COE %d | %s" % (1 if self.coe else 0, item)


def gen_nullary(r):
    ps = r.choice([[]] * 5 + [["c"]] * 7 + [["0"], ["c", "1"], ["1", "c"], ["c", "c"]])
    rs = r.choice([[]] * 5 + [["e"]] * 7 + [["0"], ["1", "e"], ["e", "1"]])
    return (r.random() < 0.04, list(ps), list(rs))


def gen_case(r):
    c = Case()
    c.kind = r.choice(["T", "S", "S", "M", "M"])
    c.coe = r.random() < 0.2
    if c.kind == "T":
        c.fn = gen_nullary(r)
        c.task_style = r.choice(["Task", "Tasks"])
        return c
    vals = ["0", "1", "2", "3"]
    ctx = r.choice([[], ["c"], ["c"]])
    rs = r.choice([[]] * 4 + [["e"]] * 6 + [["1"], ["0", "e"]])
    if c.kind == "S":
        el = r.choice(vals)
        c.elem = el
        p = el if r.random() < 0.85 else r.choice(vals + ["9"])
        shape = r.random()
        if shape < 0.40:
            ps = [p]
        elif shape < 0.78:
            ps = ["0", p]
        elif shape < 0.89:
            ps = [r.choice(["1", "3", "3"]), p]      # index of the wrong type
        elif shape < 0.94:
            ps = []
        else:
            ps = ["0", p, r.choice(vals)]
        ps = ctx + ps
        if r.random() < 0.06 and len(ps) >= 2:
            ps = ps[1:] + ps[:1] if ps[0] == "c" else ps
        c.fn = (r.random() < 0.03, ps, list(rs))
    else:
        k, v = r.choice(["0", "1", "3"]), r.choice(vals)
        c.elem = (k, v)
        pk = k if r.random() < 0.9 else r.choice(["0", "1", "3", "9"])
        pv = v if r.random() < 0.9 else r.choice(vals + ["9"])
        shape = r.random()
        if shape < 0.86:
            ps = [pk, pv]
        elif shape < 0.93:
            ps = [pv]
        else:
            ps = [pk, pv, r.choice(vals)]
        c.fn = (r.random() < 0.03, ctx + ps, list(rs))
    ne = r.choice([0, 0, 1, 1, 1, 2])
    c.ends = [gen_nullary(r) for _ in range(ne)]
    return c


def render(i, c):
    L = ["//go:build cff", "", "package vparsig", "", "import (", '\t"context"', "", '\t"go.uber.org/cff"', ")", ""]

    def fn(name, variadic, ps, rs):
        ps_ = ["p%d %s" % (k, GO[t]) for k, t in enumerate(ps)]
        if variadic:
            ps_.append("rest ...int")
        body = ["\tvar r%d %s" % (k, GO[t]) for k, t in enumerate(rs)]
        ret = "\treturn " + ", ".join("r%d" % k for k in range(len(rs))) if rs else ""
        return ["func %s(%s) (%s) {" % (name, ", ".join(ps_), ", ".join(GO[t] for t in rs))] + body + ([ret] if ret else []) + ["}", ""]
    L += fn("pf%04d" % i, *c.fn)
    for k, e in enumerate(c.ends):
        L += fn("pe%04d_%d" % (i, k), *e)
    L.append("func Par%04d(ctx context.Context) error {" % i)
    opts = []
    if c.kind == "T":
        item = "cff.%s(pf%04d)" % (c.task_style, i)
    elif c.kind == "S":
        L.append("\tvar coll []%s" % GO[c.elem])
        item = "cff.Slice(%s)" % ", ".join(["pf%04d" % i, "coll"] + ["cff.SliceEnd(pe%04d_%d)" % (i, k) for k in range(len(c.ends))])
    else:
        L.append("\tvar coll map[%s]%s" % (GO[c.elem[0]], GO[c.elem[1]]))
        item = "cff.Map(%s)" % ", ".join(["pf%04d" % i, "coll"] + ["cff.MapEnd(pe%04d_%d)" % (i, k) for k in range(len(c.ends))])
    opts.append(item)
    if c.coe:
        opts.insert(random.Random(i).randint(0, 1), "cff.ContinueOnError(true)")
    L.append("\treturn cff.Parallel(ctx,")
    for o in opts:
        L.append("\t\t%s," % o)
    L.append("\t)")
    L.append("}")
    return "\n".join(L) + "\n"


def coq_example(c, mv):
    def ty(t):
        return {"c": "GCtx", "e": "GErr", "b": "GBool"}.get(t, "GVal %s" % t)

    def sg(v, ps, rs):
        return "{| sg_variadic := %s; sg_params := [%s]; sg_results := [%s] |}" % (
            "true" if v else "false", "; ".join(ty(t) for t in ps), "; ".join(ty(t) for t in rs))
    ends = "[%s]" % "; ".join(sg(*e) for e in c.ends)
    if c.kind == "T":
        it = "ITask (%s)" % sg(*c.fn)
    elif c.kind == "S":
        it = "ISlice (%s) (%s) %s" % (sg(*c.fn), ty(c.elem), ends)
    else:
        it = "IMap (%s) (%s) (%s) %s" % (sg(*c.fn), ty(c.elem[0]), ty(c.elem[1]), ends)
    ds = []
    if mv.startswith("REJECT"):
        for d in mv.split()[1].split(","):
            ds.append("PFn %s" % d[4:] if d.startswith("PFn:") else d)
    return "compile_parallel (fun a b => gty_eqb a b || gty_eqb b (GVal 9)) %s [%s] = [%s]" % ("true" if c.coe else "false", it, "; ".join(ds))


def apply(chk, mod):
    n = 120 if chk.tier == "quick" else 1200
    r = random.Random(chk.seed * 104729 + 5)
    cases = [gen_case(r) for _ in range(n)]
    pkg = os.path.join(mod, "vparsig")
    os.makedirs(pkg)
    open(os.path.join(pkg, "types.go"), "w").write("package vparsig\n\ntype T2 struct{ A, B int }\n")
    for i, c in enumerate(cases):
        open(os.path.join(pkg, "q%04d.go" % i), "w").write(render(i, c))
    rc, out = common.run_cff(mod, "./vparsig")
    if "panic:" in out or "goroutine 1 [" in out:
        chk.violate("cff crashed on a generated package of Parallel directives", {"output": out[-3000:]})
        return
    permsgs = {}
    for line in out.split("\n"):
        m = re.search(r"vparsig/q(\d+)\.go:\d+:\d+: (.*)", line)
        if m:
            permsgs.setdefault(int(m.group(1)), []).append(m.group(2))
    model = common.model_run("parsig", [c.line() for c in cases])
    step = max(1, len(cases) // (14 if chk.tier == "quick" else 100))
    coq_cases.check_examples(chk, "parsig", "ParSigModel", [coq_example(cases[i], model[i]) for i in range(0, len(cases), step)],
                             "verdicts of the extracted compile_parallel re-computed inside Coq by vm_compute")
    dist = {"accepted": 0, "rejected": 0, "diags": {}, "kinds": {}}
    diff = None
    for i, (c, mv) in enumerate(zip(cases, model)):
        acc_impl = os.path.exists(os.path.join(pkg, "q%04d_gen.go" % i))
        acc_model = mv.startswith("ACCEPT")
        mdiags = [d for d in mv.split()[1].split(",") if d] if not acc_model else []
        msgs = [m for m in permsgs.get(i, []) if not re.search(FOLLOW_ON, m)]
        chk.count(1, key=("parsig", c.line()), nontrivial=True)
        dist["accepted" if acc_impl else "rejected"] += 1
        dist["kinds"][c.kind] = dist["kinds"].get(c.kind, 0) + 1
        for d in mdiags:
            dist["diags"][d] = dist["diags"].get(d, 0) + 1
        if acc_impl != acc_model:
            chk.violate("cff %s a Parallel that the rules of compile_parallel.go %s: %s" % (
                "accepted" if acc_impl else "rejected", "refuse" if acc_impl else "accept", c.line()),
                {"case": c.line(), "go_source": render(i, c), "cff_messages": permsgs.get(i, []), "model": mv})
            return
        if not acc_impl and not permsgs.get(i):
            chk.violate("cff rejected a Parallel without a diagnostic naming its file: %s" % c.line(),
                        {"case": c.line(), "go_source": render(i, c), "output_tail": out[-1500:]})
            return
        want = [RX.get(d) or RX.get("%s:%s" % (d, c.kind)) for d in mdiags]
        missing = [d for d, rx in zip(mdiags, want) if rx is None or not any(re.search(rx, m) for m in msgs)]
        extra = [m for m in msgs if not any(rx and re.search(rx, m) for rx in want)]
        if (missing or extra) and diff is None:
            diff = ("diagnostics differ between cff and ParSigModel.compile_parallel on %s: model %s, cff %s" % (c.line(), mdiags, msgs),
                    {"theorem": "correspondence ParSigModel.compile_parallel ~ compileParallel/compileSlice/compileMap (diagnostics)",
                     "case": c.line(), "go_source": render(i, c), "cff_messages": permsgs.get(i, []), "model": mv,
                     "model_diagnostics_without_message": missing, "messages_without_model_diagnostic": extra})
    if diff is not None:
        chk.fail_no_input(*diff)
        return
    rc, bout, berr = common.run(["go", "build", "./vparsig"], cwd=mod, env=common.GOENV, check=False, timeout=1200)
    if rc != 0:
        m = re.search(r"vparsig/q(\d+)_gen\.go", bout + berr)
        k = int(m.group(1)) if m else None
        chk.violate("the code generated for an accepted Parallel does not build%s" % (": " + cases[k].line() if k is not None else ""),
                    {"case": cases[k].line() if k is not None else None, "go_source": render(k, cases[k]) if k is not None else None,
                     "build_output": (bout + berr)[-2500:]})
        return
    chk.cov["traces_validated_against_impl"] = chk.cov.get("traces_validated_against_impl", 0) + len(cases)
    chk.cov.setdefault("correspondence", {})["parallel_signatures"] = {
        "kind": "one cff.Parallel per file with a task / Slice / Map over random function shapes (context position, index type, arity, results, variadic), 0-2 End options, ContinueOnError: verdict and diagnostics of the real cff vs ParSigModel.compile_parallel; generated code of the accepted ones built",
        "cases": len(cases), "distribution": dist}
