"""c10 — Parallel: theorems of the operational model on the embedding; generated Parallel programs."""
import gen_common
import par_common

DEP_FILES = ["FlowSemModel.v", "FlowOpModel.v", "FlowOpProofs.v", "FlowBridge.v", "ParallelModel.v", "ParallelProofs.v"]
PID = "C10"


def run(chk):
    chk.recheck_proofs()
    par_common.apply(chk, PID)
    chk.assumptions += gen_common.ASSUMPTIONS + ["map iteration order is whatever Go chooses: element calls are compared as sets", "SliceEnd/MapEnd are rejected by cff together with ContinueOnError: End hooks are generated only for fail-fast directives"]
