"""c19 — scheduler property; see sched_common.py."""
import adapter_common
import sched_common

DEP_FILES = ["SchedModel.v", "SchedLemmas.v", "SchedInv.v", "SchedInv2.v", "SchedProps.v", "SchedInv3.v", "SchedInv4.v", "SchedTheorems.v"]
PID = "C19"


def run(chk):
    chk.recheck_proofs()
    sched_common.apply(chk, PID, which=("full" if PID == "C19" else "core"))
    if not chk.violations:
        adapter_common.apply(chk)
    chk.assumptions += sched_common.ASSUMPTIONS.get(PID, []) + sched_common.ASSUMPTIONS["*"]
