"""Linearisation of one observed scheduler execution (a record written by
harness/cmd/schedrun) into an action sequence for the Coq model's [replay].

Only orders that are reliable by construction are used: the scheduler loop's own
log is the spine (a single goroutine owns all scheduler state); each worker
goroutine's log and the caller's log are program orders.  Worker and caller
actions are inserted as late as possible before the loop action that needs them;
cancellations are inserted before the first observation that needs them, after
every context check that still saw the context live.  The builder is untrusted:
a wrong linearisation can only make the model reject the trace."""


def enc_outcome_from_err(e):
    if e == "":
        return "ok"
    if e.startswith("U"):
        return "err " + e[1:]
    if e == "X":
        return "exit"
    return None


class Lin:
    def __init__(self, rec, gated=True):
        self.rec = rec
        cfg = rec["cfg"]
        self.cfg = cfg
        self.N = cfg["neff"]
        self.jobs = cfg["jobs"]
        self.n = len(self.jobs)
        self.lines = []
        self.lines.append("CFG %d %d %d 0" % (self.N, 1 if cfg["coe"] else 0, 1 if gated else 0))
        for j in self.jobs:
            self.lines.append("JOB %d %s" % (j["ctx"], " ".join(str(d) for d in j["deps"])))
        self.nacts = 0
        self.problems = []
        ev = rec["events"]
        self.loop = [e for e in ev if e["k"].startswith("L") and e["k"] != "LIter"]
        self.caller = [e for e in ev if e["k"].startswith("C") and not e["k"].startswith("Cancel")]
        self.cancels = [e for e in ev if e["k"] == "CancelEnd"]
        self.wq = {}          # goroutine -> list of pending events
        for e in ev:
            if e["k"].startswith("W"):
                self.wq.setdefault(e["w"], []).append(e)
        self.got_by = {}      # job -> [goroutines that received it]
        for g, q in self.wq.items():
            for e in q:
                if e["k"] == "WGot":
                    self.got_by.setdefault(e["j"], []).append(g)
        self.slot_of = {}
        self.free_slots = []
        self.next_slot = 0
        self.dead = set()     # goroutines whose last event (post after die) was flushed
        self.cur_job = {}     # goroutine -> job it currently holds (after dispatch emitted)
        self.sent = 0
        self.received = 0
        self.waited = False
        self.cancel_done = set()
        self.donec = []
        self.job_cancels = {}  # job -> ctx cancelled inside its body
        for e in ev:
            if e["k"] == "CancelEnd" and e.get("g") == "job":
                self.job_cancels.setdefault(e["j"], []).append(int(e["e"][1:]))

    # ------------------------------------------------------------ emit
    def act(self, a, evs):
        self.lines.append("ACT %s | %s" % (a, " ; ".join(evs)))
        self.nacts += 1

    def add_expect(self, evname):
        """append an expected event to the most recent action"""
        last = self.lines[-1]
        if last.rstrip().endswith("|"):
            self.lines[-1] = last + " " + evname
        else:
            self.lines[-1] = last + " ; " + evname

    # ------------------------------------------------------------ caller
    def ensure_sent(self, k):
        while self.sent <= k and self.sent < self.n:
            self.act("CE", ["EnqSent %d" % self.sent])
            self.sent += 1

    def ensure_wait(self):
        if not self.waited:
            self.ensure_sent(self.n - 1)
            self.act("CW", ["WaitCalled"])
            self.waited = True

    # ------------------------------------------------------------ workers
    def slot(self, g):
        if g in self.slot_of:
            return self.slot_of[g]
        if self.next_slot < self.N:
            s = self.next_slot
            self.next_slot += 1
        else:
            if not self.free_slots:
                # a replacement goroutine: its predecessor must have posted and gone
                for d in list(self.wq):
                    q = self.wq[d]
                    if any(e["k"] == "WDie" for e in q):
                        self.flush_worker(d, None)
            if self.free_slots:
                s = self.free_slots.pop(0)
            else:
                self.problems.append("more live worker goroutines than Concurrency")
                s = self.N  # out of range: the model will refuse
        self.slot_of[g] = s
        return s

    def job_ctx(self, j):
        return self.jobs[j]["ctx"] if 0 <= j < self.n else 0

    def ensure_cancel(self, c):
        if c in self.cancel_done:
            return
        self.cancel_done.add(c)  # set first: forced checks below must not recurse into it
        # every dispatched job on context c whose check saw the context live goes first
        for g in list(self.wq):
            q = self.wq[g]
            if g in self.cur_job and q:
                e = q[0]
                if e["k"] in ("WRun", "WSkip") and self.job_ctx(e["j"]) == c and not (e["k"] == "WSkip" and e["e"] == "C%d" % c):
                    self.flush_worker(g, "check")
        self.act("X %d" % c, ["Cancel %d" % c])

    def flush_worker(self, g, upto):
        """Emit the pending actions of goroutine g.  upto: 'check' (through the ctx/invalid
        test of the current job), 'post' (through the result send), 'idle' (everything before
        its next WGot), None (everything)."""
        q = self.wq.get(g, [])
        while q:
            e = q[0]
            k = e["k"]
            if k == "WStart":
                q.pop(0)
                continue
            if k == "WGot":
                # the matching dispatch has not been emitted yet (it consumes the WGot)
                return
            w = self.slot(g)
            if k == "WSkip":
                if e["e"].startswith("C"):
                    self.ensure_cancel(int(e["e"][1:]))
                q.pop(0)
                self.act("WC %d" % w, ["Skip %d %s" % (e["j"], e["e"])])
                if upto == "check":
                    return
            elif k == "WRun":
                q.pop(0)
                self.act("WC %d" % w, ["Start %d" % e["j"]])
                if upto == "check":
                    return
            elif k in ("WEnd", "WDie"):
                for c in self.job_cancels.get(e["j"], []):
                    self.ensure_cancel(c)
                q.pop(0)
                o = "exit" if k == "WDie" else enc_outcome_from_err(e.get("e", ""))
                if o is None:
                    self.problems.append("job %d returned an unexpected error %r" % (e["j"], e.get("e")))
                    o = "ok"
                self.act("WE %d %s" % (w, o), ["End %d %s" % (e["j"], o)])
            elif k == "WPrePost":
                q.pop(0)
            elif k == "WPosted":
                q.pop(0)
                self.act("WP %d" % w, ["Post %d" % e["j"]])
                self.donec.append(e["j"])
                self.cur_job.pop(g, None)
                if not q:  # a goroutine that died: its slot passes to the replacement
                    self.free_slots.append(w)
                    self.dead.add(g)
                if upto == "post":
                    return
            elif k == "WExit":
                q.pop(0)
                self.act("WX %d" % w, ["WExit %d" % w])
            else:
                q.pop(0)

    # ------------------------------------------------------------ main
    def build(self, partial=False):
        """partial: the caller never returned (hang): linearise what was observed."""
        for e in self.loop:
            k = e["k"]
            if k == "LEnqRecv":
                self.ensure_sent(e["j"])
                self.act("LER", ["EnqRecv %d" % e["j"]])
                self.received += 1
            elif k == "LEnqClosed":
                self.ensure_wait()
                self.act("LEC", ["EnqClosed"])
            elif k == "LDispatched":
                j = e["j"]
                gs = self.got_by.get(j, [])
                if not gs:
                    self.problems.append("job %d dispatched but no worker received it" % j)
                    self.act("LD 0", ["Dispatch %d 0" % j])
                    continue
                g = gs.pop(0)
                self.flush_worker(g, "idle")
                w = self.slot(g)
                self.act("LD %d" % w, ["Dispatch %d %d" % (j, w)])
                self.cur_job[g] = j
                # consume the WGot
                q = self.wq[g]
                if q and q[0]["k"] == "WGot" and q[0]["j"] == j:
                    q.pop(0)
            elif k == "LDoneRecv":
                j = e["j"]
                holder = [g for g, cj in self.cur_job.items() if cj == j]
                for g in holder:
                    self.flush_worker(g, "post")
                r = e.get("e", "") or "-"
                if j in self.donec:
                    i = self.donec.index(j)
                    self.donec.pop(i)
                else:
                    self.problems.append("result of job %d received but never posted" % j)
                    i = 999
                self.act("LDN %d" % i, ["DoneRecv %d %s" % (j, r)])
            elif k == "LTick":
                st = e["st"]
                self.act("LT", ["Tick %d %d %d %d %d" % (st[0], st[1], st[2], st[3], st[4])])
            elif k == "LReturn":
                self.add_expect("LoopExit")
            elif k == "LDrained":
                self.ensure_sent(self.received)
                self.act("LDR", ["Drained %d" % self.received])
                self.received += 1
            elif k == "LFinished":
                self.ensure_wait()
                self.act("LF", ["Finish"])
        # everything the workers still did
        for g in sorted(self.wq):
            self.flush_worker(g, None)
        if partial:
            self.lines.append("END")
            return self.lines
        # the caller's return
        self.ensure_wait()
        ret = [e for e in self.caller if e["k"] in ("CWaitRetCtx", "CWaitRetFin")]
        werr = self.rec["wait_err"]
        # an error that is none of the jobs' or contexts' (something the scheduler made up) is passed to the
        # model as a user error no job returns: the model then refuses the return value instead of the reader choking
        import re as _re
        r = ",".join(w if _re.match(r"^(U\d+|C\d+|I|X)$", w) else "U60000" for w in werr) if werr else "nil"
        if ret:
            if ret[0]["k"] == "CWaitRetCtx":
                self.ensure_cancel(0)
                self.act("CRC", ["Ret " + r])
            else:
                if werr == ["C0"]:
                    self.ensure_cancel(0)
                self.act("CRF", ["Ret " + r])
        else:
            self.problems.append("Wait did not return")
        self.lines.append("END")
        return self.lines
