"""Generator of abstract cff.Flow programs (the model's input) and of their Go source,
for the validator differential (C14) and, with bodies, for the behavioural harness.
Every random choice derives from one PRNG state (random.Random(seed))."""
import random


class Flow:
    def __init__(self):
        self.params = []      # type ids
        self.results = []     # type ids
        self.tasks = []       # dicts: ins, outs, pred (None or list), invoke (bool)
        self.label = "wf"

    def model_line(self):
        def l(xs):
            return ",".join(str(x) for x in xs) if xs else "-"
        parts = ["P " + " ".join(str(x) for x in self.params), "R " + " ".join(str(x) for x in self.results)]
        for t in self.tasks:
            pr = "-" if t["pred"] is None else ("_" if not t["pred"] else ",".join(str(x) for x in t["pred"]))
            parts.append("T %s %s %s %d" % (l(t["ins"]), l(t["outs"]), pr, 1 if t["invoke"] else 0))
        return " | ".join(parts)

    def clone(self):
        g = Flow()
        g.params = list(self.params)
        g.results = list(self.results)
        g.tasks = [dict(ins=list(t["ins"]), outs=list(t["outs"]),
                        pred=None if t["pred"] is None else list(t["pred"]), invoke=t["invoke"]) for t in self.tasks]
        g.label = self.label
        return g


def gen_wellformed(r, max_tasks=6, pred_prob=0.3, invoke_prob=0.15):
    """A well-formed flow: layered DAG, every output and every param consumed."""
    f = Flow()
    nt = 0

    def fresh():
        nonlocal nt
        nt += 1
        return nt - 1
    avail = []           # types available to later tasks
    unconsumed = set()
    for _ in range(r.randint(0, 3)):
        t = fresh()
        f.params.append(t)
        avail.append(t)
        unconsumed.add(t)
    k = r.randint(1, max_tasks)
    for i in range(k):
        ins = []
        if avail and r.random() < 0.85:
            ins = r.sample(avail, min(len(avail), r.randint(1, 3)))
        pred = None
        if r.random() < pred_prob:
            pred = r.sample(avail, min(len(avail), r.randint(0, 2))) if avail else []
        invoke = r.random() < invoke_prob
        outs = [] if invoke else [fresh() for _ in range(r.randint(1, 2 if r.random() < 0.7 else 3))]
        for t in ins + (pred or []):
            unconsumed.discard(t)
        f.tasks.append(dict(ins=ins, outs=outs, pred=pred, invoke=invoke))
        for o in outs:
            avail.append(o)
            unconsumed.add(o)
    # everything not consumed becomes a Result (params included)
    f.results = sorted(unconsumed)
    r.shuffle(f.results)
    if r.random() < 0.2 and avail and f.results:
        # a Result may also name a type that is consumed elsewhere
        extra = r.choice(avail)
        if extra not in f.results:
            f.results.append(extra)
    # listing order must not matter
    r.shuffle(f.tasks)
    f.ntypes = nt
    return f


def downstream(f, ti):
    """types transitively produced from task ti's outputs (through tasks and predicates)"""
    prod = set(f.tasks[ti]["outs"])
    changed = True
    while changed:
        changed = False
        for t in f.tasks:
            uses = set(t["ins"]) | set(t["pred"] or [])
            if uses & prod and not set(t["outs"]) <= prod:
                prod |= set(t["outs"])
                changed = True
    return prod


def mutate(r, f):
    """One single-defect mutation; returns (flow, label) or None if not applicable."""
    g = f.clone()
    kinds = ["drop_param", "dup_param", "dup_output", "param_and_output", "back_edge", "back_edge_pred",
             "unused_param", "unused_output", "strip_invoke", "invoke_with_outputs", "drop_result_provider",
             "self_cycle_pred"]
    kind = r.choice(kinds)
    nt = 1 + max([-1] + g.params + g.results + [x for t in g.tasks for x in t["ins"] + t["outs"] + (t["pred"] or [])])
    if kind == "drop_param" and g.params:
        g.params.remove(r.choice(g.params))
    elif kind == "dup_param" and g.params:
        g.params.insert(r.randrange(len(g.params) + 1), r.choice(g.params))
    elif kind == "dup_output":
        outs = [o for t in g.tasks for o in t["outs"]]
        cand = [t for t in g.tasks if t["outs"]]
        if not outs or not cand:
            return None
        o = r.choice(outs)
        t = r.choice(cand)
        if o in t["outs"]:
            return None
        t["outs"].append(o)
    elif kind == "param_and_output":
        outs = [o for t in g.tasks for o in t["outs"]]
        if not outs:
            return None
        g.params.append(r.choice(outs))
    elif kind in ("back_edge", "back_edge_pred"):
        cand = [i for i, t in enumerate(g.tasks) if t["outs"]]
        if not cand:
            return None
        ti = r.choice(cand)
        ds = sorted(downstream(g, ti))
        if not ds:
            return None
        d = r.choice(ds)
        if kind == "back_edge":
            if d in g.tasks[ti]["ins"]:
                return None
            g.tasks[ti]["ins"].append(d)
        else:
            if g.tasks[ti]["pred"] is None:
                g.tasks[ti]["pred"] = []
            if d in g.tasks[ti]["pred"]:
                return None
            g.tasks[ti]["pred"].append(d)
    elif kind == "self_cycle_pred":
        cand = [t for t in g.tasks if t["outs"]]
        if not cand:
            return None
        t = r.choice(cand)
        if t["pred"] is None:
            t["pred"] = []
        o = t["outs"][0]
        if o in t["pred"]:
            return None
        t["pred"].append(o)
    elif kind == "unused_param":
        g.params.append(nt)
    elif kind == "unused_output":
        cand = [t for t in g.tasks if t["outs"]]
        if not cand:
            return None
        outs = r.choice(cand)["outs"]
        outs.insert(r.randrange(len(outs) + 1), nt)      # anywhere among the task's outputs, not only last
    elif kind == "strip_invoke":
        cand = [t for t in g.tasks if t["invoke"]]
        if not cand:
            return None
        r.choice(cand)["invoke"] = False
    elif kind == "invoke_with_outputs":
        cand = [t for t in g.tasks if t["outs"]]
        if not cand:
            return None
        r.choice(cand)["invoke"] = True
    elif kind == "drop_result_provider":
        cand = [t for t in g.tasks if len(t["outs"]) >= 1]
        if not cand:
            return None
        t = r.choice(cand)
        t["outs"].pop(r.randrange(len(t["outs"])))
    else:
        return None
    g.label = kind
    return g


# ---------------------------------------------------------------- Go source

def go_type(t):
    return "T%d" % t


def render_validator_file(idx, f):
    """One flow per file (acceptance is observable per file); bodies are trivial."""
    lines = ["//go:build cff", "", "package vflows", "", "import (", '\t"context"', "", '\t"go.uber.org/cff"', ")", ""]
    lines.append("// %s" % f.model_line())
    lines.append("func F%04d(ctx context.Context) error {" % idx)
    for i, t in enumerate(f.results):
        lines.append("\tvar r%d %s" % (i, go_type(t)))
    opts = []
    if f.params:
        opts.append("cff.Params(%s)" % ", ".join("%s{}" % go_type(t) for t in f.params))
    if f.results:
        opts.append("cff.Results(%s)" % ", ".join("&r%d" % i for i in range(len(f.results))))
    for t in f.tasks:
        ins = ", ".join("a%d %s" % (i, go_type(x)) for i, x in enumerate(t["ins"]))
        outs = ", ".join(go_type(x) for x in t["outs"])
        if len(t["outs"]) == 0:
            sig = "func(%s)" % ins
            body = "{}"
        else:
            sig = "func(%s) (%s)" % (ins, outs)
            body = "{ return %s }" % ", ".join("%s{}" % go_type(x) for x in t["outs"])
        targs = [sig + " " + body]
        if t["pred"] is not None:
            pins = ", ".join("p%d %s" % (i, go_type(x)) for i, x in enumerate(t["pred"]))
            targs.append("cff.Predicate(func(%s) bool { return true })" % pins)
        if t["invoke"]:
            targs.append("cff.Invoke(true)")
        opts.append("cff.Task(%s)" % ", ".join(targs))
    # "whatever the order of its options": Params and Results are placed anywhere among the Tasks in a
    # seeded way (the relative order of the Tasks is the model's: with a duplicate provider the last wins)
    rr = random.Random(idx * 7919 + len(opts))
    heads = [o for o in opts if not o.startswith("cff.Task(")]
    opts = [o for o in opts if o.startswith("cff.Task(")]
    for o in heads:
        opts.insert(rr.randint(0, len(opts)), o)
    lines.append("\treturn cff.Flow(ctx,")
    for o in opts:
        lines.append("\t\t%s," % o)
    lines.append("\t)")
    lines.append("}")
    return "\n".join(lines) + "\n"


def render_types_file(ntypes):
    lines = ["package vflows", ""]
    for t in range(ntypes):
        lines.append("type T%d struct{ V int }" % t)
    return "\n".join(lines) + "\n"


def gen_validator_corpus(seed, n):
    r = random.Random(seed)
    flows = []
    while len(flows) < n:
        f = gen_wellformed(r)
        if r.random() < 0.45:
            flows.append(f)
        else:
            g = mutate(r, f)
            if g is not None:
                flows.append(g)
    return flows
