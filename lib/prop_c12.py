"""C12 - data-race freedom: access discipline proved on the model; the tie adds the Go race
detector over the scheduler harness (hooked executions and concurrent Enqueue)."""
import json
import re

import common
import gen_common
import par_common
import sched_common

DEP_FILES = ["SchedModel.v", "SchedLemmas.v", "SchedInv.v", "SchedInv2.v", "SchedProps.v", "SchedInv3.v",
             "SchedInv4.v", "SchedTheorems.v", "SchedLive.v", "SchedRace.v"]
PID = "C12"


def run(chk):
    chk.recheck_proofs()
    sched_common.apply(chk, PID, which="core")
    # race detector over the real scheduler
    exe = common.go_build("schedrun", race=True)
    nexec = 250 if chk.tier == "quick" else 6000
    nconc = 150 if chk.tier == "quick" else 4000
    env = dict(common.GOENV)
    env["GORACE"] = "halt_on_error=0 exitcode=0"
    rc, out, err = common.run([exe, "-seed", str(chk.seed + 77), "-count", str(nexec), "-conc", str(nconc), "-maxjobs", "20"],
                              env=env, timeout=3000, check=False)
    races = re.findall(r"WARNING: DATA RACE.*?(?==================)", err, re.S)
    recs = [json.loads(l) for l in out.split("\n") if l.strip()]
    conc = [r for r in recs if r.get("kind") == "conc"]
    chk.count(len(recs))
    chk.cov["race_detector"] = {"executions_with_hooks": len(recs) - len(conc), "concurrent_enqueue_executions": len(conc),
                                "reports": len(races)}
    if races:
        chk.violate("the race detector reports a data race in the scheduler: " + races[0].split("\n")[1][:160],
                    {"race_report": races[0][:6000], "harness": "schedrun (-race) -seed %d -count %d -conc %d" % (chk.seed + 77, nexec, nconc)})
    for r in conc:
        if not r["ran_once"] or r["wait_err"]:
            chk.violate("concurrent Enqueue: not every job ran exactly once, or Wait failed: %s" % r, {"record": r})
            break
    if conc:
        chk.sample({"concurrent_enqueue": conc[0]})
    # race detector over the generated plumbing (variables per type, predicate flags, ran flags, Results copies)
    gen_common.apply_race(chk, 400 if chk.tier == "quick" else 100000)
    par_common.apply_race(chk, 300 if chk.tier == "quick" else 100000)
    chk.assumptions += sched_common.ASSUMPTIONS["*"] + [
        "Go memory model: a channel send happens before the corresponding receive completes; close before a receive that returns because of it (taken as given)",
        "that no shared location exists besides the modelled ones is established by the race detector runs, not by a theorem (partial)"]
