#!/usr/bin/env python3
"""Writes /verif/MANIFEST.json from the table below (kept in one place so that the
manifest is always valid and current)."""
import json
import os

VERIF = os.path.dirname(os.path.dirname(os.path.abspath(__file__)))

BASELINE_OFF = ("for m in . ./internal/tests; do (cd /repo/$m && GOFLAGS=-mod=mod GOPROXY=off GOSUMDB=off GOTOOLCHAIN=local "
                "go test -json -vet=off -count=1 -timeout 25m ./...); done")

# property -> (technique, level text, level note, design ref)
CLAIMED = {
    "C16": (
        "Coq proof (structural/size induction over constraint expressions; list lemmas for splicing and names) + differential correspondence of the model's invert with the real invertCffConstraint",
        "Theorems C16_invert, C16_header, C16_printable, C16_untouched, C16_splice, C16_names hold for every constraint expression, "
        "tag assignment, header and directive layout (unbounded, kernel-checked, no axioms). The model's invert is tied to the code by exact AST "
        "equality with the real invertCffConstraint on every expression of depth<=2 over three tags plus seeded random deeper ones, by truth "
        "tables of whole headers pushed through the real writeInvertedCffTag, and by runs of the real cff on a multi-package layout: files written vs the extracted gen_filename (equal base names "
        "in different directories, test files, -file=IN and -file=IN=OUT), directory snapshots, token-identical preservation of every declaration without directive, imports only added. "
        "Which files a run touches (FileSelModel = cmd/cff/main.go run): an output is written exactly for the selected files that compile and contain a directive (C16_written_exactly), a file --file does not name "
        "by its exact base name is never written for (C16_unselected_untouched, C16_selected_by_exact_name), nothing is written for a rejected file (C16_rejected_not_written), the exit status is non-zero exactly when a selected file "
        "failed or an input is repeated (C16_exit_status), without --file distinct files never share an output (C16_default_outputs_distinct); tied by running the real tool on the layout with a rejected file and six selections "
        "and comparing exit status and directory snapshots with the extracted run_tool.",
        "Trusted: Coq kernel; extraction (ExtrOcamlBasic) + OCaml driver; Go's go/build/constraint (Parse, String, PlusBuildLines: oracle of the header "
        "theorem, validated per run) and gofmt; the harness. Token-level preservation by the real tool and the written paths are observed on runs of the "
        "real cff binary, not proved of the Go code.",
        "DESIGN.md §7 C16"),
}

SCHED_NOTE = ("Trusted: Coq kernel; extraction (ExtrOcamlBasic) + OCaml driver; the linearisation builder (untrusted for soundness: it can only cause "
              "rejections); Go runtime channel/select semantics, context as a monotone flag, atomic check-then-run, slot view of worker respawn are "
              "modelled, not verified; hooks assumed to change timing only. The tie to the code is sampled (seeded executions), the theorems are not.")
SCHED_TECH = "Coq proof by invariant induction over all runs of an executable LTS model of scheduler.go + trace conformance of the real scheduler (hook events replayed through the extracted step function)"
CLAIMED["C03"] = (SCHED_TECH,
    "C03_bound (<= N running, <= N+1 goroutines in every reachable state, any number of jobs), C03_pool_intact (no worker slot lost before the loop "
    "finished, also after Goexit), C03_capacity (with a ready job and an idle worker the loop acts without waiting for user code), C03_default, for all DAGs, N, "
    "modes and interleavings. Tie: every observed execution of the real scheduler must replay through the model; direct in-flight counter and live-worker "
    "counts on each execution.", SCHED_NOTE + " That generated Slice/Map code creates jobs not goroutines is checked on generated code (C10), not here.", "DESIGN.md §7 C03")
CLAIMED["C09"] = (SCHED_TECH,
    "C09_no_start_after_cancel (no job start after the cancellation of its context in any history, both modes) and C09_prompt (the ctx return of Wait is "
    "enabled whatever loop and workers are doing) for all programs and cancellation instants. Tie: trace conformance with pre-cancelled, in-job, external "
    "cancellations, deadline-style and cancel-style context errors, and a straggler job that keeps running until Wait has returned (watchdog).",
    SCHED_NOTE, "DESIGN.md §7 C09")
CLAIMED["C19"] = (SCHED_TECH,
    "C19_reports (every State ever emitted satisfies Pending = Ready + Waiting + executing, 0 <= executing <= Concurrency, IdleWorkers = Concurrency - "
    "executing, Concurrency = limit) and C19_stop (no report after the loop finished) for every run of the gated model; C19_refuted_ungated keeps the repaired "
    "defect as a witness. Tie: every State emitted by the real scheduler (flush down to 1ns) must equal the model's counters at that point of the replay in the gated model; an execution that only the ungated model "
    "accepts is reported as an over-dispatch. The root package's adapter (scheduler.go: cff.NewScheduler -> schedulerAdapter.Emit), through which generated code and users receive the reports, "
    "is tied to the model's atomic tick action: with a slow user emitter every log of loop events and emitter calls must read tick st; begin st; end st contiguously, nothing after Wait returned.",
    SCHED_NOTE + " C19_bounds adds Waiting >= 0, Pending <= submitted, Waiting <= submitted-with-dependencies for every report in every history.", "DESIGN.md §7 C19")
CLAIMED["C01"] = (SCHED_TECH,
    "C01_order_once: in every history of every run (any DAG incl. duplicate dependencies and dependencies already finished at enqueue time, any N, both error "
    "modes, gated or not, any interleaving) a job that starts has not started before and every dependency it names has already ended without error; "
    "C01_transitive extends it to transitive dependencies. Proved through the countdown invariant of the loop (remaining = number of unfinished dependency "
    "occurrences, consumers lists consistent, each job in exactly one place). Tie: trace conformance; direct start/end sequence numbers inside job bodies; "
    "a scripted fan-in job with 70,000 (thorough: 140,000) unfinished dependencies must start once, after all of them.",
    SCHED_NOTE + " The generated code's dependency lists are tied separately (C02/C10/C11).", "DESIGN.md §7 C01")
CLAIMED["C05"] = (SCHED_TECH,
    "C05_bounded: every action of caller, loop or worker strictly decreases a measure starting at 10*jobs+N+6 (only ticks and cancellations keep it), so every run "
    "performs at most that many scheduler actions; C05_progress: in every reachable non-final state some such action is enabled (gated dispatch) - no deadlock, no "
    "lost wake-up, Enqueue never blocks forever, also after an early exit. For every DAG, outcome assignment in {ok, error, Goexit}, N, mode, emitter, cancellation "
    "instant. Tie: trace conformance incl. the final state; watchdog with a stable all-blocked goroutine dump on the real scheduler; scripted executions - 1,100 jobs submitted while both workers are held, a caller that goes on "
    "submitting 6.5 s after a fail-fast failure - and a second plan of executions under the timer-channel semantics of go >= 1.23 (a pending tick is always deliverable).",
    SCHED_NOTE + " Fairness of the Go scheduler (an enabled goroutine eventually runs) and 'every user function eventually returns' are assumed.", "DESIGN.md §7 C05")
CLAIMED["C06"] = (SCHED_TECH,
    "C06_no_leak: a reachable state where no caller/loop/worker action is enabled is final (Wait returned, loop finished, every worker exited), C06_post_enabled: a "
    "worker can always hand over its result (at most N-1 other results outstanding), for the gated code; C06_refuted_ungated keeps the repaired defect as a machine-checked "
    "witness (a stuck state with a worker blocked on donec). Tie: every observed execution must replay in the gated model and end in its final state (all WExit events present); an execution that only the "
    "model without the dispatch gate accepts is an observed over-dispatch and is reported with that execution as the failing input (gating is decided by behaviour, not by the spelling of the condition); "
    "goroutine dumps after quiescence, a leak verdict needs a stable dump of blocked scheduler goroutines.", SCHED_NOTE, "DESIGN.md §7 C06")
CLAIMED["C12"] = (SCHED_TECH + " + Go race detector runs of the harness",
    "Partial, labelled so. Proved for every run of the model: only the loop writes job state/ready/counters/s.err (C12_loop_only), Enqueue touches only the enqueue "
    "channel (C12_enqueue), workers write only their slot and donec (C12_worker_only), the invalid flag a worker reads is never written after the job was released "
    "(C12_invalid_stable), and between a provider's successful end and its consumer's start lie, in order, the result send, its receipt and the dispatch "
    "(C12_values: the channel operations carrying the happens-before edge). Tie: trace conformance plus -race runs of the real scheduler (hooked executions, "
    "concurrent Enqueue from several goroutines, early returns with jobs still running) and of the generated flows and Parallel programs (variables per type, predicate flags, ran flags, Results copies) on their scenario plans.",
    SCHED_NOTE + " Go's memory-model rules for channels are taken as given; completeness of the list of shared locations rests on the race detector (a test).", "DESIGN.md §7 C12")
CLAIMED["C07"] = (SCHED_TECH,
    "C07_nil (nil only if every job started and ended successfully, none otherwise), C07_nil_ctx (context not cancelled when nil is returned), C07_error (a "
    "non-nil return is exactly one error: the context's, or the very error a job ended with; never the sentinel), C07_downstream (nothing transitively "
    "downstream of a failed job starts), for every run of the fail-fast model; for the generated jobs (Layer 2): nothing transitively downstream of a job that failed or never ran is run, and Results are written only when no job failed "
    "(C07_generated_downstream, C07_generated_results_untouched), and a saturated execution of an acyclic job graph without failure has run every job, each returning nil (C07_generated_nil_means_all_ran). Tie: trace conformance incl. Wait's return value; error identities on the real scheduler; generated flows and Parallel programs under every single-failure scenario.",
    SCHED_NOTE, "DESIGN.md §7 C07")
CLAIMED["C08"] = (SCHED_TECH,
    "C08_runs (after completion every job whose dependencies all succeeded was started or skipped for its own context), C08_downstream, C08_errors (the error "
    "list is exactly one entry per received real error, each justified by what its job did, no sentinel, every failed job present), C08_once, C08_return, "
    "also when the dependent is enqueued after its dependency failed; for the generated jobs (Layer 2): in every saturated execution (every job whose dependencies all returned nil has run - what ContinueOnError produces) a function "
    "ran exactly when the flow semantics does not block it and the failures are exactly the failures of the semantics (C08_generated_runs, C08_generated_failures). Tie: trace conformance; multierr.Errors identities as multisets on the real "
    "scheduler; generated Parallel programs with ContinueOnError under single and multiple failures (returned error = exactly the predicted failure set, every unblocked function called).",
    SCHED_NOTE, "DESIGN.md §7 C08")

CLAIMED["C14"] = (
    "Coq proof about an executable model of compileFlow's checks: check-by-check equivalences, depth-first cycle search sound and complete (fuel + pigeonhole), worklist provider walk (invariant, potential-based termination, forward reachability under acyclicity) + differential correspondence with the real cff on generated flows and mutations",
    "Full for the model: accepts f = true <-> WellFormed f for every flow (any graph, any option order) (C14_accepts_iff_wellformed): every consumed type has exactly one provider, no dependency cycle through tasks or predicates at any "
    "distance, every Params value and task output is consumed, outputs empty exactly for Invoke tasks; the provider walk always terminates within its fuel (C14_walk_terminates); the individual checks are equivalent to their declarative "
    "rules (C14_dup_params, C14_invoke, C14_dup_provider, C14_unused_output, C14_cycle). Types are atoms; Slice/Map assignability is C14_parallel (C14_assign_refuted keeps the repaired defect F2 as witness). Tie: accept/reject, "
    "diagnostic classes and presence of the output file of the real cff against the model and against the independent boolean rules wf_b, one flow per file; Slice/Map element/key/value types against a lattice of assignable and "
    "non-assignable pairs in both directions; the exit status of the run must be non-zero exactly when a file was rejected. Signatures (SignatureModel = compileFunction/compilePredicate/FallbackWith/Invoke rules): a signature is "
    "accepted iff it is not variadic, context.Context occurs only as first parameter and error only as last result (C14_supported_signatures, C14_refusal_reasons); for every accepted one the generated call's arguments and bindings are "
    "exactly the function's parameter and result lists (C14_call_matches_signature); an accepted predicate has the single bool output and no error (C14_predicate_shape); an accepted task has one FallbackWith value per output and can fail, "
    "and Invoke(true) exactly when it has no outputs (C14_accepted_task). Tie: single-task flows over random signatures, verdict and diagnostic classes against the model, accepted outputs built. "
    "Parallel (ParSigModel = compile_parallel.go): in every accepted Parallel a task or End function takes at most the context and returns at most an error, a slice function is (ctx?, index int?, element) and a map function (ctx?, key, value) with the "
    "collection's types assignable, at most one End hook per collection and none under ContinueOnError (C14_parallel_task_shape, C14_parallel_slice_shape, C14_parallel_map_shape, C14_parallel_accepted); tie: one Parallel per file over random function shapes, "
    "verdict and diagnostics against the model, accepted outputs built.",
    "Trusted: Coq kernel; extraction + driver; the flow generator (its abstract program is the model's input and the Go text the tool's input); go/types identity and "
    "assignability are Go library code (types are atoms in the model, except context.Context, error, bool); assignability of FallbackWith values is not modelled.", "DESIGN.md §7 C14")

GEN_TECH = "Coq proof about an executable semantics of cff.Flow (what a directive computes as a function of what each user function does) + correspondence: generated programs compiled by the real cff and executed under scenario tables, compared call by call with the extracted model"
GEN_NOTE = ("Trusted: Coq kernel; extraction + driver; the program generator (the abstract flow is the model's input, its Go rendering the tool's input) and the harness stubs; "
            "Go compiler/runtime. The theorems are about the model; the generated code is tied to it by sampled executions (seeded), not by proof.")
CLAIMED["C02"] = (
    "Coq proof of schedule independence (confluence by invariant induction) over an operational model of the generated program: one job per task/predicate function with the generator's Dependencies, shared variables per type and flags per predicate + correspondence: Dependencies lists parsed from the generated code must equal the model's job graph, and generated programs executed under scenario tables must equal the extracted model call by call",
    "For every flow with unique providers, every scenario and every execution the scheduler can produce (jobs at most once, only after their dependencies returned nil - what C01/C07 prove of the "
    "scheduler for every DAG, limit and interleaving): a job makes the same calls with the same arguments, assigns the same values and returns the same result in every execution in which it runs "
    "(C02_schedule_independent), every argument is the value the unique provider of its type assigned, already assigned when read (C02_arguments), each function is called at most once (C02_once), "
    "Results hold the same provider values in every execution where all jobs returned nil (C02_results), a task function is called only after its predicate returned true (C02_predicate_gate). "
    "The denotational reading of the directive (FlowSemModel: each parameter receives what the unique provider of its type returned) is proved to be exactly what the generated jobs do: at its fuel it assigns to every job that runs, "
    "in any execution, an outcome, and that outcome is the job's result, assigned values and call with its arguments (C02_semantics_is_the_generated_code, C02_results_are_the_dataflow; soundness for every fuel, completeness by "
    "monotonicity and induction over the log order). Every flow the validator model of C14 accepts satisfies both hypotheses (unique providers; a source for every consumed type), whatever the decoration of its tasks (C02_accepted_flows_qualify, via the soundness of the provider walk). "
    "Independence of the listing order is proved too: two listings of the same tasks have the same semantics up to the renaming of task indices - every value, the Results, every failure (C02_listing_order_independent). Tie: job graph of every generated function vs jdeps; "
    "calls with argument terms, results, returned error of every execution vs the model; the operational and the denotational model are cross-checked on every case.",
    GEN_NOTE, "DESIGN.md §7 C02")
CLAIMED["C15"] = (
    "Coq proof about a model of the generator's prologue (mentions recorded in a map, sorted by position, one assignment each) + correspondence: every generated prologue compared with the extracted model; evaluation logs of generated programs whose arguments are logged calls, reassigned bare identifiers and a clock-reading plain expression; locals named like generated identifiers",
    "Partial, labelled so. Proved for every list of mentions (any template traversal order, any repetitions, any map iteration order): the prologue is strictly sorted by source position, duplicate-free, contains exactly the "
    "mentioned expressions, depends only on their set, and evaluating it is evaluating the user's expressions in source order, each once (C15_sorted, C15_once, C15_exactly_the_mentioned, "
    "C15_order_of_mentions_irrelevant, C15_source_order); distinct positions give distinct variables; a free identifier of a hoisted expression is bound as in the source unless it is `err` or an earlier hoisted variable "
    "(C15_no_capture; C15_capture_refuted is the model witness of F9). Not theorems (Go scoping and runtime facts, observed on every run instead): evaluation on the calling goroutine "
    "before any task starts, and absence of capture. Known finding F9 (an expression mentioning an enclosing `err`) is reported as KNOWN-FINDING from a named probe.",
    GEN_NOTE + " The capture clause is refuted by probe F9 on the unchanged tree (recorded, not repaired: the repair moves the prologue out of the closure and changes every generated file).", "DESIGN.md §7 C15")
CLAIMED["C18"] = (
    "Coq proof about a model of cff.EmitterStack (nested-inductive expressions, flattening) and about the event function of the operational flow model + correspondence: the real EmitterStack driven through every method on generated nestings with shared sub-stacks; every event of every generated execution recorded and checked",
    "EmitterStack: for every expression, nested to any depth, a call reaches exactly the user emitters of the expression, in order; an emitter occurring once receives exactly the event sequence it would receive "
    "alone, one occurring n times every event n times (C18_stack_fanout, C18_stack_alone, C18_stack_count); over every session of Init calls and method calls on the child stacks they return (taskEmitterStack, flowEmitterStack, parallelEmitterStack, schedulerEmitterStack) an emitter occurring once sees what it would see alone, which for a session using a child only after creating it is the session itself, child for child (C18_session_alone, C18_session_sees_itself), an emitter outside the expression sees nothing and every call of the log is on an emitter of the expression (C18_session_absent, C18_session_only_members), and an emitter occurring n times sees every Init call n times (C18_session_init_count); tie: cmd/emsession drives the real EmitterStack through generated sessions (Init calls of the four kinds, Done/EmitScheduler on earlier children, recorders numbering their own children) and what each emitter saw is compared with EmitterSessionModel.session evaluated inside Coq. Flow events, for every flow/scenario/execution the scheduler can produce: an invoked task function "
    "yields exactly one outcome event matching what it did and exactly one TaskDone, a non-invoked one neither (C18_task_invoked, C18_task_not_invoked); exactly one Success/Error carrying the returned error, "
    "FlowDone once and last, TaskSkipped exactly once per non-invoked task and never for an invoked one (C18_flow_outcome_once, C18_flow_done_last, C18_skipped_once). Tie: 18 methods of the 4 emitter kinds with "
    "payload identity on the real stack; recorded events of generated flows with one or two stacked emitters under all single-failure scenarios.",
    GEN_NOTE + " Parallel directives' events are covered with C10.", "DESIGN.md §7 C18")
CLAIMED["C13"] = (
    "Coq proof about the splicing of generated text into the source and about a model of printImportAlias with its per-file maps + correspondence: differential run of the real printImportAlias; generated corpus with spelling variants through the real cff in base, source-map and -auto-instrument modes, type-checked without the cff tag; named probes",
    "Partial, labelled so. Theorems: the directive calls left in the output are exactly those of the untouched segments plus those of the generated texts; none remains when every call lies in a replaced interval and no argument "
    "expression contains one (C13_directive_count, C13_no_directive_left, C13_generated_text_clean; C13_nested_refuted is the model witness of known finding F8); generated imports get one name per path, stable, pairwise distinct, "
    "never a name of the file's own imports, and the mangling loop terminates (C13_import_names, C13_import_loop_terminates); a package reference of a template reaches the file's import unless the closure or the "
    "enclosing function declares that name (C13_template_reference; C13_shadow_refuted is the model witness of F7); with the repaired walk a file is either refused (one positioned diagnostic per directive spelled through a dot-import of cff) or "
    "every directive call of it is replaced, an output being written exactly when it contains a directive (C13_directives_processed_or_refused; C13_dot_import_refuted is the witness of the repaired defect F12, probes DotImport and DotMixed). "
    "Not theorems: that the output type-checks and that the tool never panics are observed on every run (corpus variants incl. directives in generic functions and in initialisers of package-level variables; every file with directives must have an output).",
    GEN_NOTE + " Known findings F7 (local identifier named like a package the generated code uses) and F8 (nested directive) are reported from named probes.", "DESIGN.md §7 C13")
CLAIMED["C17"] = (
    "Coq proof that the unordered/random inputs of the generator (map of hoisted expressions, map of new imports, set of taken names, random magic token) cannot influence the text + correspondence: byte comparison of repeated cff processes and of -file selections in base and source-map mode",
    "Partial, labelled so. Theorems: the prologue and the added imports depend only on the set recorded (C17_prologue_order_irrelevant, C17_import_order_irrelevant); the import names and addImports do not depend on the order in which "
    "the file's imports seed the set of taken names (C17_alias_seed_irrelevant); no magic comment survives and the output is the same for every token value not occurring as a user comment (C17_no_magic_left, C17_token_irrelevant). "
    "Independence from the other files processed and from earlier runs is the absence of shared generator state: observed (every file alone vs with its package; generating in another mode over the outputs an earlier run left behind gives the bytes of a first-ever generation), not proved.",
    GEN_NOTE, "DESIGN.md §7 C17")
CLAIMED["C20"] = (
    "Coq proof that source-map rendering adds only comments and line directives to base rendering + correspondence: token streams of real base and source-map outputs; differential execution of base-mode and modifier-mode code against each other and the flow semantics model",
    "Partial, labelled so. Theorem: for every template output and any token values the code of the source-map file equals the code of the base file (C20_sourcemap_same_code) and no magic comment remains. Modifier mode (subset: Params, "
    "Results, Concurrency, plain Tasks) has no model of its own templates; it is tied to the same operational model as base mode: the Dependencies of the emitted implementation functions must contain the model's job graph, and "
    "its code must return the same results and errors as base-mode code and as FlowSemModel for all single-outcome scenarios {ok, error, panic} of generated subset flows. Known "
    "finding F10 (function-local types in modifier mode) is reported as KNOWN-FINDING from the named probe LocalType.",
    GEN_NOTE, "DESIGN.md §7 C20")
CLAIMED["C10"] = (
    "Coq proof over the operational model of generated programs applied to the embedding of cff.Parallel (one job per function and element; End job depending on all element jobs of its collection) + correspondence: generated Parallel programs compiled by the real cff, executed under scenario tables, compared with the model of their embedding",
    "Partial, labelled so. For every execution the scheduler can produce: each function/element job runs at most once and, when every job returned nil, exactly once (C10_at_most_once, C10_all_called); when an End hook runs every "
    "element job of its collection is logged before it with result nil (C10_end_after_elements); if an element call failed, panicked or never ran the End hook never runs (C10_end_starved); every Parallel program's embedding "
    "satisfies the hypothesis of these theorems (C10_every_parallel_qualifies) and an End job depends on every job producing one of its inputs (C10_end_depends_on_its_elements). Not theorems, tied by the correspondence: "
    "that element job i calls the function with (i, s[i]) / (k, m[k]) (per-iteration copies in the template) and that the generated jobs are the embedding: every element call logs its arguments, End hooks are ordered against element "
    "returns by sequence numbers under random sleeps, all signature shapes (index/no-index, ctx/no-ctx, error/no-error), sizes 0..8, nil collections, named slice types, generic enclosing functions, ContinueOnError.",
    GEN_NOTE + " The embedding used by the harness is compared with ParallelModel.par_flow (extracted) for every program.", "DESIGN.md §7 C10")
CLAIMED["C11"] = (GEN_TECH,
    "For every flow, scenario, task and valuation: predicate false => the task function is not called, its outputs are the zero values and it cannot fail the flow "
    "(C11_false_*); the function is invoked only if there is no predicate or it returned true (C11_invoked_only_if_true); the predicate is called with exactly the values of "
    "its own inputs as soon as they exist, independently of the task's inputs (C11_predicate_own_inputs); with FallbackWith the task never fails the flow, yields the fallback "
    "values on error, panic or predicate panic, and the function's own results on success (C11_fallback_*); by FlowAdequacy the semantics these are stated on is what the generated jobs do on every schedule "
    "(C11_on_every_schedule). Tie: every generated execution's calls (with arguments), results and "
    "returned error must equal the model's, for all single-failure scenarios of every generated flow.", GEN_NOTE, "DESIGN.md §7 C11")
CLAIMED["C04"] = (GEN_TECH,
    "Partial, labelled so. Model level, for every flow/scenario/task: an unabsorbed task panic is reported as that task's PanicError (C04_panic_reported), a task fails only "
    "by what its own function or predicate did (C04_failure_is_own), FallbackWith absorbs (C04_fallback_absorbs), tasks are unaffected by other tasks' scenario entries "
    "(C04_others_unaffected); by FlowAdequacy these hold of the generated jobs on every schedule (C04_on_every_schedule). That the real generated code recovers the panic, that errors.As yields a *cff.PanicError whose Value is the panic value (struct, error, string and "
    "*cff.PanicError values) and that the process survives is established per execution by the correspondence (flow tasks and predicates here; Parallel/Slice/Map functions in C10).",
    GEN_NOTE + " Process survival is a runtime fact no Gallina model exhibits; it is observed (the runner process must complete every planned execution).", "DESIGN.md §7 C04")

ALL = ["C%02d" % i for i in range(1, 21)]

NOT_YET = "check not built yet in this snapshot of /verif (work in progress per DESIGN.md §10); nothing is claimed for it at this commit"


def main():
    checks = []
    for pid in ALL:
        if pid not in CLAIMED:
            continue
        tech, text, note, ref = CLAIMED[pid]
        checks.append({
            "property_id": pid,
            "quick_cmd": "./check %s --tier quick" % pid,
            "thorough_cmd": "./check %s --tier thorough" % pid,
            "evidence_file": "/verif/evidence/%s.json" % pid,
            "replay_cmd_template": "./check %s --replay {path}" % pid,
            "engine": "coq+harness",
            "level_claimed": {"category": "proof", "text": text, "design_ref": ref},
            "level_note": note,
            "technique": tech,
        })
    man = {
        "version": 1,
        "setup_cmd": "./setup.sh",
        "hooks": {
            "guard": "verif",
            "enable": "go build -tags verif (Go build tag); hook call sites are empty inlinable stubs without the tag",
            "baseline_off_cmd": BASELINE_OFF,
            "source_commits": ["ebf917e"],
            "add_only": True,
        },
        "engines": [
            {"name": "coq+harness", "path": "/verif/coq, /verif/model, /verif/harness, /verif/check",
             "serves_properties": sorted(CLAIMED),
             "kind_free_text": "Coq 8.16 development (models, proofs, property theorems) + extracted OCaml model + Go correspondence harness driven by ./check"},
        ],
        "checks": checks,
        "notes": "Machine-checked proof in Coq 8.16.1; every model is tied to /repo by a correspondence check run on every invocation. See DESIGN.md.",
        "not_applicable": [{"property_id": p, "reason": NOT_YET} for p in ALL if p not in CLAIMED],
    }
    with open(os.path.join(VERIF, "MANIFEST.json"), "w") as f:
        json.dump(man, f, indent=1)


if __name__ == "__main__":
    main()
