"""Differential correspondence of AliasModel with the real printImportAlias (verif export hook)."""
import random

import common
import coq_cases


def gen_case(r):
    names = ["fmt", "template", "shape", "a", "_a", "__a", "ctx"]
    taken = r.sample(names, r.randint(0, 4))
    reqs = []
    paths = []
    for _ in range(r.randint(1, 8)):
        if paths and r.random() < 0.3:
            p, n = r.choice(paths)
        else:
            n = r.choice(names[:5])
            base = r.choice([n, n, n, "_" + n, n + ".v2", "go-" + n, r.choice(names)])
            d = r.choice(["", "x", "y", "a/b", "github.com/u/r"])
            p = (d + "/" if d else "") + base
            # one package name per path
            known = dict(paths)
            n = known.get(p, n)
            paths.append((p, n))
        reqs.append("%s %s" % (p, n))
    return "%s | %s" % (",".join(taken), " | ".join(reqs))


def apply(chk, n):
    r = random.Random(chk.seed * 31 + 13)
    cases = [gen_case(r) for _ in range(n)]
    cases += ["fmt,template | html/template template | text/template template | html/template template",
              " | a/shape shape | b/shape shape | a/shape shape", "shape,_shape | a/shape shape | b/shape shape"]
    exe = common.go_build("aliasdiff", tags="verif")
    rc, out, err = common.run([exe], input="\n".join(cases) + "\n", timeout=600)
    real = out.split("\n")
    model = common.model_run("alias", cases)
    collisions = 0
    for c, a, b in zip(cases, real, model):
        chk.count(1, key=("alias", c))
        if "_" in a.split(";")[0]:
            collisions += 1
        def canon(x):
            names, _, adds = x.partition(";")
            return names.split(), sorted(adds.strip().split(","))
        if canon(a) != canon(b):
            chk.violate("printImportAlias on `%s` returns `%s`; the model returns `%s`" % (c, a.strip(), b.strip()),
                        {"case": c, "real": a, "model": b})
            break
    step = max(1, len(cases) // 10)
    coq_cases.check_examples(chk, "alias", "AliasModel", [coq_cases.alias_example(cases[i], model[i]) for i in range(0, len(cases), step)][:12],
                             "names returned by the extracted AliasModel.requests re-computed inside Coq")
    chk.sample({"case": cases[0], "names_and_addImports": model[0]})
    chk.cov["correspondence"]["import_aliases"] = {
        "kind": "real printImportAlias (per-file maps) vs extracted AliasModel.requests on generated request sequences with forced name collisions",
        "cases": len(cases), "cases_with_mangled_names": collisions}
