"""Behavioural correspondence for generated cff.Parallel code (C10; also C03/C04/C06/C08/
C09/C15/C18 on Parallel): programs of progen_par are compiled by the real cff, executed
under scenario tables and compared with the flow semantics of their embedding."""
import hashlib
import json
import os
import re
import time

import common
import gen_common
import progen
import progen_par


def _hash_sources():
    h = hashlib.sha1()
    for fn in ("progen.py", "progen_par.py", "par_common.py", "gen_common.py"):
        h.update(open(os.path.join(common.VERIF, "lib", fn), "rb").read())
    h.update(open(os.path.join(common.COQ, "FlowSemModel.v"), "rb").read())
    h.update(open(os.path.join(common.MODEL, "driver.ml"), "rb").read())
    return h.hexdigest()[:12]


def compare(p, run, pred):
    hits = {}

    def bad(prop, m):
        hits.setdefault(prop, []).append(m)
    us = p.units()
    uid_of = {"t%d" % i: u[0] for i, u in enumerate(us)}
    kind_of = {u[0]: u[2] for u in us}
    deps_of = {u[0]: u[3] for u in us if u[2] == "end"}
    m = re.match(r"ERR=(.*) ; RES=(.*) ; CALLS=(.*) ; BLOCKED=(.*) ; OP=(.*) ; UNIQ=(.*) ; PROV=(.*) ; JOBS=(.*)$", pred)
    perr, pcalls, pblocked = m.group(1), m.group(3), m.group(4)
    if m.group(5) != "agree":
        bad("MODEL", "FlowOpModel and FlowSemModel disagree on the embedding of a Parallel: %s" % m.group(5))
    scen = run["scenario"]
    if run.get("precancel"):
        if run["err"] != "ctx":
            bad("C09", "Parallel: the context was cancelled before the directive ran and it returned %s" % run["err"])
        if run["calls"]:
            bad("C09", "Parallel: the context was cancelled before the directive ran and functions were still called: %s" % run["calls"])
        if run.get("leaked", 0) > 0 or not run.get("quiesced", True):
            bad("C06", "Parallel: %d goroutines still alive after the directive returned with a context cancelled beforehand" % run.get("leaked", 0))
        if p.instr:
            # the directive's own events do not depend on whether anything ran: one outcome matching the return value, then one Done
            evs = run.get("events") or []
            for k in range(p.emitters):
                ev = [e.split(":", 1)[1] for e in evs if e.startswith("e%d:" % k)]
                outcome = [e for e in ev if e.startswith("ParallelSuccess ") or e.startswith("ParallelError ")]
                done = [e for e in ev if e.startswith("ParallelDone ")]
                want = "ParallelSuccess " + p.name() if run["err"] == "nil" else "ParallelError %s %s" % (p.name(), run["err"])
                if outcome != [want]:
                    bad("C18", "Parallel called with a context cancelled beforehand returned %s and emitted outcome events %s" % (run["err"], outcome))
                elif len(done) != 1 or ev.index(done[0]) < ev.index(outcome[0]):
                    bad("C18", "ParallelDone not emitted exactly once after the outcome: %s" % ev)
        return hits
    want_calls = set(uid_of[c.split("(")[0]] for c in pcalls.split(";") if c)
    blocked = set(uid_of[b] for b in pblocked.split(",") if b)
    fails = []
    if perr != "nil":
        for a in perr.split("|"):
            kind, t = a.split(":")
            u = uid_of[t]
            fails.append((scen.get(u, "panic") if kind == "panic" else "err") + ":" + u)
    calls = {}
    for c in run["calls"]:
        uid, args = c.split("(", 1)
        args = [a for a in args[:-1].split(",") if a != ""]
        if uid in calls:
            bad("C10", "function %s was invoked more than once (scenario %s)" % (uid, scen))
        calls[uid] = args
    # every element call carries its own index/key and value
    for it in p.items:
        if it["kind"] == "slice":
            for j in range(it["n"]):
                uid = "s%d#%d" % (it["k"], j)
                if uid in calls:
                    want = [str(j), str(j)] if it["index"] else [str(j)]
                    if calls[uid] != want:
                        bad("C10", "Slice function received %s for element %d of its slice, expected %s" % (calls[uid], j, want))
        if it["kind"] == "map":
            for j in range(it["n"]):
                uid = "m%d#k%d" % (it["k"], j)
                if uid in calls and calls[uid] != ["k%d" % j, "k%d" % j]:
                    bad("C10", "Map function received %s for key k%d" % (calls[uid], j))
    for c in calls:
        if c not in kind_of:
            bad("C10", "a call %s(%s) that corresponds to no task, element or hook of the directive" % (c, calls[c]))
    # End hooks only after every element call of their own collection has returned
    for e, elems in deps_of.items():
        if e in calls:
            for el in elems:
                if el not in run["ends"] or run["ends"][el] > run["starts"].get(e, 0):
                    bad("C10", "%s started (seq %s) before element call %s had returned (seq %s)" % (e, run["starts"].get(e), el, run["ends"].get(el)))
                    break
    if perr == "nil":
        if run["err"] != "nil":
            bad("C10", "Parallel returned %s although nothing fails (scenario %s)" % (run["err"], scen))
        elif set(calls) != want_calls:
            bad("C10", "Parallel returned nil but invoked %s; the directive has %s" % (sorted(calls), sorted(want_calls)))
    elif p.coe:
        want_err = fails[0] if len(fails) == 1 else "multi[" + " ".join(sorted(fails)) + "]"
        if run["err"] != want_err:
            bad("C08", "ContinueOnError: Parallel returned %s, the failures are %s (scenario %s)" % (run["err"], want_err, scen))
        if set(calls) != want_calls:
            bad("C08", "ContinueOnError: invoked %s, expected every function not downstream of a failure: %s" % (sorted(calls), sorted(want_calls)))
    else:
        if run["err"] == "nil":
            pr = "C04" if any(f.startswith("panic") for f in fails) else "C07"
            bad(pr, "Parallel returned nil although %s (scenario %s)" % (fails, scen))
            bad("C10", "Parallel returned nil although %s (scenario %s)" % (fails, scen))
        elif run["err"] not in fails:
            pr = "C04" if any(f.startswith("panic") for f in fails) else "C07"
            bad(pr, "Parallel returned %s, expected one of %s (scenario %s)" % (run["err"], fails, scen))
        for b in blocked:
            if b in calls:
                bad("C10", "%s was invoked although an element call of its collection failed or panicked (scenario %s)" % (b, scen))
    # common observations
    if run["args"] != list(range(p.nargs)):
        bad("C15", "Parallel: argument expressions evaluated in order %s, source order is 0..%d" % (run["args"], p.nargs - 1))
    if not run["args_before_start"]:
        bad("C15", "Parallel: an argument expression was evaluated after a task had started")
    if run.get("ctx_bad"):
        bad("C09", "Parallel: functions %s did not receive the directive's context" % run["ctx_bad"])
    if p.has_conc and run["conc"] > 0 and run["max_inflight"] > run["conc"]:
        bad("C03", "Parallel: %d functions in flight with Concurrency(%d)" % (run["max_inflight"], run["conc"]))
    if run.get("leaked", 0) > 0 or not run.get("quiesced", True):
        bad("C06", "Parallel: %d goroutines still alive after the directive returned (scenario %s)" % (run.get("leaked", 0), scen))
    elif p.instr:
        evs = run.get("events") or []
        for k in range(p.emitters):
            ev = [e.split(":", 1)[1] for e in evs if e.startswith("e%d:" % k)]
            outcome = [e for e in ev if e.startswith("ParallelSuccess ") or e.startswith("ParallelError ")]
            done = [e for e in ev if e.startswith("ParallelDone ")]
            want = "ParallelSuccess " + p.name() if run["err"] == "nil" else "ParallelError %s %s" % (p.name(), run["err"])
            if outcome != [want]:
                bad("C18", "Parallel returned %s and emitted outcome events %s" % (run["err"], outcome))
            elif len(done) != 1 or ev.index(done[0]) < ev.index(outcome[0]):
                bad("C18", "ParallelDone not emitted exactly once after the outcome: %s" % ev)
            # instrumented Parallel tasks: one outcome event matching what the function did, one TaskDone; skipped otherwise on nil
            for it in p.items:
                if it["kind"] != "task" or not it.get("instr"):
                    continue
                tid = "t%d" % it["k"]
                outs = [e for e in ev if e.split(" ")[0] in ("TaskSuccess", "TaskError", "TaskPanic", "TaskErrorRecovered", "TaskPanicRecovered") and e.split(" ")[1] == tid]
                dones = [e for e in ev if e == "TaskDone " + tid]
                skipped = [e for e in ev if e.startswith("TaskSkipped " + tid + " ")]
                if tid in calls:
                    sc = scen.get(tid, "ok")
                    want_ev = {"ok": "TaskSuccess", "err": "TaskError"}.get(sc, "TaskPanic")
                    if len(outs) != 1 or not outs[0].startswith(want_ev + " "):
                        bad("C18", "Parallel task %s (%s) emitted outcome events %s, expected exactly one %s" % (tid, sc, outs, want_ev))
                    if len(dones) != 1:
                        bad("C18", "Parallel task %s was invoked and emitted %d TaskDone events" % (tid, len(dones)))
                elif run["err"] == "nil" and len(skipped) != 1:
                    bad("C18", "Parallel task %s was not invoked in a directive returning nil and emitted %d TaskSkipped events" % (tid, len(skipped)))
    return hits


@common.serialised("par")
def observe(seed, tier):
    key = "par-%s-%s-%d-%s" % (common.repo_tree_hash(), _hash_sources(), seed, tier)
    cpath = os.path.join(common.CACHE, key + ".json")
    os.makedirs(common.CACHE, exist_ok=True)
    if os.path.exists(cpath):
        return json.load(open(cpath))
    t0 = time.time()
    quick = tier == "quick"
    pars, r = progen_par.gen_pars(seed, 48 if quick else 1200)
    mod = common.make_gen_module("par-%d-%s" % (seed, tier))
    gdir = os.path.join(mod, "gen")
    os.makedirs(gdir)
    files = progen.render_package([], 1, variants=False)
    files.update(progen_par.render_files(pars))
    for name, text in files.items():
        open(os.path.join(gdir, name), "w").write(text)
    rdir = os.path.join(mod, "cmd", "runner")
    os.makedirs(rdir)
    open(os.path.join(rdir, "main.go"), "w").write(progen.render_runner(pars, None, None))
    S = {"programs": len(pars), "executions": 0, "hits": {}, "samples": [], "dist": {"scenario": {}, "items": {}, "sizes": {}}, "ok": True, "module": mod}

    def hit(p, what, payload):
        lst = S["hits"].setdefault(p, [])
        if len(lst) < 4:
            lst.append({"what": what, "payload": payload})
    rc, out = common.run_cff(mod, "./gen")
    if rc != 0 or "panic:" in out:
        S["ok"] = False
        hit("C13", "cff failed on a package of Parallel programs (exit %d): %s" % (rc, out.strip().split("\n")[-1][:200]), {"output": out[-4000:], "module": mod})
    else:
        rcv, o, e = common.run(["go", "build", "./gen/..."], cwd=mod, env=common.GOENV, check=False, timeout=900)
        if rcv != 0:
            S["ok"] = False
            errs = [l for l in (o + e).split("\n") if "_gen.go" in l]
            hit("C13", "generated Parallel code does not type-check: %s" % (errs[0] if errs else (o + e)[-200:]), {"output": (o + e)[-3000:], "module": mod})
            # which program? the signature combination is a concrete input for C10
            mm = re.search(r"(pars\d+_gen\.go):(\d+)", errs[0]) if errs else None
            if mm:
                lines = open(os.path.join(gdir, mm.group(1))).read().split("\n")[:int(mm.group(2))]
                fnm = [re.match(r"func (Par\d+)\(", x).group(1) for x in lines if re.match(r"func (Par\d+)\(", x)]
                if fnm:
                    pf = [p for p in pars if p.name() == fnm[-1]][0]
                    hit("C10", "generated code for %s (items %s) does not compile: %s" % (pf.name(), [(i["kind"], i.get("index"), i.get("end")) for i in pf.items], errs[0].split(": ", 1)[-1][:160]),
                        {"go_function": pf.name(), "source": pf.render(), "output": (o + e)[-2000:]})
    if S["ok"]:
        # End hooks must be wired to the jobs of their own collection
        gotext = {}
        for fn in sorted(os.listdir(gdir)):
            if fn.endswith("_gen.go") and fn.startswith("pars"):
                parts = re.split(r"^func (Par\d+)\(", open(os.path.join(gdir, fn)).read(), flags=re.M)
                for i in range(1, len(parts), 2):
                    gotext[parts[i]] = parts[i + 1]
        for p in pars:
            nend = sum(1 for it in p.items if it.get("end"))
            # a job whose Dependencies is a variable (the slice of element jobs), not a literal list - whatever its name
            got = len(re.findall(r"Dependencies:\s*[A-Za-z_]\w*\s*[,}]", gotext.get(p.name(), "")))
            if got != nend:
                hit("C10", "%s has %d End hooks; the generated code enqueues %d jobs depending on the element jobs of a collection" % (p.name(), nend, got),
                    {"go_function": p.name(), "source": p.render()})
        # the embedding the harness uses must be the one defined in Coq (ParallelModel.par_flow)
        emb = common.model_run("parflow", [p.abstract_line() for p in pars])
        for p, line in zip(pars, emb):
            if line.strip() != p.model_line().strip():
                hit("MODEL", "the harness' embedding of %s differs from ParallelModel.par_flow: %s vs %s" % (p.name(), p.model_line(), line), {"program": p.abstract_line()})
        exe = os.path.join(mod, "runner.bin")
        common.run(["go", "build", "-o", exe, "./cmd/runner"], cwd=mod, env=common.GOENV, timeout=900)
        plan = []
        for pi, p in enumerate(pars):
            for si, (label, sc) in enumerate(p.scenarios(r, quick=quick)):
                concs = [1, 3, 0] if label == "allok" else [[1, 2, 4, 0][(pi + si) % 4]]
                for cval in concs:
                    sl = {}
                    for u in p.units():
                        if u[2] == "elem" and r.random() < 0.6:
                            sl[u[0]] = r.randint(1, 500)
                    plan.append({"flow": p.name(), "label": label, "conc": cval, "scenario": sc, "sleeps": sl})
        for pi, p in enumerate(pars):
            if pi % 3 == 0:
                plan.append({"flow": p.name(), "label": "precancel", "conc": [1, 2, 0][pi % 3], "scenario": {}, "sleeps": {}, "precancel": True})
        json.dump(plan, open(os.path.join(mod, "plan.json"), "w"))
        rc, out, err = common.run([exe], input=json.dumps(plan), check=False, timeout=3000)
        runs = [json.loads(l) for l in out.split("\n") if l.strip()]
        if rc != 0 or len(runs) != len(plan):
            last = [l for l in err.split("\n") if l.startswith("RUN ")]
            entry = plan[len(runs)] if len(runs) < len(plan) else None
            hit("C04", "the process running generated Parallel code died (exit %d) during %s" % (rc, last[-1] if last else "?"),
                {"stderr_tail": err[-3000:], "plan_entry": entry})
            if entry and (entry.get("precancel") or "cancel" in entry.get("scenario", {}).values()):
                # a directive whose context is done returns the context's error; it does not take the process down
                hit("C09", "a Parallel called with a cancelled context did not return: the process died (exit %d) during %s" % (rc, last[-1] if last else "?"),
                    {"stderr_tail": err[-3000:], "plan_entry": entry})
        byname = {p.name(): p for p in pars}
        lines = []
        for run in runs:
            p = byname[run["flow"]]
            idx = {u[0]: i for i, u in enumerate(p.units())}
            lines.append(p.model_line() + " # " + " ".join("t%d=%s" % (idx[k], "panic" if v.startswith("panic") else v) for k, v in sorted(run["scenario"].items())))
        preds = common.model_run("flowobs", lines) if lines else []
        for run, pred in zip(runs, preds):
            p = byname[run["flow"]]
            S["executions"] += 1
            if len(p.units()) >= 2 or run["scenario"] or run.get("precancel"):
                S.setdefault("distinct_keys", []).append(hashlib.sha1(json.dumps(
                    [p.abstract_line(), p.coe, run["scenario"], run["conc"], bool(run.get("precancel"))], sort_keys=True).encode()).hexdigest()[:12])
            S["dist"]["scenario"][run["label"]] = S["dist"]["scenario"].get(run["label"], 0) + 1
            for prop, msgs in compare(p, run, pred).items():
                hit(prop, msgs[0], {"program": [dict(i) for i in p.items], "continue_on_error": p.coe, "go_function": p.name(), "scenario": run["scenario"], "conc": run["conc"],
                                    "observed": {k: run[k] for k in ("err", "calls", "args", "events", "starts", "ends")}, "model_embedding": p.model_line(),
                                    "model_prediction": pred, "all": msgs[:4], "module": mod})
            if len(S["samples"]) < 2 and run["label"] == "err":
                S["samples"].append({"program": p.model_line(), "scenario": run["scenario"], "observed_err": run["err"], "model": pred[:300]})
        for p in pars:
            for it in p.items:
                S["dist"]["items"][it["kind"]] = S["dist"]["items"].get(it["kind"], 0) + 1
                if "n" in it and it["kind"] != "tasks":
                    S["dist"]["sizes"][str(it["n"])] = S["dist"]["sizes"].get(str(it["n"]), 0) + 1
    S["wall_s"] = round(time.time() - t0, 1)
    with open(cpath, "w") as fh:
        json.dump(S, fh)
    return S


def apply_race(chk, limit):
    s = observe(chk.seed, chk.tier)
    if not s["ok"]:
        return
    key = "par-%s-%s-%d-%s" % (common.repo_tree_hash(), _hash_sources(), chk.seed, chk.tier)
    r = gen_common.race_run(s["module"], key, limit)
    chk.cov["evaluations"] += r["executions"]
    chk.cov.setdefault("correspondence", {})["generated_parallels_race_detector"] = {
        "kind": "runner of the generated Parallel programs built with -race", "executions": r["executions"], "races": r["races"]}
    if r["races"]:
        chk.violate("the Go race detector reports a data race in generated Parallel code during %s" % r["during"], {"report": r["report"], "during": r["during"], "module": s["module"]})


def apply(chk, pid):
    s = observe(chk.seed, chk.tier)
    chk.cov["evaluations"] += s["executions"]
    chk.cov["traces_validated_against_impl"] = chk.cov.get("traces_validated_against_impl", 0) + s["executions"]
    chk.cov.setdefault("correspondence", {})["generated_parallels"] = {
        "kind": "cff.Parallel programs (Task/Tasks/Slice/Map, all signature shapes, empty and nil collections, End hooks, ContinueOnError) compiled by the real cff and executed under scenario tables; compared with the flow semantics of their embedding",
        "programs": s["programs"], "executions": s["executions"], "input_distribution": s["dist"]}
    for smp in s["samples"][:1]:
        chk.sample(smp)
    for k in s.get("distinct_keys", []):
        chk.distinct.add(("par", k))
    rule = ("generated Parallel programs: seeded mixes of Task/Tasks/Slice/Map (index/no-index, ctx/no-ctx, error/no-error, sizes 0-8, nil collections, named slice types, End hooks, "
            "ContinueOnError, instrumentation, generic enclosing functions), each under the all-ok scenario at three concurrency levels, single failures, small multi-failure sets and a "
            "pre-cancelled context; distinct = different (program, mode, scenario, concurrency); non-trivial = at least two functions/elements or a non-empty scenario")
    if rule not in chk.cov["rule"]:
        chk.cov["rule"] = (chk.cov["rule"] + " | " if chk.cov["rule"] else "") + rule
    for h in s["hits"].get(pid, [])[:1]:
        chk.violate(h["what"], h["payload"])
    for h in s["hits"].get("MODEL", [])[:1]:
        chk.fail_no_input("the two Coq models disagree with each other: " + h["what"], {"theorem": "FlowOpModel vs FlowSemModel (extracted)", "detail": h["payload"]})
    if pid != "C13" and not s["ok"]:
        chk.fail_no_input("correspondence generated-Parallel-code/model could not run: the generated package was not produced or does not build",
                          {"correspondence": "generated_parallels", "hits": s["hits"].get("C13", [])[:1]})
    return s
