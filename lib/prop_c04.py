"""c04 — generated Flow code against the flow semantics; see gen_common.py."""
import gen_common
import par_common

DEP_FILES = ["FlowSemModel.v", "FlowSemProofs.v", "FlowOpModel.v", "FlowOpProofs.v", "FlowAdequacy.v"]
PID = "C04"


def run(chk):
    chk.recheck_proofs()
    gen_common.apply(chk, PID)
    par_common.apply(chk, PID)
    chk.assumptions += gen_common.ASSUMPTIONS
