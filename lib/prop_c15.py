"""c15 — argument evaluation order: PrologueModel theorems, static comparison of every
generated prologue with the model, evaluation logs of generated programs, probe F9."""
import gen_common
import par_common
import probes

DEP_FILES = ["PrologueModel.v", "PrologueProofs.v", "ScopeModel.v", "ScopeProofs.v"]
PID = "C15"


def run(chk):
    chk.recheck_proofs()
    gen_common.apply(chk, PID)
    par_common.apply(chk, PID)
    verdict, detail = probes.run_probe("F9")
    chk.count(1, key=("probe", "F9"))
    chk.cov["correspondence"]["probe_F9_err_capture"] = verdict
    if verdict != "ok":
        chk.violate("probe ErrCapture (an argument expression mentions an enclosing variable named err): " + verdict,
                    {"probe": "F9", "source": probes.F9, "detail": detail})
    chk.assumptions += gen_common.ASSUMPTIONS
