"""Tie of SignatureModel (compile_function, compile_predicate, compile_task) to
internal/compile.go compileFunction / compilePredicate / interpretTaskOptions / compileTask:
single-task flows over random signatures built from context.Context, error, bool and atom
types in every position, with and without a predicate, FallbackWith (right and wrong
number of values) and Invoke(true); one flow per file. For every file the real cff's
accept/reject verdict and the set of its diagnostic classes must be the model's, and the
accepted files' generated code must build (the call fn(ctx?, inputs...) and the bindings
outputs..., err? := are the signature: theorem call_matches_signature)."""
import os
import random
import re

import common
import coq_cases

ATOMS = ["0", "1", "2", "3", "4", "5"]
GO = {"c": "context.Context", "e": "error", "b": "bool"}
DIAGS = [
    ("SVariadic", r"variadic functions are not yet supported"),
    ("SCtxPos", r"only the first argument may be context\.Context"),
    ("SErrPos", r"only the last result may be an error"),
    ("SPredResult", r"the function must return a single boolean result"),
    ("SFbCount", r"cff\.FallbackWith must produce the same number of results as the task"),
    ("SFbNoErr", r"Task must return an error for FallbackWith to be used"),
    ("SNoOutput", r"task must return at least one non-error value"),
    ("SInvokeWithOutput", r"cff\.Invoke cannot be provided on a Task that produces values besides errors"),
    ("InstrNoEmitter", r"cff\.Instrument requires a cff\.Emitter to be provided"),
]


def gotype(t):
    return GO.get(t, "T" + t)


class Case:
    def __init__(self):
        self.variadic = False
        self.params = []
        self.results = []
        self.pred = None      # (variadic, params, results)
        self.fallback = None  # number of values
        self.invoke = False
        # instrumentation (validateInstrument): cff.Instrument on the task and/or cff.InstrumentFlow, and a
        # cff.WithEmitter option before the task, after it, or missing - only used on declarations the
        # signature rules accept
        self.instr = False
        self.flowinstr = False
        self.emitter = "none"

    def line(self):
        def sig(v, ps, rs):
            return "%d %s > %s" % (1 if v else 0, " ".join(ps), " ".join(rs))
        parts = ["F " + sig(self.variadic, self.params, self.results)]
        if self.pred is not None:
            parts.append("P " + sig(*self.pred))
        if self.fallback is not None:
            parts.append("FB %d" % self.fallback)
        parts.append("INV %d" % (1 if self.invoke else 0))
        if getattr(self, "use_instr", False):
            parts.append("X instrument=%s instrumentflow=%s emitter=%s" % (self.instr, self.flowinstr, self.emitter))   # not read by the model
        return " | ".join(parts)


def gen_case(r):
    c = Case()
    ins_pool = ["e", "0", "1", "2"]
    outs_pool = ["c", "3", "4", "5", "b"]
    k = r.choice([0, 1, 1, 2, 2, 3])
    ins = r.sample(ins_pool, min(k, len(ins_pool)))
    c.params = list(ins)
    mode = r.random()
    if mode < 0.45:
        c.params.insert(0, "c")
    elif mode < 0.60 and c.params:
        c.params.insert(r.randint(1, len(c.params)), "c")       # context not first
    elif mode < 0.66:
        c.params = ["c", "c"] + c.params                        # two contexts
    k = r.choice([0, 1, 1, 1, 2, 3])
    c.results = r.sample(outs_pool, min(k, len(outs_pool)))
    mode = r.random()
    if mode < 0.5:
        c.results.append("e")
    elif mode < 0.62 and c.results:
        c.results.insert(r.randint(0, len(c.results) - 1), "e")  # error not last
    elif mode < 0.66:
        c.results = c.results + ["e", "e"]
    c.variadic = r.random() < 0.06
    if r.random() < 0.45:
        pins = r.sample(["0", "1", "2", "e"], r.randint(0, 2))
        pm = r.random()
        pres = ["b"]
        if pm < 0.15:
            pres = ["b", "e"]
        elif pm < 0.21:
            pres = []
        elif pm < 0.27:
            pres = ["3"]
        elif pm < 0.32:
            pres = ["b", "3"]
        elif pm < 0.36:
            pres = ["e"]
        if r.random() < 0.4:
            pins.insert(0, "c")
        elif r.random() < 0.15 and pins:
            pins.append("c")
        c.pred = (r.random() < 0.05, pins, pres)
    nouts = len([x for x in c.results if x != "e"])
    if r.random() < 0.3:
        c.fallback = nouts if r.random() < 0.7 else max(0, nouts + r.choice([-1, 1]))
    c.invoke = (nouts == 0) if r.random() < 0.85 else (nouts != 0)
    if r.random() < 0.35:
        c.instr = r.random() < 0.7
        c.flowinstr = (not c.instr) or r.random() < 0.3
        c.emitter = r.choice(["before", "after", "after", "none"])
    return c


def render(i, c, instrumented=True):
    """Go source of case i (build tag cff): the functions and a flow using them."""
    L = ["//go:build cff", "", "package vsig", "", "import (", '\t"context"', "", '\t"go.uber.org/cff"', ")", ""]

    def fn(name, variadic, ps, rs):
        ps_ = ["p%d %s" % (k, gotype(t)) for k, t in enumerate(ps)]
        if variadic:
            ps_.append("rest ...T5")
        body = ["\tvar r%d %s" % (k, gotype(t)) for k, t in enumerate(rs)]
        ret = "\treturn " + ", ".join("r%d" % k for k in range(len(rs))) if rs else ""
        return ["func %s(%s) (%s) {" % (name, ", ".join(ps_), ", ".join(gotype(t) for t in rs))] + body + ([ret] if ret else []) + ["}", ""]
    L += fn("fn%04d" % i, c.variadic, c.params, c.results)
    if c.pred is not None:
        L += fn("pr%04d" % i, *c.pred)
    inputs = [t for t in c.params if t != "c"]
    if c.pred is not None:
        inputs += [t for t in c.pred[1] if t != "c" and t not in inputs]
    outs = [t for t in c.results if t != "e"]
    L.append("func Flow%04d(ctx context.Context) error {" % i)
    for k, t in enumerate(inputs):
        L.append("\tvar in%d %s" % (k, gotype(t)))
    for k, t in enumerate(outs):
        L.append("\tvar out%d %s" % (k, gotype(t)))
    nfb = c.fallback or 0
    for k in range(nfb):
        L.append("\tvar fb%d %s" % (k, gotype(outs[k]) if k < len(outs) else "T5"))
    opts = []
    if c.pred is not None:
        opts.append("cff.Predicate(pr%04d)" % i)
    if c.fallback is not None:
        opts.append("cff.FallbackWith(%s)" % ", ".join("fb%d" % k for k in range(nfb)))
    if c.invoke:
        opts.append("cff.Invoke(true)")
    if c.instr and instrumented:
        opts.append('cff.Instrument("t%d")' % i)
    random.Random(i).shuffle(opts)   # task options in any order
    L.append("\treturn cff.Flow(ctx,")
    if inputs:
        L.append("\t\tcff.Params(%s)," % ", ".join("in%d" % k for k in range(len(inputs))))
    if outs:
        L.append("\t\tcff.Results(%s)," % ", ".join("&out%d" % k for k in range(len(outs))))
    if instrumented and c.emitter == "before":
        L.append("\t\tcff.WithEmitter(cff.NopEmitter()),")
    if instrumented and c.flowinstr and i % 2 == 0:
        L.append('\t\tcff.InstrumentFlow("f%d"),' % i)
    L.append("\t\tcff.Task(%s)," % ", ".join(["fn%04d" % i] + opts))
    if instrumented and c.flowinstr and i % 2 == 1:
        L.append('\t\tcff.InstrumentFlow("f%d"),' % i)
    if instrumented and c.emitter == "after":
        L.append("\t\tcff.WithEmitter(cff.NopEmitter()),")
    L.append("\t)")
    L.append("}")
    return "\n".join(L) + "\n"


def coq_example(c, mv):
    """the model's verdict on c, as a Coq proposition closed by vm_compute"""
    def ty(t):
        return {"c": "GCtx", "e": "GErr", "b": "GBool"}.get(t, "GVal %s" % t)

    def sg(v, ps, rs):
        return "{| sg_variadic := %s; sg_params := [%s]; sg_results := [%s] |}" % (
            "true" if v else "false", "; ".join(ty(t) for t in ps), "; ".join(ty(t) for t in rs))
    t = "{| td_fn := %s; td_pred := %s; td_fallback := %s; td_invoke := %s |}" % (
        sg(c.variadic, c.params, c.results), "None" if c.pred is None else "Some (%s)" % sg(*c.pred),
        "None" if c.fallback is None else "Some %d" % c.fallback, "true" if c.invoke else "false")
    ds = [x for x in mv.split()[1].split(",") if x] if mv.startswith("REJECT") else []
    return "compile_task %s = [%s]" % (t, "; ".join(ds))


def classify(msgs):
    out = set()
    for m in msgs:
        for name, rx in DIAGS:
            if re.search(rx, m):
                out.add(name)
                break
        else:
            out.add("Other:" + m[:70])
    return out


def apply(chk, mod):
    n = 140 if chk.tier == "quick" else 1500
    r = random.Random(chk.seed * 7919 + 17)
    cases = [gen_case(r) for _ in range(n)]
    pkg = os.path.join(mod, "vsig")
    os.makedirs(pkg)
    open(os.path.join(pkg, "types.go"), "w").write("package vsig\n\n" + "".join("type T%s struct{ V int }\n" % a for a in ATOMS))
    model = common.model_run("sigtask", [c.line() for c in cases])
    for c, mv in zip(cases, model):
        # instrumentation options are added to declarations the signature rules accept only
        c.use_instr = mv.startswith("ACCEPT") and (c.instr or c.flowinstr)
    for i, c in enumerate(cases):
        open(os.path.join(pkg, "s%04d.go" % i), "w").write(render(i, c, c.use_instr))
    rc, out = common.run_cff(mod, "./vsig")
    if "panic:" in out or "goroutine 1 [" in out:
        chk.violate("cff crashed on a generated package of single-task flows", {"output": out[-3000:]})
        return
    permsgs = {}
    for line in out.split("\n"):
        m = re.search(r"vsig/s(\d+)\.go:\d+:\d+: (.*)", line)
        if m:
            permsgs.setdefault(int(m.group(1)), []).append(m.group(2))
    step = max(1, len(cases) // (16 if chk.tier == "quick" else 120))
    coq_cases.check_examples(chk, "signatures", "SignatureModel", [coq_example(cases[i], model[i]) for i in range(0, len(cases), step)],
                             "verdicts of the extracted compile_task re-computed inside Coq by vm_compute")
    dist = {"accepted": 0, "rejected": 0, "diags": {}}
    diff = None
    for i, (c, mv) in enumerate(zip(cases, model)):
        acc_impl = os.path.exists(os.path.join(pkg, "s%04d_gen.go" % i))
        mdiags = set(x for x in mv.split()[1].split(",") if x and x != "-") if mv.startswith("REJECT") else set()
        acc_model = mv.startswith("ACCEPT")
        if c.use_instr and c.emitter == "none":
            # validateInstrument: an instrumented flow or task needs an emitter - wherever the options stand
            acc_model, mdiags = False, {"InstrNoEmitter"}
        idiags = classify(permsgs.get(i, []))
        if not acc_model:
            # a refused declaration leaves the flow's graph incomplete: the follow-on graph diagnostics
            # (unused Params value, missing provider ...) are ValidateModel's subject, not this model's
            idiags = set(d for d in idiags if not d.startswith("Other:"))
        chk.count(1, key=("sig", c.line()), nontrivial=True)
        dist["accepted" if acc_impl else "rejected"] += 1
        for d in idiags:
            dist["diags"][d] = dist["diags"].get(d, 0) + 1
        if acc_impl != acc_model:
            chk.violate("cff %s a task declaration that the signature rules %s: %s" % (
                "accepted" if acc_impl else "rejected", "refuse" if acc_impl else "accept", c.line()),
                {"case": c.line(), "go_source": render(i, c, c.use_instr), "cff_messages": permsgs.get(i, []), "model": mv})
            return
        if not acc_impl and not permsgs.get(i):
            chk.violate("cff rejected a task declaration without a diagnostic naming its file: %s" % c.line(),
                        {"case": c.line(), "go_source": render(i, c, c.use_instr), "output_tail": out[-1500:]})
            return
        if idiags != mdiags and diff is None:
            diff = ("diagnostics differ between cff %s and SignatureModel.compile_task %s on %s" % (sorted(idiags), sorted(mdiags), c.line()),
                    {"theorem": "correspondence SignatureModel.compile_task ~ compileTask/compileFunction/compilePredicate (diagnostic classes)",
                     "case": c.line(), "go_source": render(i, c, c.use_instr), "cff_messages": permsgs.get(i, []), "model": mv})
    if diff is not None:
        chk.fail_no_input(*diff)
        return
    # the accepted declarations: the generated calls must be the signatures (call_matches_signature)
    rc, bout, berr = common.run(["go", "build", "./vsig"], cwd=mod, env=common.GOENV, check=False, timeout=1200)
    if rc != 0:
        m = re.search(r"vsig/s(\d+)_gen\.go", bout + berr)
        k = int(m.group(1)) if m else None
        chk.violate("the code generated for an accepted task declaration does not build%s" % (": " + cases[k].line() if k is not None else ""),
                    {"case": cases[k].line() if k is not None else None, "go_source": render(k, cases[k]) if k is not None else None,
                     "build_output": (bout + berr)[-2500:]})
        return
    chk.cov["traces_validated_against_impl"] = chk.cov.get("traces_validated_against_impl", 0) + len(cases)
    chk.cov.setdefault("correspondence", {})["signatures"] = {
        "kind": "single-task flows over random signatures (context.Context / error / bool / atoms in every position, variadic, predicate, FallbackWith count, Invoke): verdict and diagnostic classes of the real cff vs SignatureModel.compile_task; generated code of the accepted ones built",
        "cases": len(cases), "distribution": dist}
    chk.sample({"signature_case": cases[0].line(), "model": model[0], "cff": permsgs.get(0, [])})
