"""c02 — generated Flow code against the flow semantics; see gen_common.py."""
import coq_cases
import gen_common
import topo_common

DEP_FILES = ["FlowSemModel.v", "FlowOpModel.v", "FlowOpProofs.v", "FlowBridge.v", "FlowAdequacy.v", "FlowComplete.v", "FlowListing.v", "SchedFlowCompose.v", "TopoModel.v", "TopoProofs.v"]
PID = "C02"


def run(chk):
    chk.recheck_proofs()
    s = gen_common.apply(chk, PID)
    if s.get("coqcases"):
        coq_cases.check(chk, [tuple(c) for c in s["coqcases"]])
    topo_common.apply(chk, 300 if chk.tier == "quick" else 20000)
    chk.assumptions += gen_common.ASSUMPTIONS
