"""c02 — generated Flow code against the flow semantics; see gen_common.py."""
import gen_common

DEP_FILES = ["FlowSemModel.v", "FlowOpModel.v", "FlowOpProofs.v", "FlowBridge.v"]
PID = "C02"


def run(chk):
    chk.recheck_proofs()
    gen_common.apply(chk, PID)
    chk.assumptions += gen_common.ASSUMPTIONS
