"""C16 — only directives rewritten; build tags exactly inverted; other files untouched."""
import json

import common
import files_common

DEP_FILES = ["BuildTagModel.v", "BuildTagProofs.v", "FileSelModel.v", "FileSelProofs.v"]


def conj(tables):
    out = ["1"] * 16
    for t in tables:
        out = ["1" if (a == "1" and b == "1") else "0" for a, b in zip(out, t)]
    return "".join(out)


def run(chk):
    chk.recheck_proofs()
    quick = chk.tier == "quick"
    exe = common.go_build("tagdiff")
    args = [exe, "-seed", str(chk.seed), "-depth", "2",
            "-nrand", "600" if quick else "20000", "-nheaders", "400" if quick else "10000"]
    rc, out, err = common.run(args, timeout=1200)
    cases = [json.loads(l) for l in out.split("\n") if l.strip()]
    asts = [c for c in cases if c["kind"] == "ast"]
    hdrs = [c for c in cases if c["kind"] == "header"]

    # 1. the model's invert and has_cff against the real functions, AST for AST
    res = common.model_run("invert", [c["in"] for c in asts])
    assert len(res) == len(asts), (len(res), len(asts))
    dist = {"ast_cases": len(asts), "ast_with_cff": 0, "headers": len(hdrs), "max_ast_tokens": 0}
    for c, r in zip(asts, res):
        mout, mhas = r.rsplit(" | ", 1)
        chk.count(1, key=("ast", c["in"]), nontrivial=c["has"])
        dist["ast_with_cff"] += 1 if c["has"] else 0
        dist["max_ast_tokens"] = max(dist["max_ast_tokens"], len(c["in"].split()))
        if mout != c["out"] or (mhas == "1") != c["has"]:
            # model and code differ: decide with the property itself (truth tables)
            t = common.model_run("table", [c["in"], c["out"]])
            src_flipped = t[0].split()[2]
            impl_table = t[1].split()[0]
            if impl_table != src_flipped:
                chk.violate("invertCffConstraint output is not the cff-flipped source constraint",
                            {"input_expr": c["in"], "impl_output": c["out"], "model_output": mout,
                             "truth_table_source_flipped": src_flipped, "truth_table_output": impl_table,
                             "tags": "bit i of the table index = tag i of [cff,a,b,c]"})
            else:
                chk.fail_no_input("model invert and implementation differ syntactically on %s" % c["in"],
                                  {"theorem": "correspondence BuildTagModel.invert ~ invertCffConstraint",
                                   "input_expr": c["in"], "impl_output": c["out"], "model_output": mout})
            break
    if asts:
        chk.sample({"kind": "ast", "in": asts[-1]["in"], "impl_out": asts[-1]["out"]})

    # 2. whole headers through writeInvertedCffTag: direct oracle + model truth tables
    for c in hdrs:
        chk.count(1, key=("hdr", tuple(c["src"])), nontrivial=any("cff" in l for l in c["src"]))
        if not c["oracle_ok"]:
            chk.violate("generated header is not selected exactly when the source is with cff flipped: " + c["oracle_msg"],
                        {"source_header": c["src"], "generated_header": c.get("out"), "detail": c["oracle_msg"]})
            break
    # model side: tables of invert(src) vs tables of the parsed output
    lines, index = [], []
    for i, c in enumerate(hdrs):
        if not c["oracle_ok"]:
            continue
        for k in ("src_gb", "out_gb", "src_pb", "out_pb"):
            for e in c[k]:
                lines.append(e)
                index.append((i, k))
    tabs = common.model_run("table", lines) if lines else []
    per = {}
    for (i, k), t in zip(index, tabs):
        per.setdefault(i, {}).setdefault(k, []).append(t.split())
    nmodel = 0
    for i, d in per.items():
        c = hdrs[i]
        src_gb = [t[1] for t in d.get("src_gb", [])]    # table of invert(src)
        out_gb = [t[0] for t in d.get("out_gb", [])]
        src_pb = conj([t[1] for t in d.get("src_pb", [])])
        out_pb = conj([t[0] for t in d.get("out_pb", [])])
        nmodel += 1
        if src_gb != out_gb or src_pb != out_pb:
            chk.fail_no_input("model header inversion and implementation output differ semantically",
                              {"theorem": "correspondence BuildTagModel.invert_header ~ writeInvertedCffTag",
                               "source_header": c["src"], "generated_header": c["out"]})
            break
    chk.cov["traces_validated_against_impl"] = len(asts) + nmodel
    if hdrs:
        chk.sample({"kind": "header", "src": hdrs[0]["src"], "out": hdrs[0].get("out")})
    chk.cov["correspondence"] = {
        "invert_vs_invertCffConstraint": "exact AST equality on all expressions of depth<=2 over {cff,a,b} (1179) plus random deeper ones",
        "headers": "writeInvertedCffTag on random multi-line headers in both syntaxes; truth tables over {cff,a,b,c} vs model and vs the property's own statement",
        "input_distribution": dist,
    }
    files_common.apply(chk)
    chk.cov["rule"] = ("cases: every constraint AST of depth<=2 over 3 tags, seeded random ASTs of depth 3..7, seeded random "
                       "headers (go:build + several +build lines + filler/unparsable lines); distinct = different input text; "
                       "non-trivial = mentions the cff tag")
    chk.assumptions += [
        "constraint.Parse / Expr.String / PlusBuildLines are Go library code (oracle in the header theorem; its contract is re-validated by truth tables on every run)",
        "gofmt's later re-synchronisation of // +build with //go:build is Go library code",
    ]
