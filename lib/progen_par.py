"""Generator of cff.Parallel programs for C10 (and C04/C08/C18 on Parallel): Task, Tasks,
Slice and Map items in all signature shapes, collections of all sizes incl. empty and
nil, named slice types, SliceEnd / MapEnd hooks, ContinueOnError, instrumentation.
Each program comes with its embedding as an abstract flow (one model task per Task
function, per element and per End hook; an End hook consumes one type from every element
of its collection), which FlowSemModel / FlowOpModel evaluate."""
import random


class ParFlow:
    def __init__(self, idx, r):
        self.idx = idx
        self.items = []
        self.coe = r.random() < 0.3
        self.has_conc = r.random() < 0.8
        self.instr = r.random() < 0.4
        self.emitters = r.choice([1, 2]) if self.instr else 0
        self.generic = r.random() < 0.15
        nitems = r.randint(1, 4)
        for k in range(nitems):
            kind = r.choice(["task", "task", "tasks", "slice", "slice", "map"])
            it = dict(kind=kind, k=k, ctx=r.random() < 0.5, err=r.random() < 0.6)
            if kind == "task":
                it["instr"] = self.instr and r.random() < 0.6
            if kind == "tasks":
                it["n"] = r.randint(1, 3)
            if kind in ("slice", "map"):
                it["n"] = r.choice([0, 0, 1, 2, 3, 5, 8])
                it["nil"] = it["n"] == 0 and r.random() < 0.5
                it["end"] = (not self.coe) and r.random() < 0.6
                it["endctx"] = r.random() < 0.5
                it["enderr"] = r.random() < 0.6
            if kind == "slice":
                it["index"] = r.random() < 0.6
                it["named"] = r.random() < 0.3
            self.items.append(it)

    def name(self):
        return "Par%03d" % self.idx

    # ---- the stub identities, in model-task order
    def units(self):
        """list of (id, haserr, kind, deps) in the order of the embedding's tasks"""
        us = []
        for it in self.items:
            k = it["k"]
            if it["kind"] == "task":
                us.append(("t%d" % k, it["err"], "task", None))
            elif it["kind"] == "tasks":
                for j in range(it["n"]):
                    us.append(("t%d_%d" % (k, j), it["err"], "task", None))
            else:
                pre = "s" if it["kind"] == "slice" else "m"
                ids = []
                for j in range(it["n"]):
                    eid = "%s%d#%s" % (pre, k, (str(j) if pre == "s" else "k%d" % j))
                    ids.append(eid)
                    us.append((eid, it["err"], "elem", None))
                if it["end"]:
                    us.append(("%s%dend" % (pre, k), it["enderr"], "end", ids))
        return us

    def model_line(self):
        us = self.units()
        ty = {}
        nxt = 0
        for u in us:
            if u[2] == "end":
                for e in u[3]:
                    ty[e] = nxt
                    nxt += 1
        parts = ["P", "R"]
        for (uid, he, kind, deps) in us:
            if kind == "end":
                ins = ",".join(str(ty[e]) for e in deps) or "-"
                parts.append("T %s - - 1 0 %d" % (ins, 1 if he else 0))
            elif uid in ty:
                parts.append("T - %d - 0 0 %d" % (ty[uid], 1 if he else 0))
            else:
                parts.append("T - - - 1 0 %d" % (1 if he else 0))
        return " | ".join(parts)

    def abstract_line(self):
        """the program as ParallelModel.pitem list (input of the Coq embedding)"""
        out = []
        for it in self.items:
            if it["kind"] == "task":
                out.append("T %d" % it["err"])
            elif it["kind"] == "tasks":
                out += ["T %d" % it["err"]] * it["n"]
            else:
                out.append("C %d %d %d %d" % (it["n"], it["err"], it["end"], it["enderr"] if it["end"] else 0))
        return " ; ".join(out)

    def scenarios(self, r, quick=True):
        us = self.units()
        out = [("allok", {})]
        if getattr(self, "big", False):
            # failures in the middle of the collection (not the last element of any batch of consecutive elements)
            el = [u[0] for u in us if u[2] == "elem"]
            return out + [("err", {el[5]: "err"}), ("multi", {el[5]: "err", el[6]: "panic", el[200]: "err"})]
        cand = list(us)
        r.shuffle(cand)
        for (uid, he, kind, deps) in cand[: (6 if quick else 20)]:
            out.append(("panic", {uid: r.choice(["panic", "panic", "panic-err", "panic-pe", "panic-str", "panic-rt"])}))
            if he:
                out.append(("err", {uid: "err"}))
        if len(us) >= 2:
            for _ in range(2 if quick else 6):
                sc = {}
                for (uid, he, kind, deps) in r.sample(us, min(len(us), r.randint(2, 3))):
                    sc[uid] = r.choice(["panic"] + (["err"] if he else []))
                out.append(("multi", sc))
        return out

    # ---- Go source
    def render(self):
        n = self.name()
        L = []
        pre = []
        argn = [0]

        def arg(e):
            k = argn[0]
            argn[0] += 1
            return "Arg(x, %d, %s)" % (k, e)

        def fn(params, haserr, body_call):
            sig = "func(%s)" % ", ".join(params)
            if haserr:
                return "%s error {\n\t\t\t_, err := %s\n\t\t\treturn err\n\t\t}" % (sig, body_call)
            return "%s {\n\t\t\t_, _ = %s\n\t\t}" % (sig, body_call)
        opts = []
        ctx_expr = arg("x.Ctx")
        if self.has_conc:
            opts.append("cff.Concurrency(%s)" % arg("conc"))
        if self.coe:
            opts.append("cff.ContinueOnError(%s)" % arg("true"))
        same_text = self.emitters >= 2 and self.idx % 2 == 0     # the same expression text at two argument positions
        for e in range(self.emitters):
            if same_text:
                argn[0] += 1
                opts.append("cff.WithEmitter(Auto(x, x.NextEmitter()))")
            else:
                opts.append("cff.WithEmitter(%s)" % arg("x.Emitter(\"e%d\")" % e))
        if self.instr:
            opts.append("cff.InstrumentParallel(%s)" % arg("\"%s\"" % n))
        for it in self.items:
            k = it["k"]
            cp = ["ctx context.Context"] if it["ctx"] else []
            chk = "x.CheckCtx(\"%s%d\", ctx); " % (it["kind"][0], k) if it["ctx"] else ""
            if it["kind"] == "task":
                f = fn(cp, it["err"], "x.Call(\"t%d\", 0)" % k)
                if it.get("instr"):
                    opts.append("cff.Task(%s, cff.Instrument(%s))" % (arg(f), arg("\"t%d\"" % k)))
                else:
                    opts.append("cff.Task(%s)" % arg(f))
            elif it["kind"] == "tasks":
                fs = [arg(fn(cp, it["err"], "x.Call(\"t%d_%d\", 0)" % (k, j))) for j in range(it["n"])]
                opts.append("cff.Tasks(\n\t\t\t%s,\n\t\t)" % ",\n\t\t\t".join(fs))
            elif it["kind"] == "slice":
                ty = "Elems" if it["named"] else "[]E"
                if it["nil"]:
                    pre.append("var s%d %s" % (k, ty))
                else:
                    pre.append("s%d := %s{%s}" % (k, ty, ", ".join("{S: \"%d\"}" % j for j in range(it["n"]))))
                if it["index"]:
                    f = fn(cp + ["idx int", "v E"], it["err"], "x.Call(\"s%d#\"+v.S, 0, Itoa(idx), v.S)" % k)
                else:
                    f = fn(cp + ["v E"], it["err"], "x.Call(\"s%d#\"+v.S, 0, v.S)" % k)
                a = [arg(f), arg("s%d" % k)]
                if it["end"]:
                    ep = ["ctx context.Context"] if it["endctx"] else []
                    a.append("cff.SliceEnd(%s)" % arg(fn(ep, it["enderr"], "x.Call(\"s%dend\", 0)" % k)))
                opts.append("cff.Slice(\n\t\t\t%s,\n\t\t)" % ",\n\t\t\t".join(a))
            else:
                if it["nil"]:
                    pre.append("var m%d map[string]E" % k)
                else:
                    pre.append("m%d := map[string]E{%s}" % (k, ", ".join("\"k%d\": {S: \"k%d\"}" % (j, j) for j in range(it["n"]))))
                f = fn(cp + ["key string", "v E"], it["err"], "x.Call(\"m%d#\"+key, 0, key, v.S)" % k)
                if it.get("nan"):
                    # float keys, one of them NaN (not equal to itself: the entry can be ranged over but not looked up)
                    pre[-1] = "m%d := map[float64]E{%s}" % (k, ", ".join("%s: {S: \"k%d\"}" % ("NaN()" if j == 0 else "%d.5" % j, j) for j in range(it["n"])))
                    f = fn(cp + ["key float64", "v E"], it["err"], "x.Call(\"m%d#\"+v.S, 0, v.S, v.S)" % k)
                a = [arg(f), arg("m%d" % k)]
                if it["end"]:
                    ep = ["ctx context.Context"] if it["endctx"] else []
                    a.append("cff.MapEnd(%s)" % arg(fn(ep, it["enderr"], "x.Call(\"m%dend\", 0)" % k)))
                opts.append("cff.Map(\n\t\t\t%s,\n\t\t)" % ",\n\t\t\t".join(a))
        head = "func %s(x *Exec, conc int) ([]string, error) {" % n
        if self.generic:
            g = n[0].lower() + n[1:] + "g"
            L.append("%s\n\treturn %s[struct{}](x, conc)\n}\n\nfunc %s[Z any](x *Exec, conc int) ([]string, error) {" % (head, g, g))
        else:
            L.append(head)
        for d in pre:
            L.append("\t" + d)
        L.append("\terr := cff.Parallel(%s," % ctx_expr)
        for o in opts:
            L.append("\t\t%s," % o)
        L.append("\t)")
        L.append("\treturn nil, err")
        L.append("}")
        self.nargs = argn[0]
        self.expect_extras = {}
        self.results = []
        return "\n".join(L) + "\n"


CORNERS = [
    # (kind, n, nil, index): empty and nil collections with an End hook, next to one task
    ("slice", 0, False, True), ("slice", 0, True, False), ("map", 0, False, False), ("map", 0, True, False),
    ("slice", 1, False, True), ("map", 1, False, False), ("mapnan", 3, False, False),
]


def gen_pars(seed, n):
    r = random.Random(seed * 104729 + 10)
    pars = [ParFlow(i, r) for i in range(n)]
    # the corner cases are not left to chance: the first programs are overwritten with them
    if n > len(CORNERS) + 2:
        # a slice of several hundred elements under ContinueOnError: every element not downstream of a failure runs
        p = pars[len(CORNERS)]
        p.coe, p.generic, p.instr, p.emitters = True, False, False, 0
        p.items = [dict(kind="slice", k=0, ctx=False, err=True, n=264, nil=False, end=False, endctx=False, enderr=False, index=True, named=False)]
        p.big = True
    for i, (kind, cn, nil, index) in enumerate(CORNERS[:max(0, min(len(CORNERS), n - 2))]):
        p = pars[i]
        p.coe, p.generic = False, False
        p.items = [dict(kind="task", k=0, ctx=False, err=True, instr=False),
                   dict(kind=("map" if kind == "mapnan" else kind), k=1, ctx=(i % 2 == 0), err=True, n=cn, nil=nil, end=True, endctx=(i % 2 == 1), enderr=True,
                        index=index, named=False, nan=(kind == "mapnan"))]
    return pars, r


def render_files(pars, per=4):
    files = {}
    for k in range(0, len(pars), per):
        src = ["//go:build cff", "", "package gen", "", "import (", '\t"context"', "", '\t"go.uber.org/cff"', ")", "", "var _ context.Context", ""]
        # the program with the largest collection first: in a module whose go line predates per-iteration
        # loop variables only the code before the file's first /*line*/ directive has the old semantics
        group = sorted(pars[k:k + per], key=lambda q: -max([it.get("n", 0) for it in q.items if it["kind"] in ("slice", "map")] + [0]))
        for p in group:
            src.append(p.render())
        files["pars%02d.go" % (k // per)] = "\n".join(src)
    files["partypes.go"] = "package gen\n\nimport (\n\t\"math\"\n\t\"strconv\"\n)\n\ntype E struct{ S string }\n\ntype Elems []E\n\nfunc Itoa(i int) string { return strconv.Itoa(i) }\n\nfunc NaN() float64 { return math.NaN() }\n"
    return files
