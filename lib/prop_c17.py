"""c17 — determinism: order-irrelevance theorems; byte comparison of repeated runs and -file subsets."""
import alias_common
import corpus_common
import gen_common
import gen_modes

DEP_FILES = ["PrologueModel.v", "PrologueProofs.v", "AliasModel.v", "AliasProofs.v", "GenOutModel.v", "GenOutProofs.v"]
PID = "C17"


def run(chk):
    chk.recheck_proofs()
    alias_common.apply(chk, 200 if chk.tier == "quick" else 40000)
    gen_modes.apply(chk, PID)
    corpus_common.apply(chk, PID)
    chk.assumptions += gen_common.ASSUMPTIONS + ["absence of state shared between the files of a package (fresh compiler and generator per file) is observed by byte comparison, not proved"]
