"""c01 — scheduler property; see sched_common.py."""
import gen_common
import coq_cases
import sched_common

DEP_FILES = ["SchedModel.v", "SchedLemmas.v", "SchedInv.v", "SchedInv2.v", "SchedProps.v", "SchedInv3.v", "SchedInv4.v", "SchedTheorems.v"]
PID = "C01"


def run(chk):
    chk.recheck_proofs()
    s = sched_common.apply(chk, PID, which=("full" if PID == "C19" else "core"))
    if s and s.get("coq_traces"):
        coq_cases.check_sched(chk, s["coq_traces"])
    gen_common.apply(chk, PID)
    chk.assumptions += sched_common.ASSUMPTIONS.get(PID, []) + sched_common.ASSUMPTIONS["*"]
