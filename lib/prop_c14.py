"""C14 - ill-formed directives rejected at generation time, well-formed ones accepted."""
import os
import re

import common
import coq_cases
import flowgen
import parsig_common
import sig_common

DEP_FILES = ["ValidateModel.v", "ValidateProofs.v", "ValidateWalk.v", "SignatureModel.v", "SignatureProofs.v", "ParSigModel.v", "ParSigProofs.v"]

CLASSES = [
    ("DupParam", r"already provided to cff\.Params"),
    ("NoOutput", r"task must return at least one non-error value"),
    ("InvokeWithOutputs", r"cff\.Invoke cannot be provided"),
    ("DupProvider", r"type .* already provided at"),
    ("UnusedOutput", r"unused output type"),
    ("NoProvider", r"no provider found"),
    ("UnusedInput", r"unused input type"),
    ("Cycle", r"cycle detected"),
]

# element (key, value) type vs parameter type: (elem, param, assignable elem->param)
LATTICE = [
    ("int", "int", True),
    ("*bytes.Buffer", "io.Reader", True),
    ("io.Reader", "*bytes.Buffer", False),
    ("chan int", "<-chan int", True),
    ("<-chan int", "chan int", False),
    ("[]string", "Strs", True),
    ("Strs", "[]string", True),
    ("int", "string", False),
    ("MyInt", "int", False),
    ("*os.File", "io.ReadWriter", True),
    ("io.ReadWriter", "io.Reader", True),
    ("io.Reader", "io.ReadWriter", False),
]
# map keys must be comparable
KEYS = [
    ("int", "int", True),
    ("MyStr", "fmt.Stringer", True),
    ("fmt.Stringer", "MyStr", False),
    ("string", "int", False),
    ("<-chan int", "chan int", False),
    ("chan int", "<-chan int", True),
]


def classify(msgs):
    out = set()
    for m in msgs:
        for name, rx in CLASSES:
            if re.search(rx, m):
                out.add(name)
                break
        else:
            out.add("Other:" + m[:60])
    return out


def parallel_file(idx, kind, elem, param, extra=None):
    """A Parallel with one Slice or Map whose element (key/value) type is elem and whose
    function parameter type is param."""
    hdr = ["//go:build cff", "", "package vpar", "", "import (", '\t"bytes"', '\t"context"', '\t"fmt"', '\t"io"', '\t"os"', "",
           '\t"go.uber.org/cff"', ")", "", "var _ = bytes.NewBuffer", "var _ = fmt.Sprint", "var _ io.Reader", "var _ *os.File", ""]
    if kind == "slice":
        body = "func P%04d(ctx context.Context, s []%s) error {\n\treturn cff.Parallel(ctx, cff.Slice(func(i int, v %s) {}, s))\n}\n" % (idx, elem, param)
    elif kind == "mapval":
        body = "func P%04d(ctx context.Context, m map[int]%s) error {\n\treturn cff.Parallel(ctx, cff.Map(func(k int, v %s) {}, m))\n}\n" % (idx, elem, param)
    else:  # mapkey
        body = "func P%04d(ctx context.Context, m map[%s]int) error {\n\treturn cff.Parallel(ctx, cff.Map(func(k %s, v int) {}, m))\n}\n" % (idx, elem, param)
    return "\n".join(hdr) + body


def run(chk):
    chk.recheck_proofs()
    quick = chk.tier == "quick"
    nflows = 350 if quick else 5000
    flows = flowgen.gen_validator_corpus(chk.seed, nflows)
    mod = common.make_gen_module("c14-%d" % chk.seed)
    pkg = os.path.join(mod, "vflows")
    os.makedirs(pkg)
    ntypes = 2 + max(max([-1] + f.params + f.results + [x for t in f.tasks for x in t["ins"] + t["outs"] + (t["pred"] or [])]) for f in flows)
    open(os.path.join(pkg, "types.go"), "w").write(flowgen.render_types_file(ntypes))
    def is_test(i):
        return i % 9 == 4          # some flows live in in-package test files (processed in the package's test variant)

    def src_name(i):
        return "f%04d_test.go" % i if is_test(i) else "f%04d.go" % i

    def gen_name(i):
        return "f%04d_gen_test.go" % i if is_test(i) else "f%04d_gen.go" % i
    for i, f in enumerate(flows):
        open(os.path.join(pkg, src_name(i)), "w").write(flowgen.render_validator_file(i, f))
    rc, out = common.run_cff(mod, "./vflows")
    permsgs = {}
    for line in out.split("\n"):
        m = re.search(r"vflows/f(\d+)(?:_test)?\.go:\d+:\d+: (.*)", line)
        if m:
            permsgs.setdefault(int(m.group(1)), []).append(m.group(2))
    if "panic:" in out or "goroutine 1 [" in out:
        chk.violate("cff crashed on a generated package", {"output": out[-3000:]})
    model = common.model_run("validate", [f.model_line() for f in flows])
    step = max(1, len(flows) // (12 if chk.tier == "quick" else 80))
    coq_cases.check_validate(chk, [(flows[i].model_line(), model[i].split("|")[0].strip(), model[i].split("|")[1].strip() == "wf=true")
                                   for i in range(0, len(flows), step)])
    dist = {"accepted": 0, "rejected": 0, "by_label": {}, "classes": {}}
    class_diff = None
    for i, (f, mv) in enumerate(zip(flows, model)):
        verdict, wf, classes = [x.strip() for x in mv.split("|")]
        mclasses = set(c for c in classes.split(",") if c)
        accepted_impl = os.path.exists(os.path.join(pkg, gen_name(i)))
        iclasses = classify(permsgs.get(i, []))
        chk.count(1, key=f.model_line(), nontrivial=True)
        dist["accepted" if accepted_impl else "rejected"] += 1
        dist["by_label"][f.label] = dist["by_label"].get(f.label, 0) + 1
        for c in iclasses:
            dist["classes"][c] = dist["classes"].get(c, 0) + 1
        wf_model = wf == "wf=true"
        if wf_model != (verdict == "ACCEPT"):
            chk.fail_no_input("model validate and the declarative rules disagree on %s (theorem C14_sound_complete would be false)" % f.model_line(),
                              {"theorem": "C14_sound_complete", "flow": f.model_line(), "model": mv})
            break
        if not accepted_impl and not permsgs.get(i):
            chk.violate("cff wrote no output for %s and reported no diagnostic naming it: %s" % (src_name(i), f.model_line()),
                        {"flow": f.model_line(), "file": src_name(i), "well_formed_by_the_rules": wf_model, "output_tail": out[-2000:]})
            break
        if accepted_impl != wf_model:
            what = ("cff accepted an ill-formed flow" if accepted_impl else "cff rejected a well-formed flow")
            chk.violate("%s (%s): %s" % (what, f.label, f.model_line()),
                        {"flow": f.model_line(), "label": f.label, "go_source": flowgen.render_validator_file(i, f),
                         "cff_messages": permsgs.get(i, []), "model_verdict": mv, "well_formed_by_the_rules": wf_model})
            break
        if iclasses != mclasses and class_diff is None:
            # same verdict, different reasons: a broken correspondence, not yet a violation - keep looking
            # for a flow on which the verdict itself is wrong
            class_diff = ("diagnostic classes differ between cff %s and the model %s on %s" % (sorted(iclasses), sorted(mclasses), f.model_line()),
                          {"theorem": "correspondence ValidateModel.validate ~ compileFlow (diagnostic classes)",
                           "flow": f.model_line(), "cff_messages": permsgs.get(i, []), "model": mv})
    if class_diff is not None and not chk.violations:
        chk.fail_no_input(*class_diff)
    # the exit status of the run over all files: non-zero exactly when some file was rejected
    nrej = sum(1 for i in range(len(flows)) if not os.path.exists(os.path.join(pkg, gen_name(i))))
    if not chk.violations and (rc != 0) != (nrej > 0):
        chk.violate("cff exited with status %d although %d of the %d files of the package were rejected" % (rc, nrej, len(flows)),
                    {"exit_status": rc, "rejected_files": nrej, "output_tail": out[-1500:]})
    chk.cov["traces_validated_against_impl"] = len(flows)
    chk.sample({"flow": flows[0].model_line(), "label": flows[0].label, "model": model[0], "cff": permsgs.get(0, [])})

    # ---- two flows in one file: each is judged on its own (no state of the validation of one flow may
    # leak into the next): a well-formed flow next to a mutant of itself over the same types
    if not chk.violations:
        import random as _random
        r2 = _random.Random(chk.seed * 31337 + 7)
        tpkg = os.path.join(mod, "vtwo")
        os.makedirs(tpkg)
        pairs = []
        while len(pairs) < (30 if quick else 300):
            w = flowgen.gen_wellformed(r2)
            m = flowgen.mutate(r2, w)
            if m is None:
                continue
            if len(pairs) % 3 != 2 and not m.label.startswith(("back_edge", "self_cycle")):
                continue            # two thirds of the pairs carry a cycle
            pairs.append((w, m, len(pairs) % 2 == 0))
        nt2 = 2 + max(max([-1] + f.params + f.results + [x for t in f.tasks for x in t["ins"] + t["outs"] + (t["pred"] or [])]) for pr in pairs for f in pr[:2])
        open(os.path.join(tpkg, "types.go"), "w").write(flowgen.render_types_file(nt2).replace("package vflows", "package vtwo"))
        for k, (w, m, wfirst) in enumerate(pairs):
            a, b = (w, m) if wfirst else (m, w)
            ta = flowgen.render_validator_file(2 * k, a).replace("package vflows", "package vtwo")
            tb = flowgen.render_validator_file(2 * k + 1, b).replace("package vflows", "package vtwo")
            tb = tb[tb.index("// "):]                       # the second flow without header and imports
            open(os.path.join(tpkg, "g%04d.go" % k), "w").write(ta + "\n" + tb)
        rc2, out2 = common.run_cff(mod, "./vtwo")
        if "panic:" in out2 or "goroutine 1 [" in out2 or "fatal error:" in out2:
            chk.violate("cff crashed on a package whose files hold two flows each", {"output": out2[-3000:], "module": mod})
        mv2 = common.model_run("validate", [f.model_line() for pr in pairs for f in pr[:2]])
        for k, (w, m, wfirst) in enumerate(pairs):
            if chk.violations:
                break
            okw = mv2[2 * k].split("|")[0].strip() == "ACCEPT"
            okm = mv2[2 * k + 1].split("|")[0].strip() == "ACCEPT"
            acc = os.path.exists(os.path.join(tpkg, "g%04d_gen.go" % k))
            chk.count(1, key=("two", w.model_line(), m.model_line(), wfirst))
            named = any(("vtwo/g%04d.go:" % k) in l for l in out2.split("\n"))
            if acc != (okw and okm):
                chk.violate("a file with two flows (%s first) was %s although %s: %s  ||  %s" % (
                    "the well-formed one" if wfirst else "the mutant", "accepted" if acc else "rejected",
                    "one of them is ill-formed (%s)" % m.label if acc else "both are well-formed", w.model_line(), m.model_line()),
                    {"file": "vtwo/g%04d.go" % k, "first": (w if wfirst else m).model_line(), "second": (m if wfirst else w).model_line(),
                     "mutation": m.label, "cff_messages": [l for l in out2.split("\n") if ("g%04d.go" % k) in l][:6], "module": mod})
            elif not acc and not named:
                chk.violate("a file with two flows was rejected without a diagnostic naming it: %s  ||  %s" % (w.model_line(), m.model_line()),
                            {"file": "vtwo/g%04d.go" % k, "output_tail": out2[-1500:]})
        chk.cov.setdefault("correspondence", {})["two_flows_per_file"] = {"files": len(pairs), "order": "well-formed first in every second file"}
    # ---- Parallel: Slice / Map element types vs parameter types
    ppkg = os.path.join(mod, "vpar")
    os.makedirs(ppkg)
    open(os.path.join(ppkg, "types.go"), "w").write(
        "package vpar\n\ntype Strs []string\ntype MyInt int\ntype MyStr string\n\nfunc (m MyStr) String() string { return string(m) }\n")
    cases = []
    for (e, p, ok) in LATTICE:
        cases.append(("slice", e, p, ok))
        cases.append(("mapval", e, p, ok))
    for (e, p, ok) in KEYS:
        cases.append(("mapkey", e, p, ok))
    for i, (kind, e, p, ok) in enumerate(cases):
        open(os.path.join(ppkg, "p%04d.go" % i), "w").write(parallel_file(i, kind, e, p))
    rc, out = common.run_cff(mod, "./vpar")
    nrej = sum(1 for i in range(len(cases)) if not os.path.exists(os.path.join(ppkg, "p%04d_gen.go" % i)))
    if not chk.violations and (rc != 0) != (nrej > 0):
        chk.violate("cff exited with status %d although %d of the %d Parallel files were rejected" % (rc, nrej, len(cases)),
                    {"exit_status": rc, "rejected_files": nrej, "output_tail": out[-1500:]})
    pdist = {"assignable": 0, "not_assignable": 0}
    for i, (kind, e, p, ok) in enumerate(cases):
        acc = os.path.exists(os.path.join(ppkg, "p%04d_gen.go" % i))
        chk.count(1, key=("par", kind, e, p))
        pdist["assignable" if ok else "not_assignable"] += 1
        if acc != ok:
            chk.violate("cff.%s with %s type %s and parameter type %s was %s although the type is %sassignable to the parameter" % (
                "Slice" if kind == "slice" else "Map", {"slice": "element", "mapval": "value", "mapkey": "key"}[kind], e, p,
                "accepted" if acc else "rejected", "" if ok else "not "),
                {"kind": kind, "elem": e, "param": p, "assignable": ok, "go_source": parallel_file(i, kind, e, p),
                 "output": [l for l in out.split("\n") if "p%04d" % i in l]})
            break
    sigcov = None
    if not chk.violations:
        sig_common.apply(chk, mod)
        sigcov = chk.cov.get("correspondence", {}).get("signatures")
    parsigcov = None
    if not chk.violations:
        parsig_common.apply(chk, mod)
        parsigcov = chk.cov.get("correspondence", {}).get("parallel_signatures")
    prev = dict(chk.cov.get("correspondence", {}))
    xc = chk.cov.get("correspondence", {}).get("extraction_cross_check")
    chk.cov["correspondence"] = {
        "flows": "random well-formed typed DAG flows and single-defect mutations, one flow per file; accept/reject and the set of diagnostic classes of the real cff vs ValidateModel.validate; the declarative rules (wf_b) as independent reference",
        "parallel": "Slice/Map element, key and value types against a lattice of identical / assignable / non-assignable pairs in both directions",
        "input_distribution": dist, "parallel_distribution": pdist,
    }
    if xc:
        chk.cov["correspondence"]["extraction_cross_check"] = xc
    if sigcov:
        chk.cov["correspondence"]["signatures"] = sigcov
    if parsigcov:
        chk.cov["correspondence"]["parallel_signatures"] = parsigcov
    for k, v in prev.items():
        if k.startswith("extraction_cross_check") or k == "two_flows_per_file":
            chk.cov["correspondence"][k] = v
    chk.cov["rule"] = "distinct = different abstract flow; all non-trivial (>= 1 task)"
    chk.assumptions += ["types are atoms: go/types identity and assignability are Go library code (assignability is an oracle in C14_parallel)",
                        "signatures: types are atoms except context.Context, error and bool; assignability of FallbackWith values and non-function task arguments are not modelled"]
