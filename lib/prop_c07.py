"""c07 — scheduler property; see sched_common.py."""
import gen_common
import par_common
import sched_common

DEP_FILES = ["SchedModel.v", "SchedLemmas.v", "SchedInv.v", "SchedInv2.v", "SchedProps.v", "SchedInv3.v", "SchedInv4.v", "SchedTheorems.v", "FlowOpModel.v", "FlowOpProofs.v", "FlowSaturated.v"]
PID = "C07"


def run(chk):
    chk.recheck_proofs()
    sched_common.apply(chk, PID, which=("full" if PID == "C19" else "core"))
    gen_common.apply(chk, PID)
    par_common.apply(chk, PID)
    chk.assumptions += sched_common.ASSUMPTIONS.get(PID, []) + sched_common.ASSUMPTIONS["*"]
