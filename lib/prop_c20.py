"""c20 — generation modes agree: source-map = base code (theorem + token streams); modifier vs base differential."""
import gen_common
import gen_modes

DEP_FILES = ["GenOutModel.v", "GenOutProofs.v"]
PID = "C20"


def run(chk):
    chk.recheck_proofs()
    gen_modes.apply(chk, PID)
    chk.assumptions += gen_common.ASSUMPTIONS + ["modifier mode is decided by differential execution only (no model of internal/modifier)"]
