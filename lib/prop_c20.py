"""c20 — generation modes agree: source-map = base code (theorem + token streams); modifier vs base differential."""
import corpus_common
import gen_common
import gen_modes
import probes

DEP_FILES = ["GenOutModel.v", "GenOutProofs.v"]
PID = "C20"


def run(chk):
    chk.recheck_proofs()
    gen_modes.apply(chk, PID)
    corpus_common.apply(chk, PID)
    base, _ = probes.run_probe("F10base")
    verdict, detail = probes.run_probe("F10")
    chk.count(2, key=("probe", "F10"))
    chk.cov["correspondence"]["probe_F10_local_type"] = {"base_mode": base, "modifier_mode": verdict}
    if base == "ok" and verdict != "ok":
        chk.violate("probe LocalType (a flow of the modifier-supported subset whose tasks use a function-local type): base-mode output works, modifier mode: " + verdict,
                    {"probe": "F10", "source": probes.F10, "detail": detail})
    chk.assumptions += gen_common.ASSUMPTIONS + ["modifier mode is decided by differential execution only (no model of internal/modifier)"]
