"""Generation modes, determinism and output well-formedness (C13, C17, C20): the same
generated packages are pushed through the real cff in base, source-map, auto-instrument
and modifier modes, repeatedly and file by file; outputs are compared byte for byte,
token for token (comments stripped) and behaviourally."""
import hashlib
import json
import os
import re
import shutil
import time

import common
import gen_common
import progen


def _hash_sources():
    h = hashlib.sha1()
    for fn in ("progen.py", "flowgen.py", "gen_common.py", "gen_modes.py"):
        h.update(open(os.path.join(common.VERIF, "lib", fn), "rb").read())
    h.update(open(os.path.join(common.HARNESS, "cmd", "gonorm", "main.go"), "rb").read())
    return h.hexdigest()[:12]


def write_pkg(tag, flows, ntypes, variants=True):
    mod = common.make_gen_module(tag)
    gdir = os.path.join(mod, "gen")
    os.makedirs(gdir)
    for name, text in progen.render_package(flows, ntypes, variants=variants).items():
        os.makedirs(os.path.dirname(os.path.join(gdir, name)), exist_ok=True)
        open(os.path.join(gdir, name), "w").write(text)
    rdir = os.path.join(mod, "cmd", "runner")
    os.makedirs(rdir)
    open(os.path.join(rdir, "main.go"), "w").write(progen.render_runner(flows, None, None))
    return mod, gdir


def gen_files(gdir):
    return {fn: open(os.path.join(gdir, fn), "rb").read() for fn in sorted(os.listdir(gdir)) if fn.endswith("_gen.go")}


def tokens(exe, paths):
    rc, out, err = common.run([exe] + paths, timeout=600)
    res, cur = {}, None
    for line in out.split("\n"):
        if line.startswith("== "):
            cur = line[3:]
            res[cur] = []
        elif cur is not None and line:
            res[cur].append(line)
    return res


def run_plan(mod, flows, seed, maxper=3):
    """build the runner of a module and execute a small plan; returns list of result dicts (or None, error text)"""
    import random
    r = random.Random(seed)
    exe = os.path.join(mod, "runner.bin")
    rc, o, e = common.run(["go", "build", "-o", exe, "./cmd/runner"], cwd=mod, env=common.GOENV, check=False, timeout=900)
    if rc != 0:
        return None, (o + e)[-3000:]
    plan = []
    for fi, f in enumerate(flows):
        for si, (label, sc) in enumerate(f.scenarios(r, quick=True)):
            if label == "cancel":
                continue
            plan.append({"flow": f.name(), "label": label, "conc": [1, 2, 0][(fi + si) % 3], "scenario": sc, "sleeps": {}})
    rc, out, err = common.run([exe], input=json.dumps(plan), check=False, timeout=3000)
    runs = [json.loads(l) for l in out.split("\n") if l.strip()]
    if rc != 0 or len(runs) != len(plan):
        return None, "runner died (exit %d): %s" % (rc, err[-1500:])
    return runs, ""


@common.serialised("modes")
def observe(seed, tier):
    key = "modes-%s-%s-%d-%s" % (common.repo_tree_hash(), _hash_sources(), seed, tier)
    cpath = os.path.join(common.CACHE, key + ".json")
    os.makedirs(common.CACHE, exist_ok=True)
    if os.path.exists(cpath):
        return json.load(open(cpath))
    t0 = time.time()
    quick = tier == "quick"
    S = {"hits": {}, "counts": {}, "wall_s": 0}

    def hit(p, what, payload):
        lst = S["hits"].setdefault(p, [])
        if len(lst) < 4:
            lst.append({"what": what, "payload": payload})

    def count(k, n=1):
        S["counts"][k] = S["counts"].get(k, 0) + n
    gonorm = common.go_build("gonorm", tags="verif")
    flows, ntypes, r = progen.gen_flows(seed + 1000, 36 if quick else 400)
    for f in flows:
        f.bare = False   # locals named like generated identifiers are C15's business
    # ---- base mode, twice more in fresh processes, and file by file (C17)
    mod, gdir = write_pkg("modes-base-%d-%s" % (seed, tier), flows, ntypes)
    rc, out = common.run_cff(mod, "./gen")
    count("cff_runs")
    if rc != 0 or "panic:" in out or "goroutine " in out:
        hit("C13", "cff failed on a package of well-formed flows in base mode (exit %d): %s" % (rc, out.strip().split("\n")[-1][:200]), {"output": out[-3000:], "module": mod})
        S["wall_s"] = round(time.time() - t0, 1)
        json.dump(S, open(cpath, "w"))
        return S
    base = gen_files(gdir)
    count("files", len(base))
    rcv, o, e = common.run(["go", "build", "./gen/..."], cwd=mod, env=common.GOENV, check=False, timeout=900)
    if rcv != 0:
        errs = [l for l in (o + e).split("\n") if "_gen.go" in l]
        hit("C13", "base-mode output does not type-check without the cff tag: %s" % (errs[0] if errs else (o + e)[-200:]), {"output": (o + e)[-3000:], "module": mod})
    for fn, txt in base.items():
        if re.search(rb"\b\w+\.(Flow|Parallel)\(", txt) and re.search(rb"\b(cff|cffx)\.(Flow|Parallel)\(", txt):
            hit("C13", "base-mode output %s still contains a directive call" % fn, {"file": fn, "module": mod})
    for rep in range(2 if quick else 5):
        for fn in base:
            os.remove(os.path.join(gdir, fn))
        rc, out = common.run_cff(mod, "./gen")
        count("cff_runs")
        again = gen_files(gdir)
        for fn in base:
            count("byte_comparisons")
            if again.get(fn) != base[fn]:
                hit("C17", "base mode: run %d of cff on the same package wrote a different %s" % (rep + 2, fn),
                    {"file": fn, "module": mod, "first": base[fn].decode()[:3000], "again": (again.get(fn) or b"").decode()[:3000]})
    srcs = sorted(fn for fn in os.listdir(gdir) if fn.startswith("flows") and not fn.endswith("_gen.go"))
    alone_dir = os.path.join(mod, "alone")
    os.makedirs(alone_dir)
    for fn in (srcs[:3] if quick else srcs):
        outp = os.path.join(alone_dir, fn[:-3] + "_gen.go")
        rc, out = common.run_cff(mod, "./gen", extra=["-file", "%s=%s" % (fn, outp)])
        count("cff_runs")
        count("byte_comparisons")
        got = open(outp, "rb").read() if os.path.exists(outp) else b""
        if got != base[fn[:-3] + "_gen.go"]:
            hit("C17", "processing %s alone (-file) gives a different output than processing it with the rest of the package" % fn,
                {"file": fn, "module": mod, "with_package": base[fn[:-3] + "_gen.go"].decode()[:3000], "alone": got.decode()[:3000], "cff_output": out[-1000:]})
    # ---- source-map mode (C13 compiles, C17 deterministic, C20 same code)
    mods, gdirs = write_pkg("modes-smap-%d-%s" % (seed, tier), flows, ntypes)
    rc, out = common.run_cff(mods, "./gen", extra=["-genmode", "source-map"])
    count("cff_runs")
    if rc != 0 or "panic:" in out:
        hit("C13", "cff failed in source-map mode on a package it accepts in base mode (exit %d): %s" % (rc, out.strip().split("\n")[-1][:200]), {"output": out[-3000:], "module": mods})
        hit("C20", "source-map mode rejects a package base mode accepts (exit %d)" % rc, {"output": out[-3000:], "module": mods})
    else:
        smap = gen_files(gdirs)
        rcv, o, e = common.run(["go", "build", "./gen/..."], cwd=mods, env=common.GOENV, check=False, timeout=900)
        if rcv != 0:
            errs = [l for l in (o + e).split("\n") if ".go:" in l]
            hit("C13", "source-map output does not type-check: %s" % (errs[0] if errs else (o + e)[-200:]), {"output": (o + e)[-3000:], "module": mods})
        for fn, txt in smap.items():
            if b"CFF_MAGIC_TOKEN" in txt:
                hit("C17", "source-map output %s still contains the random magic token" % fn, {"file": fn, "module": mods})
                hit("C20", "source-map output %s still contains the magic token comment" % fn, {"file": fn, "module": mods})
        tb = tokens(gonorm, [os.path.join(gdir, fn) for fn in base])
        ts = tokens(gonorm, [os.path.join(gdirs, fn) for fn in smap])
        for fn in base:
            count("token_stream_comparisons")
            a, b = tb.get(os.path.join(gdir, fn)), ts.get(os.path.join(gdirs, fn))
            if a != b:
                k = next((i for i, (x, y) in enumerate(zip(a or [], b or [])) if x != y), min(len(a or []), len(b or [])))
                hit("C20", "source-map output %s differs from base output beyond comments and line directives at token %d: base %s, source-map %s" % (
                    fn, k, (a or [])[k:k + 4], (b or [])[k:k + 4]), {"file": fn, "base_module": mod, "sourcemap_module": mods})
        for fn in smap:
            os.remove(os.path.join(gdirs, fn))
        rc, out = common.run_cff(mods, "./gen", extra=["-genmode", "source-map"])
        count("cff_runs")
        again = gen_files(gdirs)
        for fn in smap:
            count("byte_comparisons")
            if again.get(fn) != smap[fn]:
                hit("C17", "source-map mode: a second run of cff wrote a different %s" % fn, {"file": fn, "module": mods})
        # ---- history independence (C17): generating over the outputs of an earlier run (other mode, not
        # removed) gives what a first-ever generation gives
        for step, (extra, ref, what) in enumerate(((["-genmode", "source-map"], smap, "source-map over existing base outputs"),
                                                   ([], base, "base over existing source-map outputs"))):
            rc, out = common.run_cff(mod, "./gen", extra=extra)
            count("cff_runs")
            now = gen_files(gdir)
            for fn in ref:
                count("byte_comparisons")
                if now.get(fn) != ref[fn]:
                    hit("C17", "generating %s wrote a %s that differs from a first-ever generation: the output depends on what earlier runs left behind" % (what, fn),
                        {"file": fn, "module": mod, "history": ["base", "source-map", "base"][:step + 2], "fresh": ref[fn].decode()[:2000], "over_existing": (now.get(fn) or b"").decode()[:2000]})
                    break
    # ---- auto-instrument (C13: succeeds with compiling output, or positioned diagnostics)
    moda, gdira = write_pkg("modes-auto-%d-%s" % (seed, tier), flows, ntypes)
    rc, out = common.run_cff(moda, "./gen", extra=["-auto-instrument"])
    count("cff_runs")
    if "panic:" in out or "goroutine " in out:
        hit("C13", "cff -auto-instrument died with a Go panic", {"output": out[-3000:], "module": moda})
    elif rc == 0:
        rcv, o, e = common.run(["go", "build", "./gen/..."], cwd=moda, env=common.GOENV, check=False, timeout=900)
        if rcv != 0:
            errs = [l for l in (o + e).split("\n") if ".go:" in l]
            hit("C13", "-auto-instrument output does not type-check: %s" % (errs[0] if errs else (o + e)[-200:]), {"output": (o + e)[-3000:], "module": moda})
    else:
        diag = [l for l in out.split("\n") if l.strip().startswith("- ")]
        S["auto_instrument_diagnostics"] = len(diag)
        if not diag or not all(re.search(r"\.go:\d+:\d+", l) for l in diag):
            hit("C13", "cff -auto-instrument failed without positioned diagnostics: %s" % out.strip()[-300:], {"output": out[-3000:], "module": moda})
    # ---- modifier mode on the supported subset (C20), differential with base mode and the model
    sub, sub_nt, r2 = progen.gen_flows(seed + 2000, 18 if quick else 300, rich=False)
    for f in sub:
        f.bare, f.clock = False, False
    modb, gdirb = write_pkg("modes-subbase-%d-%s" % (seed, tier), sub, sub_nt, variants=False)
    modm, gdirm = write_pkg("modes-submod-%d-%s" % (seed, tier), sub, sub_nt, variants=False)
    rcb, outb = common.run_cff(modb, "./gen")
    rcm, outm = common.run_cff(modm, "./gen", extra=["-genmode", "modifier"])
    count("cff_runs", 2)
    if rcb != 0:
        hit("C13", "cff failed on the modifier-subset package in base mode (exit %d)" % rcb, {"output": outb[-3000:], "module": modb})
    elif rcm != 0 or "panic:" in outm:
        hit("C20", "modifier mode fails on flows built only from Params, Results, Concurrency and plain Tasks (exit %d): %s" % (rcm, outm.strip().split("\n")[-1][:200]),
            {"output": outm[-3000:], "module": modm})
    else:
        runs_b, eb = run_plan(modb, sub, seed)
        runs_m, em = run_plan(modm, sub, seed)
        if runs_b is None:
            hit("C13", "base-mode output of the modifier-subset package does not build or run: %s" % eb[-300:], {"module": modb, "error": eb})
        elif runs_m is None:
            hit("C20", "modifier-mode output does not build or run: %s" % ([l for l in em.split("\n") if ".go:" in l] or [em[-300:]])[0], {"module": modm, "error": em})
        else:
            byname = {f.name(): f for f in sub}
            lines = [byname[x["flow"]].model_line() + " # " + " ".join("%s=%s" % (k, "panic" if v.startswith("panic") else v) for k, v in sorted(x["scenario"].items()))
                     for x in runs_b]
            preds = common.model_run("flowobs", lines)
            # the job graph of the modifier-mode implementation functions must contain the model's
            modtext = ""
            for fn in sorted(os.listdir(gdirm)):
                if fn.endswith("_gen.go"):
                    modtext += open(os.path.join(gdirm, fn)).read() + "\n"
            regions = {}
            parts = re.split(r"^func (\w+)\(", modtext, flags=re.M)
            for i in range(1, len(parts), 2):
                regions[parts[i]] = parts[i + 1]
            seen = set()
            for xb, pred in zip(runs_b, preds):
                fl = byname[xb["flow"]]
                if fl.name() in seen:
                    continue
                seen.add(fl.name())
                m = re.search(r"(_cffFlow\w+)\(", regions.get(fl.name(), ""))
                impl = regions.get(m.group(1), "") if m else ""
                got = gen_common.parse_job_graph(impl, fl)
                if got is None:
                    count("modifier_job_graphs_unreadable")
                    continue
                want = {}
                for ent in pred.rsplit("JOBS=", 1)[1].split(";"):
                    if ent:
                        j, ds = ent.split(":")
                        want[j] = sorted(set(d for d in ds.split(",") if d))
                count("modifier_job_graphs")
                missing = {j: sorted(set(want[j]) - set(got.get(j, []))) for j in want if j not in got or set(want[j]) - set(got.get(j, []))}
                if missing:
                    hit("C20", "modifier-mode code of %s omits dependencies the dataflow needs (job: missing providers) %s" % (fl.name(), missing),
                        {"flow": fl.model_line(), "go_function": fl.name(), "generated": got, "model": want, "module": modm})
            for xb, xm, pred in zip(runs_b, runs_m, preds):
                count("modifier_differential_executions")
                f = byname[xb["flow"]]
                m = re.match(r"ERR=(.*) ; RES=(.*) ; CALLS=", pred)
                perr = m.group(1)
                if perr == "nil":
                    if (xm["err"], xm["results"]) != (xb["err"], xb["results"]):
                        hit("C20", "modifier-mode code returns (%s, %s), base-mode code (%s, %s) for the same flow and task outcomes %s" % (
                            xm["err"], xm["results"], xb["err"], xb["results"], xb["scenario"]),
                            {"flow": f.model_line(), "go_function": f.name(), "scenario": xb["scenario"], "base": xb, "modifier": xm, "model": pred})
                else:
                    allowed = set()
                    for a in perr.split("|"):
                        allowed.add((xb["scenario"].get(a.split(":")[1], "panic") + ":" + a.split(":")[1]) if a.startswith("panic:") else a)
                    if xm["err"] not in allowed or any(v != "sentinel" for v in xm["results"]):
                        hit("C20", "modifier-mode code returns (%s, %s); base-mode code (%s, %s); failures possible for outcomes %s: %s" % (
                            xm["err"], xm["results"], xb["err"], xb["results"], xb["scenario"], sorted(allowed)),
                            {"flow": f.model_line(), "go_function": f.name(), "scenario": xb["scenario"], "base": xb, "modifier": xm, "model": pred})
    S["wall_s"] = round(time.time() - t0, 1)
    with open(cpath, "w") as fh:
        json.dump(S, fh)
    return S


def apply(chk, pid):
    s = observe(chk.seed, chk.tier)
    n = sum(s["counts"].values())
    chk.cov["evaluations"] += n
    chk.cov["traces_validated_against_impl"] = chk.cov.get("traces_validated_against_impl", 0) + n
    for k, v in s["counts"].items():
        for i in range(v):
            chk.distinct.add(("modes", k, i))
    rule = ("generation modes: each cff process, each byte comparison of one output file between two runs or selections, each token-stream comparison of one file between base and "
            "source-map mode, each modifier job graph and each differential execution is one case; all are distinct (different file, run pair, flow or scenario) and non-trivial (every file holds four directives)")
    if rule not in chk.cov["rule"]:
        chk.cov["rule"] = (chk.cov["rule"] + " | " if chk.cov["rule"] else "") + rule
    chk.cov.setdefault("correspondence", {})["generation_modes"] = {
        "kind": "generated packages through the real cff in base / source-map / auto-instrument / modifier modes, repeated runs and -file subsets; byte, token-stream and behavioural comparison",
        "counts": s["counts"], "wall_s": s["wall_s"]}
    for h in s["hits"].get(pid, [])[:1]:
        chk.violate(h["what"], h["payload"])
    return s
