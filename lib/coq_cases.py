"""Cross-check of the extraction: a sample of the cases the extracted binary evaluated is
re-evaluated inside Coq (vm_compute on the very definitions the theorems are about); the
counts the binary printed must be the ones the kernel computes."""
import os
import re

import common


def coq_list(xs):
    return "[" + "; ".join(str(x) for x in xs) + "]"


def flow_term(line):
    """'P 0 1 | R 2 | T 0 1 - 0 0 1 | ...' -> Gallina record"""
    params, results, tasks = [], [], []
    for part in [p.strip() for p in line.split("|")]:
        toks = part.split()
        if not toks:
            continue
        if toks[0] == "P":
            params = toks[1:]
        elif toks[0] == "R":
            results = toks[1:]
        elif toks[0] == "T":
            ins, outs, pr, inv, fb, he = toks[1:7]
            f = lambda s: [] if s in ("-", "_") else s.split(",")
            pred = "None" if pr == "-" else "Some %s" % coq_list(f(pr))
            tasks.append("{| kins := %s; kouts := %s; kpred := %s; kinvoke := %s; kfallback := %s; khaserr := %s |}" % (
                coq_list(f(ins)), coq_list(f(outs)), pred, "true" if inv == "1" else "false", "true" if fb == "1" else "false", "true" if he == "1" else "false"))
    return "{| gparams := %s; gresults := %s; gtasks := [%s] |}" % (coq_list(params), coq_list(results), "; ".join(tasks))


def scen_term(sc):
    t = " | ".join("%s => %s" % (k[1:], {"err": "OERR", "panic": "OPANIC"}[v]) for k, v in sc.items() if k.startswith("t") and v in ("err", "panic"))
    q = " | ".join("%s => %s" % (k[1:], {"false": "PFALSE", "panic": "PPANIC"}[v]) for k, v in sc.items() if k.startswith("q") and v in ("false", "panic"))
    return "{| sc_task := fun k => match k with %s_ => OOK end; sc_pred := fun k => match k with %s_ => PTRUE end |}" % (
        (t + " | ") if t else "", (q + " | ") if q else "")


def check(chk, cases):
    """cases: list of (flow line, scenario dict with values ok/err/panic/false, model output line)"""
    d = os.path.join(common.CACHE, "coqcases")
    os.makedirs(d, exist_ok=True)
    L = ["From CffVerif Require Import FlowSemModel FlowOpModel FlowOpProofs FlowComplete.", ""]
    for i, (line, sc, out) in enumerate(cases):
        m = re.match(r"ERR=(.*) ; RES=(.*) ; CALLS=(.*) ; BLOCKED=(.*) ; OP=", out)
        nfail = 0 if m.group(1) == "nil" else len(m.group(1).split("|"))
        ncalls = len([c for c in m.group(3).split(";") if c])
        nblocked = len([c for c in m.group(4).split(",") if c])
        L.append("Definition f%d : fflow := %s." % (i, flow_term(line)))
        L.append("Definition s%d : scenario := %s." % (i, scen_term(sc)))
        L.append("Example case%d : (length (failures f%d s%d), length (calls f%d s%d), length (blocked f%d s%d), unique_providers_b f%d, all_provided_b f%d, valid f%d s%d (canonical f%d s%d)) = (%d, %d, %d, true, true, true)." % (
            i, i, i, i, i, i, i, i, i, i, i, i, i, nfail, ncalls, nblocked))
        L.append("Proof. vm_compute. reflexivity. Qed.")
    path = os.path.join(d, "cases_%s.v" % chk.pid)
    open(path, "w").write("\n".join(L) + "\n")
    rc, o, e = common.run("timeout 600 coqc -Q %s CffVerif %s" % (common.COQ, path), cwd=d, check=False, timeout=700)
    chk.cov.setdefault("correspondence", {})["extraction_cross_check"] = {
        "kind": "cases evaluated by the extracted binary re-evaluated inside Coq by vm_compute (counts of failures, calls, blocked tasks; hypotheses of the theorems; validity of the canonical schedule)",
        "cases": len(cases), "ok": rc == 0}
    chk.count(len(cases))
    if rc != 0:
        chk.fail_no_input("the extracted model and the Coq definitions disagree on a case (extraction or driver defect): %s" % (o + e).strip()[-300:],
                          {"theorem": "extraction cross-check", "file": path, "log": (o + e)[-2000:]})


ACT = {"CE": "ACallerEnq", "CW": "ACallerWait", "CRC": "ACallerRetCtx", "CRF": "ACallerRetFin", "LER": "ALoopEnqRecv",
       "LEC": "ALoopEnqClosed", "LT": "ALoopTick", "LDR": "ALoopDrain", "LF": "ALoopFinish"}


def act_term(toks):
    if toks[0] in ACT:
        return ACT[toks[0]]
    if toks[0] == "LD":
        return "ALoopDispatch %s" % toks[1]
    if toks[0] == "LDN":
        return "ALoopDone %s" % toks[1]
    if toks[0] == "WC":
        return "AWorkerCheck %s" % toks[1]
    if toks[0] == "WP":
        return "AWorkerPost %s" % toks[1]
    if toks[0] == "WX":
        return "AWorkerExit %s" % toks[1]
    if toks[0] == "X":
        return "ACancel %s" % toks[1]
    if toks[0] == "WE":
        o = {"ok": "OOk", "exit": "OGoexit"}.get(toks[2]) or "(OErr %s)" % toks[3]
        return "AWorkerEnd %s %s" % (toks[1], o)
    raise ValueError("unknown action %s" % toks)


def check_sched(chk, traces):
    """traces: replay scripts the extracted binary accepted; the same runs inside Coq"""
    d = os.path.join(common.CACHE, "coqcases")
    os.makedirs(d, exist_ok=True)
    L = ["From CffVerif Require Import SchedModel.", ""]
    for i, tr in enumerate(traces):
        cfg, jobs, acts, nev = None, [], [], 0
        for line in tr["script"]:
            toks = line.split()
            if not toks:
                continue
            if toks[0] == "CFG":
                cfg = toks[1:5]
            elif toks[0] == "JOB":
                jobs.append("{| jdeps := %s; jctx := %s |}" % (coq_list(toks[2:]), toks[1]))
            elif toks[0] == "ACT":
                a, _, evs = " ".join(toks[1:]).partition("|")
                acts.append(act_term(a.split()))
                nev += len([e for e in evs.split(";") if e.strip()])
        final = "true" if "final=true" in tr["verdict"] else "false"
        L.append("Definition c%d : cfg := {| cN := %s; ccoe := %s; cgated := %s; cprog := [%s]; cwctx := %s |}." % (
            i, cfg[0], "true" if cfg[1] == "1" else "false", "true" if cfg[2] == "1" else "false", "; ".join(jobs), cfg[3]))
        L.append("Example trace%d : match run c%d (init c%d) [%s] with Some s => (is_final s, length (log s)) | None => (false, 0) end = (%s, %d)." % (
            i, i, i, "; ".join(acts), final, nev))
        L.append("Proof. vm_compute. reflexivity. Qed.")
    path = os.path.join(d, "sched_%s.v" % chk.pid)
    open(path, "w").write("\n".join(L) + "\n")
    rc, o, e = common.run("timeout 900 coqc -Q %s CffVerif %s" % (common.COQ, path), cwd=d, check=False, timeout=1000)
    chk.cov.setdefault("correspondence", {})["extraction_cross_check"] = {
        "kind": "observed executions that the extracted replay accepted are re-run inside Coq (run, vm_compute): same finality and same number of events",
        "traces": len(traces), "ok": rc == 0}
    chk.count(len(traces))
    if rc != 0:
        chk.fail_no_input("the extracted scheduler model and the Coq definition disagree on an observed trace (extraction or driver defect): %s" % (o + e).strip()[-300:],
                          {"theorem": "extraction cross-check (scheduler)", "file": path, "log": (o + e)[-2000:]})


def vflow_term(line):
    """'P 0 1 | R 2 | T 0 1 - 0 | ...' (validator format: ins outs pred invoke) -> ValidateModel.flow"""
    params, results, tasks = [], [], []
    f = lambda x: [] if x in ("-", "_") else x.split(",")
    for part in [p.strip() for p in line.split("|")]:
        toks = part.split()
        if not toks:
            continue
        if toks[0] == "P":
            params = toks[1:]
        elif toks[0] == "R":
            results = toks[1:]
        elif toks[0] == "T":
            ins, outs, pr, inv = toks[1:5]
            pred = "None" if pr == "-" else "Some %s" % coq_list(f(pr))
            tasks.append("Build_task %s %s (%s) %s" % (coq_list(f(ins)), coq_list(f(outs)), pred, "true" if inv == "1" else "false"))
    return "{| fparams := %s; fresults := %s; ftasks := [%s] |}" % (coq_list(params), coq_list(results), "; ".join(tasks))


def check_validate(chk, cases):
    """cases: list of (validator flow line, 'ACCEPT'/'REJECT' as printed by the extracted binary, wf flag)"""
    d = os.path.join(common.CACHE, "coqcases")
    os.makedirs(d, exist_ok=True)
    L = ["From CffVerif Require Import ValidateModel.", ""]
    for i, (line, verdict, wf) in enumerate(cases):
        L.append("Example v%d : (accepts %s, wf_b %s) = (%s, %s)." % (i, vflow_term(line), vflow_term(line),
                 "true" if verdict == "ACCEPT" else "false", "true" if wf else "false"))
        L.append("Proof. vm_compute. reflexivity. Qed.")
    path = os.path.join(d, "validate_%s.v" % chk.pid)
    open(path, "w").write("\n".join(L) + "\n")
    rc, o, e = common.run("timeout 600 coqc -Q %s CffVerif %s" % (common.COQ, path), cwd=d, check=False, timeout=700)
    chk.cov.setdefault("correspondence", {})["extraction_cross_check"] = {
        "kind": "verdicts of the extracted validator re-computed inside Coq (accepts, wf_b by vm_compute)", "cases": len(cases), "ok": rc == 0}
    chk.count(len(cases))
    if rc != 0:
        chk.fail_no_input("the extracted validator and the Coq definition disagree on a flow (extraction or driver defect): %s" % (o + e).strip()[-300:],
                          {"theorem": "extraction cross-check (validator)", "file": path, "log": (o + e)[-2000:]})


def check_examples(chk, name, imports, examples, what):
    """examples: list of Coq propositions (strings) to be closed by vm_compute; reflexivity"""
    d = os.path.join(common.CACHE, "coqcases")
    os.makedirs(d, exist_ok=True)
    L = ["From CffVerif Require Import %s." % imports, "Import ListNotations.", ""]
    for i, ex in enumerate(examples):
        L.append("Example x%d : %s." % (i, ex))
        L.append("Proof. vm_compute. reflexivity. Qed.")
    path = os.path.join(d, "%s_%s.v" % (name, chk.pid))
    open(path, "w").write("\n".join(L) + "\n")
    rc, o, e = common.run("timeout 600 coqc -Q %s CffVerif %s" % (common.COQ, path), cwd=d, check=False, timeout=700)
    chk.cov.setdefault("correspondence", {})["extraction_cross_check_" + name] = {"kind": what, "cases": len(examples), "ok": rc == 0}
    chk.count(len(examples))
    if rc != 0:
        chk.fail_no_input("the extracted model and the Coq definition disagree (%s; extraction or driver defect): %s" % (name, (o + e).strip()[-300:]),
                          {"theorem": "extraction cross-check (%s)" % name, "file": path, "log": (o + e)[-2000:]})


def codes(s):
    return coq_list(ord(c) for c in s)


def alias_example(case, model_out):
    taken, _, reqs = case.partition("|")
    init = coq_list(codes(n.strip()) for n in taken.split(",") if n.strip())
    rq = []
    for r in reqs.split("|"):
        f = r.split()
        if len(f) == 2:
            d, _, b = f[0].rpartition("/")
            rq.append("((%s, %s), %s)" % (codes(d), codes(b), codes(f[1])))
    names = model_out.split(";")[0].split()
    return "option_map fst (requests %s (start %s)) = Some %s" % (coq_list(rq), init, coq_list(codes(n) for n in names))


def emstack_example(prog, model_out):
    defs = [d.strip() for d in prog.split(";")]
    lets, names = [], []
    for k, d in enumerate(defs):
        args = []
        for tok in d.split():
            if tok == "E":
                continue
            if tok[0] == "L":
                args.append("VOne (ALeaf %s)" % tok[1:])
            elif tok[0] == "N":
                args.append("VOne ANop")
            else:
                args.append("v%s" % tok[1:])
        lets.append("let v%d := mk_stack %s in" % (k, coq_list(args)))
        names.append("deliver v%d" % k)
    want = coq_list(coq_list(x for x in part.split(",") if x) for part in model_out.split("|"))
    return "(%s %s) = %s" % (" ".join(lets), coq_list(names), want)
