"""c18 — emitter protocol: EmitterStack model vs the real cff.EmitterStack on generated
nestings (shared sub-stacks), event protocol of generated flows (gen_common)."""
import random

import common
import coq_cases
import gen_common
import par_common

DEP_FILES = ["EmitterModel.v", "EmitterProofs.v", "FlowOpModel.v", "FlowOpProofs.v", "FlowEventProofs.v"]
PID = "C18"

METHODS = ["TaskInit", "TaskSuccess", "TaskError", "TaskErrorRecovered", "TaskSkipped", "TaskPanic", "TaskPanicRecovered", "TaskDone",
           "FlowInit", "FlowSuccess", "FlowError", "FlowDone", "ParallelInit", "ParallelSuccess", "ParallelError", "ParallelDone",
           "SchedulerInit", "EmitScheduler"]


def gen_program(r, nid):
    """definitions v_k = EmitterStack(args): later definitions reuse earlier ones (several
    stacks built on one base stack: the aliasing case), leaves are fresh or repeated"""
    defs = []
    for k in range(r.randint(1, 7)):
        n = r.choice([0, 1, 2, 2, 3, 3, 4, 5])
        args = []
        for _ in range(n):
            c = r.random()
            if c < 0.35 and defs:
                args.append("V%d" % r.randrange(len(defs)))
            elif c < 0.45:
                args.append("N")
            elif c < 0.55 and nid[0] > 0:
                args.append("L%d" % r.randrange(nid[0]))
            else:
                args.append("L%d" % nid[0])
                nid[0] += 1
        defs.append(" ".join(args) or "E")
    return " ; ".join(defs)


def run(chk):
    chk.recheck_proofs()
    r = random.Random(chk.seed * 7919 + 18)
    n = 400 if chk.tier == "quick" else 60000
    progs = []
    for _ in range(n):
        progs.append(gen_program(r, [0]))
    # the aliasing shape explicitly: one base with spare capacity, two extensions
    progs += ["L0 L1 L2 ; V0 L3 ; V0 L4 ; V1 V2", "L0 L1 L2 L3 L4 ; V0 L5 ; V0 L6 ; V0 L7 L8", "L0 L1 ; V0 ; V1 L2 ; V1 L3"]
    exe = common.go_build("emstack", tags="verif")
    rc, out, err = common.run([exe], input="\n".join(progs) + "\n", timeout=600)
    real = out.split("\n")
    model = common.model_run("emstack", progs)
    shapes = {}
    for prog, rl, ml in zip(progs, real, model):
        chk.count(1, key=("emstack", prog))
        nv = prog.count(";") + 1
        shapes[nv] = shapes.get(nv, 0) + 1
        rvars = rl.split("|")
        mvars = ml.split("|")
        bad = None
        if len(rvars) != len(mvars):
            bad = "different number of emitters"
        else:
            for k, (rv, mv) in enumerate(zip(rvars, mvars)):
                want = sorted(int(x) for x in mv.split(",") if x)
                hits = [h.split("=") for h in rv.split(",") if h]
                for meth in METHODS:
                    got = sorted(int(h[1]) for h in hits if h[0] == meth)
                    if got != want:
                        bad = "v%d.%s reached emitters %s; the emitters combined in v%d are %s" % (k, meth, got, k, want)
                        break
                if bad is None and any(h[2] != "true" for h in hits):
                    bad = "v%d: an emitter received a payload other than the one sent (%s)" % (k, [h for h in hits if h[2] != "true"][:2])
                if bad:
                    break
        if bad:
            chk.violate("EmitterStack program `%s`: %s" % (prog, bad), {"program": prog, "real": rl[:3000], "model": ml})
            break
    coq_cases.check_examples(chk, "emstack", "EmitterModel", [coq_cases.emstack_example(progs[i], model[i]) for i in range(0, min(len(progs), 200), 20)],
                             "receivers computed by the extracted mk_stack/deliver re-computed inside Coq")
    chk.sample({"program": progs[0], "model_receivers": model[0]})
    chk.cov["correspondence"]["emitter_stack"] = {"kind": "real cff.EmitterStack vs extracted mk_stack/deliver on generated definitions with shared sub-stacks; 18 methods of 4 emitter kinds, payload identity",
                                                  "programs": len(progs), "definitions_per_program": shapes}
    gen_common.apply(chk, PID)
    par_common.apply(chk, PID)
    chk.assumptions += gen_common.ASSUMPTIONS + ["events reach the emitters of a stack in an unspecified order (documented): receivers are compared as multisets"]
