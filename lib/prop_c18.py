"""c18 — emitter protocol: EmitterStack model vs the real cff.EmitterStack on generated
nestings (shared sub-stacks), event protocol of generated flows (gen_common)."""
import os
import random
import re

import common
import coq_cases
import gen_common
import par_common

DEP_FILES = ["EmitterModel.v", "EmitterProofs.v", "EmitterSessionModel.v", "EmitterSessionProofs.v", "FlowOpModel.v", "FlowOpProofs.v", "FlowEventProofs.v"]
PID = "C18"

METHODS = ["TaskInit", "TaskSuccess", "TaskError", "TaskErrorRecovered", "TaskSkipped", "TaskPanic", "TaskPanicRecovered", "TaskDone",
           "FlowInit", "FlowSuccess", "FlowError", "FlowDone", "ParallelInit", "ParallelSuccess", "ParallelError", "ParallelDone",
           "SchedulerInit", "EmitScheduler"]


def gen_program(r, nid):
    """definitions v_k = EmitterStack(args): later definitions reuse earlier ones (several
    stacks built on one base stack: the aliasing case), leaves are fresh or repeated"""
    defs = []
    for k in range(r.randint(1, 7)):
        n = r.choice([0, 1, 2, 2, 3, 3, 4, 5])
        args = []
        for _ in range(n):
            c = r.random()
            if c < 0.35 and defs:
                args.append("V%d" % r.randrange(len(defs)))
            elif c < 0.45:
                args.append("N")
            elif c < 0.55 and nid[0] > 0:
                args.append("L%d" % r.randrange(nid[0]))
            else:
                args.append("L%d" % nid[0])
                nid[0] += 1
        defs.append(" ".join(args) or "E")
    return " ; ".join(defs)


def gen_session(r):
    """an EmitterStack program plus a session on its last definition: Init calls of the four
    kinds and Done calls on children created before"""
    nid = [0]
    prog = gen_program(r, nid)
    ops, n = [], 0
    for _ in range(r.randint(1, 12)):
        if n == 0 or r.random() < 0.4:
            ops.append("I" + r.choice("TFPS"))
            n += 1
        else:
            ops.append("E%d" % r.randrange(n))
    return prog, ops, nid[0]


def session_example(prog, ops, nids, real):
    """Coq proposition: what every user emitter sees in EmitterSessionModel.session = what the recorders saw"""
    lets = []
    defs = [d.strip() for d in prog.split(";")]
    for k, d in enumerate(defs):
        args = []
        for tok in d.split():
            if tok == "E":
                continue
            args.append("VOne (ALeaf %s)" % tok[1:] if tok[0] == "L" else "VOne ANop" if tok[0] == "N" else "v%s" % tok[1:])
        lets.append("let v%d := mk_stack %s in" % (k, coq_cases.coq_list(args)))
    kinds = "TFPS"
    opt = coq_cases.coq_list("SInit %d" % kinds.index(o[1]) if o[0] == "I" else "SEv %s 0" % o[1:] for o in ops)
    seen = {i: [] for i in range(nids)}
    for ent in real.split():
        i, _, c = ent.partition(":")
        seen[int(i)].append("SInit %d" % kinds.index(c[1]) if c[0] == "I" else "SEv %s 0" % c[1:])
    # an emitter occurring once (or not at all) must see exactly the sequence it would see alone; for one that
    # occurs several times "alone" fixes no order between its own occurrences: only the number of calls is compared
    ninit = sum(1 for o in ops if o[0] == "I")

    def mult(i):
        k = sum(1 for c in seen[i] if c.startswith("SInit"))
        return k // ninit if ninit and k % ninit == 0 else 1
    want = coq_cases.coq_list("(%s, 0)" % coq_cases.coq_list(seen[i]) if mult(i) <= 1 else "([], %d)" % len(seen[i]) for i in range(nids))
    return ("(%s let v := v%d in let lg := session v %s in map (fun i => let s := sees i lg in "
            "if Nat.leb (count_occ Nat.eq_dec (deliver v) i) 1 then (s, 0) else ([], length s)) (seq 0 %d)) = %s"
            % (" ".join(lets), len(defs) - 1, opt, nids, want)), seen


def session_tie(chk, r):
    """second level of the stack (Init methods, child stacks): real cff.EmitterStack sessions vs EmitterSessionModel evaluated inside Coq"""
    n = 120 if chk.tier == "quick" else 900
    cases = [gen_session(r) for _ in range(n)]
    cases.append(("L0 L1 L2 ; V0 L3 ; V0 L4 ; V1 V2 L0", ["IT", "IF", "E1", "E0", "IS", "IP", "E3", "E2", "E0"], 5))
    exe = common.go_build("emsession", tags="verif")
    rc, out, err = common.run([exe], input="\n".join("%s # %s" % (p, " ".join(o)) for p, o, _ in cases) + "\n", check=False, timeout=600)
    real = out.split("\n")
    if rc != 0 or len(real) < len(cases):
        k = min(len(real), len(cases)) - 1
        chk.violate("the process driving cff.EmitterStack through a session died (exit %d) at `%s # %s`" % (rc, cases[k][0], " ".join(cases[k][1])),
                    {"program": cases[k][0], "ops": cases[k][1], "stderr": err[-1500:]})
        return
    d = os.path.join(common.CACHE, "coqcases")
    os.makedirs(d, exist_ok=True)
    nops = {}
    for shard in range(0, len(cases), 300):
        L = ["From CffVerif Require Import EmitterSessionModel.", "Import ListNotations.", ""]
        seens = []
        for i in range(shard, min(shard + 300, len(cases))):
            prog, ops, nids = cases[i]
            ex, seen = session_example(prog, ops, nids, real[i])
            seens.append(seen)
            nops[len(ops)] = nops.get(len(ops), 0) + 1
            chk.count(1, key=("emsession", prog, tuple(ops)))
            L.append("Example x%d : %s." % (i, ex))
            L.append("Proof. vm_compute. reflexivity. Qed.")
        path = os.path.join(d, "emsession_%s_%d.v" % (chk.pid, shard))
        open(path, "w").write("\n".join(L) + "\n")
        rc, o, e = common.run("timeout 900 coqc -Q %s CffVerif %s" % (common.COQ, path), cwd=d, check=False, timeout=1000)
        if rc != 0:
            m = re.search(r"line (\d+), characters", o + e)
            i = shard + max(0, (int(m.group(1)) - 4) // 2) if m else shard
            i = min(i, len(cases) - 1)
            prog, ops, nids = cases[i]
            chk.violate("EmitterStack session `%s # %s`: the calls the user emitters received through the Init methods and the child stacks (%s) are not those of the session itself (EmitterSessionModel.session evaluated in Coq)"
                        % (prog, " ".join(ops), real[i][:300]),
                        {"program": prog, "ops": ops, "real_log": real[i], "per_emitter": {str(k): v for k, v in seens[i - shard].items()}, "coq_file": path, "coq_log": (o + e)[-1500:]})
            break
    chk.cov["correspondence"]["emitter_sessions"] = {
        "kind": "real cff.EmitterStack driven through sessions (TaskInit/FlowInit/ParallelInit/SchedulerInit creating children, Done/EmitScheduler on earlier children, recorders numbering their own children) "
                "vs EmitterSessionModel.session evaluated inside Coq (vm_compute), compared per user emitter: the exact sequence for an emitter occurring at most once, the number of calls for one occurring several times (order across emitters and between the occurrences of one emitter is not compared)",
        "sessions": len(cases), "ops_per_session": {str(k): nops[k] for k in sorted(nops)}}


def run(chk):
    chk.recheck_proofs()
    r = random.Random(chk.seed * 7919 + 18)
    n = 400 if chk.tier == "quick" else 60000
    progs = []
    for _ in range(n):
        progs.append(gen_program(r, [0]))
    # the aliasing shape explicitly: one base with spare capacity, two extensions
    progs += ["L0 L1 L2 ; V0 L3 ; V0 L4 ; V1 V2", "L0 L1 L2 L3 L4 ; V0 L5 ; V0 L6 ; V0 L7 L8", "L0 L1 ; V0 ; V1 L2 ; V1 L3"]
    exe = common.go_build("emstack", tags="verif")
    rc, out, err = common.run([exe], input="\n".join(progs) + "\n", timeout=600)
    real = out.split("\n")
    model = common.model_run("emstack", progs)
    shapes = {}
    for prog, rl, ml in zip(progs, real, model):
        chk.count(1, key=("emstack", prog))
        nv = prog.count(";") + 1
        shapes[nv] = shapes.get(nv, 0) + 1
        rvars = rl.split("|")
        mvars = ml.split("|")
        bad = None
        if len(rvars) != len(mvars):
            bad = "different number of emitters"
        else:
            for k, (rv, mv) in enumerate(zip(rvars, mvars)):
                want = sorted(int(x) for x in mv.split(",") if x)
                hits = [h.split("=") for h in rv.split(",") if h]
                for meth in METHODS:
                    got = sorted(int(h[1]) for h in hits if h[0] == meth)
                    if got != want:
                        bad = "v%d.%s reached emitters %s; the emitters combined in v%d are %s" % (k, meth, got, k, want)
                        break
                if bad is None and any(h[2] != "true" for h in hits):
                    bad = "v%d: an emitter received a payload other than the one sent (%s)" % (k, [h for h in hits if h[2] != "true"][:2])
                if bad:
                    break
        if bad:
            chk.violate("EmitterStack program `%s`: %s" % (prog, bad), {"program": prog, "real": rl[:3000], "model": ml})
            break
    coq_cases.check_examples(chk, "emstack", "EmitterModel", [coq_cases.emstack_example(progs[i], model[i]) for i in range(0, min(len(progs), 200), 20)],
                             "receivers computed by the extracted mk_stack/deliver re-computed inside Coq")
    session_tie(chk, r)
    chk.sample({"program": progs[0], "model_receivers": model[0]})
    chk.cov["correspondence"]["emitter_stack"] = {"kind": "real cff.EmitterStack vs extracted mk_stack/deliver on generated definitions with shared sub-stacks; 18 methods of 4 emitter kinds, payload identity",
                                                  "programs": len(progs), "definitions_per_program": shapes}
    gen_common.apply(chk, PID)
    par_common.apply(chk, PID)
    chk.assumptions += gen_common.ASSUMPTIONS + ["events reach the emitters of a stack in an unspecified order (documented): receivers are compared as multisets"]
