"""Generator of executable cff programs for the behavioural correspondence (C02, C04,
C07, C09, C10, C11, C13, C15, C18, C20): Go packages whose task functions are harness
stubs obeying a run-time scenario table and whose values are printed terms, plus the
abstract programs handed to the Coq model. All randomness from one random.Random."""
import random

import flowgen

RT_GO = r'''package gen

import (
	"context"
	"fmt"
	"sort"
	"strings"
	"sync"
	"sync/atomic"
	"time"

	"go.uber.org/cff"
)

// Exec is one execution of one directive: its scenario, its logs.
type Exec struct {
	Ctx      context.Context
	Cancel   func()
	Scenario map[string]string // "t3" -> ok|err|panic ; "q3" -> true|false|panic
	SleepUs  map[string]int

	mu      sync.Mutex
	seq     int64
	emitterN int
	Calls   []string // "t3(p0,t1.0(p0))"
	Starts  map[string]int64
	Ends    map[string]int64
	Args    []int    // argument-expression evaluation log
	ArgSeq  []int64
	Events  []string // emitter events
	CtxBad  []string // tasks that did not receive the directive's context
	inflight int32
	MaxFlight int32
	Extras   map[string]string
	Tick     int // number of Arg evaluations so far (read by plain, non-call argument expressions)
}

type Clock int

// Extra records a side observation of the harness function around the directive.
func (x *Exec) Extra(k string, v interface{}) {
	x.mu.Lock()
	if x.Extras == nil {
		x.Extras = map[string]string{}
	}
	x.Extras[k] = fmt.Sprint(v)
	x.mu.Unlock()
}

// Mut runs f (which reassigns the variables that earlier arguments named) and returns c.
func (x *Exec) Mut(c int, f func()) int {
	f()
	return c
}

type ctxKey struct{}

func NewExec(sc map[string]string, sleeps map[string]int) *Exec {
	x := &Exec{Scenario: sc, SleepUs: sleeps, Starts: map[string]int64{}, Ends: map[string]int64{}}
	ctx, cancel := context.WithCancel(context.Background())
	x.Cancel = cancel
	x.Ctx = context.WithValue(ctx, ctxKey{}, x)
	return x
}

// TaskErr is the error a task stub returns. With Ctxish it also matches context.Canceled under
// errors.Is (a task that wraps the error of a context of its own, while the directive's context is alive).
type TaskErr struct {
	Task   string
	Ctxish bool
}

func (e *TaskErr) Is(target error) bool { return e.Ctxish && target == context.Canceled }

func (e *TaskErr) Error() string { return "task " + e.Task + " failed" }

type PanicVal struct{ Task string }

// RtErr is a panic value that is a runtime.Error (as a nil-map write or an index out of range would be).
type RtErr struct{ Task string }

func (e RtErr) Error() string { return "runtime error: " + e.Task }
func (RtErr) RuntimeError()   {}

func (x *Exec) next() int64 { return atomic.AddInt64(&x.seq, 1) }

// CheckCtx records a task whose context is not the directive's (the very value the
// directive was called with, not a context derived from it: one that the generated code
// cancels when the directive returns is dead by the time a value bound to it is used).
func (x *Exec) CheckCtx(id string, ctx context.Context) {
	if ctx != x.Ctx {
		x.mu.Lock()
		x.CtxBad = append(x.CtxBad, id)
		x.mu.Unlock()
	}
}

func (x *Exec) begin(id string, args []string) {
	fl := atomic.AddInt32(&x.inflight, 1)
	for {
		m := atomic.LoadInt32(&x.MaxFlight)
		if fl <= m || atomic.CompareAndSwapInt32(&x.MaxFlight, m, fl) {
			break
		}
	}
	x.mu.Lock()
	x.Calls = append(x.Calls, id+"("+strings.Join(args, ",")+")")
	if _, dup := x.Starts[id]; !dup {
		x.Starts[id] = x.next()
	}
	x.mu.Unlock()
	if us := x.SleepUs[id]; us > 0 {
		time.Sleep(time.Duration(us) * time.Microsecond)
	}
}

func (x *Exec) end(id string) {
	x.mu.Lock()
	x.Ends[id] = x.next()
	x.mu.Unlock()
	atomic.AddInt32(&x.inflight, -1)
}

// Call is the body of every task stub: nouts result terms, or a failure.
func (x *Exec) Call(id string, nouts int, args ...string) ([]string, error) {
	x.begin(id, args)
	defer x.end(id)
	switch x.Scenario[id] {
	case "err":
		return make([]string, nouts), &TaskErr{Task: id}
	case "err-ctx":
		return make([]string, nouts), &TaskErr{Task: id, Ctxish: true}
	case "panic":
		panic(PanicVal{id})
	case "panic-err":
		panic(&TaskErr{Task: id})
	case "panic-pe":
		panic(&cff.PanicError{Value: PanicVal{id}})
	case "panic-str":
		panic("s:" + id)
	case "panic-rt":
		panic(RtErr{id})
	case "cancel":
		x.Cancel()
	}
	outs := make([]string, nouts)
	for i := range outs {
		outs[i] = fmt.Sprintf("%s.%d(%s)", id, i, strings.Join(args, ","))
	}
	return outs, nil
}

// Pred is the body of every predicate stub.
func (x *Exec) Pred(id string, args ...string) bool {
	x.begin(id, args)
	defer x.end(id)
	switch x.Scenario[id] {
	case "false":
		return false
	case "panic":
		panic(PanicVal{id})
	case "panic-err":
		panic(&TaskErr{Task: id})
	case "panic-pe":
		panic(&cff.PanicError{Value: PanicVal{id}})
	case "panic-str":
		panic("s:" + id)
	case "panic-rt":
		panic(RtErr{id})
	}
	return true
}

// Arg wraps an argument expression of a directive: it logs its evaluation.
func Arg[T any](x *Exec, n int, v T) T {
	s := x.next()
	x.mu.Lock()
	x.Args = append(x.Args, n)
	x.ArgSeq = append(x.ArgSeq, s)
	x.Tick++
	x.mu.Unlock()
	return v
}

func (x *Exec) FirstStart() int64 {
	x.mu.Lock()
	defer x.mu.Unlock()
	var m int64
	for _, s := range x.Starts {
		if m == 0 || s < m {
			m = s
		}
	}
	return m
}

func (x *Exec) SortedCalls() []string {
	x.mu.Lock()
	defer x.mu.Unlock()
	c := append([]string{}, x.Calls...)
	sort.Strings(c)
	return c
}

// Quiesce waits (bounded) until no stub is running: a failed directive returns while
// other tasks may still be in flight.
func (x *Exec) Quiesce() bool {
	for i := 0; i < 4000; i++ {
		if atomic.LoadInt32(&x.inflight) == 0 {
			return true
		}
		time.Sleep(500 * time.Microsecond)
	}
	return false
}

// Snapshot copies the logs under the lock.
func (x *Exec) Snapshot() (args []int, argseq []int64, events []string, ctxbad []string, starts, ends map[string]int64) {
	x.mu.Lock()
	defer x.mu.Unlock()
	args = append([]int{}, x.Args...)
	argseq = append([]int64{}, x.ArgSeq...)
	events = append([]string{}, x.Events...)
	ctxbad = append([]string{}, x.CtxBad...)
	starts, ends = map[string]int64{}, map[string]int64{}
	for k, v := range x.Starts {
		starts[k] = v
	}
	for k, v := range x.Ends {
		ends[k] = v
	}
	return
}

// ---- recording emitter

type recEmitter struct {
	x    *Exec
	name string
}

func (x *Exec) Emitter(name string) cff.Emitter { return &recEmitter{x, name} }

// NextEmitter returns the emitters e0, e1, ... in the order of its evaluations: a directive
// may spell two of its arguments with the same text.
func (x *Exec) NextEmitter() cff.Emitter {
	x.mu.Lock()
	k := x.emitterN
	x.emitterN++
	x.mu.Unlock()
	return x.Emitter(fmt.Sprintf("e%d", k))
}

// Auto logs the evaluation of an argument expression whose text occurs more than once in the
// directive: it takes the next index, so only the number of evaluations is observable.
func Auto[T any](x *Exec, v T) T {
	s := x.next()
	x.mu.Lock()
	x.Args = append(x.Args, len(x.Args))
	x.ArgSeq = append(x.ArgSeq, s)
	x.Tick++
	x.mu.Unlock()
	return v
}

func (e *recEmitter) log(format string, a ...interface{}) {
	e.x.mu.Lock()
	e.x.Events = append(e.x.Events, e.name+":"+fmt.Sprintf(format, a...))
	e.x.mu.Unlock()
}

type recTask struct {
	e    *recEmitter
	task string
}

func errTerm(err error) string {
	if err == nil {
		return "nil"
	}
	return ErrClass(err)
}

func (t recTask) TaskSuccess(context.Context)              { t.e.log("TaskSuccess %s", t.task) }
func (t recTask) TaskError(_ context.Context, err error)   { t.e.log("TaskError %s %s", t.task, errTerm(err)) }
func (t recTask) TaskErrorRecovered(_ context.Context, err error) {
	t.e.log("TaskErrorRecovered %s %s", t.task, errTerm(err))
}
func (t recTask) TaskSkipped(_ context.Context, err error) { t.e.log("TaskSkipped %s %s", t.task, errTerm(err)) }
func (t recTask) TaskPanic(_ context.Context, v interface{}) {
	t.e.log("TaskPanic %s %v", t.task, v)
}
func (t recTask) TaskPanicRecovered(_ context.Context, v interface{}) {
	t.e.log("TaskPanicRecovered %s %v", t.task, v)
}
func (t recTask) TaskDone(context.Context, time.Duration) { t.e.log("TaskDone %s", t.task) }

type recFlow struct {
	e    *recEmitter
	name string
}

func (f recFlow) FlowSuccess(context.Context)            { f.e.log("FlowSuccess %s", f.name) }
func (f recFlow) FlowError(_ context.Context, err error) { f.e.log("FlowError %s %s", f.name, errTerm(err)) }
func (f recFlow) FlowDone(context.Context, time.Duration) { f.e.log("FlowDone %s", f.name) }

type recPar struct {
	e    *recEmitter
	name string
}

func (f recPar) ParallelSuccess(context.Context) { f.e.log("ParallelSuccess %s", f.name) }
func (f recPar) ParallelError(_ context.Context, err error) {
	f.e.log("ParallelError %s %s", f.name, errTerm(err))
}
func (f recPar) ParallelDone(context.Context, time.Duration) { f.e.log("ParallelDone %s", f.name) }

type recSched struct{}

func (recSched) EmitScheduler(cff.SchedulerState) {}

func (e *recEmitter) TaskInit(t *cff.TaskInfo, _ *cff.DirectiveInfo) cff.TaskEmitter {
	return recTask{e, t.Name}
}
func (e *recEmitter) FlowInit(f *cff.FlowInfo) cff.FlowEmitter { return recFlow{e, f.Name} }
func (e *recEmitter) ParallelInit(p *cff.ParallelInfo) cff.ParallelEmitter {
	return recPar{e, p.Name}
}
func (e *recEmitter) SchedulerInit(*cff.SchedulerInfo) cff.SchedulerEmitter { return recSched{} }
'''

ERRCLASS_GO = r'''package gen

import (
	"errors"
	"fmt"
	"sort"
	"strings"

	"go.uber.org/cff"
	"go.uber.org/multierr"
)

// ErrClass canonicalises an error returned by a directive: nil | err:t3 | panic:t3 | ctx | multi[...] | other:...
func ErrClass(err error) string {
	if err == nil {
		return "nil"
	}
	es := multierr.Errors(err)
	if len(es) > 1 {
		var parts []string
		for _, e := range es {
			parts = append(parts, ErrClass(e))
		}
		sort.Strings(parts)
		return "multi[" + strings.Join(parts, " ") + "]"
	}
	var pe *cff.PanicError
	if errors.As(err, &pe) {
		switch v := pe.Value.(type) {
		case PanicVal:
			return "panic:" + v.Task
		case *TaskErr:
			return "panic-err:" + v.Task
		case *cff.PanicError:
			if pv, ok := v.Value.(PanicVal); ok {
				return "panic-pe:" + pv.Task
			}
		case string:
			return "panic-str:" + strings.TrimPrefix(v, "s:")
		case RtErr:
			return "panic-rt:" + v.Task
		}
		return fmt.Sprintf("panic:?%v", pe.Value)
	}
	var te *TaskErr
	if errors.As(err, &te) {
		return "err:" + te.Task
	}
	if errors.Is(err, errCanceled) {
		return "ctx"
	}
	return "other:" + err.Error()
}
'''


class GenFlow:
    """An abstract flow decorated for execution."""

    def __init__(self, idx, base, r, rich=True):
        self.idx = idx
        self.params = list(base.params)
        self.results = list(base.results)
        self.tasks = []
        self.instr_flow = rich and r.random() < 0.4
        self.emitters = 0
        tid = 0
        for t in base.tasks:
            haserr = r.random() < 0.5
            d = dict(id=tid, ins=list(t["ins"]), outs=list(t["outs"]), pred=None if t["pred"] is None else list(t["pred"]),
                     invoke=t["invoke"], haserr=haserr, wantctx=r.random() < 0.35,
                     predctx=r.random() < 0.3,
                     fallback=(rich and haserr and r.random() < 0.3),
                     instr=(rich and r.random() < 0.4), form=r.choice(["lit", "lit", "method"]))
            self.tasks.append(d)
            tid += 1
        if self.instr_flow or any(t["instr"] for t in self.tasks):
            self.emitters = r.choice([1, 1, 2])
        elif rich and idx % 5 == 3:
            self.emitters = 1      # cff.WithEmitter on a flow in which nothing is instrumented: still an argument to evaluate
        self.has_conc = r.random() < 0.7
        self.bare = rich and r.random() < 0.5      # some arguments are bare identifiers, reassigned by the last argument
        self.clock = rich and r.random() < 0.5     # a plain (non-call) argument expression reading the evaluation clock
        self.rseed = r.getrandbits(32)
        self.wide = False
        if rich and self.results and self.rseed % 4 == 0:
            # two Results targets of the same type: both are written
            self.results.append(self.results[self.rseed % len(self.results)])
        if self.bare:
            self.has_conc = True

    # ---- the model's input: one line
    def model_line(self):
        def l(xs):
            return ",".join(str(x) for x in xs) if xs else "-"
        parts = ["P " + " ".join(str(x) for x in self.params), "R " + " ".join(str(x) for x in self.results)]
        for t in self.tasks:
            pr = "-" if t["pred"] is None else ("_" if not t["pred"] else ",".join(str(x) for x in t["pred"]))
            parts.append("T %s %s %s %d %d %d" % (l(t["ins"]), l(t["outs"]), pr, 1 if t["invoke"] else 0,
                                                1 if t["fallback"] else 0, 1 if t["haserr"] else 0))
        return " | ".join(parts)

    def name(self):
        return "Flow%03d" % self.idx

    # ---- Go source of the function containing the directive
    NAME_POOL = ["tasks", "sched", "emitter", "flowInfo", "schedInfo", "startTime", "flowEmitter", "schedEmitter",
                 "taskEmitter", "recovered", "stacktrace", "v1", "v2", "v3", "task0", "task1", "task2", "pred1", "pred2",
                 "p1", "p2", "sliceTask0Slice", "once0", "mu", "wg"]

    def render(self):
        """Go source of the function containing the directive. Argument expressions are of
        three kinds: calls wrapped in Arg (logged), bare identifiers of local variables that
        the last argument reassigns (so a late read is visible), and a plain read of the
        evaluation clock (so an out-of-order read is visible). Local names are taken from
        the identifiers the generated code itself declares."""
        rr = random.Random(self.rseed)
        pool = list(self.NAME_POOL)
        rr.shuffle(pool)
        L, pre, muts, post = [], [], [], []
        n = self.name()
        L.append("func %s(x *Exec, conc int) ([]string, error) {" % n)
        for i, t in enumerate(self.results):
            L.append("\tr%d := T%d{S: \"sentinel\"}" % (i, t))
        argn = [0]
        self.expect_extras = {}

        def arg(e):
            k = argn[0]
            argn[0] += 1
            return "Arg(x, %d, %s)" % (k, e)

        def bare(decl_rhs, late_rhs, prob):
            """maybe a bare identifier argument: returns the expression to write"""
            if self.bare and pool and rr.random() < prob:
                nm = pool.pop()
                pre.append("%s := %s" % (nm, decl_rhs))
                muts.append("%s = %s" % (nm, late_rhs))
                return nm
            return arg(decl_rhs)
        free_local = None
        if self.bare and pool:
            free_local = pool.pop()
            pre.append("%s := \"user:%s\"" % (free_local, free_local))
            pre.append("_ = %s" % free_local)
            self.expect_extras["local"] = "user:" + free_local
            self.local_task = "t%d" % self.tasks[0]["id"]
        opts = []
        ctx_expr = arg("x.Ctx")
        pexprs = []
        clock_at = rr.randint(0, len(self.params)) if self.clock else -1
        for i, t in enumerate(self.params):
            if i == clock_at:
                self.expect_extras["clock"] = str(argn[0])
                pexprs.append("Clock(x.Tick)")
            pexprs.append(bare("T%d{S: \"p%d\"}" % (t, t), "T%d{S: \"late\"}" % t, 0.35))
        if clock_at == len(self.params):
            self.expect_extras["clock"] = str(argn[0])
            pexprs.append("Clock(x.Tick)")
        if pexprs:
            opts.append("cff.Params(%s)" % ", ".join(pexprs))
        if self.has_conc and not self.bare:
            opts.append("cff.Concurrency(%s)" % arg("conc"))
        same_text = self.emitters >= 2 and rr.random() < 0.6     # the same expression text at two argument positions
        for e in range(self.emitters):
            if same_text:
                argn[0] += 1
                opts.append("cff.WithEmitter(Auto(x, x.NextEmitter()))")
            else:
                opts.append("cff.WithEmitter(%s)" % arg("x.Emitter(\"e%d\")" % e))
        if self.instr_flow:
            opts.append("cff.InstrumentFlow(%s)" % arg("\"%s\"" % n))
        rexprs = []
        for i, t in enumerate(self.results):
            if self.bare and pool and rr.random() < 0.35:
                nm = pool.pop()
                pre.append("d%d := T%d{S: \"dummy\"}" % (i, t))
                pre.append("%s := &r%d" % (nm, i))
                muts.append("%s = &d%d" % (nm, i))
                post.append("x.Extra(\"divert%d\", d%d.S)" % (i, i))
                self.expect_extras["divert%d" % i] = "dummy"
                rexprs.append(nm)
            else:
                rexprs.append(arg("&r%d" % i))
        if self.clock:
            pre.append("rc := Clock(-1)")
            rexprs.append(arg("&rc"))
            post.append("x.Extra(\"clock\", int(rc))")
        if rexprs:
            opts.append("cff.Results(%s)" % ", ".join(rexprs))
        for t in self.tasks:
            tid = "t%d" % t["id"]
            params = []
            if t["wantctx"]:
                params.append("ctx context.Context")
            params += ["a%d T%d" % (i, ty) for i, ty in enumerate(t["ins"])]
            rets = ["T%d" % ty for ty in t["outs"]] + (["error"] if t["haserr"] else [])
            sig = "(%s)" % ", ".join(params)
            if len(rets) == 1:
                sig += " " + rets[0]
            elif rets:
                sig += " (%s)" % ", ".join(rets)

            def fnlit(callid):
                body = []
                if t["wantctx"]:
                    body.append("x.CheckCtx(\"%s\", ctx)" % tid)
                if free_local and t["id"] == self.tasks[0]["id"]:
                    # a free variable of the task literal named like an identifier the generated code declares
                    body.append("x.Extra(\"local\", %s)" % free_local)
                callargs = ", ".join(["\"%s\"" % callid, str(len(t["outs"]))] + ["a%d.S" % i for i in range(len(t["ins"]))])
                body.append("outs, err := x.Call(%s)" % callargs)
                body.append("_, _ = outs, err")
                retvals = ["T%d{S: outs[%d]}" % (ty, i) for i, ty in enumerate(t["outs"])]
                if t["haserr"]:
                    retvals.append("err")
                if retvals:
                    body.append("return " + ", ".join(retvals))
                return "func%s {\n\t\t\t%s\n\t\t}" % (sig, "\n\t\t\t".join(body))
            if free_local and t["id"] == self.tasks[0]["id"]:
                targs = [fnlit(tid)]     # the function literal itself is the argument (not wrapped, not named)
            else:
                targs = [bare(fnlit(tid), fnlit(tid + "late"), 0.3)]
            if t["pred"] is not None:
                pp = (["ctx context.Context"] if t["predctx"] else []) + ["b%d T%d" % (i, ty) for i, ty in enumerate(t["pred"])]

                def predlit(callid):
                    pbody = []
                    if t["predctx"]:
                        pbody.append("x.CheckCtx(\"q%d\", ctx)" % t["id"])
                    pbody.append("return x.Pred(%s)" % ", ".join(["\"%s\"" % callid] + ["b%d.S" % i for i in range(len(t["pred"]))]))
                    return "func(%s) bool {\n\t\t\t%s\n\t\t}" % (", ".join(pp), "\n\t\t\t".join(pbody))
                targs.append("cff.Predicate(%s)" % bare(predlit("q%d" % t["id"]), predlit("q%dlate" % t["id"]), 0.3))
            if t["fallback"]:
                targs.append("cff.FallbackWith(%s)" % ", ".join(
                    bare("T%d{S: \"fb%d.%d\"}" % (ty, t["id"], i), "T%d{S: \"late\"}" % ty, 0.5) for i, ty in enumerate(t["outs"])))
            if t["invoke"]:
                targs.append("cff.Invoke(true)")
            if t["instr"]:
                targs.append("cff.Instrument(%s)" % arg("\"%s\"" % tid))
            opts.append("cff.Task(\n\t\t\t%s,\n\t\t)" % ",\n\t\t\t".join(targs))
        if self.bare:
            # the last argument expression reassigns every variable an earlier argument named
            opts.append("cff.Concurrency(%s)" % arg("x.Mut(conc, func() {\n\t\t\t%s\n\t\t})" % "\n\t\t\t".join(muts or ["_ = conc"])))
        for d in pre:
            L.append("\t" + d.replace("\n\t\t", "\n\t"))
        L.append("\terr := cff.Flow(%s," % ctx_expr)
        for o in opts:
            L.append("\t\t%s," % o)
        L.append("\t)")
        for d in post:
            L.append("\t" + d)
        L.append("\treturn []string{%s}, err" % ", ".join("r%d.S" % i for i in range(len(self.results))))
        L.append("}")
        self.nargs = argn[0]
        return "\n".join(L) + "\n"

    def scenarios(self, r, quick=True):
        """List of (label, scenario dict)."""
        out = [("allok", {})]
        for t in self.tasks:
            if t["pred"] is not None:
                out.append(("predfalse", {"q%d" % t["id"]: "false"}))
                out.append(("predpanic", {"q%d" % t["id"]: r.choice(["panic", "panic", "panic-err", "panic-pe", "panic-str", "panic-rt"])}))
            out.append(("panic", {"t%d" % t["id"]: r.choice(["panic", "panic", "panic-err", "panic-pe", "panic-str", "panic-rt"])}))
            if r.random() < 0.3:
                out.append(("cancel", {"t%d" % t["id"]: "cancel"}))
            if t["haserr"]:
                out.append(("err", {"t%d" % t["id"]: r.choice(["err", "err", "err-ctx"])}))
        if not quick:
            for _ in range(4):
                sc = {}
                for t in self.tasks:
                    if r.random() < 0.3:
                        sc["t%d" % t["id"]] = r.choice(["panic", "panic-pe", "panic-rt", "cancel"] + (["err"] if t["haserr"] else []))
                    if t["pred"] is not None and r.random() < 0.3:
                        sc["q%d" % t["id"]] = r.choice(["false", "panic"])
                out.append(("multi", sc))
        return out


EXT_HELPERS = '''package gen

import (
	"fmt"

	ashape "example.com/vgen/gen/a/shape"
	bshape "example.com/vgen/gen/b/shape"
	clib "example.com/vgen/gen/c/v2"
)

func MkA() *ashape.T           { return &ashape.T{S: "a"} }
func UseA(v *ashape.T) string  { return "A:" + v.S }
func MkB() *bshape.T           { return &bshape.T{N: 7} }
func UseB(v *bshape.T) float64 { return float64(v.N) }
func MkC() *clib.T             { return &clib.T{B: true} }
func UseC(v *clib.T) bool      { return v.B }
func Show(v interface{}) string { return fmt.Sprint(v) }

// one type written in two ways
func Bytes() []byte           { return []byte("xy") }
func Sum(b []uint8) int32     { return int32(len(b)) }
func Name(r rune) string      { return fmt.Sprint(r) }
'''

EXT_FLOWS = '''//go:build cff

package gen

import (
	"go.uber.org/cff"
)

// two directives in one file, each needing a package the file does not import;
// the two packages have the same name
func ExtA(x *Exec, conc int) ([]string, error) {
	var out string
	err := cff.Flow(x.Ctx, cff.Params(MkA()), cff.Results(&out), cff.Task(UseA))
	return []string{out}, err
}

func ExtB(x *Exec, conc int) ([]string, error) {
	var out float64
	err := cff.Flow(x.Ctx, cff.Params(MkB()), cff.Results(&out), cff.Task(UseB))
	return []string{Show(out)}, err
}

// one type spelled in two ways by its provider and its consumer ([]byte / []uint8, int32 / rune)
func ExtD(x *Exec, conc int) ([]string, error) {
	var out string
	err := cff.Flow(x.Ctx, cff.Params(Bytes()), cff.Results(&out), cff.Task(Sum), cff.Task(Name))
	return []string{out}, err
}

// a package whose name (lib) is not the last element of its import path (.../c/v2)
func ExtC(x *Exec, conc int) ([]string, error) {
	var out bool
	err := cff.Flow(x.Ctx, cff.Params(MkC()), cff.Results(&out), cff.Task(UseC))
	return []string{Show(out)}, err
}
'''

VARIANTS = ["plain", "cffalias", "timealias", "generic", "ctxalias", "pkgvar"]


def render_package(flows, ntypes, variants=True):
    """The package: runtime, types, and the directives, several per file. With variants,
    the files differ in how they spell their surroundings: cff or context imported under
    another name, time imported under another name, directives inside generic functions or in
    the initialiser of a package-level variable."""
    files = {}
    files["rt.go"] = RT_GO
    files["errclass.go"] = ERRCLASS_GO.replace("errCanceled", "context.Canceled").replace('import (\n\t"errors"', 'import (\n\t"context"\n\t"errors"')
    files["types.go"] = "package gen\n\n" + "\n".join("type T%d struct{ S string }" % t for t in range(ntypes)) + "\n"
    per = 4
    for k in range(0, len(flows), per):
        var = VARIANTS[(k // per) % len(VARIANTS)] if variants else "plain"
        imports = ['\t"context"', "", '\t"go.uber.org/cff"']
        tail = ["var _ context.Context", ""]
        if var == "cffalias":
            imports = ['\t"context"', "", '\tcffx "go.uber.org/cff"']
        elif var == "timealias":
            imports = ['\t"context"', '\ttm "time"', "", '\t"go.uber.org/cff"']
            tail = ["var _ context.Context", "var _ = tm.Second", ""]
        elif var == "ctxalias":
            imports = ['\tctxpkg "context"', "", '\t"go.uber.org/cff"']
            tail = ["var _ ctxpkg.Context", ""]
        src = ["//go:build cff", "", "package gen", "", "import ("] + imports + [")", ""] + tail
        for fi, f in enumerate(flows[k:k + per]):
            txt = f.render()
            if var == "cffalias":
                txt = txt.replace("cff.", "cffx.")
            elif var == "ctxalias":
                txt = txt.replace("context.", "ctxpkg.")
            elif var == "generic":
                n = f.name()
                head = "func %s(x *Exec, conc int) ([]string, error) {" % n
                txt = txt.replace(head, "%s\n\treturn %sg[struct{}](x, conc)\n}\n\nfunc %sg[Z any](x *Exec, conc int) ([]string, error) {" % (head, n[0].lower() + n[1:], n[0].lower() + n[1:]), 1)
            elif var == "pkgvar" and ((k // per) // len(VARIANTS) % 2 == 0 or fi % 2 == 1):
                # the directive inside a function literal that initialises a package-level variable
                # (every flow of the file, or every other one next to ordinary functions)
                n = f.name()
                head = "func %s(x *Exec, conc int) ([]string, error) {" % n
                txt = txt.replace(head, "%s\n\treturn %sV(x, conc)\n}\n\nvar %sV = func(x *Exec, conc int) ([]string, error) {" % (head, n[0].lower() + n[1:], n[0].lower() + n[1:]), 1)
            src.append(txt)
        files["flows%02d.go" % (k // per)] = "\n".join(src)
    if variants:
        # types from packages the cff file does not import, with colliding package names
        files["a/shape/shape.go"] = "package shape\n\ntype T struct{ S string }\n"
        files["b/shape/shape.go"] = "package shape\n\ntype T struct{ N int }\n"
        files["c/v2/lib.go"] = "package lib\n\ntype T struct{ B bool }\n"
        files["exthelpers.go"] = EXT_HELPERS
        files["flowsext.go"] = EXT_FLOWS
    return files


def render_runner(flows, scen, concs):
    """main package: runs every (flow, scenario, concurrency); prints one JSON object per execution."""
    L = ['package main', '', 'import (', '\t"encoding/json"', '\t"fmt"', '\t"os"', '\t"runtime"', '\t"time"', '', '\t"example.com/vgen/gen"', ')', '',
         'type run struct {', '\tFlow string `json:"flow"`', '\tLabel string `json:"label"`', '\tConc int `json:"conc"`',
         '\tScenario map[string]string `json:"scenario"`', '\tSleeps map[string]int `json:"sleeps"`', '\tPrecancel bool `json:"precancel"`', '\tErr string `json:"err"`', '\tResults []string `json:"results"`',
         '\tCalls []string `json:"calls"`', '\tArgs []int `json:"args"`', '\tArgsBeforeStart bool `json:"args_before_start"`',
         '\tEvents []string `json:"events"`', '\tCtxBad []string `json:"ctx_bad"`', '\tMaxFlight int `json:"max_inflight"`', '\tGomaxprocs int `json:"gomaxprocs"`',
         '\tQuiesced bool `json:"quiesced"`', '\tLeaked int `json:"leaked"`', '\tExtras map[string]string `json:"extras"`', '\tStarts map[string]int64 `json:"starts"`', '\tEnds map[string]int64 `json:"ends"`', '}', '',
         'var fns = map[string]func(*gen.Exec, int) ([]string, error){']
    for f in flows:
        L.append('\t"%s": gen.%s,' % (f.name(), f.name()))
    L += ['}', '', 'func main() {', '\tenc := json.NewEncoder(os.Stdout)', '\tbase := runtime.NumGoroutine()', '\tleakSeen := false', '\tvar plan []run',
          '\tif err := json.NewDecoder(os.Stdin).Decode(&plan); err != nil {', '\t\tpanic(err)', '\t}',
          '\tfor _, p := range plan {', '\t\tfmt.Fprintf(os.Stderr, "RUN %s %s %d\\n", p.Flow, p.Label, p.Conc)',
          '\t\tx := gen.NewExec(p.Scenario, p.Sleeps)', '\t\tif p.Precancel {', '\t\t\tx.Cancel()', '\t\t}',
          '\t\toldProcs := 0', '\t\tif p.Gomaxprocs > 0 {', '\t\t\toldProcs = runtime.GOMAXPROCS(p.Gomaxprocs)', '\t\t}',
          '\t\tres, err := fns[p.Flow](x, p.Conc)',
          '\t\tif oldProcs > 0 {', '\t\t\truntime.GOMAXPROCS(oldProcs)', '\t\t}',
          '\t\tp.Quiesced = x.Quiesce()',
          '\t\tfor i := 0; i < 3000 && runtime.NumGoroutine() > base; i++ {', '\t\t\ttime.Sleep(500 * time.Microsecond)', '\t\t}',
          '\t\t// still above the baseline: a leak, or a slow machine - wait much longer before the first verdict',
          '\t\tfor i := 0; !leakSeen && i < 400 && runtime.NumGoroutine() > base; i++ {', '\t\t\ttime.Sleep(50 * time.Millisecond)', '\t\t}',
          '\t\tif runtime.NumGoroutine() > base {', '\t\t\tleakSeen = true', '\t\t}',
          '\t\tp.Leaked = runtime.NumGoroutine() - base', '\t\tbase = runtime.NumGoroutine()',
          '\t\tp.Err = gen.ErrClass(err)', '\t\tp.Results = res', '\t\tp.Calls = x.SortedCalls()',
          '\t\tvar argseq []int64',
          '\t\tp.Args, argseq, p.Events, p.CtxBad, p.Starts, p.Ends = x.Snapshot()',
          '\t\tp.ArgsBeforeStart = true', '\t\tfs := x.FirstStart()',
          '\t\tfor _, s := range argseq {', '\t\t\tif fs != 0 && s > fs {', '\t\t\t\tp.ArgsBeforeStart = false', '\t\t\t}', '\t\t}',
          '\t\tp.MaxFlight = int(x.MaxFlight)', '\t\tp.Extras = x.Extras',
          '\t\tenc.Encode(p)', '\t}', '}', '']
    return "\n".join(L)


def gen_flows(seed, n, rich=True):
    r = random.Random(seed)
    flows = []
    ntypes = 0
    while len(flows) < n:
        base = flowgen.gen_wellformed(r, max_tasks=6) if rich else flowgen.gen_wellformed(r, max_tasks=6, pred_prob=0.0, invoke_prob=0.0)
        wide = rich and len(flows) % 24 == 7
        if wide:
            # a wide flow without cff.Concurrency: ten independent tasks and a join (the default limit must hold)
            base = flowgen.Flow()
            base.params, base.results = [0], [11]
            base.tasks = [dict(ins=[0], outs=[k + 1], pred=None, invoke=False) for k in range(10)] + [dict(ins=list(range(1, 11)), outs=[11], pred=None, invoke=False)]
            base.ntypes = 12
        fanin = rich and len(flows) % 24 in (11, 19)
        if fanin:
            # a task that consumes several outputs of each of several providers (the Dependencies list then
            # names providers repeatedly: its order, de-duplicated or not, must be the same in every run)
            base = flowgen.Flow()
            base.params, base.results = [0], [8]
            base.tasks = [dict(ins=[0], outs=[1, 2], pred=None, invoke=False), dict(ins=[0], outs=[3, 4], pred=None, invoke=False),
                          dict(ins=[0], outs=[5], pred=None, invoke=False), dict(ins=[0], outs=[6, 7], pred=None, invoke=False),
                          dict(ins=[7, 1, 4, 2, 5, 3, 6], outs=[8], pred=None, invoke=False)]
            base.ntypes = 9
        gf = GenFlow(len(flows), base, r, rich=rich)
        if wide:
            gf.has_conc, gf.bare, gf.wide = False, False, True
        flows.append(gf)
        ntypes = max(ntypes, base.ntypes)
    return flows, ntypes + 1, r
