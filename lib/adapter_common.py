"""Tie of the root package's scheduler glue (scheduler.go: cff.NewScheduler,
adaptSchedulerEmitter, schedulerAdapter.Emit) to the reports of the scheduler model (C19).
The model's reports are the loop's tick actions (SchedModel ATick, compared exactly with the
hook's tick events by the trace replay); generated code and users see them only through the
adapter. harness/cmd/adapter runs schedulers made by cff.NewScheduler with a slow user
emitter and records the loop's hook events and the emitter's calls in one log per scheduler;
here every log must be of the shape the model's atomic tick action has:
  tick st ; begin st ; end st   with nothing of the loop in between,
nothing after Wait returned, every delivered State equal to the loop's and satisfying the
C19 invariants for the configured limit."""
import json

import common


def judge(rec):
    cfg, log = rec["cfg"], rec["log"]
    bad = []
    ticks = [e for e in log if e["k"] == "tick"]
    begins = [e for e in log if e["k"] == "begin"]
    if cfg["emitter"] == "nil":
        if begins:
            bad.append("a report was delivered although no emitter was given")
        return bad, len(ticks)
    i, n = 0, len(log)
    waitret = None
    while i < n:
        e = log[i]
        if e["k"] == "waitret":
            waitret = i
        if e["k"] == "tick":
            nxt = log[i + 1:i + 3]
            if [x["k"] for x in nxt] != ["begin", "end"] or any(x["st"] != e["st"] for x in nxt):
                bad.append("the loop's report %s was not delivered to the user's SchedulerEmitter synchronously inside the tick "
                           "(log after the tick: %s)" % (e["st"], [(x["k"], x.get("st")) for x in log[i + 1:i + 4]]))
            i += 3 if len(nxt) == 2 and [x["k"] for x in nxt] == ["begin", "end"] else 1
            continue
        if e["k"] in ("begin", "end"):
            bad.append("the user's SchedulerEmitter was called (%s %s) outside the loop's tick" % (e["k"], e["st"]))
        i += 1
    if waitret is not None and any(e["k"] in ("begin", "end", "tick") for e in log[waitret + 1:]):
        bad.append("a state report was delivered to the user's SchedulerEmitter after Wait had returned from normal completion")
    if rec["late"]:
        bad.append("%d scheduler events/reports appeared after Wait had returned (observed for 260 ms)" % rec["late"])
    if [b["st"] for b in begins] != [t["st"] for t in ticks]:
        bad.append("the States delivered to the user's emitter %s are not the loop's reports in order %s" % ([b["st"] for b in begins][:6], [t["st"] for t in ticks][:6]))
    for b in begins:
        p, r, w, idle, c = b["st"]
        x = p - r - w
        if min(b["st"]) < 0 or c != cfg["n"] or not (0 <= x <= c) or idle != c - x or p > cfg["jobs"] or w > sum(1 for d in cfg["deps"] if d >= 0):
            bad.append("delivered State %s violates the report invariants for Concurrency=%d, %d jobs" % (b["st"], cfg["n"], cfg["jobs"]))
    return bad, len(ticks)


def apply(chk):
    exe = common.go_build("adapter")
    count = 10 if chk.tier == "quick" else 64
    rc, out, err = common.run([exe, "-seed", str(chk.seed), "-count", str(count)], timeout=600)
    recs = [json.loads(l) for l in out.split("\n") if l.strip()]
    total_ticks = 0
    for rec in recs:
        bad, nt = judge(rec)
        total_ticks += nt
        chk.cov["evaluations"] += 1
        chk.distinct.add(("adapter", json.dumps(rec["cfg"], sort_keys=True)))
        if bad:
            chk.violate("cff.NewScheduler emitter adapter: " + bad[0],
                        {"oracle": "direct observation: loop hook events and user emitter calls in one log", "config": rec["cfg"],
                         "all": bad[:5], "log": rec["log"][:200], "harness": "adapter -seed %d -count %d (case %d)" % (chk.seed, count, rec["cfg"]["case"])})
            break
    chk.cov["adapter_tie"] = {"schedulers_via_cff_NewScheduler": len(recs), "reports_delivered": total_ticks,
                              "shape_required": "tick st; begin st; end st contiguous in the loop, none after Wait returned"}
    if recs and total_ticks == 0:
        chk.fail_no_input("no report at all reached the user's SchedulerEmitter through cff.NewScheduler in %d runs of >= 230 ms" % len(recs),
                          {"theorem": "correspondence of scheduler.go's emitter adapter with the model's tick action", "records": [r["cfg"] for r in recs[:3]]})
