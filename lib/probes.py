"""Named probe programs: small hand-written packages that exercise one specific known
finding (or a repaired defect). Each probe is generated, compiled and run by the real
cff from /repo; its verdict is 'ok' or a description of what fails."""
import os
import re

import common

TYPES = "package probe\n\ntype T0 struct{ S string }\ntype T1 struct{ S string }\n"

# F9 (C15): a user expression that mentions an enclosing `err` is evaluated inside the
# generated closure `func() (err error) {`, where `err` is the closure's nil result
F9 = '''//go:build cff

package probe

import (
	"context"
	"errors"
	"fmt"

	"go.uber.org/cff"
)

func describe(err error) T0 { return T0{S: fmt.Sprint(err)} }

// ErrCapture returns what the task received for describe(err); err is non-nil here.
func ErrCapture() (string, error) {
	err := errors.New("outer")
	_ = err
	var out T1
	ferr := cff.Flow(context.Background(),
		cff.Params(describe(err)),
		cff.Results(&out),
		cff.Task(func(a T0) T1 { return T1{S: a.S} }),
	)
	return out.S, ferr
}
'''

# F7 (C13): a local identifier named like a package the generated code refers to
F7 = '''//go:build cff

package probe

import (
	"context"

	"go.uber.org/cff"
)

// ShadowTime has a local variable called time.
func ShadowTime() (string, error) {
	time := T0{S: "noon"}
	var out T1
	ferr := cff.Flow(context.Background(),
		cff.Params(time),
		cff.Results(&out),
		cff.Task(func(a T0) T1 { return T1{S: a.S} }),
	)
	return out.S, ferr
}
'''

# F8 (C13): a directive nested in a task literal of another directive
F8 = '''//go:build cff

package probe

import (
	"context"

	"go.uber.org/cff"
)

// Nested runs a flow inside a task of a flow.
func Nested() (string, error) {
	var out T1
	ferr := cff.Flow(context.Background(),
		cff.Params(T0{S: "x"}),
		cff.Results(&out),
		cff.Task(func(a T0) (T1, error) {
			var inner T1
			err := cff.Flow(context.Background(),
				cff.Params(a),
				cff.Results(&inner),
				cff.Task(func(b T0) T1 { return T1{S: "inner:" + b.S} }),
			)
			return inner, err
		}),
	)
	return out.S, ferr
}
'''

# F10 (C20): modifier mode emits file-scope functions; a flow whose tasks use a type declared
# inside the enclosing function names that type at file scope
F10 = '''//go:build cff

package probe

import (
	"context"

	"go.uber.org/cff"
)

// LocalType is built only from Params, Results and plain Tasks.
func LocalType() (string, error) {
	type local struct{ S string }
	var out T1
	ferr := cff.Flow(context.Background(),
		cff.Params(T0{S: "x"}),
		cff.Results(&out),
		cff.Task(func(a T0) local { return local{S: a.S} }),
		cff.Task(func(l local) T1 { return T1{S: "local:" + l.S} }),
	)
	return out.S, ferr
}
'''

F12 = '''//go:build cff

package probe

import (
	"context"

	. "go.uber.org/cff"
)

// DotImport spells the directives through a dot-import of the cff package.
func DotImport() (string, error) {
	var out T1
	ferr := Flow(context.Background(),
		Params(T0{S: "x"}),
		Results(&out),
		Task(func(a T0) T1 { return T1{S: "dot:" + a.S} }),
	)
	return out.S, ferr
}
'''

F12B = '''//go:build cff

package probe

import (
	"context"

	"go.uber.org/cff"
	. "go.uber.org/cff"
)

// DotMixed has a qualified directive and one spelled through a dot-import in the same file.
func DotMixed() (string, error) {
	var mid, out T1
	if err := cff.Flow(context.Background(),
		cff.Params(T0{S: "x"}),
		cff.Results(&mid),
		cff.Task(func(a T0) T1 { return T1{S: "q:" + a.S} }),
	); err != nil {
		return "", err
	}
	ferr := Flow(context.Background(),
		Params(T0{S: mid.S}),
		Results(&out),
		Task(func(a T0) T1 { return T1{S: "dot:" + a.S} }),
	)
	return out.S, ferr
}
'''

F13 = '''//go:build cff

package probe

import (
	"context"

	"go.uber.org/cff"
)

// GenNamed lives in a hand-written source file whose name ends in _gen.go.
func GenNamed() (string, error) {
	var out T1
	ferr := cff.Flow(context.Background(),
		cff.Params(T0{S: "x"}),
		cff.Results(&out),
		cff.Task(func(a T0) T1 { return T1{S: "named:" + a.S} }),
	)
	return out.S, ferr
}
'''

MAIN = '''package main

import (
	"fmt"

	"example.com/vgen/probe"
)

func main() {
	defer func() {
		if r := recover(); r != nil {
			fmt.Printf("PANIC %%v\\n", r)
		}
	}()
	s, err := probe.%s()
	fmt.Printf("RESULT %%q %%v\\n", s, err)
}
'''

PROBES = {
    "F9": dict(src=F9, fn="ErrCapture", want='RESULT "outer" <nil>'),
    "F7": dict(src=F7, fn="ShadowTime", want='RESULT "noon" <nil>'),
    "F8": dict(src=F8, fn="Nested", want='RESULT "inner:x" <nil>'),
    "F10": dict(src=F10, fn="LocalType", want='RESULT "local:x" <nil>', cff_args=["-genmode", "modifier"]),
    "F10base": dict(src=F10, fn="LocalType", want='RESULT "local:x" <nil>'),
    # either outcome satisfies C13: processed correctly, or refused with a positioned diagnostic
    "F12": dict(src=F12, fn="DotImport", want='RESULT "dot:x" <nil>', reject_ok=True),
    "F13": dict(src=F13, fn="GenNamed", want='RESULT "named:x" <nil>', filename="id_gen.go"),
    "F12b": dict(src=F12B, fn="DotMixed", want='RESULT "dot:q:x" <nil>', reject_ok=True),
}


def run_probe(name):
    """Returns (verdict, detail): verdict 'ok' or a one-line description of the failure."""
    pr = PROBES[name]
    mod = common.make_gen_module("probe-" + name)
    d = os.path.join(mod, "probe")
    os.makedirs(d)
    open(os.path.join(d, "types.go"), "w").write(TYPES)
    open(os.path.join(d, pr.get("filename", "probe.go")), "w").write(pr["src"])
    os.makedirs(os.path.join(mod, "cmd"))
    open(os.path.join(mod, "cmd", "main.go"), "w").write(MAIN % pr["fn"])
    rc, out = common.run_cff(mod, "./probe", extra=pr.get("cff_args", []))
    if rc != 0 and pr.get("reject_ok") and "panic:" not in out and re.search(r"probe\.go:\d+:\d+: ", out):
        return "ok", ""
    if rc != 0:
        return "cff rejects or crashes on the program", out[-1500:]
    rc, o, e = common.run(["go", "build", "-o", os.path.join(mod, "probe.bin"), "./cmd"], cwd=mod, env=common.GOENV, check=False, timeout=600)
    if rc != 0:
        line = [l for l in (o + e).split("\n") if ".go:" in l]
        return "the generated code does not compile: " + (line[0].split(": ", 1)[-1] if line else "?"), (o + e)[-1500:]
    rc, o, e = common.run([os.path.join(mod, "probe.bin")], check=False, timeout=60)
    got = ([l for l in o.split("\n") if l.startswith("RESULT") or l.startswith("PANIC")] or [o.strip()[:100]])[0]
    if got != pr["want"]:
        return "the generated program prints %s, the program text means %s" % (got[:120], pr["want"]), o + e
    return "ok", ""
