"""Shared part of the scheduler properties (C01, C03, C05-C09, C12, C19): run the real
scheduler with hooks on generated configurations, replay every observed execution
through the Coq model (trace conformance), and evaluate the direct oracles of each
property on the raw observations (used to exhibit a concrete failing input)."""
import hashlib
import json
import os
import re
import time

import common
import sched_lin


def harness_hash():
    h = hashlib.sha1()
    for root, _, files in os.walk(os.path.join(common.HARNESS, "cmd", "schedrun")):
        for fn in sorted(files):
            h.update(open(os.path.join(root, fn), "rb").read())
    for fn in ("sched_lin.py", "sched_common.py"):
        h.update(open(os.path.join(common.VERIF, "lib", fn), "rb").read())
    for fn in ("SchedModel.v",):
        h.update(open(os.path.join(common.COQ, fn), "rb").read())
    h.update(open(os.path.join(common.MODEL, "driver.ml"), "rb").read())
    return h.hexdigest()[:12]


def code_is_gated():
    """Static fact from the source: is the dispatch arm guarded by ongoing < concurrency?"""
    src = open(os.path.join(common.REPO, "scheduler", "scheduler.go")).read()
    return re.search(r"ready\.Len\(\)\s*>\s*0\s*&&\s*ongoing\s*<\s*s\.concurrency", src) is not None


# ------------------------------------------------------------------ direct oracles

def transitive_deps(jobs):
    memo = {}

    def go(j):
        if j in memo:
            return memo[j]
        s = set()
        for d in jobs[j]["deps"]:
            s.add(d)
            s |= go(d)
        memo[j] = s
        return s
    return [go(j) for j in range(len(jobs))]


def oracles(rec):
    """Returns {property: [description, ...]} for one execution, from raw observations only."""
    out = {}

    def bad(p, msg):
        out.setdefault(p, []).append(msg)

    cfg = rec["cfg"]
    jobs = cfg["jobs"]
    n = len(jobs)
    N = cfg["neff"]
    ev = rec["events"]
    bs, be = rec.get("body_start") or [], rec.get("body_end") or []
    bs = [x or [] for x in bs] + [[]] * (n - len(bs))
    be = [x or [] for x in be] + [[]] * (n - len(be))
    if rec.get("caller_hung") and (rec.get("hang_stable") or rec.get("reran")):
        bad("C05", "Enqueue/Wait did not return within the watchdog time (goroutines stably blocked: %s)" % rec.get("hang_stable"))
        if cfg.get("straggler", -1) >= 0:
            bad("C09", "Wait did not return after its context was done while task %d was still running" % cfg["straggler"])
        return out
    if rec.get("deps_mutated", -1) >= 0:
        bad("C12", "the Dependencies slice the caller passed for job %d (deps %s) no longer holds the caller's values after Enqueue: the scheduler writes memory it does not own" % (
            rec["deps_mutated"], jobs[rec["deps_mutated"]]["deps"]))
    if rec.get("hang"):
        bad("C06", "%d scheduler goroutine(s) still alive long after the call returned and all tasks ended" % rec.get("leaked_goroutines", 0))
    werr = rec["wait_err"]
    ran = [len(bs[j]) > 0 for j in range(n)]
    ok_end = [ran[j] and jobs[j]["outcome"] == "ok" and len(be[j]) > 0 for j in range(n)]
    failed = [ran[j] and jobs[j]["outcome"] != "ok" for j in range(n)]
    # ---- C01
    for j in range(n):
        if len(bs[j]) > 1:
            bad("C01", "job %d executed %d times" % (j, len(bs[j])))
        if ran[j]:
            for d in jobs[j]["deps"]:
                if not ok_end[d]:
                    bad("C01", "job %d started although its dependency %d did not finish successfully" % (j, d))
                elif min(be[d]) > min(bs[j]):
                    bad("C01", "job %d started (seq %d) before its dependency %d ended (seq %d)" % (j, min(bs[j]), d, min(be[d])))
    # ---- C03
    if rec.get("max_inflight", 0) > N:
        bad("C03", "%d task bodies in flight at once with Concurrency %d" % (rec["max_inflight"], N))
    live = 0
    maxlive = 0
    for e in ev:
        if e["k"] == "WStart":
            live += 1
            maxlive = max(maxlive, live)
        elif e["k"] in ("WExit", "WDie"):
            live -= 1
    if cfg["n"] > 0 and N != cfg["n"]:
        bad("C03", "the scheduler was configured with Concurrency %d and runs with %d workers: the configured limit is not the capacity" % (cfg["n"], N))
    if cfg["n"] == 0 and N != max(cfg["gomaxprocs"], 4):
        bad("C03", "default concurrency is %d under GOMAXPROCS=%d, expected max(GOMAXPROCS,4)" % (N, cfg["gomaxprocs"]))
    nstart = len([e for e in ev if e["k"] == "WStart"])
    ndie = len([e for e in ev if e["k"] == "WDie"])
    if not rec.get("caller_hung") and any(e["k"] == "LFinished" for e in ev) and nstart != N + ndie:
        bad("C03", "%d workers were started for Concurrency %d and %d worker deaths: a worker that died was not replaced (capacity lost)" % (nstart, N, ndie))
    if maxlive > N + 1:
        bad("C03", "%d worker goroutines alive at once with Concurrency %d" % (maxlive, N))
    # ---- C07 / C08 / C09 (results)
    ret = [e for e in ev if e["k"] in ("CWaitRetCtx", "CWaitRetFin")]
    via_fin = bool(ret) and ret[0]["k"] == "CWaitRetFin"
    cancel_end = {}
    for e in ev:
        if e["k"] == "CancelEnd":
            cancel_end.setdefault(int(e["e"][1:]), e["seq"])
    tdeps = transitive_deps(jobs)
    if not ret:
        bad("C05", "Wait did not return")
    if ret and ret[0]["k"] == "CWaitRetCtx" and werr != ["C0"]:
        # Wait left through its context arm: what it returns is that context's error, nothing else
        for p in ("C07", "C09"):
            bad(p, "Wait returned %s after its context was done; the context's error is C0" % (werr or "nil"))
    for p in ("C07", "C08"):
        if p == "C07" and cfg["coe"]:
            continue
        if p == "C08" and not cfg["coe"]:
            continue
        if "I" in werr:
            bad(p, "the internal sentinel error leaked into the returned error")
        for x in werr:
            if x.startswith("?"):
                bad(p, "returned error is none of the task errors: %s" % x)
            if x.startswith("U") and not failed[int(x[1:])]:
                bad(p, "returned error names task %s which did not fail" % x[1:])
            if x.startswith("C") and int(x[1:]) not in cancel_end and not any(
                    e["k"] == "CancelBegin" and e["e"] == x for e in ev):
                bad(p, "returned a context error although context %s was never cancelled" % x[1:])
            if x == "X" and not any(ran[j] and jobs[j]["outcome"] == "exit" for j in range(n)):
                bad(p, "returned 'job exited unexpectedly' although no task exited")
        for j in range(n):
            if ran[j] and any(failed[d] for d in tdeps[j]):
                bad(p, "task %d was invoked although it transitively depends on a failed task" % j)
    if not cfg["coe"]:
        if via_fin and not werr:
            for j in range(n):
                if len(bs[j]) != 1 or jobs[j]["outcome"] != "ok":
                    bad("C07", "nil returned although task %d %s" % (j, "did not run exactly once" if len(bs[j]) != 1 else "failed"))
            # the context was not cancelled (before Wait read it)
            if 0 in cancel_end and ret and cancel_end[0] < [e for e in ev if e["k"] == "CWaitCalled"][0]["seq"]:
                bad("C07", "nil returned although the context was cancelled before Wait was called")
        if via_fin and len(werr) > 1:
            bad("C07", "fail-fast returned %d errors" % len(werr))
        if via_fin and any(failed) and not werr:
            bad("C07", "a task failed but nil was returned")
    else:
        if via_fin:
            users = sorted(x for x in werr if x.startswith("U") or x == "X")
            want = sorted(("U%d" % j if jobs[j]["outcome"] == "err" else "X") for j in range(n) if failed[j])
            if users != want:
                bad("C08", "returned task errors %s, but the failed tasks are %s" % (users, want))
            nctx = len([x for x in werr if x.startswith("C")])
            skipped_ctx = len([e for e in ev if e["k"] == "WSkip" and e.get("e", "").startswith("C")])
            # with no recorded failure at all, Wait falls back to its own context's error (scheduler.go,
            # "if err == nil { err = ctx.Err() }"): one context error of Wait's context without a skipped task
            wait_ctx_fallback = (not users and skipped_ctx == 0 and werr == ["C0"] and
                                 (0 in cancel_end or any(e["k"] == "CancelBegin" and e.get("e") == "C0" for e in ev)))
            if (users or nctx) and not wait_ctx_fallback:
                if nctx != skipped_ctx:
                    bad("C08", "%d context errors returned but %d tasks were skipped for their context" % (nctx, skipped_ctx))
            for j in range(n):
                if len(bs[j]) > 1:
                    bad("C08", "task %d ran %d times" % (j, len(bs[j])))
                if not ran[j] and all(ok_end[d] for d in tdeps[j]) and jobs[j]["ctx"] not in cancel_end and not any(
                        e["k"] == "CancelBegin" and int(e["e"][1:]) == jobs[j]["ctx"] for e in ev):
                    bad("C08", "task %d was not run although all its dependencies succeeded and its context is live" % j)
    # ---- C09
    got_seq = {}
    for e in ev:
        if e["k"] == "WGot":
            got_seq.setdefault(e["j"], e["seq"])
    for e in ev:
        if e["k"] == "WRun":
            c = jobs[e["j"]]["ctx"] if e["j"] < n else 0
            if c in cancel_end and got_seq.get(e["j"], 0) > cancel_end[c]:
                bad("C09", "task %d was started although its context %d was done before the worker even received it" % (e["j"], c))
    if ret and 0 in cancel_end and via_fin and not werr:
        called = [e for e in ev if e["k"] == "CWaitCalled"]
        if called and cancel_end[0] < called[0]["seq"]:
            bad("C09", "nil returned although the context was done before Wait was called")
    # ---- C19
    sent = 0
    sent_with_deps = 0
    after_ret = False
    for e in ev:
        if e["k"] == "CEnqSend":
            sent += 1
            if 0 <= e["j"] < n and jobs[e["j"]]["deps"]:
                sent_with_deps += 1
        elif e["k"] == "CWaitRetFin":
            after_ret = True
        elif e["k"] == "LTick":
            p, r, w, idle, conc = e["st"][:5]
            x = p - r - w
            if min(p, r, w, idle, conc) < 0:
                bad("C19", "negative count in state report %s" % e["st"][:5])
            if not (0 <= x <= conc):
                bad("C19", "state report %s: executing = Pending-Ready-Waiting = %d not within 0..Concurrency" % (e["st"][:5], x))
            elif idle != conc - x:
                bad("C19", "state report %s: IdleWorkers != Concurrency - executing (%d)" % (e["st"][:5], x))
            if conc != N:
                bad("C19", "state report %s: Concurrency is not the configured limit %d" % (e["st"][:5], N))
            if p > sent:
                bad("C19", "state report %s: Pending exceeds the %d jobs submitted so far" % (e["st"][:5], sent))
            if w > sent_with_deps:
                bad("C19", "state report %s: Waiting exceeds the %d submitted jobs that have dependencies" % (e["st"][:5], sent_with_deps))
            if after_ret:
                bad("C19", "state report emitted after Wait returned from normal completion")
    return out


# ------------------------------------------------------------------ run + replay

def strip_ticks(lines):
    return [l for l in lines if not l.startswith("ACT LT")]


@common.serialised("sched")
def observe(seed, tier, extra_args=()):
    """Run (or fetch from the per-tree cache) the executions for this tier; returns the
    analysed summary: per-execution verdicts of the two replays and the oracle hits."""
    gated = code_is_gated()
    key = "sched-%s-%s-%d-%s-%s" % (common.repo_tree_hash(), harness_hash(), seed, tier, "g" if gated else "u")
    os.makedirs(common.CACHE, exist_ok=True)
    cpath = os.path.join(common.CACHE, key + ".json")
    if os.path.exists(cpath) and not extra_args:
        return json.load(open(cpath))
    t0 = time.time()
    exe = common.go_build("schedrun")
    if tier == "quick":
        plans = [["-count", "600", "-maxjobs", "24", "-backlog", "1100", "-fanin", "70000", "-lateenq", "6500", "-manyfail", "48"], ["-count", "150", "-maxjobs", "24"]]
    else:
        plans = [["-count", "12000", "-maxjobs", "24", "-backlog", "1100", "-fanin", "140000", "-lateenq", "12000", "-manyfail", "300"], ["-count", "3000", "-maxjobs", "80"], ["-count", "300", "-maxjobs", "400", "-backlog", "5000"]]
    summary = {"executions": 0, "events": 0, "replay_full_ok": 0, "replay_core_ok": 0, "final": 0,
               "mismatch_full": [], "mismatch_core": [], "oracle_hits": {}, "hangs": 0, "gated": gated,
               "distribution": {"n": {}, "coe": {}, "shape": {}, "ret": {}, "faults": {}, "jobs_hist": {}},
               "samples": [], "builder_problems": [], "distinct": 0}
    distinct = set()
    for pi, plan in enumerate(plans):
        # the harness module says go 1.19, i.e. the old, buffered timer channels; the second plan runs under
        # the timer semantics a main module of go >= 1.23 gets (a pending tick is always deliverable)
        runenv = dict(os.environ)
        if pi == 1:
            runenv["GODEBUG"] = "asynctimerchan=0"
        rc, out, err = common.run([exe, "-seed", str(seed * 1000 + pi)] + plan + list(extra_args), timeout=6000, env=runenv)
        recs = [json.loads(l) for l in out.split("\n") if l.strip()]
        # the harness stops after an execution that left goroutines behind (they would disturb the next
        # ones); the remaining cases are run in fresh processes so that other failures are still looked for
        restarts = 0
        while restarts < (5 if tier == "quick" else 20):     # bounded: on a tree that gets stuck often the check must still end in minutes
            m = re.search(r"stopping after case (\d+)", err or "")
            if not m or int(m.group(1)) + 1 >= int(plan[1]):
                break
            restarts += 1
            rc, out, err = common.run([exe, "-seed", str(seed * 1000 + pi)] + plan + list(extra_args) + ["-from", str(int(m.group(1)) + 1)], timeout=6000, env=runenv)
            recs += [json.loads(l) for l in out.split("\n") if l.strip()]
        if restarts:
            summary["restarts_after_stuck_execution"] = summary.get("restarts_after_stuck_execution", 0) + restarts
        # the scripted wide fan-in (no hooks, judged directly): the job runs once, after all of its dependencies
        for fr in [r for r in recs if r.get("kind") == "fanin"]:
            summary["fanin"] = {k: fr[k] for k in ("deps", "j_runs", "deps_done_at_first_start", "wait_returned")}
            what = None
            if fr["j_runs"] != 1:
                what = "a job depending on %d unfinished jobs ran %d times" % (fr["deps"], fr["j_runs"])
            elif fr["deps_done_at_first_start"] != fr["deps"]:
                what = "a job depending on %d unfinished jobs started when only %d of them had finished" % (fr["deps"], fr["deps_done_at_first_start"])
            if what:
                summary["oracle_hits"].setdefault("C01", []).append({"what": what, "all": [what], "case": -1, "plan": plan, "seed": seed * 1000 + pi,
                                                                     "cfg": {"scripted": "fanin", "deps": fr["deps"], "n": 4}, "wait_err": fr["wait_err"], "events": []})
            if not fr["wait_returned"]:
                summary["oracle_hits"].setdefault("C05", []).append({"what": "Wait did not return within 30 s after a job depending on %d jobs was submitted" % fr["deps"], "all": [], "case": -1, "plan": plan,
                                                                     "seed": seed * 1000 + pi, "cfg": {"scripted": "fanin", "deps": fr["deps"], "n": 4}, "wait_err": [], "events": []})
        recs = [r for r in recs if r.get("kind") != "fanin"]
        # a watchdog expiry without a stable all-blocked dump is slowness (machine under load), not a
        # hang: decide such an execution again with a much longer watchdog
        for k, r in enumerate(recs):
            if (r.get("caller_hung") or r.get("hang")) and not r.get("hang_stable") and summary.get("slow_reruns", 0) >= (2 if tier == "quick" else 10):
                # enough executions have been decided again with the long watchdog; the others stay undecided
                r["caller_hung"], r["hang"], r["undecided"] = False, "", True
                summary["undecided_slow"] = summary.get("undecided_slow", 0) + 1
                continue
            if (r.get("caller_hung") or r.get("hang")) and not r.get("hang_stable"):
                # (the second case: goroutines still alive 3 s after the call returned - also decided again, with 30 s)
                rc2, out2, err2 = common.run([exe, "-seed", str(seed * 1000 + pi)] + plan + list(extra_args) +
                                             ["-only", str(r["cfg"]["case"])] + (["-hang-after", "30s", "-quiesce", "15s"] if tier == "quick" else ["-hang-after", "60s", "-quiesce", "30s"]),
                                             timeout=600, check=False, env=runenv)
                again = [json.loads(l) for l in out2.split("\n") if l.strip()]
                summary["slow_reruns"] = summary.get("slow_reruns", 0) + 1
                if again:
                    recs[k] = again[0]
                    recs[k]["reran"] = True
        lines_full, idx = [], []
        for r in recs:
            if r.get("undecided"):
                continue
            summary["executions"] += 1
            summary["events"] += len(r["events"])
            cfg = r["cfg"]
            d = summary["distribution"]
            for k, v in (("n", cfg["neff"]), ("coe", cfg["coe"]), ("shape", cfg["shape"]),
                         ("ret", ",".join(sorted(set(x[0] for x in r["wait_err"]))) or "nil"),
                         ("jobs_hist", min(len(cfg["jobs"]) // 8 * 8, 400))):
                d[k][str(v)] = d[k].get(str(v), 0) + 1
            nf = sum(1 for j in cfg["jobs"] if j["outcome"] != "ok" or j["cancel"] >= 0)
            d["faults"][str(min(nf, 5))] = d["faults"].get(str(min(nf, 5)), 0) + 1
            distinct.add(json.dumps([cfg["jobs"], cfg["neff"], cfg["coe"]], sort_keys=True))
            for p, msgs in oracles(r).items():
                hits = summary["oracle_hits"].setdefault(p, [])
                if len(hits) < 5:
                    hits.append({"what": msgs[0], "all": msgs[:5], "case": cfg["case"], "plan": plan,
                                 "seed": seed * 1000 + pi, "cfg": cfg, "wait_err": r["wait_err"],
                                 "events": r["events"][:400]})
            if r.get("hang"):
                summary["hangs"] += 1
            if r.get("caller_hung"):
                L = sched_lin.Lin(r, gated=True)
                ls = L.build(partial=True)
                v = common.model_run("sched-replay", strip_ticks(ls))
                verdict = v[0] if v else ""
                m = re.search(r"ready=\[([0-9,]*)\].*workers=\[([^\]]*)\]", verdict)
                if verdict.startswith("OK") and m and m.group(1) and "idle" in m.group(2) and "lp=run" in verdict:
                    hits = summary["oracle_hits"].setdefault("C03", [])
                    hits.append({"what": "the scheduler is stably blocked although a job is ready and a worker is idle (capacity lost): model state %s" % verdict[:300],
                                 "all": [verdict[:600]], "case": cfg["case"], "plan": plan, "seed": seed * 1000 + pi,
                                 "cfg": cfg, "wait_err": [], "events": r["events"][:400]})
                summary.setdefault("hang_model_states", []).append(verdict[:400])
                continue
            L = sched_lin.Lin(r, gated=True)
            ls = L.build()
            if L.problems and len(summary["builder_problems"]) < 5:
                summary["builder_problems"].append({"case": cfg["case"], "problems": L.problems})
            lines_full.append(ls)
            idx.append(r)
        full = common.model_run("sched-replay", [l for ls in lines_full for l in ls])
        core = common.model_run("sched-replay", [l for ls in lines_full for l in strip_ticks(ls)])
        # an execution the gated model refuses may still be one of the model without the dispatch gate:
        # then the code dispatched a job while `ongoing` had reached Concurrency (decided by behaviour,
        # not by the spelling of the condition in the source)
        redo = [k for k, vc in enumerate(core) if not vc.startswith("OK")]
        if redo:
            def ungate(ls):
                return [re.sub(r"^(CFG \d+ \d+) 1 ", r"\1 0 ", ls[0])] + ls[1:]
            un_core = common.model_run("sched-replay", [l for k in redo for l in strip_ticks(ungate(lines_full[k]))])
            un_full = common.model_run("sched-replay", [l for k in redo for l in ungate(lines_full[k])])
            for k, uc, uf in zip(redo, un_core, un_full):
                if uc.startswith("OK"):
                    r = idx[k]
                    summary["overdispatch"] = summary.get("overdispatch", 0) + 1
                    for p in ("C06", "C19"):
                        hits = summary["oracle_hits"].setdefault(p, [])
                        if len(hits) < 5:
                            hits.append({"what": "the loop dispatched a job although `ongoing` had already reached Concurrency: the execution is one of the model without the dispatch gate only "
                                                 "(gated model: %s); more results can then be outstanding than donec holds, and workers block forever after a fail-fast exit (C06_refuted_ungated); "
                                                 "reports count more executing jobs than workers (C19_refuted_ungated)" % core[k][:120],
                                         "all": [core[k][:400]], "case": r["cfg"]["case"], "plan": plan, "seed": seed * 1000 + pi, "cfg": r["cfg"],
                                         "wait_err": r["wait_err"], "events": r["events"][:400]})
                    # the theorems of the other properties hold with or without the gate: judge them on the ungated replay
                    core[k] = uc
                    if uf.startswith("OK"):
                        full[k] = uf
        redo_set = set(redo)
        for kk, (r, ls, vf, vc) in enumerate(zip(idx, lines_full, full, core)):
            if vf.startswith("OK"):
                summary["replay_full_ok"] += 1
                if "final=true" in vf:
                    summary["final"] += 1
            elif len(summary["mismatch_full"]) < 5:
                summary["mismatch_full"].append({"verdict": vf[:800], "case": r["cfg"]["case"], "plan": plan,
                                                 "seed": seed * 1000 + pi, "cfg": r["cfg"], "trace": ls[:600]})
            if vc.startswith("OK") and "final=false" in vc and not r.get("hang"):
                vc = "NONFINAL the execution ended, but in the model not every worker has exited / the loop has not finished: " + vc
            if vc.startswith("OK"):
                summary["replay_core_ok"] += 1
            elif len(summary["mismatch_core"]) < 5:
                summary["mismatch_core"].append({"verdict": vc[:800], "case": r["cfg"]["case"], "plan": plan,
                                                 "seed": seed * 1000 + pi, "cfg": r["cfg"], "trace": strip_ticks(ls)[:600]})
            if kk not in redo_set and vf.startswith("OK") and 30 <= len(ls) <= 160 and len(summary.setdefault("coq_traces", [])) < (4 if tier == "quick" else 25):
                summary["coq_traces"].append({"script": ls, "verdict": vf})
            if len(summary["samples"]) < 2 and len(r["cfg"]["jobs"]) >= 3:
                summary["samples"].append({"cfg": {k: r["cfg"][k] for k in ("n", "coe", "shape", "jobs")},
                                           "wait_err": r["wait_err"], "replay_script_head": ls[:40], "verdict": vf})
        summary.setdefault("n_replayed", 0)
        summary["n_replayed"] += len(idx)
    summary["distinct"] = len(distinct)
    summary["wall_s"] = round(time.time() - t0, 1)
    if not extra_args:
        with open(cpath, "w") as f:
            json.dump(summary, f)
    return summary


def apply(chk, pid, which="core"):
    """Common verdict logic of a scheduler property: oracle hits for this property are
    concrete violations; a broken trace correspondence without one is reported as
    no-failing-input-found."""
    s = observe(chk.seed, chk.tier)
    chk.cov["evaluations"] += s["executions"]
    chk.cov["traces_validated_against_impl"] = s["n_replayed"]
    chk.cov["correspondence"] = {
        "kind": "trace conformance: every observed execution of the real scheduler (hooks on) is linearised and replayed through the extracted Coq [step]; every action must be enabled and produce exactly the observed events",
        "executions": s["executions"], "hook_events": s["events"],
        "replayed_ok_full": s["replay_full_ok"], "replayed_ok_without_ticks": s["replay_core_ok"],
        "ended_in_model_final_state": s["final"], "dispatch_gate_in_source": s["gated"],
        "input_distribution": s["distribution"],
    }
    for smp in s["samples"]:
        chk.sample(smp)
    for i in range(s["distinct"]):
        chk.distinct.add(("exec", i))
    chk.cov["rule"] = ("executions: seeded random configurations (DAG shape in {random, chain, independent, fan-in, layers, duplicate deps}, "
                       "N in 1..16/default, both error modes, emitter on/off, job outcomes ok/error/Goexit/cancel, pre-/external/in-job cancellation, "
                       "enqueue pacing incl. waiting for a dependency's result, schedule perturbation at hook points); distinct = different "
                       "(job list, N, mode); all are non-trivial except the empty program")
    hits = s["oracle_hits"].get(pid, [])
    for h in hits[:1]:
        chk.violate(h["what"], {"oracle": "direct observation on the real scheduler", "config": h["cfg"],
                                "wait_err": h["wait_err"], "all": h["all"], "observed_events": h["events"],
                                "harness": "schedrun -seed %d %s -only %d" % (h["seed"], " ".join(h["plan"]), h["case"])})
    mm = s["mismatch_full"] if which == "full" else s["mismatch_core"]
    if mm and not hits:
        m = mm[0]
        chk.fail_no_input("the real scheduler produced an execution that is not an execution of the Coq model (%s)" % m["verdict"][:200],
                          {"theorem": "trace correspondence SchedModel.step ~ scheduler/scheduler.go (%s replay)" % which,
                           "config": m["cfg"], "model_verdict": m["verdict"], "replay_script": m["trace"],
                           "harness": "schedrun -seed %d %s -only %d" % (m["seed"], " ".join(m["plan"]), m["case"])})
    if s["builder_problems"] and not hits and not mm:
        chk.fail_no_input("observed events could not be linearised: %s" % s["builder_problems"][0]["problems"][:2],
                          {"theorem": "trace correspondence (linearisation)", "detail": s["builder_problems"][:3]})
    return s


ASSUMPTIONS = {
    "*": [
        "Go runtime modelled, not verified: channel semantics (enqueuec cap 1, readyc unbuffered = one action, donec cap N received in any order), select picks any ready arm, goroutine fairness",
        "context = monotone cancelled flag; the worker's ctx.Err()+run is one atomic model action (a cancel between the test and the first instruction of the job is not represented)",
        "a worker that dies by Goexit and its replacement are one slot of the model (the transient N+1-th goroutine is not represented)",
        "errors are atoms: a user error that is itself a multierr aggregate is not modelled",
    ],
    "C19": ["every emitted State is compared with the model's counters at that point of the loop replay (exact, not sampled)"],
    "C03": ["default limit checked by observing Config{}.New() under GOMAXPROCS in {1,2,4,16}"],
}
