"""c13 — output well-formedness: theorems on splicing and import names; the generated
corpus through the real cff in three modes, type-checked; alias differential; probes F7, F8."""
import alias_common
import corpus_common
import gen_common
import gen_modes
import probes

DEP_FILES = ["BuildTagModel.v", "BuildTagProofs.v", "DirectiveLeftProofs.v", "RecogniseModel.v", "RecogniseProofs.v", "AliasModel.v", "AliasProofs.v", "ScopeModel.v", "ScopeProofs.v"]
PID = "C13"


def run(chk):
    chk.recheck_proofs()
    alias_common.apply(chk, 300 if chk.tier == "quick" else 40000)
    gen_common.apply(chk, PID)
    gen_modes.apply(chk, PID)
    corpus_common.apply(chk, PID)
    for name, title in (("F7", "ShadowTime (a local variable named time)"), ("F8", "Nested (a directive inside a task literal of another directive)"),
                        ("F12", "DotImport (directives spelled through a dot-import of cff)"),
                        ("F12b", "DotMixed (a qualified directive and a dot-imported one in one file)"),
                        ("F13", "GenNamed (a hand-written source file whose name ends in _gen.go)")):
        verdict, detail = probes.run_probe(name)
        chk.count(1, key=("probe", name))
        chk.cov["correspondence"]["probe_" + name] = verdict
        if verdict != "ok":
            chk.violate("probe %s: %s" % (title, verdict), {"probe": name, "source": probes.PROBES[name]["src"], "detail": detail})
    chk.assumptions += gen_common.ASSUMPTIONS + ["type-checking of the output and absence of tool panics are observed on the generated corpus and probes, not proved"]
