"""The repository's own corpus of directives (internal/tests: ~100 source files written by the
maintainers) pushed through the cff built from the current tree: regenerated in base mode
twice and in source-map mode, type-checked without the cff tag, scanned for surviving
directive calls, compared byte for byte across runs and token for token across modes.
In the thorough tier the repository's tests are run on the freshly generated code."""
import json
import os
import re
import shutil
import time

import common
import gen_modes


def is_gen(fn):
    return fn.endswith("_gen.go") or fn.endswith("_gen_test.go")


def gen_files(root):
    out = {}
    for d, _, fs in os.walk(root):
        for fn in fs:
            if is_gen(fn):
                p = os.path.join(d, fn)
                out[os.path.relpath(p, root)] = open(p, "rb").read()
    return out


def remove_gen(root):
    for d, _, fs in os.walk(root):
        for fn in fs:
            if is_gen(fn):
                os.remove(os.path.join(d, fn))


@common.serialised("corpus")
def observe(seed, tier):
    key = "corpus-%s-%s-%s" % (common.repo_tree_hash(), gen_modes._hash_sources(), tier)
    cpath = os.path.join(common.CACHE, key + ".json")
    os.makedirs(common.CACHE, exist_ok=True)
    if os.path.exists(cpath):
        return json.load(open(cpath))
    t0 = time.time()
    S = {"hits": {}, "counts": {}}

    def hit(p, what, payload):
        lst = S["hits"].setdefault(p, [])
        if len(lst) < 3:
            lst.append({"what": what, "payload": payload})

    def count(k, n=1):
        S["counts"][k] = S["counts"].get(k, 0) + n
    root = os.path.join(common.CACHE, "gen", "corpus")
    if os.path.exists(root):
        shutil.rmtree(root)
    shutil.copytree(os.path.join(common.REPO, "internal", "tests"), root)
    gm = os.path.join(root, "go.mod")
    txt = open(gm).read().replace("=> ../../", "=> " + common.REPO)
    open(gm, "w").write(txt)
    checked_in = gen_files(root)
    # the modifier sub-tree is generated in modifier mode by its own go:generate line
    shutil.rmtree(os.path.join(root, "modifier"), ignore_errors=True)
    remove_gen(root)
    rc, out = common.run_cff(root, "./...")
    count("cff_runs")
    if rc != 0 or "panic:" in out or "goroutine " in out:
        hit("C13", "cff fails on the repository's own corpus internal/tests (exit %d): %s" % (rc, out.strip().split("\n")[-1][:200]), {"output": out[-3000:]})
        S["wall_s"] = round(time.time() - t0, 1)
        json.dump(S, open(cpath, "w"))
        return S
    base = gen_files(root)
    count("files", len(base))
    S["regenerated_equals_checked_in"] = sum(1 for k, v in base.items() if checked_in.get(k) == v)
    for fn, txt in base.items():
        if re.search(rb"\bcff\.(Flow|Parallel)\(", txt):
            hit("C13", "internal/tests/%s: regenerated output still contains a directive call" % fn, {"file": fn})
    rcv, o, e = common.run("go build ./... && go test -vet=off -count=1 -run '^$' ./...", cwd=root, env=common.GOENV, check=False, timeout=1800)
    count("packages_type_checked", len(set(os.path.dirname(k) for k in base)))
    if rcv != 0 and re.search(r"\.go:\d+:\d+: ", o + e):
        errs = [l for l in (o + e).split("\n") if re.search(r"_gen(_test)?\.go:\d+", l)]
        if errs:
            hit("C13", "internal/tests regenerated with the current cff does not type-check without the cff tag: %s" % errs[0][:220], {"output": (o + e)[-3000:]})
    # determinism: a second process
    remove_gen(root)
    common.run_cff(root, "./...")
    count("cff_runs")
    again = gen_files(root)
    for fn in base:
        count("byte_comparisons")
        if again.get(fn) != base[fn]:
            hit("C17", "internal/tests/%s: a second run of cff wrote different bytes" % fn, {"file": fn, "first": base[fn].decode(errors="replace")[:2000], "again": (again.get(fn) or b"").decode(errors="replace")[:2000]})
    # source-map mode: same code
    gonorm = common.go_build("gonorm", tags="verif")
    base_dir = os.path.join(common.CACHE, "gen", "corpus-base")
    if os.path.exists(base_dir):
        shutil.rmtree(base_dir)
    for fn, txt in base.items():
        p = os.path.join(base_dir, fn)
        os.makedirs(os.path.dirname(p), exist_ok=True)
        open(p, "wb").write(txt)
    remove_gen(root)
    rc, out = common.run_cff(root, "./...", extra=["-genmode", "source-map"])
    count("cff_runs")
    if rc != 0:
        hit("C20", "source-map mode fails on internal/tests, which base mode accepts (exit %d)" % rc, {"output": out[-2000:]})
        hit("C13", "cff -genmode source-map fails on internal/tests (exit %d): %s" % (rc, out.strip().split("\n")[-1][:200]), {"output": out[-2000:]})
    else:
        smap = gen_files(root)
        names = sorted(base)
        tb = gen_modes.tokens(gonorm, [os.path.join(base_dir, n) for n in names])
        ts = gen_modes.tokens(gonorm, [os.path.join(root, n) for n in names])
        for n in names:
            count("token_stream_comparisons")
            a, b = tb.get(os.path.join(base_dir, n)), ts.get(os.path.join(root, n))
            if b"CFF_MAGIC_TOKEN" in smap.get(n, b""):
                hit("C17", "internal/tests/%s: source-map output still contains the magic token" % n, {"file": n})
            if a != b:
                k = next((i for i, (x, y) in enumerate(zip(a or [], b or [])) if x != y), min(len(a or []), len(b or [])))
                hit("C20", "internal/tests/%s: source-map output differs from base output beyond comments and line directives at token %d: base %s, source-map %s" % (
                    n, k, (a or [])[k:k + 4], (b or [])[k:k + 4]), {"file": n})
        rcv, o, e = common.run("go build ./... && go test -vet=off -count=1 -run '^$' ./...", cwd=root, env=common.GOENV, check=False, timeout=1800)
        errs = [l for l in (o + e).split("\n") if re.search(r"_gen(_test)?\.go:\d+", l)]
        if rcv != 0 and errs:
            hit("C13", "internal/tests regenerated in source-map mode does not type-check: %s" % errs[0][:220], {"output": (o + e)[-3000:]})
    if tier != "quick":
        # the maintainers' tests on freshly generated base-mode code
        remove_gen(root)
        common.run_cff(root, "./...")
        rc, o, e = common.run("go test -vet=off -count=1 ./... 2>&1", cwd=root, env=common.GOENV, check=False, timeout=3000)
        fails = sorted(set(re.findall(r"^\s*--- FAIL: (\S+)", o, re.M)) - {"TestPanicRecovered"})
        count("repository_tests_on_regenerated_code", len(re.findall(r"^ok\s", o, re.M)))
        if fails or re.search(r"\[build failed\]", o):
            hit("C13", "the repository's own tests fail on code regenerated by the current cff: %s" % (fails[:5] or "build failed"), {"output": o[-4000:]})
    S["wall_s"] = round(time.time() - t0, 1)
    with open(cpath, "w") as fh:
        json.dump(S, fh)
    return S


def apply(chk, pid):
    s = observe(chk.seed, chk.tier)
    n = sum(s["counts"].values())
    chk.cov["evaluations"] += n
    for k, v in s["counts"].items():
        for i in range(v):
            chk.distinct.add(("corpus", k, i))
    chk.cov.setdefault("correspondence", {})["repository_corpus"] = {
        "kind": "internal/tests regenerated by the cff built from the current tree: base x2, source-map; go vet without the tag; byte and token-stream comparison" + ("" if chk.tier == "quick" else "; the repository's tests on the regenerated code"),
        "counts": s["counts"], "regenerated_files_equal_to_checked_in": s.get("regenerated_equals_checked_in"), "wall_s": s.get("wall_s")}
    for h in s["hits"].get(pid, [])[:1]:
        chk.violate(h["what"], h["payload"])
    return s
