#!/usr/bin/env python3
"""Confirms seeded changes: for each /verif/seeded/<id>/<k> — in a scratch worktree
of /repo under /tmp — the demonstration passes on the unchanged tree, the change applies and
builds, the repository's test suite still passes with it (only the baseline failure
TestPanicRecovered allowed), and the demonstration fails with it. Writes results to
/verif/seeded/_verify.json. Worktrees are removed afterwards."""
import concurrent.futures
import json
import os
import re
import subprocess
import sys

ENV = dict(os.environ, GOFLAGS="-mod=mod", GOPROXY="off", GOSUMDB="off", GOTOOLCHAIN="local")
INC = "/verif/seeded"


def sh(cmd, cwd=None, timeout=3000):
    p = subprocess.run(cmd, shell=True, cwd=cwd, env=ENV, stdout=subprocess.PIPE, stderr=subprocess.STDOUT, text=True, timeout=timeout)
    return p.returncode, p.stdout


def verify(seed):
    pid, k = seed
    d = os.path.join(INC, pid, k)
    wt = "/tmp/sw-%s-%s" % (pid, k)
    res = {"id": pid, "k": k}
    try:
        rc, out = sh("bash %s/run.sh %s" % (d, wt), timeout=1800)
        res["demo_clean_rc"] = rc
        res["demo_clean_tail"] = out[-400:]
        rc, out = sh("git apply %s/patch.diff" % d, cwd=wt)
        res["apply_rc"] = rc
        if rc != 0:
            res["apply_out"] = out[-500:]
            return res
        rc, out = sh("go build ./... && (cd internal/tests && go build ./...)", cwd=wt)
        res["build_rc"] = rc
        fails = set()
        for m in (".", "internal/tests"):
            rc, out = sh("go test -vet=off -count=1 -timeout 25m ./... 2>&1", cwd=os.path.join(wt, m), timeout=2400)
            for mm in re.finditer(r"^\s*--- FAIL: (\S+)", out, re.M):
                fails.add(mm.group(1))
            for mm in re.finditer(r"^FAIL\s+(\S+)\s+\[build failed\]", out, re.M):
                fails.add("BUILD:" + mm.group(1))
            if "panic: test timed out" in out:
                fails.add("TIMEOUT:" + m)
        res["suite_failures"] = sorted(fails)
        rc, out = sh("bash %s/run.sh %s" % (d, wt), timeout=1800)
        res["demo_changed_rc"] = rc
        res["demo_changed_tail"] = out[-600:]
    except Exception as e:
        res["error"] = repr(e)
    return res


def main():
    seeds = []
    only_k = os.environ.get("SEED_K")
    for pid in sorted(os.listdir(INC)):
        if not re.match(r"C\d\d$", pid):
            continue
        for k in sorted(os.listdir(os.path.join(INC, pid))):
            want = not sys.argv[1:] or pid in sys.argv[1:] or ("%s/%s" % (pid, k)) in sys.argv[1:]
            if any(a.startswith(pid + "/") for a in sys.argv[1:]) and ("%s/%s" % (pid, k)) not in sys.argv[1:] and pid not in sys.argv[1:]:
                want = False
            if want and (not only_k or k == only_k) and os.path.exists(os.path.join(INC, pid, k, "patch.diff")):
                seeds.append((pid, k))
    for pid, k in seeds:
        wt = "/tmp/sw-%s-%s" % (pid, k)
        sh("git -C /repo worktree remove --force %s" % wt)
        rc, out = sh("git -C /repo worktree add --detach %s HEAD" % wt)
        if rc != 0:
            print("worktree failed", pid, k, out)
    results = []
    with concurrent.futures.ThreadPoolExecutor(max_workers=5) as ex:
        for r in ex.map(verify, seeds):
            ok = (r.get("demo_clean_rc") == 0 and r.get("apply_rc") == 0 and r.get("build_rc") == 0 and
                  set(r.get("suite_failures", ["x"])) <= {"TestPanicRecovered"} and r.get("demo_changed_rc", 0) != 0)
            r["confirmed"] = ok
            print(r["id"], r["k"], "CONFIRMED" if ok else "NOT-CONFIRMED", {k: v for k, v in r.items() if k.endswith("_rc") or k == "suite_failures"}, flush=True)
            results.append(r)
    for pid, k in seeds:
        sh("git -C /repo worktree remove --force /tmp/sw-%s-%s" % (pid, k))
    sh("git -C /repo worktree prune")
    path = "/verif/seeded/_verify.json"
    old = json.load(open(path)) if os.path.exists(path) else []
    keep = [o for o in old if (o["id"], o["k"]) not in {(r["id"], r["k"]) for r in results}]
    json.dump(sorted(keep + results, key=lambda r: (r["id"], r["k"])), open(path, "w"), indent=1)


if __name__ == "__main__":
    main()
