#!/bin/sh
# Build the verification framework from files on disk only (offline).
set -e
cd "$(dirname "$0")"
export GOFLAGS=-mod=mod GOPROXY=off GOSUMDB=off GOTOOLCHAIN=local
(cd coq && coq_makefile -f _CoqProject -o Makefile >/dev/null && timeout 3400 make -j16 >/dev/null)
sh model/build.sh
cp /repo/go.sum harness/go.sum
mkdir -p .cache/bin evidence replays
(cd harness && go build -tags verif -o ../.cache/bin/ ./cmd/... )
echo setup-ok
