#!/usr/bin/env python3
"""Refreshes the 'As built' paragraph under every '### Cxx' heading of DESIGN.md §7 from the
table in lib/mkmanifest.py (one source for MANIFEST level texts and the design document)."""
import os
import re
import sys

sys.path.insert(0, os.path.join(os.path.dirname(os.path.abspath(__file__)), "lib"))
import mkmanifest  # noqa: E402

p = os.path.join(os.path.dirname(os.path.abspath(__file__)), "DESIGN.md")
s = open(p).read()
for pid, (tech, text, note, ref) in sorted(mkmanifest.CLAIMED.items()):
    block = "<!-- asbuilt:%s -->\n**As built (supersedes the design text below where they differ).** *Technique:* %s. *Level:* %s *Trusted / not covered:* %s\n<!-- /asbuilt:%s -->\n\n" % (pid, tech, text, note, pid)
    s = re.sub(r"\n<!-- asbuilt:%s -->.*?<!-- /asbuilt:%s -->\n\n" % (pid, pid), "\n", s, flags=re.S)
    m = re.search(r"^### %s .*\n" % pid, s, re.M)
    if m:
        s = s[:m.end()] + "\n" + block.rstrip("\n") + "\n\n" + s[m.end():].lstrip("\n")
    else:
        print("heading not found for", pid)
open(p, "w").write(s)
print("DESIGN.md refreshed")
