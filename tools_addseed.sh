#!/bin/bash
# usage: tools_addseed.sh <outdir> <worktree>   -- files a delivered seeded change under seeded/<id>/<next k>, removes its worktree
set -e
out=$1; wt=$2
id=$(head -1 $out/notes.md | sed -E 's/^# (C[0-9]+).*/\1/')
k=1; while [ -e /verif/seeded/$id/$k ]; do k=$((k+1)); done
mkdir -p /verif/seeded/$id/$k
cp -r $out/* /verif/seeded/$id/$k/
rm -f /verif/seeded/$id/$k/*.log
git -C /repo worktree remove --force $wt 2>/dev/null || true
echo "$id/$k"
