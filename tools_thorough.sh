#!/bin/sh
# runs every thorough check on the unchanged tree; prints verdict and wall time per property
export GOFLAGS=-mod=mod GOPROXY=off GOSUMDB=off GOTOOLCHAIN=local
cd /verif
for p in "$@"; do
  t0=$(date +%s)
  out=$(./check $p --tier thorough 2>&1)
  t1=$(date +%s)
  echo "$p $((t1-t0))s: $(echo "$out" | grep "^OK\|^VIOLATION\|^KNOWN" | cut -c1-200 | tr '\n' ' ')"
  echo "$out" | grep "violation" | cut -c1-400
done
