#!/bin/sh
# Extract the Coq models and build the cffmodel binary. Needs ../coq built.
set -e
cd "$(dirname "$0")"
coqc -Q ../coq CffVerif Extract.v >/dev/null
ocamlfind ocamlopt -O2 -w -a -package str cffmodel.mli cffmodel.ml driver.ml -o cffmodel.new 2>/dev/null || \
ocamlfind ocamlopt -w -a cffmodel.mli cffmodel.ml driver.ml -o cffmodel.new
mv -f cffmodel.new cffmodel
