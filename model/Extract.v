(* Extraction of the executable models to OCaml (ExtrOcamlBasic only: bool,
   option, unit, list, prod, sumbool, sumor and andb/orb/negb/fst/snd are
   mapped to their OCaml counterparts; nat stays the unary datatype).
   Run from this directory: coqc -Q ../coq CffVerif Extract.v *)
From Coq Require Import Extraction ExtrOcamlBasic.
From CffVerif Require Import BuildTagModel SchedModel ValidateModel FlowSemModel FlowOpModel FlowOpProofs FlowComplete PrologueModel EmitterModel AliasModel ParallelModel TopoModel SignatureModel FileSelModel ParSigModel.

(* names of FlowOpModel that clash with SchedModel's are re-exported under op_ *)
Definition op_canonical := FlowOpModel.canonical.
Definition op_run := FlowOpModel.run.
Definition op_valid := FlowOpModel.valid.
Definition op_complete := FlowOpModel.complete.
Definition op_results := FlowOpModel.results.
Definition op_calls := FlowOpModel.xcalls.
Definition op_fail := FlowOpModel.xfail.
Definition op_jobs := FlowOpModel.all_jobs.
Definition op_deps := FlowOpModel.jdeps.
Definition op_uniq := FlowOpProofs.unique_providers_b.
Definition op_prov := FlowComplete.all_provided_b.

Extraction Language OCaml.
Extraction "cffmodel.ml" invert eval flip_cff has_cff gen_filename splice
  initc init stepc step run replay is_final wf_cfg_b event_eqb
  validate accepts wf_b funcs provider default_concurrency
  failures result_values calls blocked
  op_canonical op_run op_valid op_complete op_results op_calls op_fail op_jobs op_deps op_uniq op_prov
  prologue mk_stack deliver requests start par_flow toposort
  compile_function compile_predicate compile_task
  run_tool exit_nonzero
  compile_parallel.
