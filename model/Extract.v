(* Extraction of the executable models to OCaml (ExtrOcamlBasic only: bool,
   option, unit, list, prod, sumbool, sumor and andb/orb/negb/fst/snd are
   mapped to their OCaml counterparts; nat stays the unary datatype).
   Run from this directory: coqc -Q ../coq CffVerif Extract.v *)
From Coq Require Import Extraction ExtrOcamlBasic.
From CffVerif Require Import BuildTagModel SchedModel ValidateModel FlowSemModel.

Extraction Language OCaml.
Extraction "cffmodel.ml" invert eval flip_cff has_cff gen_filename splice
  initc init stepc step run replay is_final wf_cfg_b event_eqb
  validate accepts wf_b funcs provider default_concurrency
  failures result_values calls blocked.
