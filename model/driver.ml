(* Line-oriented driver around the extracted Coq models (cffmodel.ml).
   Hand-written glue: parsing of case files and printing only. *)
open Cffmodel

let rec nat_of_int n = if n <= 0 then O else S (nat_of_int (n - 1))
let rec int_of_nat = function O -> 0 | S n -> 1 + int_of_nat n

let split_ws s = List.filter (fun x -> x <> "") (String.split_on_char ' ' s)

(* ---- build-constraint expressions in Polish notation: T n | N e | A e e | O e e ---- *)
let rec parse_expr toks =
  match toks with
  | "T" :: n :: rest -> (Tag (nat_of_int (int_of_string n)), rest)
  | "N" :: rest -> let (e, r) = parse_expr rest in (Not e, r)
  | "A" :: rest -> let (a, r) = parse_expr rest in let (b, r') = parse_expr r in (And (a, b), r')
  | "O" :: rest -> let (a, r) = parse_expr rest in let (b, r') = parse_expr r in (Or (a, b), r')
  | _ -> failwith "bad expr"

let rec print_expr buf = function
  | Tag t -> Buffer.add_string buf ("T " ^ string_of_int (int_of_nat t))
  | Not e -> Buffer.add_string buf "N "; print_expr buf e
  | And (a, b) -> Buffer.add_string buf "A "; print_expr buf a; Buffer.add_char buf ' '; print_expr buf b
  | Or (a, b) -> Buffer.add_string buf "O "; print_expr buf a; Buffer.add_char buf ' '; print_expr buf b

let cmd_invert () =
  try
    while true do
      let line = input_line stdin in
      let (e, _) = parse_expr (split_ws line) in
      let buf = Buffer.create 64 in
      print_expr buf (invert e);
      Buffer.add_string buf (if has_cff e then " | 1" else " | 0");
      print_endline (Buffer.contents buf)
    done
  with End_of_file -> ()

(* truth table over tags 0..3, as a string of 16 bits; mask bit i = tag i *)
let table e =
  String.init 16 (fun mask ->
    let tags t = let i = int_of_nat t in (mask lsr i) land 1 = 1 in
    if eval tags e then '1' else '0')

let cmd_table () =
  try
    while true do
      let line = input_line stdin in
      let (e, _) = parse_expr (split_ws line) in
      (* table of e, table of (invert e), table of e under flipped cff *)
      print_endline (table e ^ " " ^ table (invert e) ^ " " ^
        String.init 16 (fun mask ->
          let tags t = let i = int_of_nat t in (mask lsr i) land 1 = 1 in
          if eval (flip_cff tags) e then '1' else '0'))
    done
  with End_of_file -> ()

(* file names: one name per line, as text *)
let cmd_genname () =
  try
    while true do
      let line = input_line stdin in
      let codes = List.init (String.length line) (fun i -> nat_of_int (Char.code line.[i])) in
      let out = gen_filename codes in
      print_endline (String.concat "" (List.map (fun c -> String.make 1 (Char.chr (int_of_nat c))) out))
    done
  with End_of_file -> ()

let () =
  match Array.to_list Sys.argv with
  | _ :: "invert" :: _ -> cmd_invert ()
  | _ :: "genname" :: _ -> cmd_genname ()
  | _ :: "table" :: _ -> cmd_table ()
  | _ -> prerr_endline "usage: cffmodel <subcommand>"; exit 2
