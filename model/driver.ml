(* Line-oriented driver around the extracted Coq models (cffmodel.ml).
   Hand-written glue: parsing of case files and printing only. *)
open Cffmodel

let rec nat_of_int n = if n <= 0 then O else S (nat_of_int (n - 1))
let rec int_of_nat = function O -> 0 | S n -> 1 + int_of_nat n

let split_ws s = List.filter (fun x -> x <> "") (String.split_on_char ' ' s)

(* ---- build-constraint expressions in Polish notation: T n | N e | A e e | O e e ---- *)
let rec parse_expr toks =
  match toks with
  | "T" :: n :: rest -> (Tag (nat_of_int (int_of_string n)), rest)
  | "N" :: rest -> let (e, r) = parse_expr rest in (Not e, r)
  | "A" :: rest -> let (a, r) = parse_expr rest in let (b, r') = parse_expr r in (And (a, b), r')
  | "O" :: rest -> let (a, r) = parse_expr rest in let (b, r') = parse_expr r in (Or (a, b), r')
  | _ -> failwith "bad expr"

let rec print_expr buf = function
  | Tag t -> Buffer.add_string buf ("T " ^ string_of_int (int_of_nat t))
  | Not e -> Buffer.add_string buf "N "; print_expr buf e
  | And (a, b) -> Buffer.add_string buf "A "; print_expr buf a; Buffer.add_char buf ' '; print_expr buf b
  | Or (a, b) -> Buffer.add_string buf "O "; print_expr buf a; Buffer.add_char buf ' '; print_expr buf b

let cmd_invert () =
  try
    while true do
      let line = input_line stdin in
      let (e, _) = parse_expr (split_ws line) in
      let buf = Buffer.create 64 in
      print_expr buf (invert e);
      Buffer.add_string buf (if has_cff e then " | 1" else " | 0");
      print_endline (Buffer.contents buf)
    done
  with End_of_file -> ()

(* truth table over tags 0..3, as a string of 16 bits; mask bit i = tag i *)
let table e =
  String.init 16 (fun mask ->
    let tags t = let i = int_of_nat t in (mask lsr i) land 1 = 1 in
    if eval tags e then '1' else '0')

let cmd_table () =
  try
    while true do
      let line = input_line stdin in
      let (e, _) = parse_expr (split_ws line) in
      (* table of e, table of (invert e), table of e under flipped cff *)
      print_endline (table e ^ " " ^ table (invert e) ^ " " ^
        String.init 16 (fun mask ->
          let tags t = let i = int_of_nat t in (mask lsr i) land 1 = 1 in
          if eval (flip_cff tags) e then '1' else '0'))
    done
  with End_of_file -> ()

(* file names: one name per line, as text *)
let cmd_genname () =
  try
    while true do
      let line = input_line stdin in
      let codes = List.init (String.length line) (fun i -> nat_of_int (Char.code line.[i])) in
      let out = gen_filename codes in
      print_endline (String.concat "" (List.map (fun c -> String.make 1 (Char.chr (int_of_nat c))) out))
    done
  with End_of_file -> ()

(* ---------------- scheduler replay ---------------- *)
let rec pos_of_int n = if n <= 1 then XH else if n land 1 = 0 then XO (pos_of_int (n lsr 1)) else XI (pos_of_int (n lsr 1))
let z_of_int n = if n = 0 then Z0 else if n > 0 then Zpos (pos_of_int n) else Zneg (pos_of_int (-n))
let rec int_of_pos = function XH -> 1 | XO p -> 2 * int_of_pos p | XI p -> 2 * int_of_pos p + 1
let int_of_z = function Z0 -> 0 | Zpos p -> int_of_pos p | Zneg p -> - (int_of_pos p)
let nat s = nat_of_int (int_of_string s)

let parse_err s =
  match s.[0] with
  | 'U' -> EUser (nat (String.sub s 1 (String.length s - 1)))
  | 'C' -> ECtx (nat (String.sub s 1 (String.length s - 1)))
  | 'I' -> EInvalid
  | 'X' -> EExit
  | _ -> failwith ("bad err " ^ s)
let show_err = function
  | EUser n -> "U" ^ string_of_int (int_of_nat n)
  | ECtx n -> "C" ^ string_of_int (int_of_nat n)
  | EInvalid -> "I" | EExit -> "X"
let parse_oerr s = if s = "-" then None else Some (parse_err s)
let show_oerr = function None -> "-" | Some e -> show_err e
let parse_outcome = function
  | ["ok"] -> OOk | ["err"; n] -> OErr (nat n) | ["exit"] -> OGoexit | _ -> failwith "bad outcome"
let show_outcome = function OOk -> "ok" | OErr n -> "err " ^ string_of_int (int_of_nat n) | OGoexit -> "exit"
let parse_errs s = if s = "nil" then [] else List.map parse_err (String.split_on_char ',' s)
let show_errs = function [] -> "nil" | l -> String.concat "," (List.map show_err l)

let parse_act toks =
  match toks with
  | ["CE"] -> ACallerEnq | ["CW"] -> ACallerWait | ["CRC"] -> ACallerRetCtx | ["CRF"] -> ACallerRetFin
  | ["LD"; w] -> ALoopDispatch (nat w) | ["LER"] -> ALoopEnqRecv | ["LEC"] -> ALoopEnqClosed
  | ["LDN"; i] -> ALoopDone (nat i) | ["LT"] -> ALoopTick | ["LDR"] -> ALoopDrain | ["LF"] -> ALoopFinish
  | ["WC"; w] -> AWorkerCheck (nat w) | "WE" :: w :: o -> AWorkerEnd (nat w, parse_outcome o)
  | ["WP"; w] -> AWorkerPost (nat w) | ["WX"; w] -> AWorkerExit (nat w)
  | ["X"; c] -> ACancel (nat c)
  | _ -> failwith ("bad action: " ^ String.concat " " toks)

let parse_event toks =
  match toks with
  | ["EnqSent"; j] -> EvEnqSent (nat j) | ["WaitCalled"] -> EvWaitCalled | ["Ret"; r] -> EvRet (parse_errs r)
  | ["EnqRecv"; j] -> EvEnqRecv (nat j) | ["Dispatch"; j; w] -> EvDispatch (nat j, nat w)
  | ["DoneRecv"; j; r] -> EvDoneRecv (nat j, parse_oerr r)
  | ["Tick"; p; r; w; i; c] ->
      let z x = z_of_int (int_of_string x) in EvTick (z p, z r, z w, z i, z c)
  | ["EnqClosed"] -> EvEnqClosed | ["LoopExit"] -> EvLoopExit | ["Drained"; j] -> EvDrained (nat j)
  | ["Finish"] -> EvFinish | ["Start"; j] -> EvStart (nat j) | ["Skip"; j; e] -> EvSkip (nat j, parse_err e)
  | "End" :: j :: o -> EvEnd (nat j, parse_outcome o) | ["Post"; j] -> EvPost (nat j)
  | ["WExit"; w] -> EvWExit (nat w) | ["Cancel"; c] -> EvCancel (nat c)
  | _ -> failwith ("bad event: " ^ String.concat " " toks)

let show_event = function
  | EvEnqSent j -> "EnqSent " ^ string_of_int (int_of_nat j) | EvWaitCalled -> "WaitCalled"
  | EvRet r -> "Ret " ^ show_errs r | EvEnqRecv j -> "EnqRecv " ^ string_of_int (int_of_nat j)
  | EvDispatch (j, w) -> Printf.sprintf "Dispatch %d %d" (int_of_nat j) (int_of_nat w)
  | EvDoneRecv (j, r) -> Printf.sprintf "DoneRecv %d %s" (int_of_nat j) (show_oerr r)
  | EvTick (p, r, w, i, c) -> Printf.sprintf "Tick %d %d %d %d %d" (int_of_z p) (int_of_z r) (int_of_z w) (int_of_z i) (int_of_z c)
  | EvEnqClosed -> "EnqClosed" | EvLoopExit -> "LoopExit" | EvDrained j -> "Drained " ^ string_of_int (int_of_nat j)
  | EvFinish -> "Finish" | EvStart j -> "Start " ^ string_of_int (int_of_nat j)
  | EvSkip (j, e) -> Printf.sprintf "Skip %d %s" (int_of_nat j) (show_err e)
  | EvEnd (j, o) -> Printf.sprintf "End %d %s" (int_of_nat j) (show_outcome o)
  | EvPost j -> "Post " ^ string_of_int (int_of_nat j) | EvWExit w -> "WExit " ^ string_of_int (int_of_nat w)
  | EvCancel c -> "Cancel " ^ string_of_int (int_of_nat c)

let show_wst = function
  | WIdle -> "idle" | WGot j -> "got" ^ string_of_int (int_of_nat j) | WRun j -> "run" ^ string_of_int (int_of_nat j)
  | WPost (j, r) -> "post" ^ string_of_int (int_of_nat j) ^ ":" ^ show_oerr r | WExit -> "exit"
let show_state s =
  Printf.sprintf "lp=%s cp=%s enq=[%s] closed=%b nil=%b ready=[%s] ongoing=%d pending=%d waiting=%d donec=[%s] workers=[%s] serr=%s cancelled=[%s]"
    (match s.lp with LRun -> "run" | LDrain -> "drain" | LFin -> "fin")
    (match s.cp with CEnq k -> "enq" ^ string_of_int (int_of_nat k) | CWait -> "wait" | CRet r -> "ret:" ^ show_errs r)
    (String.concat "," (List.map (fun j -> string_of_int (int_of_nat j)) s.enq)) s.enq_closed s.enq_nil
    (String.concat "," (List.map (fun j -> string_of_int (int_of_nat j)) s.ready))
    (int_of_z s.ongoing) (int_of_z s.pending) (int_of_z s.waiting)
    (String.concat "," (List.map (fun (j, r) -> string_of_int (int_of_nat j) ^ ":" ^ show_oerr r) s.donec))
    (String.concat "," (List.map show_wst s.workers)) (show_errs s.serr)
    (String.concat "," (List.map (fun j -> string_of_int (int_of_nat j)) s.cancelled))

(* Case format:
     CFG <N> <coe 0/1> <gated 0/1> <wctx>
     JOB <ctx> <dep> <dep> ...
     ACT <action> | <event> ; <event> ...
     END
   one verdict line per case. *)
let cmd_sched_replay () =
  let cfgline = ref None and jobsr = ref [] and acts = ref [] in
  let flush () =
    (match !cfgline with
     | None -> ()
     | Some (n, coe, gated, wctx) ->
       let c = { cN = n; ccoe = coe; cgated = gated; cprog = List.rev !jobsr; cwctx = wctx } in
       if not (wf_cfg_b c) then print_endline "BADCFG"
       else
         match replay c (initc c) O (List.rev !acts) with
         | RpOk s ->
           Printf.printf "OK final=%b ret=%s | %s\n" (is_final s)
             (match s.cp with CRet r -> show_errs r | _ -> "none") (show_state s)
         | RpDisabled (n, s) -> Printf.printf "DISABLED %d | %s\n" (int_of_nat n) (show_state s)
         | RpMismatch (n, s, got) ->
           Printf.printf "MISMATCH %d | model: %s | %s\n" (int_of_nat n)
             (String.concat " ; " (List.map show_event got)) (show_state s));
    cfgline := None; jobsr := []; acts := [] in
  try
    while true do
      let line = input_line stdin in
      match split_ws line with
      | "CFG" :: n :: coe :: gated :: wctx :: _ ->
        cfgline := Some (nat n, coe = "1", gated = "1", nat wctx)
      | "JOB" :: ctx :: deps -> jobsr := { jdeps = List.map nat deps; jctx = nat ctx } :: !jobsr
      | "ACT" :: rest ->
        let s = String.concat " " rest in
        let (a, evs) =
          match String.index_opt s '|' with
          | None -> (s, "")
          | Some i -> (String.sub s 0 i, String.sub s (i + 1) (String.length s - i - 1)) in
        let evl = List.filter (fun x -> split_ws x <> []) (String.split_on_char ';' evs) in
        acts := (parse_act (split_ws a), List.map (fun e -> parse_event (split_ws e)) evl) :: !acts
      | ["END"] -> flush ()
      | [] -> ()
      | _ -> failwith ("bad line: " ^ line)
    done
  with End_of_file -> flush ()

(* ---------------- flow validation ----------------
   one flow per line:  P n n .. | R n n .. | T ins outs pred inv | T ...
   ins/outs: comma-separated numbers or "-" for none; pred: "-" = no predicate,
   "_" = predicate without inputs, else comma-separated numbers; inv: 0/1 *)
let nats_of s = if s = "-" || s = "_" then [] else List.map nat (String.split_on_char ',' s)
let show_diag = function
  | DDupParam -> "DupParam" | DNoOutput -> "NoOutput" | DInvokeWithOutputs -> "InvokeWithOutputs"
  | DDupProvider -> "DupProvider" | DUnusedOutput -> "UnusedOutput" | DNoProvider -> "NoProvider"
  | DUnusedInput -> "UnusedInput" | DCycle -> "Cycle"
let parse_flow line =
  let parts = List.map String.trim (String.split_on_char '|' line) in
  let params = ref [] and results = ref [] and tasks = ref [] in
  List.iter (fun p ->
    match split_ws p with
    | "P" :: r -> params := List.map nat r
    | "R" :: r -> results := List.map nat r
    | ["T"; i; o; pr; inv] ->
      tasks := { tins = nats_of i; touts = nats_of o;
                 tpred = (if pr = "-" then None else Some (nats_of pr)); tinvoke = (inv = "1") } :: !tasks
    | [] -> ()
    | _ -> failwith ("bad flow part: " ^ p)) parts;
  { fparams = !params; fresults = !results; ftasks = List.rev !tasks }
let cmd_validate () =
  try
    while true do
      let line = input_line stdin in
      let f = parse_flow line in
      let ds = List.sort_uniq compare (List.map show_diag (validate f)) in
      Printf.printf "%s | wf=%b | %s\n" (if accepts f then "ACCEPT" else "REJECT") (wf_b f) (String.concat "," ds)
    done
  with End_of_file -> ()

(* ---------------- flow semantics ----------------
   line:  <flow> # <scenario>     flow as for validate, tasks with 6 fields:
   T ins outs pred inv fallback haserr ;  scenario: t3=err q2=false ... *)
let rec show_term = function
  | TmParam t -> "p" ^ string_of_int (int_of_nat t)
  | TmOut (k, i, args) -> Printf.sprintf "t%d.%d(%s)" (int_of_nat k) (int_of_nat i) (String.concat "," (List.map show_term args))
  | TmZero -> ""
  | TmFall (k, i) -> Printf.sprintf "fb%d.%d" (int_of_nat k) (int_of_nat i)
let show_ferr = function
  | FErr k -> "err:t" ^ string_of_int (int_of_nat k)
  | FPanic k -> "panic:t" ^ string_of_int (int_of_nat k)
  | FPredPanic k -> "panic:q" ^ string_of_int (int_of_nat k)
let parse_gflow line =
  let parts = List.map String.trim (String.split_on_char '|' line) in
  let params = ref [] and results = ref [] and tasks = ref [] in
  List.iter (fun p ->
    match split_ws p with
    | "P" :: r -> params := List.map nat r
    | "R" :: r -> results := List.map nat r
    | ["T"; i; o; pr; inv; fb; he] ->
      tasks := { kins = nats_of i; kouts = nats_of o;
                 kpred = (if pr = "-" then None else Some (nats_of pr));
                 kinvoke = (inv = "1"); kfallback = (fb = "1"); khaserr = (he = "1") } :: !tasks
    | [] -> ()
    | _ -> failwith ("bad flow part: " ^ p)) parts;
  { gparams = !params; gresults = !results; gtasks = List.rev !tasks }
let parse_scenario s =
  let tbl = Hashtbl.create 8 in
  List.iter (fun kv -> match String.split_on_char '=' kv with
    | [k; v] -> Hashtbl.replace tbl k v | _ -> ()) (split_ws s);
  { sc_task = (fun k -> match Hashtbl.find_opt tbl ("t" ^ string_of_int (int_of_nat k)) with
                | Some "err" -> OERR | Some "panic" -> OPANIC | _ -> OOK);
    sc_pred = (fun k -> match Hashtbl.find_opt tbl ("q" ^ string_of_int (int_of_nat k)) with
                | Some "false" -> PFALSE | Some "panic" -> PPANIC | _ -> PTRUE) }
let cmd_flowobs () =
  try
    while true do
      let line = input_line stdin in
      let (fl, scs) = match String.index_opt line '#' with
        | None -> (line, "")
        | Some i -> (String.sub line 0 i, String.sub line (i + 1) (String.length line - i - 1)) in
      let f = parse_gflow fl and sc = parse_scenario scs in
      let fails = List.map show_ferr (failures f sc) in
      let res = match result_values f sc with
        | Some vs -> String.concat ";" (List.map show_term vs) | None -> "?" in
      let cs = List.sort compare (List.map (fun ((isp, k), args) ->
        Printf.sprintf "%s%d(%s)" (if isp then "q" else "t") (int_of_nat k) (String.concat "," (List.map show_term args)))
        (calls f sc)) in
      let bl = List.map (fun k -> "t" ^ string_of_int (int_of_nat k)) (blocked f sc) in
      (* the operational model (generated jobs in the canonical order) must agree *)
      let show_fid = function FT k -> "t" ^ string_of_int (int_of_nat k) | FP k -> "q" ^ string_of_int (int_of_nat k) in
      let show_oterm = function Some t -> show_term t | None -> "<unset>" in
      let sch = op_canonical f sc in
      let e = op_run f sc sch in
      let ofails = List.map show_ferr (op_fail e) in
      let ocalls = List.sort compare (List.map (fun ((isp, k), args) ->
        Printf.sprintf "%s%d(%s)" (if isp then "q" else "t") (int_of_nat k) (String.concat "," (List.map show_oterm args)))
        (op_calls e)) in
      let ores = match op_results f e with
        | Some vs -> String.concat ";" (List.map show_oterm vs) | None -> "?" in
      let subset a b = List.for_all (fun x -> List.mem x b) a in
      let agree =
        if not (op_valid f sc sch) then "DISAGREE:canonical-schedule-invalid"
        else if fails = [] then
          (if ofails <> [] then "DISAGREE:op-fails"
           else if not (op_complete f e) then "DISAGREE:op-incomplete"
           else if ores <> res then "DISAGREE:results " ^ ores
           else if ocalls <> cs then "DISAGREE:calls " ^ String.concat ";" ocalls
           else "agree")
        else
          (if ofails = [] then "DISAGREE:op-does-not-fail"
           else if not (subset ofails fails) then "DISAGREE:op-failure " ^ String.concat "|" ofails
           else if not (subset ocalls cs) then "DISAGREE:op-calls " ^ String.concat ";" ocalls
           else "agree") in
      let jobs = String.concat ";" (List.map (fun x ->
        show_fid x ^ ":" ^ String.concat "," (List.sort compare (List.map show_fid (op_deps f x)))) (op_jobs f)) in
      Printf.printf "ERR=%s ; RES=%s ; CALLS=%s ; BLOCKED=%s ; OP=%s ; UNIQ=%b ; PROV=%b ; JOBS=%s\n"
        (if fails = [] then "nil" else String.concat "|" fails) res (String.concat ";" cs) (String.concat "," bl)
        agree (op_uniq f) (op_prov f) jobs
    done
  with End_of_file -> ()

(* ---------------- prologue: one line of positions (mentions) -> the emitted order *)
let cmd_prologue () =
  try
    while true do
      let line = input_line stdin in
      let uses = List.map nat (split_ws line) in
      print_endline (String.concat " " (List.map (fun n -> string_of_int (int_of_nat n)) (prologue uses)))
    done
  with End_of_file -> ()

(* ---------------- import aliases: "<taken,..> | dir/base name | ..." -> names ; addImports *)
let codes_of s = List.init (String.length s) (fun i -> nat_of_int (Char.code s.[i]))
let string_of_codes l = String.concat "" (List.map (fun c -> String.make 1 (Char.chr (int_of_nat c))) l)
let cmd_alias () =
  try
    while true do
      let line = input_line stdin in
      match String.split_on_char '|' line with
      | [] -> ()
      | taken :: reqs ->
        let init = List.filter_map (fun n -> let n = String.trim n in if n = "" then None else Some (codes_of n))
            (String.split_on_char ',' taken) in
        let rq = List.filter_map (fun r -> match split_ws r with
          | [p; n] ->
            let (d, b) = match String.rindex_opt p '/' with
              | Some i -> (String.sub p 0 i, String.sub p (i + 1) (String.length p - i - 1))
              | None -> ("", p) in
            Some ((codes_of d, codes_of b), codes_of n)
          | _ -> None) reqs in
        (match requests rq (start init) with
         | None -> print_endline "STUCK"
         | Some (names, s) ->
           let show_path (d, b) = (if d = [] then "" else string_of_codes d ^ "/") ^ string_of_codes b in
           let adds = List.sort compare (List.map (fun (p, n) -> show_path p ^ "=" ^ string_of_codes n) s.adds) in
           Printf.printf "%s ; %s\n" (String.concat " " (List.map string_of_codes names)) (String.concat "," adds))
    done
  with End_of_file -> ()

(* ---------------- Parallel embedding: "T 1 ; C 3 1 1 1 ; C 2 0 0 0" -> flow line *)
let cmd_parflow () =
  try
    while true do
      let line = input_line stdin in
      let items = List.filter_map (fun it -> match split_ws it with
        | ["T"; he] -> Some (PTask (he = "1"))
        | ["C"; n; ee; e; ende] -> Some (PColl (nat n, ee = "1", e = "1", ende = "1"))
        | _ -> None) (String.split_on_char ';' line) in
      let f = par_flow items in
      let l xs = if xs = [] then "-" else String.concat "," (List.map (fun x -> string_of_int (int_of_nat x)) xs) in
      print_endline (String.concat " | " ("P" :: "R" :: List.map (fun t ->
        Printf.sprintf "T %s %s - %d 0 %d" (l t.kins) (l t.kouts) (if t.kinvoke then 1 else 0) (if t.khaserr then 1 else 0)) f.gtasks))
    done
  with End_of_file -> ()

(* ---------------- toposort: "count | deps0 ; deps1 ; ..." -> order *)
let cmd_topo () =
  try
    while true do
      let line = input_line stdin in
      match String.index_opt line '|' with
      | None -> ()
      | Some i ->
        let count = int_of_string (String.trim (String.sub line 0 i)) in
        let rest = String.sub line (i + 1) (String.length line - i - 1) in
        let ds = Array.make (max count 1) [] in
        List.iteri (fun k d -> if k < count then ds.(k) <- List.map nat (split_ws d)) (String.split_on_char ';' rest);
        let deps n = let k = int_of_nat n in if k < count then ds.(k) else [] in
        let order = toposort deps (nat_of_int (count + 1)) (nat_of_int count) in
        print_endline (String.concat " " (List.map (fun n -> string_of_int (int_of_nat n)) order))
    done
  with End_of_file -> ()

(* ---------------- emitter stacks: "L1 L2 ; V0 L3" -> receivers of each v_k, "1,2|1,2,3" *)
let cmd_emstack () =
  try
    while true do
      let line = input_line stdin in
      let defs = List.map String.trim (String.split_on_char ';' line) in
      let vars = ref [] in
      List.iter (fun d ->
        let args = List.map (fun tok ->
          let n () = int_of_string (String.sub tok 1 (String.length tok - 1)) in
          match tok.[0] with
          | 'L' -> VOne (ALeaf (nat_of_int (n ())))
          | 'N' -> VOne ANop
          | _ -> List.nth (List.rev !vars) (n ())) (List.filter (fun t -> t <> "E") (split_ws d)) in
        vars := mk_stack args :: !vars) defs;
      print_endline (String.concat "|" (List.map (fun v ->
        String.concat "," (List.map (fun i -> string_of_int (int_of_nat i)) (deliver v))) (List.rev !vars)))
    done
  with End_of_file -> ()

(* ---------------- signatures: "F v p.. > r.. | P v p.. > r.. | FB k | INV b" -> ACCEPT.. / REJECT diags *)
let cmd_sigtask () =
  let ty = function "c" -> GCtx | "e" -> GErr | "b" -> GBool | n -> GVal (nat n) in
  let tyname = function GCtx -> "c" | GErr -> "e" | GBool -> "b" | GVal n -> string_of_int (int_of_nat n) in
  let sg toks = match toks with
    | v :: rest ->
      let rec split acc = function ">" :: r -> (List.rev acc, r) | x :: r -> split (x :: acc) r | [] -> (List.rev acc, []) in
      let (ps, rs) = split [] rest in
      { sg_variadic = (v = "1"); sg_params = List.map ty ps; sg_results = List.map ty rs }
    | [] -> { sg_variadic = false; sg_params = []; sg_results = [] } in
  let dname = function
    | SVariadic -> "SVariadic" | SCtxPos -> "SCtxPos" | SErrPos -> "SErrPos" | SPredResult -> "SPredResult"
    | SFbCount -> "SFbCount" | SFbNoErr -> "SFbNoErr" | SNoOutput -> "SNoOutput" | SInvokeWithOutput -> "SInvokeWithOutput" in
  try
    while true do
      let line = input_line stdin in
      let fn = ref (sg []) and pred = ref None and fb = ref None and inv = ref false in
      List.iter (fun part -> match split_ws part with
        | "F" :: r -> fn := sg r
        | "P" :: r -> pred := Some (sg r)
        | ["FB"; k] -> fb := Some (nat k)
        | ["INV"; b] -> inv := (b = "1")
        | _ -> ()) (String.split_on_char '|' line);
      let t = { td_fn = !fn; td_pred = !pred; td_fallback = !fb; td_invoke = !inv } in
      match compile_task t with
      | [] ->
        (match compile_function !fn with
         | Inl f ->
           let l xs = if xs = [] then "-" else String.concat "," (List.map tyname xs) in
           Printf.printf "ACCEPT wc=%b ins=%s outs=%s he=%b\n" f.cf_wantctx (l f.cf_inputs) (l f.cf_outputs) f.cf_haserr
         | Inr _ -> print_endline "ACCEPT ?")
      | ds -> print_endline ("REJECT " ^ String.concat "," (List.map dname ds))
    done
  with End_of_file -> ()

(* ---------------- file selection: "S in=out,in= | F dir base fail emits ; F ..." -> "EXIT b | W dir/name ; ..." *)
let cmd_filesel () =
  let codes str = List.init (String.length str) (fun i -> nat_of_int (Char.code str.[i])) in
  let text cs = String.concat "" (List.map (fun c -> String.make 1 (Char.chr (int_of_nat c))) cs) in
  try
    while true do
      let line = input_line stdin in
      let sel = ref [] and files = ref [] in
      List.iter (fun part -> match split_ws part with
        | "S" :: args -> sel := List.map (fun a -> match String.index_opt a '=' with
            | Some i -> (codes (String.sub a 0 i), codes (String.sub a (i + 1) (String.length a - i - 1)))
            | None -> (codes a, [])) args
        | ["F"; d; b; fl; em] -> files := !files @ [{ sf_dir = nat d; sf_base = codes b; sf_fail = (fl = "1"); sf_emits = (em = "1") }]
        | _ -> ()) (List.concat_map (String.split_on_char ';') (String.split_on_char '|' line));
      let r = run_tool !sel !files in
      let ws = match r with
        | None -> []
        | Some o -> List.map (fun (p, _) -> match p with
            | ODefault (d, n) -> Printf.sprintf "%d/%s" (int_of_nat d) (text n)
            | OExplicit o -> "=" ^ text o) o.written in
      Printf.printf "EXIT %s | W %s\n" (if r = None then "dup" else if exit_nonzero r then "1" else "0") (String.concat " ; " ws)
    done
  with End_of_file -> ()

(* ---------------- Parallel signatures: "COE b | T sig | S sig @ elem ; E sig ; .. | M sig @ key val ; E sig" -> diags *)
let cmd_parsig () =
  let ty = function "c" -> GCtx | "e" -> GErr | "b" -> GBool | n -> GVal (nat n) in
  let sg toks = match toks with
    | v :: rest ->
      let rec split acc = function ">" :: r -> (List.rev acc, r) | x :: r -> split (x :: acc) r | [] -> (List.rev acc, []) in
      let (ps, rs) = split [] rest in
      { sg_variadic = (v = "1"); sg_params = List.map ty ps; sg_results = List.map ty rs }
    | [] -> { sg_variadic = false; sg_params = []; sg_results = [] } in
  let rec upto_at acc = function "@" :: r -> (List.rev acc, r) | x :: r -> upto_at (x :: acc) r | [] -> (List.rev acc, []) in
  let assignable a b = (a = b) || b = GVal (nat_of_int 9) in
  let sname = function
    | SVariadic -> "SVariadic" | SCtxPos -> "SCtxPos" | SErrPos -> "SErrPos" | SPredResult -> "SPredResult"
    | SFbCount -> "SFbCount" | SFbNoErr -> "SFbNoErr" | SNoOutput -> "SNoOutput" | SInvokeWithOutput -> "SInvokeWithOutput" in
  let pname = function
    | PFn d -> "PFn:" ^ sname d | PTaskArgs -> "PTaskArgs" | PTaskResults -> "PTaskResults" | PSliceResults -> "PSliceResults"
    | PSliceArity -> "PSliceArity" | PSliceIndex -> "PSliceIndex" | PSliceElem -> "PSliceElem" | PMapResults -> "PMapResults"
    | PMapArity -> "PMapArity" | PMapKey -> "PMapKey" | PMapVal -> "PMapVal" | PEndArgs -> "PEndArgs" | PEndResults -> "PEndResults"
    | PEndTwice -> "PEndTwice" | PEndWithCOE -> "PEndWithCOE" in
  try
    while true do
      let line = input_line stdin in
      let coe = ref false and items = ref [] in
      List.iter (fun part ->
        let segs = List.map split_ws (String.split_on_char ';' part) in
        match segs with
        | ["COE"; b] :: _ -> coe := (b = "1")
        | ("T" :: r) :: _ -> items := !items @ [ITask (sg r)]
        | ("S" :: r) :: ends ->
          let (f, rest) = upto_at [] r in
          let es = List.filter_map (function "E" :: e -> Some (sg e) | _ -> None) ends in
          (match rest with [el] -> items := !items @ [ISlice (sg f, ty el, es)] | _ -> ())
        | ("M" :: r) :: ends ->
          let (f, rest) = upto_at [] r in
          let es = List.filter_map (function "E" :: e -> Some (sg e) | _ -> None) ends in
          (match rest with [k; v] -> items := !items @ [IMap (sg f, ty k, ty v, es)] | _ -> ())
        | _ -> ()) (String.split_on_char '|' line);
      match compile_parallel assignable !coe !items with
      | [] -> print_endline "ACCEPT"
      | ds -> print_endline ("REJECT " ^ String.concat "," (List.map pname ds))
    done
  with End_of_file -> ()

let () =
  match Array.to_list Sys.argv with
  | _ :: "parsig" :: _ -> cmd_parsig ()
  | _ :: "filesel" :: _ -> cmd_filesel ()
  | _ :: "sigtask" :: _ -> cmd_sigtask ()
  | _ :: "flowobs" :: _ -> cmd_flowobs ()
  | _ :: "prologue" :: _ -> cmd_prologue ()
  | _ :: "emstack" :: _ -> cmd_emstack ()
  | _ :: "alias" :: _ -> cmd_alias ()
  | _ :: "topo" :: _ -> cmd_topo ()
  | _ :: "parflow" :: _ -> cmd_parflow ()
  | _ :: "validate" :: _ -> cmd_validate ()
  | _ :: "sched-replay" :: _ -> cmd_sched_replay ()
  | _ :: "invert" :: _ -> cmd_invert ()
  | _ :: "genname" :: _ -> cmd_genname ()
  | _ :: "table" :: _ -> cmd_table ()
  | _ -> prerr_endline "usage: cffmodel <subcommand>"; exit 2
