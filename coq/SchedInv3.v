(* Run-level invariant linking the scheduler state to its history: what a
   result in flight, a finished job, a start or a skip imply about the log. *)
From CffVerif Require Import SchedModel SchedLemmas SchedInv SchedInv2 SchedProps.

Definition rpj (j : nat) (w : wst) : bool :=
  match w with WRun x | WPost x _ => Nat.eqb x j | _ => false end.

(* number of indices below m satisfying f *)
Fixpoint cnt (f : nat -> bool) (m : nat) : nat :=
  match m with 0 => 0 | S m' => cnt f m' + (if f m' then 1 else 0) end.

Lemma cnt_ext f g m : (forall x, x < m -> f x = g x) -> cnt f m = cnt g m.
Proof. induction m as [|m IH]; cbn; intros H; [reflexivity|]. rewrite IH, H by auto. reflexivity. Qed.

Lemma cnt_le f m : cnt f m <= m.
Proof. induction m as [|m IH]; cbn; [lia|]. destruct (f m); lia. Qed.

Lemma cnt_full f m : cnt f m = m -> forall x, x < m -> f x = true.
Proof.
  induction m as [|m IH]; cbn; intros H x Hx; [lia|].
  pose proof (cnt_le f m). destruct (f m) eqn:E; [|lia].
  destruct (Nat.eq_dec x m) as [->|]; [exact E|]. apply IH; lia.
Qed.

(* flipping f at one point j0 < m from false to true adds one *)
Lemma cnt_flip_up f g m j0 :
  j0 < m -> f j0 = false -> g j0 = true -> (forall x, x <> j0 -> g x = f x) -> cnt g m = S (cnt f m).
Proof.
  induction m as [|m IH]; intros Hj Hf Hg Hx; [lia|]. cbn.
  destruct (Nat.eq_dec j0 m) as [->|Hne].
  - rewrite Hf, Hg. rewrite (cnt_ext g f m); [lia|]. intros x Hlt. apply Hx. lia.
  - rewrite IH by (auto; lia). rewrite (Hx m) by auto. lia.
Qed.

Lemma cnt_imp f g m : (forall x, x < m -> f x = true -> g x = true) -> cnt f m <= cnt g m.
Proof.
  induction m as [|m IH]; cbn; intros H; [lia|].
  specialize (IH ltac:(auto)). destruct (f m) eqn:E; [rewrite (H m) by auto; lia|]. destruct (g m); lia.
Qed.

(* sum over indices of the occurrences in a list whose elements are all below m *)
Lemma cnt_sum_occ (l : list nat) m (f g : nat -> bool) :
  (forall x, In x l -> x < m) ->
  (forall x, x < m -> count_occ Nat.eq_dec l x = if f x && negb (g x) then 1 else 0) ->
  (forall x, x < m -> g x = true -> f x = true) ->
  cnt g m + length l = cnt f m.
Proof.
  revert l. induction m as [|m IH]; intros l Hlt Hc Hm.
  - destruct l as [|x l]; [reflexivity|]. specialize (Hlt x (or_introl eq_refl)). lia.
  - cbn [cnt].
    (* split l into the occurrences of m and the rest *)
    set (l' := filter (fun x => negb (Nat.eqb x m)) l).
    assert (Hl' : length l = length l' + count_occ Nat.eq_dec l m).
    { unfold l'. clear. induction l as [|x l IH]; cbn; [reflexivity|].
      destruct (Nat.eq_dec x m) as [->|Hne].
      - rewrite Nat.eqb_refl. cbn. lia.
      - destruct (Nat.eqb_spec x m); [congruence|]. cbn. lia. }
    assert (Hc' : forall x, x < m -> count_occ Nat.eq_dec l' x = count_occ Nat.eq_dec l x).
    { intros x Hx. unfold l'. clear - Hx. induction l as [|y l IH]; cbn; [reflexivity|].
      destruct (Nat.eqb_spec y m) as [->|Hne]; cbn.
      - destruct (Nat.eq_dec m x); [lia|]. exact IH.
      - destruct (Nat.eq_dec y x); [f_equal|]; exact IH. }
    specialize (IH l').
    rewrite Hl', (Hc m) by lia.
    assert (E : cnt g m + length l' = cnt f m).
    { apply IH.
      - intros x Hx. unfold l' in Hx. apply filter_In in Hx as [Hx Hn].
        specialize (Hlt x Hx). apply negb_true_iff, Nat.eqb_neq in Hn. lia.
      - intros x Hx. rewrite Hc' by auto. apply Hc. lia.
      - intros x Hx. apply Hm. lia. }
    specialize (Hm m ltac:(lia)).
    destruct (f m) eqn:Ef, (g m) eqn:Eg; cbn; try lia.
Qed.

Definition gotj (j : nat) (w : wst) : bool := match w with WGot x => Nat.eqb x j | _ => false end.

Lemma held_split ws j : held ws j = countb (gotj j) ws + countb (rpj j) ws.
Proof.
  unfold held, countb. induction ws as [|w ws IH]; cbn; [reflexivity|].
  destruct w; cbn; try destruct (Nat.eqb _ j); cbn; lia.
Qed.

Lemma countb_nth_pos {A} (p : A -> bool) ws w d : w < length ws -> p (nth w ws d) = true -> 1 <= countb p ws.
Proof.
  revert w. induction ws as [|x ws IH]; intros [|w] H Hp; cbn in *; try lia.
  - unfold countb; cbn. rewrite Hp. cbn. lia.
  - specialize (IH w ltac:(lia) Hp). unfold countb in *; cbn. destruct (p x); cbn; lia.
Qed.

Lemma countb_two {A} (p : A -> bool) ws w1 w2 d :
  w1 <> w2 -> w1 < length ws -> w2 < length ws -> p (nth w1 ws d) = true -> p (nth w2 ws d) = true ->
  2 <= countb p ws.
Proof.
  revert w1 w2. induction ws as [|x ws IH]; intros [|w1] [|w2] Hne H1 H2 P1 P2; cbn in *; try lia.
  - pose proof (countb_nth_pos p ws w2 d ltac:(lia) P2). unfold countb in *; cbn. rewrite P1. cbn. lia.
  - pose proof (countb_nth_pos p ws w1 d ltac:(lia) P1). unfold countb in *; cbn. rewrite P2. cbn. lia.
  - specialize (IH w1 w2 ltac:(lia) ltac:(lia) ltac:(lia) P1 P2). unfold countb in *; cbn. destruct (p x); cbn; lia.
Qed.

Lemma countb_upd_mono {A} (p : A -> bool) ws w x1 d :
  (p (nth w ws d) = true -> p x1 = true) -> countb p ws <= countb p (upd w (fun _ => x1) ws).
Proof.
  intros H. destruct (Nat.lt_ge_cases w (length ws)) as [L|L].
  - pose proof (countb_upd p w (fun _ => x1) ws d L) as E. cbn in E.
    destruct (p (nth w ws d)); [rewrite H in E by auto|destruct (p x1)]; lia.
  - rewrite upd_oob by auto. lia.
Qed.

Lemma nth_upd_same {A} (ws : list A) w x d : w < length ws -> nth w (upd w (fun _ => x) ws) d = x.
Proof. intros H. now rewrite nth_upd_eq. Qed.

Lemma exists_upd_keep (ws : list wst) w x j r :
  (forall r', nth w ws WExit <> WPost j r') ->
  (exists w0, nth w0 ws WExit = WPost j r) -> exists w0, nth w0 (upd w (fun _ => x) ws) WExit = WPost j r.
Proof.
  intros Hn [w0 H]. exists w0. destruct (Nat.eq_dec w w0) as [->|Hne].
  - exfalso. eapply Hn; eauto.
  - now rewrite nth_upd_neq.
Qed.

Section Inv3.
  Variable c : cfg.
  Hypothesis wf : wf_cfg c.
  Notation n := (length (cprog c)).
  Notation deps j := (jdeps (spec c j)).
  Notation jc j := (jctx (spec c j)).

  (* what must be in the history for a result r of job j to exist *)
  Definition resjust (l : list event) (j : nat) (r : option err) : Prop :=
    match r with
    | None => In (EvEnd j OOk) l
    | Some (EUser x) => In (EvEnd j (OErr x)) l
    | Some EExit => In (EvEnd j OGoexit) l
    | Some (ECtx cx) => cx = jc j /\ In (EvSkip j (ECtx cx)) l /\ In (EvCancel cx) l
    | Some EInvalid => In (EvSkip j EInvalid) l
    end.

  Lemma resjust_mono l l' j r : (forall e, In e l -> In e l') -> resjust l j r -> resjust l' j r.
  Proof. intros H. destruct r as [[x|cx| |]|]; cbn; intuition. Qed.

  (* a job is checked (started or skipped) at most once, and started only after
     every dependency ended successfully *)
  Definition checked (j : nat) (e : event) : bool :=
    match e with EvStart x | EvSkip x _ => Nat.eqb x j | _ => false end.

  Fixpoint c01_ok (l : list event) : Prop :=
    match l with
    | [] => True
    | e :: l' =>
        c01_ok l' /\
        match e with
        | EvStart j => existsb (checked j) l' = false /\ forall d, In d (deps j) -> In (EvEnd d OOk) l'
        | EvSkip j _ => existsb (checked j) l' = false
        | EvEnd j _ => forall o, ~ In (EvEnd j o) l'
        | _ => True
        end
    end.

  (* the errors recorded in s.err, oldest first *)
  Fixpoint errs_of (l : list event) : list err :=
    match l with
    | [] => []
    | EvDoneRecv _ (Some x) :: l' => errs_of l' ++ (if is_err x then [x] else [])
    | _ :: l' => errs_of l'
    end.

  Record RInv3 (s : st) : Prop := {
    r3_inv1 : Inv1 c s;
    r3_inv2 : Inv2 c s;
    r3_checked : forall j, existsb (checked j) (log s) = true ->
                 1 <= countb (rpj j) (workers s) + count_occ Nat.eq_dec (map fst (donec s)) j
                      + b2n (jdone (job s j));
    r3_wrun : forall w j, wk s w = WRun j -> In (EvStart j) (log s) /\ forall o, ~ In (EvEnd j o) (log s);
    r3_wpost : forall w j r, wk s w = WPost j r -> resjust (log s) j r;
    r3_donec : forall j r, In (j, r) (donec s) -> resjust (log s) j r;
    r3_done : forall j, jdone (job s j) = true -> resjust (log s) j (jerr (job s j));
    r3_end_start : forall j o, In (EvEnd j o) (log s) -> In (EvStart j) (log s);
    r3_endres : forall j o, In (EvEnd j o) (log s) ->
                (exists w, wk s w = WPost j (res_of o)) \/ In (j, res_of o) (donec s) \/
                (jdone (job s j) = true /\ jerr (job s j) = res_of o);
    r3_skipinv : forall j, In (EvSkip j EInvalid) (log s) -> jinvalid (job s j) = true;
    r3_invalid : forall j, jinvalid (job s j) = true ->
                 ccoe c = true /\ exists d, In d (deps j) /\ jdone (job s d) = true /\ jerr (job s d) <> None;
    r3_hist : c01_ok (log s);
    r3_serr_coe : ccoe c = true -> serr s = errs_of (log s);
    r3_serr_ff : ccoe c = false ->
                 (lp s = LRun /\ serr s = []) \/
                 (lp s <> LRun /\ (serr s = [] \/ exists j e, serr s = [e] /\ In (EvDoneRecv j (Some e)) (log s)));
    r3_donerecv : forall j r, In (EvDoneRecv j r) (log s) -> jdone (job s j) = true /\ jerr (job s j) = r;
    r3_counts : lp s = LRun ->
                pending s = (Z.of_nat (nrecv c s) - Z.of_nat (cnt (fun x => jdone (job s x)) n))%Z /\
                waiting s = Z.of_nat (cnt (waitingj (jobs s)) n);
    r3_exit : lp s <> LRun -> (ccoe c = true \/ serr s = []) -> forall j, j < n -> jdone (job s j) = true;
    r3_cancelled : forall cx, memc cx (cancelled s) = true -> In (EvCancel cx) (log s);
  }.

  Lemma job_init x : job (initc c) x = jst0.
  Proof. apply (jget_repeat (length (cprog c)) x). Qed.

  Lemma wk_init w : wk (initc c) w = WIdle \/ wk (initc c) w = WExit.
  Proof.
    unfold wk. cbn. destruct (Nat.lt_ge_cases w (cN c)).
    - left. now apply nth_repeat_lt.
    - right. apply nth_overflow. now rewrite repeat_length.
  Qed.

  Lemma cnt_false m : cnt (fun _ => false) m = 0.
  Proof. induction m; cbn; lia. Qed.

  Lemma rinv3_init : RInv3 (init c).
  Proof.
    constructor; unfold init; cbn [core_of log]; intros;
      try match goal with H : In _ [] |- _ => destruct H end;
      try discriminate; try tauto.
    - apply inv1_init.
    - apply inv2_init.
    - destruct (wk_init w) as [E|E]; rewrite E in *; discriminate.
    - destruct (wk_init w) as [E|E]; rewrite E in *; discriminate.
    - destruct H.
    - rewrite job_init in *. discriminate.
    - rewrite job_init in *. discriminate.
    - exact I.
    - split.
      + rewrite (cnt_ext _ (fun _ => false)) by (intros; cbv beta; now rewrite job_init).
        rewrite cnt_false. unfold nrecv, sentn. cbn. lia.
      + rewrite (cnt_ext _ (fun _ => false)); [now rewrite cnt_false|].
        intros x _. unfold waitingj. change (jget (jobs (initc c)) x) with (job (initc c) x). now rewrite job_init.
  Qed.

  Ltac ev_cases3 :=
    repeat match goal with
    | H : _ \/ _ |- _ => destruct H as [H|H]
    | H : @eq event _ _ |- _ => first [discriminate H | injection H as ?; subst]
    | H : False |- _ => destruct H
    end.

  Lemma exit_all_done (k : core) :
    Inv1 c k ->
    pending k = (Z.of_nat (nrecv c k) - Z.of_nat (cnt (fun x => jdone (job k x)) n))%Z ->
    pending k = 0%Z -> enq_nil k = true -> forall j, j < n -> jdone (job k j) = true.
  Proof.
    intros I1 Hp H0 Hn. destruct (i1_nil _ _ I1 Hn) as [Hc He].
    pose proof (i1_closed _ _ I1) as Hcl. rewrite Hc in Hcl.
    assert (Hs : nrecv c k = n).
    { unfold nrecv, sentn. rewrite He. destruct (cp k); [discriminate| |]; cbn; lia. }
    rewrite Hs in Hp. pose proof (cnt_le (fun x => jdone (job k x)) n).
    apply (cnt_full (fun x => jdone (job k x)) n). lia.
  Qed.

  Lemma nrecv_same (k k' : core) : cp k' = cp k -> enq k' = enq k -> nrecv c k' = nrecv c k.
  Proof. unfold nrecv, sentn. intros -> ->. reflexivity. Qed.

  Lemma got_facts (k : core) w j :
    Inv2 c k -> nth w (workers k) WExit = WGot j ->
    countb (rpj j) (workers k) + count_occ Nat.eq_dec (map fst (donec k)) j + b2n (jdone (job k j)) = 0 /\
    (forall d, In d (deps j) -> jdone (job k d) = true /\ (jerr (job k d) = None \/ jinvalid (job k j) = true)).
  Proof.
    intros I2 Hw.
    assert (Lw : w < length (workers k)) by (apply (nth_not_default_lt _ _ WExit); rewrite Hw; discriminate).
    pose proof (i2_places_le _ _ _ _ _ I2 j) as P. unfold relc in P. rewrite held_split in P.
    assert (G : 1 <= countb (gotj j) (workers k)).
    { apply (countb_nth_pos _ _ w WExit Lw). rewrite Hw. cbn. apply Nat.eqb_refl. }
    split; [unfold job, jget in *; lia|].
    apply (i2_released _ _ _ _ _ I2 j). unfold relc. rewrite held_split. lia.
  Qed.

  Lemma run_unique (k : core) w1 w2 j :
    Inv2 c k -> holds j (nth w1 (workers k) WExit) = true -> holds j (nth w2 (workers k) WExit) = true -> w1 = w2.
  Proof.
    intros I2 H1 H2. destruct (Nat.eq_dec w1 w2) as [|Hne]; [assumption|exfalso].
    assert (L1 : w1 < length (workers k)).
    { apply (nth_not_default_lt _ _ WExit). intros E. rewrite E in H1. discriminate. }
    assert (L2 : w2 < length (workers k)).
    { apply (nth_not_default_lt _ _ WExit). intros E. rewrite E in H2. discriminate. }
    pose proof (countb_two (holds j) (workers k) w1 w2 WExit Hne L1 L2 H1 H2) as T.
    pose proof (i2_places_le _ _ _ _ _ I2 j) as P. unfold relc, held in P. lia.
  Qed.

  Lemma rinv3_step_easy s a s' :
    match a with ALoopEnqRecv | ALoopDone _ => False | _ => True end ->
    RInv3 s -> step c s a = Some s' -> RInv3 s'.
  Proof.
    intros Ha R H. destruct (step_stepc _ _ _ _ H) as (evs & Hc & Hl).
    pose proof (inv1_step c _ _ _ _ (r3_inv1 _ R) Hc) as I1'.
    pose proof (inv2_step c wf _ _ _ _ (r3_inv1 _ R) (r3_inv2 _ R) Hc) as I2'.
    destruct R as [I1 I2 Rck Rwr Rwp Rdc Rdn Res Rer Rsi Riv Rh Rsc Rsf Rdr Rct Rex Rcn].
    destruct s as [k l]. destruct s' as [k' l'].
    cbn [core_of log] in *. subst l'. clear H.
    unfold job, wk in *.
    destruct a; try contradiction; stepc_inv Hc; fin_step Hc.
    all: constructor; auto; cbn -[Z.of_nat Z.add Z.sub Nat.ltb Z.ltb memc countb nrecv cnt waitingj] in *.
    all: try solve [ intros; ev_cases3; eauto; try congruence
                   | intros; eapply resjust_mono; [|eauto]; intros ? ?; cbn; tauto
                   | tauto ].
    (* r3_wrun, workers untouched or updated *)
    all: try solve [
      intros w0 j0 Hw; try (rewrite nth_upd in Hw; destruct (_ && _) eqn:?; [discriminate Hw|]);
      destruct (Rwr _ _ Hw) as [A B]; split; [tauto | intros o F; ev_cases3; eapply B; eauto] ].
    (* r3_wpost with updated workers *)
    all: try solve [
      intros w0 j0 r0 Hw; rewrite nth_upd in Hw; destruct (_ && _) eqn:?; [discriminate Hw|];
      eapply resjust_mono; [|eapply Rwp; eauto]; intros ? ?; cbn; tauto ].
    (* r3_serr_ff *)
    all: try solve [
      intros Hf; destruct (Rsf Hf) as [[A B]|[A [B|(j1 & e1 & B1 & B2)]]];
      first [ left; split; [assumption|assumption]
            | right; split; [congruence || discriminate|]; first [left; assumption | right; exists j1, e1; split; [assumption|cbn; tauto]]
            | congruence ] ].
    (* r3_counts: nothing relevant changed *)
    all: try solve [
      intros Hr; destruct (Rct Hr) as [A B]; split; [|exact B];
      rewrite A; f_equal; f_equal; unfold nrecv, sentn; cbn;
      repeat match goal with E : cp _ = _ |- _ => rewrite E | E : enq _ = _ |- _ => rewrite E end;
      cbn; try lia;
      match goal with E : (_ =? _) = true |- _ => apply Nat.eqb_eq in E; rewrite E; reflexivity end ].
    (* r3_exit *)
    all: try solve [
      intros _ _; apply (exit_all_done _ I1'); cbn; auto;
        destruct (Rct eq_refl) as [A _]; rewrite A; reflexivity
      | intros A B; apply Rex; auto; congruence ].
    all: unfold wk, job in *.
    all: try match goal with Hw : nth ?w (workers ?kk) WExit = ?x |- _ =>
           assert (Lw : w < length (workers kk)) by (apply (nth_not_default_lt _ _ WExit); rewrite Hw; discriminate) end.
    - (* Dispatch: checked *)
      intros j Hj. specialize (Rck j Hj).
      match goal with |- context [countb (rpj j) (upd ?w (fun _ => ?x) ?ws)] =>
        pose proof (countb_upd_mono (rpj j) ws w x WExit) as M end.
      match goal with Hw : nth _ _ WExit = WIdle |- _ => rewrite Hw in M end. specialize (M ltac:(discriminate)). lia.
    - intros j o Hj. ev_cases3. destruct (Rer j o Hj) as [E|E]; [left|right; exact E].
      apply exists_upd_keep; auto. intros r'. congruence.
    - intros j Hj. specialize (Rck j Hj).
      match goal with |- context [countb (rpj j) (upd ?w (fun _ => ?x) ?ws)] =>
        pose proof (countb_upd_mono (rpj j) ws w x WExit) as M end.
      match goal with Hw : nth _ _ WExit = WIdle |- _ => rewrite Hw in M end. specialize (M ltac:(discriminate)). lia.
    - intros j o Hj. ev_cases3. destruct (Rer j o Hj) as [E|E]; [left|right; exact E].
      apply exists_upd_keep; auto. intros r'. congruence.
    - (* Check, context done: checked *)
      match goal with Hw : nth ?w (workers ?kk) WExit = WGot ?j |- _ =>
        destruct (got_facts kk w j I2 Hw) as [G0 Gd] end.
      intros j0 Hj0. destruct (Nat.eqb_spec j j0) as [->|Hne].
      + match goal with |- context [countb (rpj j0) (upd ?w (fun _ => ?x) ?ws)] =>
          pose proof (countb_nth_pos (rpj j0) (upd w (fun _ => x) ws) w WExit) as M end.
        rewrite upd_length, nth_upd_same in M by auto. specialize (M Lw). cbn in M. rewrite Nat.eqb_refl in M.
        specialize (M eq_refl). lia.
      + cbn in Hj0. specialize (Rck j0 Hj0).
        match goal with |- context [countb (rpj j0) (upd ?w (fun _ => ?x) ?ws)] =>
          pose proof (countb_upd_mono (rpj j0) ws w x WExit) as M end.
        match goal with Hw : nth _ _ WExit = WGot _ |- _ => rewrite Hw in M end. specialize (M ltac:(discriminate)). lia.
    - (* Check, context done: wpost *)
      intros w0 j0 r0 Hw0. rewrite nth_upd in Hw0. destruct (Nat.eqb_spec w w0) as [->|Hne]; cbn [andb] in Hw0.
      + replace (w0 <? length (workers k)) with true in Hw0 by (symmetry; now apply Nat.ltb_lt).
        injection Hw0 as <- <-. cbn. split; [reflexivity|]. split; [now left|]. right. now apply Rcn.
      + eapply resjust_mono; [|eapply Rwp; eauto]. intros ? ?; cbn; tauto.
    - (* endres *)
      intros j0 o0 Hj. ev_cases3. destruct (Rer j0 o0 Hj) as [E|E]; [left|right; exact E].
      apply exists_upd_keep; auto. intros r'. congruence.
    - (* hist *)
      match goal with Hw : nth ?w (workers ?kk) WExit = WGot ?j |- _ =>
        destruct (got_facts kk w j I2 Hw) as [G0 Gd] end.
      split; [assumption|].
      match goal with |- existsb (checked ?j) l = false => destruct (existsb (checked j) l) eqn:Ec; [|reflexivity] end.
      apply Rck in Ec. unfold job in G0. lia.
    - (* Check, invalid: checked *)
      match goal with Hw : nth ?w (workers ?kk) WExit = WGot ?j |- _ =>
        destruct (got_facts kk w j I2 Hw) as [G0 Gd] end.
      intros j0 Hj0. destruct (Nat.eqb_spec j j0) as [->|Hne].
      + match goal with |- context [countb (rpj j0) (upd ?w (fun _ => ?x) ?ws)] =>
          pose proof (countb_nth_pos (rpj j0) (upd w (fun _ => x) ws) w WExit) as M end.
        rewrite upd_length, nth_upd_same in M by auto. specialize (M Lw). cbn in M. rewrite Nat.eqb_refl in M.
        specialize (M eq_refl). lia.
      + cbn in Hj0. specialize (Rck j0 Hj0).
        match goal with |- context [countb (rpj j0) (upd ?w (fun _ => ?x) ?ws)] =>
          pose proof (countb_upd_mono (rpj j0) ws w x WExit) as M end.
        match goal with Hw : nth _ _ WExit = WGot _ |- _ => rewrite Hw in M end. specialize (M ltac:(discriminate)). lia.
    - intros w0 j0 r0 Hw0. rewrite nth_upd in Hw0. destruct (Nat.eqb_spec w w0) as [->|Hne]; cbn [andb] in Hw0.
      + replace (w0 <? length (workers k)) with true in Hw0 by (symmetry; now apply Nat.ltb_lt).
        injection Hw0 as <- <-. cbn. now left.
      + eapply resjust_mono; [|eapply Rwp; eauto]. intros ? ?; cbn; tauto.
    -       intros j0 o0 Hj. ev_cases3. destruct (Rer j0 o0 Hj) as [E|E]; [left|right; exact E].
      apply exists_upd_keep; auto. intros r'. congruence.
    -       match goal with Hw : nth ?w (workers ?kk) WExit = WGot ?j |- _ =>
        destruct (got_facts kk w j I2 Hw) as [G0 Gd] end.
      split; [assumption|].
      match goal with |- existsb (checked ?j) l = false => destruct (existsb (checked j) l) eqn:Ec; [|reflexivity] end.
      apply Rck in Ec. unfold job in G0. lia.
    - (* Start: checked *)
      match goal with Hw : nth ?w (workers ?kk) WExit = WGot ?j |- _ =>
        destruct (got_facts kk w j I2 Hw) as [G0 Gd] end.
      intros j0 Hj0. destruct (Nat.eqb_spec j j0) as [->|Hne].
      + match goal with |- context [countb (rpj j0) (upd ?w (fun _ => ?x) ?ws)] =>
          pose proof (countb_nth_pos (rpj j0) (upd w (fun _ => x) ws) w WExit) as M end.
        rewrite upd_length, nth_upd_same in M by auto. specialize (M Lw). cbn in M. rewrite Nat.eqb_refl in M.
        specialize (M eq_refl). lia.
      + cbn in Hj0. specialize (Rck j0 Hj0).
        match goal with |- context [countb (rpj j0) (upd ?w (fun _ => ?x) ?ws)] =>
          pose proof (countb_upd_mono (rpj j0) ws w x WExit) as M end.
        match goal with Hw : nth _ _ WExit = WGot _ |- _ => rewrite Hw in M end. specialize (M ltac:(discriminate)). lia.
    - (* Start: wrun *)
      intros w0 j0 Hw0. rewrite nth_upd in Hw0. destruct (Nat.eqb_spec w w0) as [->|Hne]; cbn [andb] in Hw0.
      + replace (w0 <? length (workers k)) with true in Hw0 by (symmetry; now apply Nat.ltb_lt).
        injection Hw0 as <-. split; [now left|]. intros o0 [F|F]; [discriminate F|].
        match goal with Hw : nth ?w (workers ?kk) WExit = WGot ?j |- _ =>
          destruct (got_facts kk w j I2 Hw) as [G0 Gd] end.
        apply Res in F. assert (Ec : existsb (checked j) l = true).
        { apply existsb_exists. exists (EvStart j). split; [exact F|cbn; apply Nat.eqb_refl]. }
        apply Rck in Ec. unfold job in G0. lia.
      + destruct (Rwr _ _ Hw0) as [A B]. split; [now right|]. intros o0 [F|F]; [discriminate F|]. eapply B; eauto.
    -       intros j0 o0 Hj. ev_cases3. destruct (Rer j0 o0 Hj) as [E|E]; [left|right; exact E].
      apply exists_upd_keep; auto. intros r'. congruence.
    - (* Start: hist *)
      match goal with Hw : nth ?w (workers ?kk) WExit = WGot ?j |- _ =>
        destruct (got_facts kk w j I2 Hw) as [G0 Gd] end.
      split; [assumption|]. split.
      + match goal with |- existsb (checked ?j) l = false => destruct (existsb (checked j) l) eqn:Ec; [|reflexivity] end.
        apply Rck in Ec. unfold job in G0. lia.
      + intros d Hd. destruct (Gd d Hd) as [Dd [E|E]].
        * specialize (Rdn d Dd). unfold job in E. rewrite E in Rdn. exact Rdn.
        * unfold job in E. congruence.
    - (* End: checked *)
      intros j0 Hj0. specialize (Rck j0 Hj0).
      match goal with |- context [countb (rpj j0) (upd ?w (fun _ => ?x) ?ws)] =>
        pose proof (countb_upd_mono (rpj j0) ws w x WExit) as M end.
      match goal with Hw : nth _ _ WExit = WRun _ |- _ => rewrite Hw in M end. specialize (M ltac:(cbn; auto)). lia.
    - (* End: wrun *)
      intros w0 j0 Hw0. rewrite nth_upd in Hw0. destruct (Nat.eqb_spec w w0) as [->|Hne]; cbn [andb] in Hw0.
      + replace (w0 <? length (workers k)) with true in Hw0 by (symmetry; now apply Nat.ltb_lt). discriminate.
      + destruct (Rwr _ _ Hw0) as [A B]. split; [now right|]. intros o0 [F|F]; [|eapply B; eauto].
        injection F as -> _. apply Hne.
        match goal with Hw : nth w (workers ?kk) WExit = WRun ?jj |- _ =>
          apply (run_unique kk w w0 jj I2); [rewrite Hw|rewrite Hw0]; cbn; apply Nat.eqb_refl end.
    - (* End: wpost *)
      intros w0 j0 r0 Hw0. rewrite nth_upd in Hw0. destruct (Nat.eqb_spec w w0) as [->|Hne]; cbn [andb] in Hw0.
      + replace (w0 <? length (workers k)) with true in Hw0 by (symmetry; now apply Nat.ltb_lt).
        injection Hw0 as <- <-. destruct o; cbn; now left.
      + eapply resjust_mono; [|eapply Rwp; eauto]. intros ? ?; cbn; tauto.
    - (* End: end_start *)
      intros j0 o0 [F|F]; [|right; eapply Res; eauto]. injection F as <- _. right.
      match goal with Hw : nth _ _ WExit = WRun _ |- _ => apply (Rwr _ _ Hw) end.
    - (* End: endres *)
      intros j0 o0 [F|F].
      + injection F as <- <-. left. exists w. now apply nth_upd_same.
      + destruct (Rer j0 o0 F) as [E|E]; [left|right; exact E].
        apply exists_upd_keep; auto. intros r'. congruence.
    - (* End: hist *)
      split; [assumption|]. match goal with Hw : nth _ _ WExit = WRun _ |- _ => apply (Rwr _ _ Hw) end.
    - (* Post: checked *)
      intros j0 Hj0. specialize (Rck j0 Hj0). rewrite count_occ_map_app.
      match goal with |- context [countb (rpj j0) (upd ?w (fun _ => ?x) ?ws)] =>
        pose proof (countb_upd (rpj j0) w (fun _ => x) ws WExit Lw) as M end.
      match goal with Hw : nth _ _ WExit = WPost _ _ |- _ => rewrite Hw in M end. cbn in M.
      unfold b2n in *. destruct (j =? j0), (jdone (nth j0 (jobs k) jst0)); lia.
    - (* Post: donec *)
      intros j0 r0 Hin. apply in_app_or in Hin as [Hin|[Hin|[]]].
      + eapply resjust_mono; [|eapply Rdc; eauto]. intros ? ?; cbn; tauto.
      + injection Hin as <- <-. eapply resjust_mono; [|eapply Rwp; eauto]. intros ? ?; cbn; tauto.
    - (* Post: endres *)
      intros j0 o0 Hj. ev_cases3. destruct (Rer j0 o0 Hj) as [[w0 E]|[E|E]].
      + destruct (Nat.eq_dec w w0) as [->|Hne].
        * right. left. apply in_or_app. right. left.
          match goal with Hw : nth w0 _ WExit = WPost _ _ |- _ => rewrite Hw in E; injection E as -> -> end. reflexivity.
        * left. exists w0. now rewrite nth_upd_neq.
      + right. left. apply in_or_app. now left.
      + right. right. exact E.
    - (* Exit: checked *)
      intros j0 Hj0. specialize (Rck j0 Hj0).
      match goal with |- context [countb (rpj j0) (upd ?w (fun _ => ?x) ?ws)] =>
        pose proof (countb_upd_mono (rpj j0) ws w x WExit) as M end.
      match goal with Hw : nth _ _ WExit = WIdle |- _ => rewrite Hw in M end. specialize (M ltac:(discriminate)). lia.
    - intros j0 o0 Hj. ev_cases3. destruct (Rer j0 o0 Hj) as [E|E]; [left|right; exact E].
      apply exists_upd_keep; auto. intros r'. congruence.
    - (* Cancel *)
      intros cx Hm. unfold memc in Hm. cbn in Hm. apply orb_true_iff in Hm as [Hm|Hm].
      + apply Nat.eqb_eq in Hm. subst. now left.
      + right. now apply Rcn.
  Qed.

  (* ---------- the enqueue arm ---------- *)
  Lemma rinv3_enqrecv s s' : RInv3 s -> step c s ALoopEnqRecv = Some s' -> RInv3 s'.
  Proof.
    intros R H. destruct (step_stepc _ _ _ _ H) as (evs & Hc & Hl).
    pose proof (inv1_step c _ _ _ _ (r3_inv1 _ R) Hc) as I1'.
    pose proof (inv2_step c wf _ _ _ _ (r3_inv1 _ R) (r3_inv2 _ R) Hc) as I2'.
    destruct R as [I1 I2 Rck Rwr Rwp Rdc Rdn Res Rer Rsi Riv Rh Rsc Rsf Rdr Rct Rex Rcn].
    destruct s as [k l]. destruct s' as [k' l'].
    cbn [core_of log] in *. subst l'. clear H.
    pose proof Hc as Hc0. stepc_inv Hc.
    match goal with Hl : lp k = LRun, He : enq k = ?k0 :: ?rest |- _ =>
      destruct (enqrecv_facts c wf k k0 rest I1 I2 Hl He) as (-> & Hkn & Hnr & Pk & Hde & Hot & Rk & Vk);
      rename k0 into j0 end.
    set (js' := reg_deps j0 (deps j0) (jobs k)) in *.
    assert (Jk' : jobs k' = js').
    { fin_step Hc; match goal with |- jobs (if ?b then _ else _) = _ => destruct b; reflexivity
                               | |- jobs (set_lp _ (if ?b then _ else _)) = _ => destruct b; reflexivity end. }
    assert (Wk' : workers k' = workers k /\ donec k' = donec k /\ serr k' = serr k /\ cancelled k' = cancelled k
                  /\ pending k' = (pending k + 1)%Z /\ cp k' = cp k /\ enq k' = [] /\ enq_nil k' = enq_nil k
                  /\ waiting k' = if (remaining (nth j0 js' jst0) =? 0)%Z then waiting k else (waiting k + 1)%Z).
    { fin_step Hc; destruct (remaining (nth j0 js' jst0) =? 0)%Z; cbn; repeat split; reflexivity. }
    destruct Wk' as (Ew & Ed & Ese & Ecn & Epd & Ecp & Eenq & Enil & Ewt).
    assert (Hjob : forall x, jdone (job k' x) = jdone (job k x) /\ jerr (job k' x) = jerr (job k x)).
    { intros x. unfold job. rewrite Jk'. apply Hde. }
    assert (Hinv : forall x, x <> j0 -> jinvalid (job k' x) = jinvalid (job k x)).
    { intros x Hx. unfold job. rewrite Jk'. apply Hot; auto. }
    assert (Hevs : forall e, In e (rev evs ++ l) -> e = EvEnqRecv j0 \/ e = EvLoopExit \/ In e l).
    { intros e He. fin_step Hc; cbn in He; intuition congruence. }
    assert (Hmono : forall e, In e l -> In e (rev evs ++ l)) by (intros; apply in_or_app; now right).
    assert (Hck : forall j, existsb (checked j) (rev evs ++ l) = existsb (checked j) l).
    { intros j. fin_step Hc; reflexivity. }
    constructor; cbn [core_of log]; auto.
    - intros j Hj. rewrite Hck in Hj. rewrite Ew, Ed, (proj1 (Hjob j)). auto.
    - intros w j Hw. unfold wk in Hw. rewrite Ew in Hw. destruct (Rwr w j Hw) as [A B]. split; [auto|].
      intros o F. apply Hevs in F. ev_cases3. eapply B; eauto.
    - intros w j r Hw. unfold wk in Hw. rewrite Ew in Hw. eapply resjust_mono; [exact Hmono|eauto].
    - intros j r Hin. rewrite Ed in Hin. eapply resjust_mono; [exact Hmono|eauto].
    - intros j Hj. rewrite (proj1 (Hjob j)) in Hj. rewrite (proj2 (Hjob j)). eapply resjust_mono; [exact Hmono|eauto].
    - intros j o F. apply Hevs in F. ev_cases3. apply Hmono. eauto.
    - intros j o F. apply Hevs in F. ev_cases3. unfold wk. rewrite Ew, Ed, (proj1 (Hjob j)), (proj2 (Hjob j)). eauto.
    - intros j F. apply Hevs in F. ev_cases3. specialize (Rsi j F).
      destruct (Nat.eq_dec j j0) as [->|Hne]; [|rewrite Hinv; auto].
      unfold job in Rsi. fold (jget (jobs k) j0) in Rsi. rewrite Pk in Rsi. discriminate.
    - intros j Hj. destruct (Nat.eq_dec j j0) as [->|Hne].
      + unfold job in Hj. rewrite Jk' in Hj. fold (jget js' j0) in Hj. rewrite Vk in Hj.
        apply existsb_exists in Hj as (d & Hd & Hf). unfold failed_in in Hf. apply andb_true_iff in Hf as [F1 F2].
        assert (Hcoe : ccoe c = true).
        { destruct (ccoe c) eqn:E; [reflexivity|exfalso].
          match goal with Hl : lp k = LRun |- _ => unfold Inv2 in I2; rewrite Hl in I2 end.
          rewrite (i2_ff _ _ _ _ _ I2 E eq_refl d F1) in F2. discriminate. }
        split; [exact Hcoe|]. exists d. split; [exact Hd|]. rewrite (proj1 (Hjob d)), (proj2 (Hjob d)).
        split; [exact F1|]. unfold job, jget in *. destruct (jerr (nth d (jobs k) jst0)); [discriminate|discriminate F2].
      + rewrite Hinv in Hj by auto. destruct (Riv j Hj) as [A (d & Hd & D1 & D2)]. split; [exact A|].
        exists d. rewrite (proj1 (Hjob d)), (proj2 (Hjob d)). auto.
    - fin_step Hc; cbn; auto.
    - intros Hcoe. rewrite Ese, (Rsc Hcoe). fin_step Hc; reflexivity.
    - intros Hff. rewrite Ese. destruct (Rsf Hff) as [[A B]|[A _]]; [|congruence].
      fin_step Hc.
      + left. split; [|exact B]. match goal with |- lp (if ?b then _ else _) = _ => destruct b; cbn; assumption end.
      + right. split; [cbn; discriminate|]. now left.
    - intros j r F. apply Hevs in F. ev_cases3. rewrite (proj1 (Hjob j)), (proj2 (Hjob j)). eauto.
    - (* counts *)
      intros Hl'. destruct (Rct ltac:(first [assumption|reflexivity])) as [A B].
      assert (Enr : nrecv c k' = S j0).
      { unfold nrecv, sentn. rewrite Ecp, Eenq. cbn. unfold nrecv, sentn in Hnr.
        match goal with He : enq k = _ |- _ => rewrite He in Hnr end. cbn in Hnr.
        pose proof (i1_enq _ _ I1) as Q. match goal with He : enq k = _ |- _ => rewrite He in Q end.
        destruct Q as [Q|[Q Q2]]; [discriminate|]. unfold sentn in *. lia. }
      split.
      + rewrite Epd, A, Enr, Hnr. rewrite (cnt_ext (fun x => jdone (job k' x)) (fun x => jdone (job k x))) by (intros; apply Hjob). lia.
      + assert (Wo : forall x, x <> j0 -> waitingj (jobs k') x = waitingj (jobs k) x).
        { intros x Hx. unfold waitingj. rewrite Jk'. now rewrite (proj1 (Hot x Hx)). }
        assert (Wk0 : waitingj (jobs k) j0 = false) by (unfold waitingj; rewrite Pk; reflexivity).
        rewrite Ewt, B. fold (jget js' j0). rewrite Rk.
        destruct (Z.eqb_spec (Z.of_nat (length (filter (undone_in (jobs k)) (deps j0)))) 0) as [Z0|Z0].
        * f_equal. apply cnt_ext. intros x Hx. destruct (Nat.eq_dec x j0) as [->|Hne]; [|symmetry; apply Wo; auto].
          rewrite Wk0. unfold waitingj. rewrite Jk', Rk, Z0. reflexivity.
        * rewrite (cnt_flip_up (waitingj (jobs k)) (waitingj (jobs k')) n j0).
          -- lia.
          -- exact Hkn.
          -- exact Wk0.
          -- unfold waitingj. rewrite Jk', Rk. apply Z.ltb_lt. lia.
          -- intros x Hx. apply Wo; auto.
    - (* exit *)
      intros Hl' _. destruct (Rct ltac:(first [assumption|reflexivity])) as [A B].
      assert (Enr : nrecv c k' = S j0).
      { unfold nrecv, sentn. rewrite Ecp, Eenq. cbn. unfold nrecv, sentn in Hnr.
        match goal with He : enq k = _ |- _ => rewrite He in Hnr end. cbn in Hnr.
        pose proof (i1_enq _ _ I1) as Q. match goal with He : enq k = _ |- _ => rewrite He in Q end.
        destruct Q as [Q|[Q Q2]]; [discriminate|]. unfold sentn in *. lia. }
      assert (X : pending k' = 0%Z /\ enq_nil k' = true).
      { fin_step Hc.
        - exfalso. apply Hl'. destruct (remaining (nth j0 js' jst0) =? 0)%Z; cbn; assumption.
        - split; [|]; destruct (remaining (nth j0 js' jst0) =? 0)%Z; cbn in *; assumption. }
      destruct X as [X1 X2]. apply (exit_all_done k' I1'); auto.
      rewrite Epd, A, Enr, Hnr.
      rewrite (cnt_ext (fun x => jdone (job k' x)) (fun x => jdone (job k x))) by (intros; apply Hjob). lia.
    - intros cx Hm. rewrite Ecn in Hm. apply Hmono. auto.
  Qed.

  (* ---------- the result arm ---------- *)
  Lemma donec_unique (dc : list (nat * option err)) j0 r1 r2 :
    count_occ Nat.eq_dec (map fst dc) j0 <= 1 -> In (j0, r1) dc -> In (j0, r2) dc -> r1 = r2.
  Proof.
    induction dc as [|[x rx] dc IH]; cbn [map fst In]; intros Hc H1 H2; [contradiction|].
    destruct (Nat.eq_dec x j0) as [E|Hne].
    - subst x. rewrite count_occ_cons_eq in Hc by reflexivity.
      assert (Z0 : count_occ Nat.eq_dec (map fst dc) j0 = 0) by lia.
      assert (Hn : forall r, ~ In (j0, r) dc).
      { intros r Hin. apply (in_map fst) in Hin. cbn in Hin. apply (count_occ_In Nat.eq_dec) in Hin. lia. }
      destruct H1 as [H1|H1]; [|exfalso; eapply Hn; eauto].
      destruct H2 as [H2|H2]; [|exfalso; eapply Hn; eauto]. congruence.
    - rewrite count_occ_cons_neq in Hc by auto.
      destruct H1 as [H1|H1]; [congruence|]. destruct H2 as [H2|H2]; [congruence|]. auto.
  Qed.

  Lemma in_remove_nth_other {A} (l : list A) i x y :
    nth_error l i = Some x -> In y l -> y <> x -> In y (remove_nth i l).
  Proof.
    intros Hn Hin Hne. destruct (nth_error_split_remove _ _ _ Hn) as (l1 & l2 & -> & ->).
    apply in_app_or in Hin as [H|[H|H]]; [apply in_or_app; now left | congruence | apply in_or_app; now right].
  Qed.

  Lemma rinv3_done s i s' : RInv3 s -> step c s (ALoopDone i) = Some s' -> RInv3 s'.
  Proof.
    intros R H. destruct (step_stepc _ _ _ _ H) as (evs & Hc & Hl).
    pose proof (inv1_step c _ _ _ _ (r3_inv1 _ R) Hc) as I1'.
    destruct R as [I1 I2 Rck Rwr Rwp Rdc Rdn Res Rer Rsi Riv Rh Rsc Rsf Rdr Rct Rex Rcn].
    destruct s as [k l]. destruct s' as [k' l'].
    cbn [core_of log] in *. subst l'. clear H.
    assert (Hlk : lp k = LRun).
    { unfold stepc in Hc. destruct (lp k); try discriminate. reflexivity. }
    destruct (nth_error (donec k) i) as [[j0 r]|] eqn:Hn.
    2:{ unfold stepc in Hc. rewrite Hlk, Hn in Hc. discriminate. }
    destruct (done_effect c k i j0 r k' evs I1 I2 Hlk Hn Hc) as [I2' DF].
    pose proof (done_frame_holds c k i j0 r k' evs Hlk Hn Hc) as FR.
    destruct DF as (Hd0 & Hj0n & Fd & Fe & Fe0 & Fi1 & Fi2 & (rell & Erd & Ewt & Frell & Fmono)).
    destruct FR as (Ew & Ed & Ecn & Ecp & Eenq & Enil & Ecl & Epd & Fcase).
    assert (Hin0 : In (j0, r) (donec k)) by (eapply nth_error_In; eauto).
    (* j0 sits in donec exactly once and nowhere else *)
    pose proof (i2_places_le _ _ _ _ _ I2 j0) as Ple. unfold relc in Ple.
    assert (Hc1 : count_occ Nat.eq_dec (map fst (donec k)) j0 = 1).
    { pose proof (count_occ_remove_nth _ _ _ _ j0 Hn) as E. rewrite Nat.eqb_refl in E. cbn in E. lia. }
    assert (Hrp0 : countb (rpj j0) (workers k) = 0).
    { pose proof (held_split (workers k) j0). lia. }
    assert (Hevs : forall e, In e (rev evs ++ l) -> e = EvDoneRecv j0 r \/ e = EvLoopExit \/ In e l).
    { intros e He. destruct Fcase as [(_ & _ & _ & ->)|(_ & _ & [[_ ->]|(_ & -> & _)])]; cbn in He; intuition congruence. }
    assert (Hnew : In (EvDoneRecv j0 r) (rev evs ++ l)).
    { destruct Fcase as [(_ & _ & _ & ->)|(_ & _ & [[_ ->]|(_ & -> & _)])]; cbn; tauto. }
    assert (Hmono : forall e, In e l -> In e (rev evs ++ l)) by (intros; apply in_or_app; now right).
    assert (Hck : forall j, existsb (checked j) (rev evs ++ l) = existsb (checked j) l).
    { intros j. destruct Fcase as [(_ & _ & _ & ->)|(_ & _ & [[_ ->]|(_ & -> & _)])]; reflexivity. }
    assert (Hrm : forall x, count_occ Nat.eq_dec (map fst (donec k')) x + b2n (Nat.eqb j0 x)
                            = count_occ Nat.eq_dec (map fst (donec k)) x).
    { intros x. rewrite Ed. apply (count_occ_remove_nth _ _ _ _ x Hn). }
    constructor; cbn [core_of log]; auto.
    - (* checked *)
      intros j Hj. rewrite Hck in Hj. specialize (Rck j Hj). rewrite Ew, Fd. specialize (Hrm j).
      destruct (Nat.eq_dec j0 j) as [<-|Hne].
      + rewrite Nat.eqb_refl, orb_true_r. cbn. lia.
      + destruct (Nat.eqb_spec j0 j); [congruence|]. destruct (Nat.eqb_spec j j0); [congruence|].
        rewrite orb_false_r. cbn [b2n] in Hrm. lia.
    - intros w j Hw. unfold wk in Hw. rewrite Ew in Hw. destruct (Rwr w j Hw) as [A B]. split; [auto|].
      intros o F. apply Hevs in F. destruct F as [F|[F|F]]; [discriminate F|discriminate F|]. exact (B o F).
    - intros w j r0 Hw. unfold wk in Hw. rewrite Ew in Hw. eapply resjust_mono; [exact Hmono|eauto].
    - intros j r0 Hin. rewrite Ed in Hin. apply remove_nth_In in Hin. eapply resjust_mono; [exact Hmono|eauto].
    - (* done *)
      intros j Hj. rewrite Fd in Hj. destruct (Nat.eq_dec j j0) as [->|Hne].
      + rewrite Fe0. eapply resjust_mono; [exact Hmono|eauto].
      + destruct (Nat.eqb_spec j j0); [congruence|]. rewrite orb_false_r in Hj. rewrite Fe by auto.
        eapply resjust_mono; [exact Hmono|eauto].
    - intros j o F. apply Hevs in F. destruct F as [F|[F|F]]; [discriminate F|discriminate F|]. apply Hmono. eauto.
    - (* endres *)
      intros j o F. apply Hevs in F. destruct F as [F|[F|F]]; [discriminate F|discriminate F|]. destruct (Rer j o F) as [[w E]|[E|[E1 E2]]].
      + left. exists w. unfold wk. now rewrite Ew.
      + destruct (Nat.eq_dec j j0) as [->|Hne].
        * right. right. rewrite Fd, Nat.eqb_refl, orb_true_r. split; [reflexivity|]. rewrite Fe0.
          eapply donec_unique; eauto. lia.
        * right. left. rewrite Ed. eapply in_remove_nth_other; eauto. congruence.
      + right. right. assert (Hne : j <> j0) by (intros ->; unfold job in *; congruence).
        rewrite Fd, E1, Fe by auto. auto.
    - intros j F. apply Hevs in F. destruct F as [F|[F|F]]; [discriminate F|discriminate F|]. auto.
    - (* invalid *)
      intros j Hj. destruct (Fi1 j Hj) as [Hold|(Hcoe & Hr & Hin)].
      + destruct (Riv j Hold) as [A (d & Hd & D1 & D2)]. split; [exact A|]. exists d. split; [exact Hd|].
        assert (Hne : d <> j0) by (intros ->; unfold job in *; congruence).
        rewrite Fd, D1, Fe by auto. auto.
      + split; [exact Hcoe|]. exists j0. split; [exact Hin|]. rewrite Fd, Nat.eqb_refl, orb_true_r, Fe0. auto.
    - (* hist *)
      destruct Fcase as [(_ & _ & _ & ->)|(_ & _ & [[_ ->]|(_ & -> & _)])]; cbn; auto.
    - (* serr coe *)
      intros Hcoe. destruct Fcase as [(Hff & _)|(_ & Es & Fc)]; [congruence|]. rewrite Es, (Rsc Hcoe).
      destruct Fc as [[_ ->]|(_ & -> & _)]; cbn; (destruct r as [e|]; [destruct (is_err e); [reflexivity|now rewrite app_nil_r]|reflexivity]).
    - (* serr ff *)
      intros Hff. destruct Fcase as [(_ & Hl' & (e & Er & Es) & Eev)|(Hor & Es & Fc)].
      + subst r evs. right. split; [congruence|]. right. exists j0, e. split; [exact Es|]. cbn. right. left. congruence.
      + destruct Hor as [Hcoe|Er]; [congruence|]. destruct r; [discriminate Er|].
        destruct (Rsf Hff) as [[_ B]|[A _]]; [|congruence]. rewrite Es, B.
        destruct Fc as [[Hl' _]|(Hl' & _)]; [left; auto|right; split; [congruence|now left]].
    - (* donerecv *)
      intros j r0 F. apply Hevs in F. destruct F as [F|[F|F]]; [injection F as -> ->| discriminate F |].
      + rewrite Fd, Nat.eqb_refl, orb_true_r. auto.
      + destruct (Rdr j r0 F) as [D1 D2]. assert (Hne : j <> j0) by (intros ->; unfold job in *; congruence).
        rewrite Fd, D1, Fe by auto. auto.
    - (* counts *)
      intros Hl'. destruct (Rct Hlk) as [A B]. split.
      + rewrite Epd, A. replace (nrecv c k') with (nrecv c k) by (unfold nrecv, sentn; now rewrite Ecp, Eenq).
        rewrite (cnt_flip_up (fun x => jdone (job k x)) (fun x => jdone (job k' x)) n j0); auto; [lia| |].
        * rewrite Fd, Nat.eqb_refl. apply orb_true_r.
        * intros x Hx. rewrite Fd. destruct (Nat.eqb_spec x j0); [congruence|]. apply orb_false_r.
      + rewrite Ewt, B.
        assert (Wn : forall x, waitingj (jobs k) x = true -> x < n).
        { intros x W. unfold Inv2 in I2. rewrite Hlk in I2. pose proof (i2_nr _ _ _ _ _ I2 eq_refl).
          destruct (Nat.lt_ge_cases x (nrecv c k)); [lia|].
          pose proof (i2_pristine _ _ _ _ _ I2 eq_refl x H0) as P. unfold waitingj in W. rewrite P in W. discriminate. }
        pose proof (cnt_sum_occ rell n (waitingj (jobs k)) (waitingj (jobs k'))) as S.
        rewrite <- S; [lia| | |].
        * intros x Hx. apply (count_occ_In Nat.eq_dec) in Hx. rewrite Frell in Hx.
          destruct (waitingj (jobs k) x) eqn:W; [auto|cbn in Hx; lia].
        * intros x _. apply Frell.
        * intros x _. apply Fmono.
    - (* exit *)
      intros Hl' Hor. destruct Fcase as [(Hff & _ & (e & _ & Es) & _)|(_ & _ & [[Hl'' _]|(_ & _ & P0 & N0)])].
      + destruct Hor as [Hor|Hor]; [congruence|]. rewrite Es in Hor. discriminate.
      + congruence.
      + destruct (Rct Hlk) as [A B]. apply (exit_all_done k' I1'); auto.
        rewrite Epd, A. replace (nrecv c k') with (nrecv c k) by (unfold nrecv, sentn; now rewrite Ecp, Eenq).
        rewrite (cnt_flip_up (fun x => jdone (job k x)) (fun x => jdone (job k' x)) n j0); auto; [lia| |].
        * rewrite Fd, Nat.eqb_refl. apply orb_true_r.
        * intros x Hx. rewrite Fd. destruct (Nat.eqb_spec x j0); [congruence|]. apply orb_false_r.
    - intros cx Hm. rewrite Ecn in Hm. apply Hmono. auto.
  Qed.

  Lemma rinv3_step s a s' : RInv3 s -> step c s a = Some s' -> RInv3 s'.
  Proof.
    intros R H. destruct a; try (eapply rinv3_step_easy; eauto; exact I).
    - eapply rinv3_enqrecv; eauto.
    - eapply rinv3_done; eauto.
  Qed.

  Lemma run_rinv3 acts s : run c (init c) acts = Some s -> RInv3 s.
  Proof. apply run_invariant; [apply rinv3_init | apply rinv3_step]. Qed.
End Inv3.
