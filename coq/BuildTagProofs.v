From CffVerif Require Import BuildTagModel.

Lemma flip_cff_cff tags : flip_cff tags cff_tag = negb (tags cff_tag).
Proof. reflexivity. Qed.

Lemma flip_cff_other tags t : t <> cff_tag -> flip_cff tags t = tags t.
Proof. intros H. unfold flip_cff. destruct (Nat.eqb_spec t cff_tag); congruence. Qed.

(* strong induction on the size, because of the nested [Not (Not y)] case *)
Fixpoint esize (e : expr) : nat :=
  match e with
  | Tag _ => 1
  | Not x => S (esize x)
  | And a b | Or a b => S (esize a + esize b)
  end.

Lemma expr_size_ind (P : expr -> Prop) :
  (forall e, (forall e', esize e' < esize e -> P e') -> P e) -> forall e, P e.
Proof.
  intros H e. remember (esize e) as n eqn:Hn.
  revert e Hn. induction n as [n IH] using lt_wf_ind. intros e ->.
  apply H. intros e' Hlt. eapply IH; [exact Hlt | reflexivity].
Qed.

Lemma invert_correct : forall e tags, eval tags (invert e) = eval (flip_cff tags) e.
Proof.
  induction e as [e IH] using expr_size_ind. intros tags.
  destruct e as [t | x | a b | a b]; cbn [invert eval].
  - destruct (Nat.eqb_spec t cff_tag) as [-> | Hne]; cbn [eval].
    + now rewrite flip_cff_cff.
    + now rewrite flip_cff_other.
  - destruct x as [t | y | a b | a b].
    + destruct (Nat.eqb_spec t cff_tag) as [-> | Hne]; cbn [eval].
      * rewrite flip_cff_cff. now rewrite negb_involutive.
      * cbn [invert eval].
        destruct (Nat.eqb_spec t cff_tag); [contradiction|]. cbn [eval].
        now rewrite flip_cff_other.
    + cbn [eval]. rewrite negb_involutive. apply IH. cbn; lia.
    + change (negb (eval tags (invert (And a b))) = negb (eval (flip_cff tags) (And a b))).
      f_equal. apply IH. cbn; lia.
    + change (negb (eval tags (invert (Or a b))) = negb (eval (flip_cff tags) (Or a b))).
      f_equal. apply IH. cbn; lia.
  - rewrite !IH by (cbn; lia). reflexivity.
  - rewrite !IH by (cbn; lia). reflexivity.
Qed.

(* the inverted constraint can always be printed and parsed back (no "!!") *)
Lemma invert_printable : forall e, printable (invert e) = true.
Proof.
  induction e as [e IH] using expr_size_ind.
  destruct e as [t | x | a b | a b]; cbn [invert].
  - destruct (Nat.eqb t cff_tag); reflexivity.
  - destruct x as [t | y | a b | a b].
    + destruct (Nat.eqb_spec t cff_tag) as [-> | Hne]; [reflexivity|].
      cbn [invert]. destruct (Nat.eqb_spec t cff_tag); [contradiction | reflexivity].
    + apply IH. cbn; lia.
    + change (printable (Not (And (invert a) (invert b))) = true).
      cbn [printable]. rewrite !IH by (cbn; lia). reflexivity.
    + change (printable (Not (Or (invert a) (invert b))) = true).
      cbn [printable]. rewrite !IH by (cbn; lia). reflexivity.
  - cbn [printable]. rewrite !IH by (cbn; lia). reflexivity.
  - cbn [printable]. rewrite !IH by (cbn; lia). reflexivity.
Qed.

Lemma flip_cff_involutive tags t : flip_cff (flip_cff tags) t = tags t.
Proof.
  unfold flip_cff. destruct (Nat.eqb_spec t cff_tag); [apply negb_involutive | reflexivity].
Qed.

Lemma eval_ext e : forall t1 t2, (forall t, t1 t = t2 t) -> eval t1 e = eval t2 e.
Proof.
  induction e as [t | x IH | a IHa b IHb | a IHa b IHb]; intros t1 t2 H; cbn [eval].
  - apply H.
  - f_equal. now apply IH.
  - f_equal; [now apply IHa | now apply IHb].
  - f_equal; [now apply IHa | now apply IHb].
Qed.

(* inverting twice gives an expression with the original meaning *)
Lemma invert_invert_sem e tags : eval tags (invert (invert e)) = eval tags e.
Proof.
  rewrite !invert_correct. apply eval_ext. apply flip_cff_involutive.
Qed.

(* a printable expression that does not mention cff is left untouched *)
Lemma invert_no_cff : forall e, has_cff e = false -> printable e = true -> invert e = e.
Proof.
  induction e as [e IH] using expr_size_ind. intros H Hp.
  destruct e as [t | x | a b | a b].
  - cbn [has_cff invert] in *. now rewrite H.
  - destruct x as [t | y | a b | a b].
    + cbn [has_cff invert] in *. now rewrite H.
    + discriminate Hp.
    + change (Not (invert (And a b)) = Not (And a b)). f_equal.
      apply IH; [cbn; lia | exact H | exact Hp].
    + change (Not (invert (Or a b)) = Not (Or a b)). f_equal.
      apply IH; [cbn; lia | exact H | exact Hp].
  - cbn [has_cff invert printable] in *. apply orb_false_iff in H as [Ha Hb].
    apply andb_true_iff in Hp as [Pa Pb]. rewrite !IH; auto; cbn; lia.
  - cbn [has_cff invert printable] in *. apply orb_false_iff in H as [Ha Hb].
    apply andb_true_iff in Hp as [Pa Pb]. rewrite !IH; auto; cbn; lia.
Qed.

(* ---------- header ---------- *)

Section Header.
  Variable plus_lines : expr -> list expr.
  Hypothesis plus_lines_ok :
    forall e tags, forallb (eval tags) (plus_lines e) = eval tags e.

  Lemma gobuild_of_app_nogb h1 h2 :
    gobuild_of h1 = None -> gobuild_of (h1 ++ h2) = gobuild_of h2.
  Proof.
    induction h1 as [|l h1 IH]; cbn; [reflexivity|].
    destruct l; try discriminate; auto.
  Qed.

  Lemma gobuild_invert_line_none l :
    (forall e, l <> LGoBuild e) -> gobuild_of (invert_line plus_lines l) = None.
  Proof.
    intros H. destruct l as [e|e|p]; cbn.
    - exfalso. now apply (H e).
    - induction (plus_lines (invert e)); cbn; auto.
    - reflexivity.
  Qed.

  Lemma header_gobuild h :
    gobuild_of (invert_header plus_lines h) = option_map invert (gobuild_of h).
  Proof.
    induction h as [|l h IH]; cbn [invert_header flat_map gobuild_of]; [reflexivity|].
    destruct l as [e|e|p].
    - reflexivity.
    - rewrite gobuild_of_app_nogb; [exact IH|].
      apply gobuild_invert_line_none. intros e' He; discriminate.
    - cbn. exact IH.
  Qed.

  Lemma plusbuild_sel_app tags h1 h2 :
    plusbuild_sel tags (h1 ++ h2) = plusbuild_sel tags h1 && plusbuild_sel tags h2.
  Proof.
    induction h1 as [|l h1 IH]; cbn; [reflexivity|].
    destruct l; rewrite ?IH, ?andb_assoc; reflexivity.
  Qed.

  Lemma plusbuild_sel_map tags es :
    plusbuild_sel tags (map LPlusBuild es) = forallb (eval tags) es.
  Proof. induction es as [|e es IH]; cbn; [reflexivity | now rewrite IH]. Qed.

  Lemma header_plusbuild h tags :
    plusbuild_sel tags (invert_header plus_lines h) = plusbuild_sel (flip_cff tags) h.
  Proof.
    induction h as [|l h IH]; cbn [invert_header flat_map]; [reflexivity|].
    rewrite plusbuild_sel_app. fold (invert_header plus_lines h). rewrite IH.
    destruct l as [e|e|p]; cbn [invert_line plusbuild_sel]; try reflexivity.
    rewrite plusbuild_sel_map, plus_lines_ok, invert_correct. reflexivity.
  Qed.

  Lemma others_app h1 h2 : others (h1 ++ h2) = others h1 ++ others h2.
  Proof. unfold others. apply flat_map_app. Qed.

  Lemma header_others h : others (invert_header plus_lines h) = others h.
  Proof.
    induction h as [|l h IH]; cbn [invert_header flat_map]; [reflexivity|].
    rewrite others_app. fold (invert_header plus_lines h). rewrite IH.
    destruct l as [e|e|p]; cbn; try reflexivity.
    assert (H : others (map LPlusBuild (plus_lines (invert e))) = []).
    { induction (plus_lines (invert e)); cbn; auto. }
    unfold others in H. rewrite H. reflexivity.
  Qed.

  (* the generated header selects exactly when the source header would with cff flipped *)
  Theorem header_selected h tags :
    option_map (eval tags) (gobuild_of (invert_header plus_lines h))
      = option_map (eval (flip_cff tags)) (gobuild_of h)
    /\ plusbuild_sel tags (invert_header plus_lines h) = plusbuild_sel (flip_cff tags) h
    /\ others (invert_header plus_lines h) = others h.
  Proof.
    split; [|split].
    - rewrite header_gobuild. destruct (gobuild_of h); cbn; [|reflexivity].
      now rewrite invert_correct.
    - apply header_plusbuild.
    - apply header_others.
  Qed.
End Header.

(* ---------- splice ---------- *)

Section Splice.
  Variable A : Type.
  Implicit Types src : list A.

  Lemma splice_interleave src (gens : list (dgen A)) last :
    splice src last gens = interleave (segments src last gens) (map dtext gens).
  Proof.
    revert last. induction gens as [|g gs IH]; intros last; cbn; [reflexivity|].
    now rewrite IH.
  Qed.

  Lemma skipn_skipn' (l : list A) : forall a b, skipn b (skipn a l) = skipn (a + b) l.
  Proof.
    induction l as [|x l IH]; intros a b.
    - now rewrite !skipn_nil.
    - destruct a; cbn; [reflexivity | apply IH].
  Qed.

  Lemma skipn_slice src a b :
    a <= b -> b <= length src -> skipn a src = slice src a b ++ skipn b src.
  Proof.
    intros Hab Hb. unfold slice.
    rewrite <- (firstn_skipn (b - a) (skipn a src)) at 1. f_equal.
    rewrite skipn_skipn'. f_equal. lia.
  Qed.

  Lemma wf_gens_le len last (gens : list (dgen A)) : wf_gens len last gens -> last <= len.
  Proof.
    revert last. induction gens as [|g gs IH]; cbn; intros last H; [exact H|].
    destruct H as (H1 & H2 & H3). apply IH in H3. lia.
  Qed.

  (* the source is the same interleaving with the directive texts in the holes *)
  Lemma source_interleave src (gens : list (dgen A)) last :
    wf_gens (length src) last gens ->
    skipn last src =
    interleave (segments src last gens) (map (fun g => slice src (dpos g) (dend g)) gens).
  Proof.
    revert last. induction gens as [|g gs IH]; intros last H; cbn; [reflexivity|].
    destruct H as (H1 & H2 & H3).
    pose proof (wf_gens_le _ _ _ H3) as Hle.
    rewrite <- IH by exact H3.
    rewrite (skipn_slice src last (dpos g)) by lia.
    f_equal. apply skipn_slice; lia.
  Qed.
End Splice.

(* ---------- file names ---------- *)

Lemma list_eqb_eq a : forall b, list_eqb a b = true <-> a = b.
Proof.
  induction a as [|x a IH]; intros [|y b]; cbn; split; intros H; try discriminate; auto.
  - apply andb_true_iff in H as [H1 H2]. apply Nat.eqb_eq in H1. apply IH in H2. congruence.
  - injection H as -> ->. rewrite Nat.eqb_refl. now apply IH.
Qed.

Lemma has_suffix_spec s suf : has_suffix s suf = true <-> exists p, s = p ++ suf.
Proof.
  unfold has_suffix. split.
  - intros H. apply andb_true_iff in H as [H1 H2]. apply Nat.leb_le in H1.
    apply list_eqb_eq in H2. exists (firstn (length s - length suf) s).
    pose proof (firstn_skipn (length s - length suf) s) as E.
    rewrite H2 in E. now symmetry.
  - intros [p ->]. rewrite app_length.
    apply andb_true_iff. split; [apply Nat.leb_le; lia|].
    apply list_eqb_eq.
    replace (length p + length suf - length suf) with (length p) by lia.
    rewrite skipn_app, skipn_all, Nat.sub_diag. reflexivity.
Qed.

Lemma trim_suffix_app p suf : trim_suffix (p ++ suf) suf = p.
Proof.
  unfold trim_suffix.
  assert (H : has_suffix (p ++ suf) suf = true) by (apply has_suffix_spec; eauto).
  rewrite H, app_length.
  replace (length p + length suf - length suf) with (length p) by lia.
  rewrite firstn_app, firstn_all, Nat.sub_diag. cbn. apply app_nil_r.
Qed.

Lemma app_inv_tail_len (p q s1 s2 : str) :
  length s1 = length s2 -> p ++ s1 = q ++ s2 -> p = q /\ s1 = s2.
Proof.
  intros Hl H.
  assert (Hpq : length p = length q).
  { apply (f_equal (@length nat)) in H. rewrite !app_length in H. lia. }
  revert q Hpq H. induction p as [|x p IH]; intros [|y q] Hpq H; try discriminate.
  - auto.
  - cbn in H. injection H as -> H. cbn in Hpq. destruct (IH q) as [-> ->]; auto.
Qed.

(* foo.go -> foo_gen.go ; foo_test.go -> foo_gen_test.go *)
Lemma gen_filename_test p : gen_filename (p ++ s_test_go) = p ++ s_gen_test_go.
Proof.
  unfold gen_filename.
  assert (H : has_suffix (p ++ s_test_go) s_test_go = true) by (apply has_suffix_spec; eauto).
  rewrite H, trim_suffix_app. reflexivity.
Qed.

Lemma gen_filename_plain p :
  has_suffix (p ++ s_go) s_test_go = false -> gen_filename (p ++ s_go) = p ++ s_gen_go.
Proof.
  intros H. unfold gen_filename. rewrite H, trim_suffix_app. reflexivity.
Qed.

Lemma suffix_last_two (p q : str) a b a' b' :
  p ++ [a; b] = q ++ [a'; b'] -> a = a' /\ b = b'.
Proof.
  intros H. apply app_inv_tail_len in H as [_ H]; [|reflexivity]. now injection H.
Qed.

(* no two .go source names of a directory map to the same output name *)
Theorem gen_filename_injective a b :
  has_suffix a s_go = true -> has_suffix b s_go = true ->
  gen_filename a = gen_filename b -> a = b.
Proof.
  intros Ha Hb.
  apply has_suffix_spec in Ha as [pa ->]. apply has_suffix_spec in Hb as [pb ->].
  destruct (has_suffix (pa ++ s_go) s_test_go) eqn:Ta;
  destruct (has_suffix (pb ++ s_go) s_test_go) eqn:Tb.
  - apply has_suffix_spec in Ta as [qa Ea]. apply has_suffix_spec in Tb as [qb Eb].
    rewrite Ea, Eb, !gen_filename_test. intros H.
    apply app_inv_tail_len in H as [-> _]; reflexivity.
  - apply has_suffix_spec in Ta as [qa Ea].
    rewrite Ea, gen_filename_test, gen_filename_plain by exact Tb. intros H. exfalso.
    (* qa ++ "_gen_test.go" = pb ++ "_gen.go": then pb ends with "_test" hence pb.go is a test file *)
    assert (E : qa ++ s_gen_test_go = (qa ++ [95;103;101;110;95;116;101;115;116]) ++ s_go)
      by (rewrite <- app_assoc; reflexivity).
    assert (E2 : pb ++ s_gen_go = (pb ++ [95;103;101;110]) ++ s_go)
      by (rewrite <- app_assoc; reflexivity).
    rewrite E, E2 in H. apply app_inv_tail_len in H as [H _]; [|reflexivity].
    change [95;103;101;110;95;116;101;115;116] with ([95;103;101;110;95;116;101] ++ [115;116]) in H.
    change [95;103;101;110] with ([95;103] ++ [101;110]) in H.
    rewrite !app_assoc in H. apply suffix_last_two in H as [H1 _]. discriminate.
  - apply has_suffix_spec in Tb as [qb Eb].
    rewrite Eb, gen_filename_test, gen_filename_plain by exact Ta. intros H. exfalso.
    assert (E : qb ++ s_gen_test_go = (qb ++ [95;103;101;110;95;116;101;115;116]) ++ s_go)
      by (rewrite <- app_assoc; reflexivity).
    assert (E2 : pa ++ s_gen_go = (pa ++ [95;103;101;110]) ++ s_go)
      by (rewrite <- app_assoc; reflexivity).
    rewrite E, E2 in H. apply app_inv_tail_len in H as [H _]; [|reflexivity].
    change [95;103;101;110;95;116;101;115;116] with ([95;103;101;110;95;116;101] ++ [115;116]) in H.
    change [95;103;101;110] with ([95;103] ++ [101;110]) in H.
    rewrite !app_assoc in H. apply suffix_last_two in H as [H1 _]. discriminate.
  - rewrite !gen_filename_plain by assumption. intros H.
    apply app_inv_tail_len in H as [-> _]; reflexivity.
Qed.

(* an output name is never itself the output name's own input: foo.go <> foo_gen.go *)
Lemma gen_filename_not_fixpoint a : has_suffix a s_go = true -> gen_filename a <> a.
Proof.
  intros Ha H. apply (f_equal (@length nat)) in H. revert H.
  apply has_suffix_spec in Ha as [pa ->].
  destruct (has_suffix (pa ++ s_go) s_test_go) eqn:Ta.
  - apply has_suffix_spec in Ta as [qa Ea]. rewrite Ea, gen_filename_test, !app_length. cbn. lia.
  - rewrite gen_filename_plain by exact Ta. rewrite !app_length. cbn. lia.
Qed.
