(* What compile_parallel.go guarantees about every function of an accepted cff.Parallel:
   a task or End function takes at most the context and returns at most an error; a slice
   function takes (ctx?, index int?, element) with the collection's element type assignable
   to the element parameter, a map function (ctx?, key, value) likewise - so the generated
   calls fn(ctx, idx, val) type-check; at most one End hook per collection and none together
   with ContinueOnError. *)
From CffVerif Require Import SignatureModel SignatureProofs ParSigModel.

Definition ctx_part (f : cfunc) : list gty := if cf_wantctx f then [GCtx] else [].
Definition err_part (f : cfunc) : list gty := if cf_haserr f then [GErr] else [].

Lemma nullary_shape s f : compile_function s = inl f -> cf_inputs f = [] -> cf_outputs f = [] ->
  sg_params s = ctx_part f /\ sg_results s = err_part f.
Proof.
  intros H Hi Ho. destruct (call_matches_signature s f H) as (Ha & Hb & _).
  unfold call_args, call_binds in *. rewrite Hi in Ha. rewrite Ho in Hb. rewrite app_nil_r in Ha. cbn [app] in Hb.
  split; symmetry; assumption.
Qed.

Theorem par_task_shape s f : compile_par_task s = inl f ->
  compile_function s = inl f /\ sg_params s = ctx_part f /\ sg_results s = err_part f.
Proof.
  unfold compile_par_task. destruct (compile_function s) as [g|d] eqn:Hc; [|discriminate].
  destruct (cf_inputs g) eqn:Hi; [|discriminate]. destruct (cf_outputs g) eqn:Ho; [|discriminate].
  intros H. injection H as <-. split; [reflexivity|]. now apply nullary_shape.
Qed.

Theorem end_shape s f : compile_end s = inl f ->
  compile_function s = inl f /\ sg_params s = ctx_part f /\ sg_results s = err_part f.
Proof.
  unfold compile_end. destruct (compile_function s) as [g|d] eqn:Hc; [|discriminate].
  destruct (cf_inputs g) eqn:Hi; [|discriminate]. destruct (cf_outputs g) eqn:Ho; [|discriminate].
  intros H. injection H as <-. split; [reflexivity|]. now apply nullary_shape.
Qed.

(* the option loop keeps the first End function that compiles; it is silent only if there is
   at most one End option and it compiles *)
Lemma compile_end_diag_nonempty x ds : compile_end x = inr ds -> ds <> [].
Proof.
  unfold compile_end. destruct (compile_function x) as [f|d]; [|intros H; injection H as <-; discriminate].
  destruct (cf_inputs f); [destruct (cf_outputs f); [discriminate|]|]; intros H; injection H as <-; discriminate.
Qed.

Lemma apply_ends_some ends : forall c0 e ds, apply_ends ends (Some c0) = (e, ds) ->
  e = Some c0 /\ (ds = [] -> ends = []).
Proof.
  induction ends as [|x r IH]; intros c0 e ds H; cbn [apply_ends] in H.
  - injection H as <- <-. auto.
  - destruct (compile_end x) as [f|dx] eqn:Hx.
    + destruct (apply_ends r (Some c0)) as [c ds'] eqn:Hr. injection H as <- <-.
      destruct (IH _ _ _ Hr) as [-> _]. split; [reflexivity | discriminate].
    + destruct (apply_ends r (Some c0)) as [c ds'] eqn:Hr. injection H as <- <-.
      destruct (IH _ _ _ Hr) as [-> _]. split; [reflexivity|].
      intros Hn. apply app_eq_nil in Hn. destruct Hn as [Hdx _]. exfalso. exact (compile_end_diag_nonempty _ _ Hx Hdx).
Qed.

Theorem ends_spec ends e ds : apply_ends ends None = (e, ds) ->
  (forall f, e = Some f -> exists x, In x ends /\ compile_end x = inl f) /\
  (e = None -> forall x, In x ends -> exists dx, compile_end x = inr dx) /\
  (ds = [] -> ends = [] \/ exists x f, ends = [x] /\ compile_end x = inl f /\ e = Some f).
Proof.
  revert e ds. induction ends as [|x r IH]; intros e ds H; cbn [apply_ends] in H.
  - injection H as <- <-. split; [discriminate|]. split; [intros _ y []|]. auto.
  - destruct (compile_end x) as [f|dx] eqn:Hx.
    + destruct (apply_ends_some _ _ _ _ H) as [-> Hnil]. split; [|split].
      * intros g Hg. injection Hg as <-. exists x. split; [now left | exact Hx].
      * discriminate.
      * intros Hd. right. exists x, f. rewrite (Hnil Hd). auto.
    + destruct (apply_ends r None) as [c ds'] eqn:Hr. injection H as <- <-.
      destruct (IH _ _ eq_refl) as (H1 & H2 & _). split; [|split].
      * intros g Hg. destruct (H1 g Hg) as [y [Hy Hc]]. exists y. split; [now right | exact Hc].
      * intros Hn y [<-|Hy]; [now exists dx | now apply H2].
      * intros Hd. apply app_eq_nil in Hd. destruct Hd as [Hdx _]. exfalso. exact (compile_end_diag_nonempty _ _ Hx Hdx).
Qed.

Lemma par_task_diag_nonempty s ds : compile_par_task s = inr ds -> ds <> [].
Proof.
  unfold compile_par_task. destruct (compile_function s) as [f|d]; [|intros H; injection H as <-; discriminate].
  destruct (cf_inputs f); [destruct (cf_outputs f); [discriminate|]|]; intros H; injection H as <-; discriminate.
Qed.

Section Assignable.
  Variable assignable : gty -> gty -> bool.

  (* the generated element call of an accepted slice type-checks *)
  Theorem slice_shape fn elem ends t ds : compile_slice assignable fn elem ends = (Some t, ds) ->
    compile_function fn = inl (sl_fn t) /\
    (exists p, sg_params fn = slice_call_args t p /\ assignable elem p = true) /\
    sg_results fn = err_part (sl_fn t) /\
    (forall e, sl_end t = Some e -> exists x, In x ends /\ compile_end x = inl e).
  Proof.
    unfold compile_slice. destruct (compile_function fn) as [f|d] eqn:Hc; [|discriminate].
    destruct (call_matches_signature fn f Hc) as (Ha & Hb & _). unfold call_args, call_binds in *.
    destruct (cf_outputs f) eqn:Ho; [|discriminate]. cbn [app] in Hb.
    destruct (cf_inputs f) as [|a [|b [|c l]]] eqn:Hi; try discriminate.
    - destruct (assignable elem a) eqn:Has; [|discriminate].
      destruct (apply_ends ends None) as [e ds'] eqn:He. intros H. injection H as <- <-. cbn [sl_fn sl_hasidx sl_end].
      split; [reflexivity|]. split; [|split].
      + exists a. split; [|exact Has]. unfold slice_call_args. cbn [sl_fn sl_hasidx app]. symmetry. exact Ha.
      + symmetry. exact Hb.
      + intros e' He'. exact (proj1 (ends_spec _ _ _ He) e' He').
    - destruct (is_int a) eqn:Hint; [|discriminate]. cbn [negb].
      destruct (assignable elem b) eqn:Has; [|discriminate].
      destruct (apply_ends ends None) as [e ds'] eqn:He. intros H. injection H as <- <-. cbn [sl_fn sl_hasidx sl_end].
      split; [reflexivity|]. split; [|split].
      + exists b. split; [|exact Has]. unfold slice_call_args. cbn [sl_fn sl_hasidx app].
        assert (a = GInt) by (destruct a as [| | |n]; try discriminate; cbn in Hint; apply Nat.eqb_eq in Hint; now subst).
        subst a. symmetry. exact Ha.
      + symmetry. exact Hb.
      + intros e' He'. exact (proj1 (ends_spec _ _ _ He) e' He').
  Qed.

  Theorem map_shape fn key val ends t ds : compile_map assignable fn key val ends = (Some t, ds) ->
    compile_function fn = inl (mp_fn t) /\
    (exists k v, sg_params fn = ctx_part (mp_fn t) ++ [k; v] /\ assignable key k = true /\ assignable val v = true) /\
    sg_results fn = err_part (mp_fn t) /\
    (forall e, mp_end t = Some e -> exists x, In x ends /\ compile_end x = inl e).
  Proof.
    unfold compile_map. destruct (compile_function fn) as [f|d] eqn:Hc; [|discriminate].
    destruct (call_matches_signature fn f Hc) as (Ha & Hb & _). unfold call_args, call_binds in *.
    destruct (cf_outputs f) eqn:Ho; [|discriminate]. cbn [app] in Hb.
    destruct (cf_inputs f) as [|a [|b [|c l]]] eqn:Hi; try discriminate.
    destruct (assignable key a) eqn:Hk; [|discriminate]. destruct (assignable val b) eqn:Hv; [|discriminate]. cbn [negb].
    destruct (apply_ends ends None) as [e ds'] eqn:He. intros H. injection H as <- <-. cbn [mp_fn mp_end].
    split; [reflexivity|]. split; [|split].
    - exists a, b. split; [symmetry; exact Ha | auto].
    - symmetry. exact Hb.
    - intros e' He'. exact (proj1 (ends_spec _ _ _ He) e' He').
  Qed.

  Lemma ends_silent_length ends e : apply_ends ends None = (e, []) -> length ends <= 1.
  Proof.
    intros H. destruct (ends_spec _ _ _ H) as (_ & _ & Hs). destruct (Hs eq_refl) as [->|(x & f & -> & _)]; cbn; lia.
  Qed.

  Lemma slice_ends_silent fn elem ends t : compile_slice assignable fn elem ends = (Some t, []) -> length ends <= 1.
  Proof.
    unfold compile_slice. destruct (compile_function fn) as [f|d]; [|discriminate].
    destruct (cf_outputs f); [|discriminate]. destruct (cf_inputs f) as [|a [|b [|c l]]]; try discriminate.
    - destruct (assignable elem a); [|discriminate]. destruct (apply_ends ends None) as [e ds] eqn:He.
      intros H. injection H as _ ->. exact (ends_silent_length _ _ He).
    - destruct (negb (is_int a)); [discriminate|]. destruct (assignable elem b); [|discriminate].
      destruct (apply_ends ends None) as [e ds] eqn:He. intros H. injection H as _ ->. exact (ends_silent_length _ _ He).
  Qed.

  Lemma map_ends_silent fn key val ends t : compile_map assignable fn key val ends = (Some t, []) -> length ends <= 1.
  Proof.
    unfold compile_map. destruct (compile_function fn) as [f|d]; [|discriminate].
    destruct (cf_outputs f); [|discriminate]. destruct (cf_inputs f) as [|a [|b [|c l]]]; try discriminate.
    destruct (negb (assignable key a)); [discriminate|]. destruct (negb (assignable val b)); [discriminate|].
    destruct (apply_ends ends None) as [e ds] eqn:He. intros H. injection H as _ ->. exact (ends_silent_length _ _ He).
  Qed.

  Lemma slice_none_diag fn elem ends ds : compile_slice assignable fn elem ends = (None, ds) -> ds <> [].
  Proof.
    unfold compile_slice. destruct (compile_function fn) as [f|d]; [|intros H; injection H as <-; discriminate].
    destruct (cf_outputs f); [|intros H; injection H as <-; discriminate].
    destruct (cf_inputs f) as [|a [|b [|c l]]]; try (intros H; injection H as <-; discriminate).
    - destruct (assignable elem a); [destruct (apply_ends ends None); discriminate | intros H; injection H as <-; discriminate].
    - destruct (negb (is_int a)); [intros H; injection H as <-; discriminate|].
      destruct (assignable elem b); [destruct (apply_ends ends None); discriminate | intros H; injection H as <-; discriminate].
  Qed.

  Lemma map_none_diag fn key val ends ds : compile_map assignable fn key val ends = (None, ds) -> ds <> [].
  Proof.
    unfold compile_map. destruct (compile_function fn) as [f|d]; [|intros H; injection H as <-; discriminate].
    destruct (cf_outputs f); [|intros H; injection H as <-; discriminate].
    destruct (cf_inputs f) as [|a [|b [|c l]]]; try (intros H; injection H as <-; discriminate).
    destruct (negb (assignable key a)); [intros H; injection H as <-; discriminate|].
    destruct (negb (assignable val b)); [intros H; injection H as <-; discriminate|].
    destruct (apply_ends ends None); discriminate.
  Qed.

  (* an accepted Parallel: every item is well-shaped, at most one End per collection (and then
     it is the only End option), and no End at all under ContinueOnError *)
  Theorem accepted_parallel coe items : compile_parallel assignable coe items = [] ->
    forall it, In it items ->
      match it with
      | ITask s => exists f, compile_par_task s = inl f
      | ISlice fn e ends => exists t, compile_slice assignable fn e ends = (Some t, []) /\ length ends <= 1 /\ (coe = true -> sl_end t = None)
      | IMap fn k v ends => exists t, compile_map assignable fn k v ends = (Some t, []) /\ length ends <= 1 /\ (coe = true -> mp_end t = None)
      end.
  Proof.
    unfold compile_parallel. intros H it Hin.
    assert (Hit : item_diags assignable coe it = []).
    { induction items as [|x r IH]; [destruct Hin|]. cbn [flat_map] in H. apply app_eq_nil in H. destruct H as [Hx Hr].
      destruct Hin as [<-|Hin]; [exact Hx | now apply IH]. }
    clear H Hin. destruct it as [s|fn e ends|fn k v ends]; cbn [item_diags] in Hit.
    - destruct (compile_par_task s) as [f|ds] eqn:Hc; [now exists f|]. subst ds.
      exfalso. exact (par_task_diag_nonempty _ _ Hc eq_refl).
    - destruct (compile_slice assignable fn e ends) as [[t|] ds] eqn:Hc.
      + apply app_eq_nil in Hit. destruct Hit as [-> Hcoe]. exists t. split; [reflexivity|]. split.
        * apply (slice_ends_silent _ _ _ _ Hc).
        * intros ->. destruct (sl_end t); [discriminate | reflexivity].
      + rewrite app_nil_r in Hit. subst ds. exfalso. exact (slice_none_diag _ _ _ _ Hc eq_refl).
    - destruct (compile_map assignable fn k v ends) as [[t|] ds] eqn:Hc.
      + apply app_eq_nil in Hit. destruct Hit as [-> Hcoe]. exists t. split; [reflexivity|]. split.
        * apply (map_ends_silent _ _ _ _ _ Hc).
        * intros ->. destruct (mp_end t); [discriminate | reflexivity].
      + rewrite app_nil_r in Hit. subst ds. exfalso. exact (map_none_diag _ _ _ _ _ Hc eq_refl).
  Qed.
End Assignable.
