From CffVerif Require Import ScopeModel.

Lemma memn_in x l : memn x l = true <-> In x l.
Proof.
  unfold memn. rewrite existsb_exists. split.
  - intros [y [Hy He]]. apply Nat.eqb_eq in He. now subst.
  - intros H. exists x. split; [assumption | apply Nat.eqb_refl].
Qed.

(* a user expression means the same in the prologue as in the source, unless it mentions
   the closure's result name or the name of an earlier hoisted variable *)
Theorem no_capture earlier locals file x :
  x <> id_err -> ~ In x earlier -> bound_in_generated earlier locals file x = bound_in_source locals file x.
Proof.
  intros He Hn. unfold bound_in_generated, bound_in_source, resolve, scope_at_prologue.
  cbn [memn existsb]. destruct (Nat.eqb_spec x id_err) as [->|_]; [now elim He|]. cbn [orb].
  destruct (existsb (Nat.eqb x) earlier) eqn:E; [|reflexivity].
  exfalso. apply Hn. now apply memn_in.
Qed.

(* F9: an expression that mentions a local called err is captured by the closure *)
Theorem capture_refuted :
  exists earlier locals file,
    bound_in_source locals file id_err = BUserLocal /\ bound_in_generated earlier locals file id_err = BClosure.
Proof. exists [], [id_err], []. split; reflexivity. Qed.

(* a template's package reference reaches the file's import unless the closure or the
   enclosing function declares that name *)
Theorem template_ref_ok body locals file pkg :
  pkg <> id_err -> ~ In pkg body -> ~ In pkg locals -> In pkg file ->
  template_ref body locals file pkg = BFileLevel.
Proof.
  intros He Hb Hl Hf. unfold template_ref, resolve. cbn [memn existsb].
  destruct (Nat.eqb_spec pkg id_err) as [->|_]; [now elim He|]. cbn [orb].
  destruct (existsb (Nat.eqb pkg) body) eqn:E1; [exfalso; apply Hb; now apply memn_in|].
  destruct (memn pkg locals) eqn:E2; [exfalso; apply Hl; now apply memn_in|].
  apply memn_in in Hf. now rewrite Hf.
Qed.

(* F7: a local of the enclosing function named like the package shadows it *)
Theorem shadow_refuted :
  exists body locals file pkg, In pkg file /\ template_ref body locals file pkg = BUserLocal.
Proof. exists [], [7], [7], 7. split; [now left | reflexivity]. Qed.
