(* Model of internal/buildtag.go (invertCffConstraint, writeInvertedCffTag),
   of the segment splicing of GenerateFile (internal/gen.go:110-143) and of
   genFilename (cmd/cff/main.go:153-170).  Definitions only; proofs are in
   BuildTagProofs.v so that the model still runs when a proof breaks. *)
From Coq Require Export List Arith Bool Lia.
Export ListNotations.

(* ---------- constraint expressions (go/build/constraint.Expr) ---------- *)

Definition tag := nat.
Definition cff_tag : tag := 0.

Inductive expr :=
| Tag (t : tag)
| Not (e : expr)
| And (a b : expr)
| Or (a b : expr).

Fixpoint eval (tags : tag -> bool) (e : expr) : bool :=
  match e with
  | Tag t => tags t
  | Not x => negb (eval tags x)
  | And a b => eval tags a && eval tags b
  | Or a b => eval tags a || eval tags b
  end.

(* invertCffConstraint, buildtag.go:15-44; same case order as the Go switch *)
Fixpoint invert (e : expr) : expr :=
  match e with
  | And a b => And (invert a) (invert b)
  | Not x =>
      match x with
      | Tag t => if Nat.eqb t cff_tag then Tag t else Not (invert x)
      | Not y => invert y          (* double negation dropped: "!!x" does not parse *)
      | _ => Not (invert x)
      end
  | Or a b => Or (invert a) (invert b)
  | Tag t => if Nat.eqb t cff_tag then Not (Tag t) else Tag t
  end.

(* what Expr.String can print so that constraint.Parse reads it back: no "!!" *)
Fixpoint printable (e : expr) : bool :=
  match e with
  | Tag _ => true
  | Not x => match x with Not _ => false | _ => printable x end
  | And a b | Or a b => printable a && printable b
  end.

Definition flip_cff (tags : tag -> bool) : tag -> bool :=
  fun t => if Nat.eqb t cff_tag then negb (tags t) else tags t.

(* hasCffTag: does the tag occur (constraint.Expr.Eval visits every tag) *)
Fixpoint has_cff (e : expr) : bool :=
  match e with
  | Tag t => Nat.eqb t cff_tag
  | Not x => has_cff x
  | And a b | Or a b => has_cff a || has_cff b
  end.

(* ---------- header lines (writeInvertedCffTag, buildtag.go:88-132) ---------- *)

Inductive line :=
| LGoBuild (e : expr)        (* //go:build e, parsable *)
| LPlusBuild (e : expr)      (* // +build ..., parsable, e its meaning *)
| LOther (payload : nat).    (* anything else, incl. unparsable constraints *)

Section Header.
  (* constraint.PlusBuildLines is Go library code: an oracle.  Its assumed
     behaviour (the conjunction of the returned lines means e) is a hypothesis
     of the header theorem and is validated by truth tables in the
     correspondence check. *)
  Variable plus_lines : expr -> list expr.

  Definition invert_line (l : line) : list line :=
    match l with
    | LGoBuild e => [LGoBuild (invert e)]
    | LPlusBuild e => map LPlusBuild (plus_lines (invert e))
    | LOther p => [LOther p]
    end.

  Definition invert_header (h : list line) : list line := flat_map invert_line h.
End Header.

(* the go:build constraint of a header: the first //go:build line, if any *)
Fixpoint gobuild_of (h : list line) : option expr :=
  match h with
  | [] => None
  | LGoBuild e :: _ => Some e
  | _ :: t => gobuild_of t
  end.

(* the +build constraint of a header: the conjunction of all // +build lines *)
Fixpoint plusbuild_sel (tags : tag -> bool) (h : list line) : bool :=
  match h with
  | [] => true
  | LPlusBuild e :: t => eval tags e && plusbuild_sel tags t
  | _ :: t => plusbuild_sel tags t
  end.

Definition others (h : list line) : list nat :=
  flat_map (fun l => match l with LOther p => [p] | _ => [] end) h.

(* ---------- splicing (gen.go:112-143) ---------- *)

Section Splice.
  Variable A : Type.
  (* one directive: source interval [pos, end) and the generated text *)
  Record dgen := { dpos : nat; dend : nat; dtext : list A }.

  Definition slice (src : list A) (a b : nat) : list A := firstn (b - a) (skipn a src).

  Fixpoint splice (src : list A) (last : nat) (gens : list dgen) : list A :=
    match gens with
    | [] => skipn last src
    | g :: gs => slice src last (dpos g) ++ dtext g ++ splice src (dend g) gs
    end.

  (* the untouched segments between directives *)
  Fixpoint segments (src : list A) (last : nat) (gens : list dgen) : list (list A) :=
    match gens with
    | [] => [skipn last src]
    | g :: gs => slice src last (dpos g) :: segments src (dend g) gs
    end.

  Fixpoint interleave (segs : list (list A)) (mids : list (list A)) : list A :=
    match segs, mids with
    | s :: ss, m :: ms => s ++ m ++ interleave ss ms
    | s :: _, [] => s
    | [], _ => []
    end.

  Fixpoint wf_gens (len last : nat) (gens : list dgen) : Prop :=
    match gens with
    | [] => last <= len
    | g :: gs => last <= dpos g /\ dpos g <= dend g /\ wf_gens len (dend g) gs
    end.
End Splice.
Arguments dpos {A}. Arguments dend {A}. Arguments dtext {A}.
Arguments splice {A}. Arguments segments {A}. Arguments interleave {A}.
Arguments slice {A}. Arguments wf_gens {A}.

(* ---------- output file names (main.go:153-170), names as char-code lists ---------- *)

Definition str := list nat.

Fixpoint list_eqb (a b : str) : bool :=
  match a, b with
  | [], [] => true
  | x :: a', y :: b' => Nat.eqb x y && list_eqb a' b'
  | _, _ => false
  end.

Definition has_suffix (s suf : str) : bool :=
  (length suf <=? length s) && list_eqb (skipn (length s - length suf) s) suf.

Definition trim_suffix (s suf : str) : str :=
  if has_suffix s suf then firstn (length s - length suf) s else s.

(* "_test.go" "_gen_test.go" ".go" "_gen.go" *)
Definition s_test_go : str := [95;116;101;115;116;46;103;111].
Definition s_gen_test_go : str := [95;103;101;110;95;116;101;115;116;46;103;111].
Definition s_go : str := [46;103;111].
Definition s_gen_go : str := [95;103;101;110;46;103;111].

(* the base-name part of genFilename, for names with extension ".go"
   (filepath.Ext(name) = ".go" for every file the Go package loader hands over) *)
Definition gen_filename (name : str) : str :=
  if has_suffix name s_test_go
  then trim_suffix name s_test_go ++ s_gen_test_go
  else trim_suffix name s_go ++ s_gen_go.
