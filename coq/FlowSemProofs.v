(* Facts about the flow semantics of FlowSemModel: what a task's outcome can be, for every
   flow, scenario and fuel. *)
From CffVerif Require Import FlowSemModel.

Section Facts.
  Variable f : fflow.
  Variable sc : scenario.

  Definition tk (k : nat) := nth k (gtasks f) ktask0.

  Definition tcall_of (r : tres) : option (list term) :=
    match r with RBlocked _ => None | RFail _ _ c => c | ROuts _ _ c => c end.
  Definition pcall_of (r : tres) : option (list term) :=
    match r with RBlocked c => c | RFail _ c _ => c | ROuts _ c _ => c end.

  Ltac crunch :=
    repeat match goal with
           | |- context [match ?x with _ => _ end] => destruct x eqn:?
           | H : context [match ?x with _ => _ end] |- _ => destruct x eqn:?
           end.

  (* --- predicate gating (C11) *)
  Lemma pred_false_not_called :
    forall tv k pins, kpred (tk k) = Some pins -> sc_pred sc k = PFALSE ->
      tcall_of (task_step f sc tv k) = None.
  Proof.
    intros tv k pins Hp Hf.     unfold task_step. fold (tk k). rewrite Hp.
    destruct (all_some (map tv pins)); [|reflexivity].
    destruct (all_some (map tv (kins (tk k)))); [|reflexivity].
    rewrite Hf. reflexivity.
  Qed.

  Lemma pred_false_zero :
    forall tv k pins outs pc tc, kpred (tk k) = Some pins -> sc_pred sc k = PFALSE ->
      task_step f sc tv k = ROuts outs pc tc -> outs = map (fun _ => TmZero) (kouts (tk k)) /\ tc = None.
  Proof.
    intros tv k pins outs pc tc Hp Hf H.     unfold task_step in H. fold (tk k) in H. rewrite Hp in H.
    destruct (all_some (map tv pins)); [|discriminate].
    destruct (all_some (map tv (kins (tk k)))); [|discriminate].
    rewrite Hf in H. injection H as <- _ <-. split; reflexivity.
  Qed.

  (* the task function is called only if there is no predicate or it returned true *)
  Lemma called_pred_true :
    forall tv k a, tcall_of (task_step f sc tv k) = Some a ->
      kpred (tk k) = None \/ sc_pred sc k = PTRUE.
  Proof.
    intros tv k a H.     unfold task_step in H. fold (tk k) in H.
    destruct (kpred (tk k)) as [pins|]; [|now left]. right.
    destruct (all_some (map tv pins)); [|discriminate].
    destruct (all_some (map tv (kins (tk k)))); [|discriminate].
    destruct (sc_pred sc k); [reflexivity| discriminate |].
    destruct (kfallback (tk k)); discriminate.
  Qed.

  (* the predicate is called with the values of its own inputs, and with nothing else:
     it does not wait for the task's inputs *)
  Lemma pred_called_own_inputs :
    forall tv k pins pargs, kpred (tk k) = Some pins ->
      all_some (map tv pins) = Some pargs ->
      pcall_of (task_step f sc tv k) = Some pargs.
  Proof.
    intros tv k pins pargs Hp Ha. unfold task_step. fold (tk k). rewrite Hp, Ha.
    destruct (all_some (map tv (kins (tk k)))); [|reflexivity].
    destruct (sc_pred sc k); [| reflexivity |].
    - destruct (sc_task sc k); [reflexivity| |]; destruct (kfallback (tk k)); reflexivity.
    - destruct (kfallback (tk k)); reflexivity.
  Qed.

  (* --- FallbackWith (C11): a task with a fallback never fails the flow, and yields the
     fallback values exactly when the task (or its predicate) failed *)
  Lemma fallback_never_fails :
    forall tv k e pc tc, kfallback (tk k) = true -> task_step f sc tv k <> RFail e pc tc.
  Proof.
    intros tv k e pc tc Hf H.     unfold task_step in H. fold (tk k) in H. rewrite Hf in H.
    destruct (kpred (tk k)) as [pins|].
    - destruct (all_some (map tv pins)); [|discriminate].
      destruct (all_some (map tv (kins (tk k)))); [|discriminate].
      destruct (sc_pred sc k); [destruct (sc_task sc k)| |]; discriminate.
    - destruct (all_some (map tv (kins (tk k)))); [|discriminate].
      destruct (sc_task sc k); discriminate.
  Qed.

  Definition fallback_outs (k : nat) := map (fun i => TmFall k i) (seq 0 (length (kouts (tk k)))).

  Lemma success_ignores_fallback :
    forall tv k outs pc a, sc_task sc k = OOK -> task_step f sc tv k = ROuts outs pc (Some a) ->
      outs = map (fun i => TmOut k i a) (seq 0 (length (kouts (tk k)))).
  Proof.
    intros tv k outs pc a Hok H.     unfold task_step in H. fold (tk k) in H. rewrite Hok in H.
    destruct (kpred (tk k)) as [pins|].
    - destruct (all_some (map tv pins)); [|discriminate].
      destruct (all_some (map tv (kins (tk k)))); [|discriminate].
      destruct (sc_pred sc k).
      + injection H as <- _ <-. reflexivity.
      + discriminate.
      + destruct (kfallback (tk k)); discriminate.
    - destruct (all_some (map tv (kins (tk k)))); [|discriminate].
      injection H as <- _ <-. reflexivity.
  Qed.

  Lemma task_failure_uses_fallback :
    forall tv k outs pc a, kfallback (tk k) = true -> sc_task sc k <> OOK ->
      task_step f sc tv k = ROuts outs pc (Some a) -> outs = fallback_outs k.
  Proof.
    intros tv k outs pc a Hf Hbad H.     unfold task_step in H. fold (tk k) in H. rewrite Hf in H. unfold fallback_outs.
    destruct (kpred (tk k)) as [pins|].
    - destruct (all_some (map tv pins)); [|discriminate].
      destruct (all_some (map tv (kins (tk k)))); [|discriminate].
      destruct (sc_pred sc k); [|discriminate|discriminate].
      destruct (sc_task sc k); [now elim Hbad| |]; injection H as <- _ _; reflexivity.
    - destruct (all_some (map tv (kins (tk k)))); [|discriminate].
      destruct (sc_task sc k); [now elim Hbad| |]; injection H as <- _ _; reflexivity.
  Qed.

  Lemma pred_panic_uses_fallback :
    forall tv k pins outs pc tc, kfallback (tk k) = true -> kpred (tk k) = Some pins ->
      sc_pred sc k = PPANIC ->
      task_step f sc tv k = ROuts outs pc tc -> outs = fallback_outs k /\ tc = None.
  Proof.
    intros tv k pins outs pc tc Hf Hp Hpp H.     unfold task_step in H. fold (tk k) in H. rewrite Hf, Hp, Hpp in H. unfold fallback_outs.
    destruct (all_some (map tv pins)); [|discriminate].
    destruct (all_some (map tv (kins (tk k)))); [|discriminate].
    injection H as <- _ <-. split; reflexivity.
  Qed.

  (* --- failures (C04, C07): a task fails the flow only by what its own function did *)
  Lemma fail_cause :
    forall tv k e pc tc, task_step f sc tv k = RFail e pc tc ->
      kfallback (tk k) = false /\
      ((e = FErr k /\ sc_task sc k = OERR /\ tc <> None) \/
       (e = FPanic k /\ sc_task sc k = OPANIC /\ tc <> None) \/
       (e = FPredPanic k /\ sc_pred sc k = PPANIC /\ kpred (tk k) <> None /\ tc = None)).
  Proof.
    intros tv k e pc tc H.     unfold task_step in H. fold (tk k) in H.
    destruct (kpred (tk k)) as [pins|].
    - destruct (all_some (map tv pins)); [|discriminate].
      destruct (all_some (map tv (kins (tk k)))); [|discriminate].
      destruct (sc_pred sc k) eqn:Ep.
      + destruct (sc_task sc k) eqn:Et; [discriminate| |];
          destruct (kfallback (tk k)); try discriminate; injection H as <- _ <-; split; auto.
        * left. repeat split; auto; discriminate.
        * right; left. repeat split; auto; discriminate.
      + discriminate.
      + destruct (kfallback (tk k)); try discriminate; injection H as <- _ <-; split; auto.
        right; right. repeat split; auto; discriminate.
    - destruct (all_some (map tv (kins (tk k)))); [|discriminate].
      destruct (sc_task sc k) eqn:Et; [discriminate| |];
        destruct (kfallback (tk k)); try discriminate; injection H as <- _ <-; split; auto.
      + left. repeat split; auto; discriminate.
      + right; left. repeat split; auto; discriminate.
  Qed.

  (* a panic that no fallback absorbs is reported *)
  Lemma panic_reported :
    forall tv k a, kfallback (tk k) = false -> sc_task sc k = OPANIC ->
      tcall_of (task_step f sc tv k) = Some a ->
      exists pc, task_step f sc tv k = RFail (FPanic k) pc (Some a).
  Proof.
    intros tv k a Hf Hp H.     unfold task_step in H |- *. fold (tk k) in H |- *. rewrite Hf, Hp in H |- *.
    destruct (kpred (tk k)) as [pins|].
    - destruct (all_some (map tv pins)); [|discriminate].
      destruct (all_some (map tv (kins (tk k)))); [|discriminate].
      destruct (sc_pred sc k); try discriminate. cbn in H. injection H as <-. eauto.
    - destruct (all_some (map tv (kins (tk k)))); [|discriminate].
      cbn in H. injection H as <-. eauto.
  Qed.

  (* nothing is available downstream of a failure or of a blocked task (C07) *)
  Lemma no_value_from_failed :
    forall tr t k i, gprov f t = Some (k, i) ->
      (forall outs pc tc, tr k <> ROuts outs pc tc) -> val_step f tr t = None.
  Proof.
    intros tr t k i Hg Hno. unfold val_step. rewrite Hg.
    destruct (tr k) eqn:E; try reflexivity. now elim (Hno outs pcall tcall).
  Qed.

  Lemma all_some_none_in {A} (l : list (option A)) : In None l -> all_some l = None.
  Proof.
    induction l as [|[x|] l IH]; cbn; intros H; try reflexivity.
    - contradiction.
    - destruct H as [H|H]; [discriminate|]. rewrite IH; auto.
  Qed.

  Lemma blocked_downstream :
    forall tv k t, In t (kins (tk k)) -> tv t = None ->
      exists pc, task_step f sc tv k = RBlocked pc.
  Proof.
    intros tv k t Hin Hv. unfold task_step. fold (tk k).
    assert (Hn : all_some (map tv (kins (tk k))) = None).
    { apply all_some_none_in. rewrite <- Hv. now apply in_map. }
    rewrite Hn. destruct (kpred (tk k)) as [pins|]; [|eauto].
    destruct (all_some (map tv pins)); eauto.
  Qed.

  (* the fuelled functions are these steps, level by level *)
  Lemma tresult_S n k : tresult f sc (S n) k = task_step f sc (tval f sc n) k.
  Proof. reflexivity. Qed.
  Lemma tval_S n t : tval f sc (S n) t = val_step f (tresult f sc n) t.
  Proof. reflexivity. Qed.
End Facts.
