From CffVerif Require Import EmitterModel.

Lemma deliver_mk_stack args : deliver (mk_stack args) = flat_map deliver args.
Proof.
  destruct args as [|x [|y r]]; cbn [mk_stack].
  - reflexivity.
  - cbn. now rewrite app_nil_r.
  - unfold deliver at 1. cbn [atoms].
    set (l := x :: y :: r). clearbody l. induction l as [|a l IH]; cbn; [reflexivity|].
    rewrite flat_map_app, IH. reflexivity.
Qed.

(* induction over expressions with nested lists *)
Lemma etree_ind' (P : etree -> Prop) :
  (forall i, P (ELeaf i)) -> P ENop -> (forall l, Forall P l -> P (EStack l)) -> forall t, P t.
Proof.
  intros Hl Hn Hs. fix IH 1. intros [i| |l]; [apply Hl | apply Hn|].
  apply Hs. induction l as [|a l IHl]; constructor; [apply IH | apply IHl].
Qed.

Theorem deliver_build t : deliver (build t) = leaves t.
Proof.
  induction t as [i| |l IH] using etree_ind'; [reflexivity | reflexivity|].
  cbn [build leaves]. rewrite deliver_mk_stack. rewrite flat_map_concat_map, map_map, <- flat_map_concat_map.
  induction IH as [|a l Ha _ IHl]; cbn; [reflexivity|]. now rewrite Ha, IHl.
Qed.

Lemma filter_eqb_once i l : count_occ Nat.eq_dec l i = 1 -> filter (Nat.eqb i) l = [i].
Proof.
  induction l as [|a l IH]; cbn [count_occ filter]; [discriminate|].
  destruct (Nat.eq_dec a i) as [->|Hne].
  - rewrite Nat.eqb_refl. intros H. f_equal. injection H as H.
    apply count_occ_not_In in H. clear IH. induction l as [|b l IHl]; cbn; [reflexivity|].
    destruct (Nat.eqb_spec i b) as [->|Hb]; [elim H; now left|]. apply IHl. intros Hin. apply H. now right.
  - destruct (Nat.eqb_spec i a) as [->|_]; [now elim Hne|]. exact IH.
Qed.

(* an emitter that occurs once in the expression receives exactly the events sent to the
   combination, in order: what it would receive alone *)
Theorem received_alone {E} t (evs : list E) i :
  count_occ Nat.eq_dec (leaves t) i = 1 -> received (build t) evs i = evs.
Proof.
  intros H. unfold received. rewrite deliver_build, (filter_eqb_once i _ H).
  induction evs as [|e evs IH]; [reflexivity|]. cbn [flat_map map app]. f_equal. exact IH.
Qed.

(* an emitter that does not occur receives nothing; one that occurs n times receives every
   event n times *)
Theorem received_count {E} t (evs : list E) i :
  received (build t) evs i = flat_map (fun e => repeat e (count_occ Nat.eq_dec (leaves t) i)) evs.
Proof.
  unfold received. rewrite deliver_build. apply flat_map_ext. intros e.
  induction (leaves t) as [|a l IH]; cbn [filter count_occ]; [reflexivity|].
  destruct (Nat.eq_dec a i) as [->|Hne].
  - rewrite Nat.eqb_refl. cbn. now rewrite IH.
  - destruct (Nat.eqb_spec i a) as [->|_]; [now elim Hne|]. exact IH.
Qed.
