(* The order in which the tasks are listed in the directive does not matter (C02): listing the
   same tasks in another order gives the same semantics up to the renaming of task indices -
   same values for every type, same Results, same failures. With FlowComplete this is a
   statement about the generated code of both listings on all schedules. *)
From CffVerif Require Import FlowOpModel FlowOpProofs FlowSemProofs FlowAdequacy.

Section Listing.
  Variables f f' : fflow.
  Variables p q : nat -> nat.       (* position of a task in the second listing, and back *)
  Hypothesis Hlen : length (gtasks f') = length (gtasks f).
  Hypothesis Hp : forall k, k < length (gtasks f) ->
    p k < length (gtasks f') /\ taskof f' (p k) = taskof f k /\ q (p k) = k.
  Hypothesis Hq : forall k', k' < length (gtasks f') -> q k' < length (gtasks f) /\ p (q k') = k'.
  Hypothesis Hparams : gparams f' = gparams f.
  Hypothesis Hresults : gresults f' = gresults f.
  Hypothesis U : unique_providers f.
  Hypothesis U' : unique_providers f'.
  Variable sc : scenario.

  Definition sc' : scenario :=
    {| sc_task := fun k' => sc_task sc (q k'); sc_pred := fun k' => sc_pred sc (q k') |}.

  Fixpoint rename (t : term) : term :=
    match t with
    | TmOut k i args => TmOut (p k) i (map rename args)
    | TmFall k i => TmFall (p k) i
    | TmParam x => TmParam x
    | TmZero => TmZero
    end.

  Definition rename_err (e : ferr) : ferr :=
    match e with FErr k => FErr (p k) | FPanic k => FPanic (p k) | FPredPanic k => FPredPanic (p k) end.

  Definition omap (o : option (list term)) : option (list term) := option_map (map rename) o.

  Definition rename_res (r : tres) : tres :=
    match r with
    | RBlocked pc => RBlocked (omap pc)
    | RFail e pc tc => RFail (rename_err e) (omap pc) (omap tc)
    | ROuts outs pc tc => ROuts (map rename outs) (omap pc) (omap tc)
    end.

  (* providers correspond *)
  Lemma gprov_perm t k i : gprov f t = Some (k, i) -> gprov f' t = Some (p k, i).
  Proof.
    intros Hg. destruct (gprov_sound f t k i Hg) as [Hk Hin].
    destruct (Hp k Hk) as (Hpk & Ht & _).
    destruct (U' (p k) t Hpk) as [i' Hg']; [now rewrite Ht|].
    pose proof (gprov_idx f t k i Hg) as H1. pose proof (gprov_idx f' t (p k) i' Hg') as H2.
    rewrite Ht in H2. rewrite H1 in H2. injection H2 as <-. exact Hg'.
  Qed.

  Lemma gprov_perm_none t : gprov f t = None -> gprov f' t = None.
  Proof.
    intros Hg. destruct (gprov f' t) as [[k' i']|] eqn:Hg'; [|reflexivity].
    destruct (gprov_sound f' t k' i' Hg') as [Hk' Hin]. destruct (Hq k' Hk') as [Hqk Hpq].
    destruct (Hp (q k') Hqk) as (_ & Ht & _). rewrite Hpq in Ht. rewrite Ht in Hin.
    destruct (U (q k') t Hqk Hin) as [i Hc]. congruence.
  Qed.

  Lemma all_some_rename (tv tv' : nat -> option term) l :
    (forall t, tv' t = option_map rename (tv t)) ->
    all_some (map tv' l) = option_map (map rename) (all_some (map tv l)).
  Proof.
    intros H. induction l as [|t l IH]; [reflexivity|]. cbn [map all_some]. rewrite H, IH.
    destruct (tv t); [|reflexivity]. cbn. destruct (all_some (map tv l)); reflexivity.
  Qed.

  Lemma task_step_perm tv tv' k : k < length (gtasks f) ->
    (forall t, tv' t = option_map rename (tv t)) ->
    task_step f' sc' tv' (p k) = rename_res (task_step f sc tv k).
  Proof.
    intros Hk Htv. destruct (Hp k Hk) as (_ & Ht & Hqp). unfold task_step.
    fold (taskof f' (p k)). fold (taskof f k). rewrite Ht. cbn [sc' sc_task sc_pred]. rewrite Hqp.
    rewrite !(all_some_rename tv tv' _ Htv).
    destruct (kpred (taskof f k)) as [pins|].
    - rewrite (all_some_rename tv tv' pins Htv).
      destruct (all_some (map tv pins)) as [pa|]; [|reflexivity]. cbn [option_map].
      destruct (all_some (map tv (kins (taskof f k)))) as [a|]; [|reflexivity]. cbn [option_map].
      destruct (sc_pred sc k); [destruct (sc_task sc k)| |]; try destruct (kfallback (taskof f k));
        cbn [rename_res rename_err omap option_map]; rewrite ?map_map; reflexivity.
    - destruct (all_some (map tv (kins (taskof f k)))) as [a|]; [|reflexivity]. cbn [option_map].
      destruct (sc_task sc k); try destruct (kfallback (taskof f k));
        cbn [rename_res rename_err omap option_map]; rewrite ?map_map; reflexivity.
  Qed.

  Lemma val_step_perm tr tr' t :
    (forall k, k < length (gtasks f) -> tr' (p k) = rename_res (tr k)) ->
    val_step f' tr' t = option_map rename (val_step f tr t).
  Proof.
    intros Htr. unfold val_step. destruct (gprov f t) as [[k i]|] eqn:Hg.
    - rewrite (gprov_perm t k i Hg). destruct (gprov_sound f t k i Hg) as [Hk _]. rewrite (Htr k Hk).
      destruct (tr k) as [| |outs pc tc]; try reflexivity. cbn [rename_res]. apply nth_error_map.
    - rewrite (gprov_perm_none t Hg), Hparams. destruct (existsb (Nat.eqb t) (gparams f)); reflexivity.
  Qed.

  Theorem listing_order n :
    (forall t, tval f' sc' n t = option_map rename (tval f sc n t)) /\
    (forall k, k < length (gtasks f) -> tresult f' sc' n (p k) = rename_res (tresult f sc n k)).
  Proof.
    induction n as [|n [IHv IHr]].
    - split; [reflexivity | intros k Hk; reflexivity].
    - split.
      + intros t. rewrite !tval_S. now apply val_step_perm.
      + intros k Hk. rewrite !tresult_S. now apply task_step_perm.
  Qed.

  (* the Results of the two listings are the same values, up to the names of the tasks *)
  Theorem results_listing_independent :
    result_values f' sc' = option_map (map rename) (result_values f sc).
  Proof.
    unfold result_values, fuel_of. rewrite Hresults, Hlen. apply all_some_rename.
    intros t. apply (proj1 (listing_order _)).
  Qed.

  (* and a task fails the flow in one listing iff it does in the other *)
  Theorem failure_listing_independent k e pc tc : k < length (gtasks f) ->
    tresult f sc (fuel_of f) k = RFail e pc tc ->
    tresult f' sc' (fuel_of f') (p k) = RFail (rename_err e) (omap pc) (omap tc).
  Proof.
    intros Hk H. unfold fuel_of. rewrite Hlen. fold (fuel_of f).
    rewrite (proj2 (listing_order (fuel_of f)) k Hk), H. reflexivity.
  Qed.
End Listing.
