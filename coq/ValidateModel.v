(* Layer 2, validation: model of the checks compileFlow performs on a cff.Flow
   (internal/compile.go:333-463, 475-548; internal/cycle.go) over abstract programs
   whose types are atoms, and the declarative well-formedness of the property text.
   Definitions only. *)
From Coq Require Export List Arith Bool Lia.
Export ListNotations.

(* types: user types are atoms (the model of typeutil.Map keyed by types.Identical);
   the generator's sentinel types for predicates and output-less tasks are distinct *)
Inductive ty := TUser (n : nat) | TPred (k : nat) | TInvoke (k : nat).

Definition ty_eqb (a b : ty) : bool :=
  match a, b with
  | TUser x, TUser y | TPred x, TPred y | TInvoke x, TInvoke y => Nat.eqb x y
  | _, _ => false
  end.

Definition mem (t : ty) (l : list ty) : bool := existsb (ty_eqb t) l.

Record task := {
  tins : list nat;                 (* parameter types, context excluded *)
  touts : list nat;                (* result types, error excluded *)
  tpred : option (list nat);       (* cff.Predicate: its parameter types *)
  tinvoke : bool                   (* cff.Invoke(true) *)
}.

Record flow := { fparams : list nat; fresults : list nat; ftasks : list task }.

(* one compiled function: a task, or a predicate (compile.go:412-416) *)
Record fn := {
  fdeps : list ty;     (* function.Dependencies *)
  fouts : list ty;     (* function.outputs() *)
  fprov : list ty      (* what it is registered as provider of: outputs, and the invoke sentinel *)
}.

(* flow.Funcs, with the per-flow sentinel counters (compile.go:267-297, 412-416) *)
Fixpoint funcs_from (pc ic : nat) (ts : list task) : list fn :=
  match ts with
  | [] => []
  | t :: rest =>
      let ins := map TUser (tins t) in
      let outs := map TUser (touts t) in
      let ic' := if tinvoke t then S ic else ic in
      let inv := if tinvoke t then [TInvoke (S ic)] else [] in
      match tpred t with
      | Some pins =>
          {| fdeps := ins ++ [TPred (S pc)]; fouts := outs; fprov := outs ++ inv |}
          :: {| fdeps := map TUser pins; fouts := [TPred (S pc)]; fprov := [TPred (S pc)] |}
          :: funcs_from (S pc) ic' rest
      | None =>
          {| fdeps := ins; fouts := outs; fprov := outs ++ inv |}
          :: funcs_from pc ic' rest
      end
  end.
Definition funcs (f : flow) : list fn := funcs_from 0 0 (ftasks f).

(* the invoke sentinels, in order: roots of the provider walk besides cff.Results *)
Definition sinks (f : flow) : list ty :=
  filter (fun t => match t with TInvoke _ => true | _ => false end) (flat_map fprov (funcs f)).

(* providers map: typeutil.Map.Set overwrites, so the last registration wins *)
Fixpoint provider_from (i : nat) (fs : list fn) (t : ty) : option nat :=
  match fs with
  | [] => None
  | x :: rest =>
      match provider_from (S i) rest t with
      | Some j => Some j
      | None => if mem t (fprov x) then Some i else None
      end
  end.
Definition provider (f : flow) (t : ty) : option nat := provider_from 0 (funcs f) t.

Definition fn0 := {| fdeps := []; fouts := []; fprov := [] |}.
Definition succs (f : flow) (t : ty) : list ty :=
  match provider f t with Some i => fdeps (nth i (funcs f) fn0) | None => [] end.

(* ---------- the individual checks ---------- *)
Fixpoint has_dup (l : list ty) : bool :=
  match l with [] => false | x :: r => mem x r || has_dup r end.

(* compile.go:333-342 *)
Definition chk_dup_param (f : flow) : bool := has_dup (map TUser (fparams f)).

(* compile.go:671-679 *)
Definition chk_no_output (f : flow) : bool :=
  existsb (fun t => (match touts t with [] => true | _ => false end) && negb (tinvoke t)) (ftasks f).
Definition chk_invoke_outputs (f : flow) : bool :=
  existsb (fun t => (match touts t with [] => false | _ => true end) && tinvoke t) (ftasks f).

(* compile.go:434-442 *)
Definition chk_dup_provider (f : flow) : bool := has_dup (flat_map fouts (funcs f)).

(* receivers: a type some function depends on, or a cff.Results type (compile.go:355-361, 425-433) *)
Definition received (f : flow) (t : ty) : bool :=
  mem t (map TUser (fresults f)) || existsb (fun x => mem t (fdeps x)) (funcs f).

(* compile.go:475-483 *)
Definition chk_unused_output (f : flow) : bool :=
  existsb (fun x => existsb (fun o => negb (received f o)) (fouts x)) (funcs f).

(* validateFuncs, compile.go:488-548: a worklist walk from the Results and the invoke
   sentinels towards providers; a visited type without provider must be a Params type,
   which is then ticked off. Result: the types without provider, and the Params left. *)
Fixpoint remove_ty (t : ty) (l : list ty) : list ty :=
  match l with [] => [] | x :: r => if ty_eqb t x then r else x :: remove_ty t r end.

Fixpoint walk (f : flow) (fuel : nat) (queue visited inputs missing : list ty) : list ty * list ty :=
  match fuel with
  | 0 => (missing ++ queue, inputs)     (* out of fuel: never reached, see walk_fuel *)
  | S fuel' =>
      match queue with
      | [] => (missing, inputs)
      | t :: q =>
          if mem t visited then walk f fuel' q visited inputs missing
          else
            match provider f t with
            | Some i => walk f fuel' (q ++ fdeps (nth i (funcs f) fn0)) (t :: visited) inputs missing
            | None =>
                if mem t inputs then walk f fuel' q (t :: visited) (remove_ty t inputs) missing
                else walk f fuel' q (t :: visited) inputs (missing ++ [t])
            end
      end
  end.

Definition all_types (f : flow) : list ty :=
  map TUser (fparams f) ++ map TUser (fresults f) ++ flat_map (fun x => fdeps x ++ fprov x) (funcs f).

Definition walk_fuel (f : flow) : nat :=
  S (length (fresults f) + length (funcs f) + (S (length (all_types f))) * S (length (flat_map fdeps (funcs f)))).

(* Params as fed to the walk: duplicates were dropped when reported (compile.go:336-339) *)
Fixpoint dedup (l : list ty) : list ty :=
  match l with [] => [] | x :: r => if mem x r then dedup r else x :: dedup r end.

Definition walk_result (f : flow) : list ty * list ty :=
  walk f (walk_fuel f) (map TUser (fresults f) ++ sinks f) [] (dedup (map TUser (fparams f))) [].

Definition chk_no_provider (f : flow) : bool := match fst (walk_result f) with [] => false | _ => true end.
Definition chk_unused_input (f : flow) : bool := match snd (walk_result f) with [] => false | _ => true end.

(* findFlowCycles, cycle.go:37-86: depth-first search along "needs" edges with a check
   against the current path. (The Go code also memoises fully explored types; that does
   not change the verdict and is left out of the model.) *)
Fixpoint dfs (f : flow) (fuel : nat) (path : list ty) (t : ty) : bool :=
  match provider f t with
  | None => false
  | Some i =>
      if mem t path then true
      else match fuel with
           | 0 => true
           | S fuel' => existsb (dfs f fuel' (t :: path)) (fdeps (nth i (funcs f) fn0))
           end
  end.

Definition chk_cycle (f : flow) : bool :=
  existsb (fun x => existsb (dfs f (S (length (all_types f))) []) (fdeps x)) (funcs f).

Inductive diag :=
| DDupParam | DNoOutput | DInvokeWithOutputs | DDupProvider | DUnusedOutput
| DNoProvider | DUnusedInput | DCycle.

Definition validate (f : flow) : list diag :=
  (if chk_dup_param f then [DDupParam] else []) ++
  (if chk_no_output f then [DNoOutput] else []) ++
  (if chk_invoke_outputs f then [DInvokeWithOutputs] else []) ++
  (if chk_dup_provider f then [DDupProvider] else []) ++
  (if chk_unused_output f then [DUnusedOutput] else []) ++
  (if chk_no_provider f then [DNoProvider] else []) ++
  (if chk_unused_input f then [DUnusedInput] else []) ++
  (if chk_cycle f then [DCycle] else []).

Definition accepts (f : flow) : bool := match validate f with [] => true | _ => false end.

(* ---------- the declarative rules of the property ---------- *)
(* every type a function or cff.Results consumes *)
Definition consumed (f : flow) : list ty := map TUser (fresults f) ++ flat_map fdeps (funcs f).
(* every type that is provided: by Params or by a function *)
Definition provided (f : flow) : list ty := map TUser (fparams f) ++ flat_map fouts (funcs f).

(* the "needs" relation between types and its transitive closure *)
Inductive needs_plus (f : flow) : ty -> ty -> Prop :=
| np_one a b : In b (succs f a) -> needs_plus f a b
| np_step a b c : In b (succs f a) -> needs_plus f b c -> needs_plus f a c.

Record WellFormed (f : flow) : Prop := {
  wf_unique : NoDup (provided f);                                   (* nothing provided twice *)
  wf_provided : forall t, In t (consumed f) -> In t (provided f);   (* every consumed type has a provider *)
  wf_acyclic : forall t, ~ needs_plus f t t;                        (* no dependency cycle *)
  wf_used : forall t, In t (provided f) -> In t (consumed f);       (* every Params value and task output is consumed *)
  wf_invoke : forall t, In t (ftasks f) -> (touts t = [] <-> tinvoke t = true);
}.

(* ---------- a boolean version of WellFormed (acyclicity by Kahn-style peeling) ---------- *)
Fixpoint nodup_b (l : list ty) : bool :=
  match l with [] => true | x :: r => negb (mem x r) && nodup_b r end.

(* repeatedly remove the types all of whose needs are already removed *)
Fixpoint peel (f : flow) (fuel : nat) (left : list ty) : list ty :=
  match fuel with
  | 0 => left
  | S k =>
      let left' := filter (fun t => existsb (fun d => mem d left) (succs f t)) left in
      if length left' =? length left then left else peel f k left'
  end.

Definition acyclic_b (f : flow) : bool :=
  match peel f (S (length (all_types f))) (dedup (all_types f)) with [] => true | _ => false end.

Definition wf_b (f : flow) : bool :=
  nodup_b (provided f)
  && forallb (fun t => mem t (provided f)) (consumed f)
  && acyclic_b f
  && forallb (fun t => mem t (consumed f)) (provided f)
  && forallb (fun t => Bool.eqb (match touts t with [] => true | _ => false end) (tinvoke t)) (ftasks f).

(* ---------- cff.Slice / cff.Map (compile_parallel.go:309,365,370) ---------- *)
Section ParallelTypes.
  (* go/types.AssignableTo(V, T): an oracle (Go library) *)
  Variable assignable : nat -> nat -> bool.
  (* the collection's element (key, value) type must be assignable to the function's parameter *)
  Definition accept_slice (elem param : nat) : bool := assignable elem param.
  Definition accept_map (key value kparam vparam : nat) : bool := assignable key kparam && assignable value vparam.
  (* the check as it was before fix 6eedc36: arguments reversed *)
  Definition accept_slice_reversed (elem param : nat) : bool := assignable param elem.
End ParallelTypes.
