(* Layer 2, how the generator reads the signature of a task or predicate function
   (internal/compile.go compileFunction, compilePredicate, the FallbackWith / Invoke rules of
   interpretTaskOptions and compileTask). Types are atoms except for the three the code
   singles out: context.Context, error and bool. Definitions only; the loops are the Go
   loops, with the index they test. *)
From Coq Require Export List Arith Bool Lia.
Export ListNotations.

Inductive gty := GCtx | GErr | GBool | GVal (n : nat).

Definition gty_eqb (a b : gty) : bool :=
  match a, b with
  | GCtx, GCtx | GErr, GErr | GBool, GBool => true
  | GVal n, GVal m => Nat.eqb n m
  | _, _ => false
  end.

Definition is_ctx (t : gty) : bool := match t with GCtx => true | _ => false end.
Definition is_err (t : gty) : bool := match t with GErr => true | _ => false end.

Record fsig := { sg_variadic : bool; sg_params : list gty; sg_results : list gty }.

Inductive sdiag :=
| SVariadic          (* variadic functions are not yet supported *)
| SCtxPos            (* only the first argument may be context.Context *)
| SErrPos            (* only the last result may be an error *)
| SPredResult        (* the function must return a single boolean result *)
| SFbCount           (* cff.FallbackWith must produce the same number of results as the task *)
| SFbNoErr           (* Task must return an error for FallbackWith to be used *)
| SNoOutput          (* task must return at least one non-error value ... cff.Invoke(true)? *)
| SInvokeWithOutput. (* cff.Invoke cannot be provided on a Task that produces values besides errors *)

Record cfunc := { cf_wantctx : bool; cf_inputs : list gty; cf_outputs : list gty; cf_haserr : bool }.

(* for i := 0; i < params.Len(); i++ *)
Fixpoint scan_params (i : nat) (ps acc : list gty) (wc : bool) : option (list gty * bool) :=
  match ps with
  | [] => Some (acc, wc)
  | p :: ps' =>
      if is_ctx p then (if Nat.eqb i 0 then scan_params (S i) ps' acc true else None)
      else scan_params (S i) ps' (acc ++ [p]) wc
  end.

(* for i := 0; i < results.Len(); i++, n = results.Len() *)
Fixpoint scan_results (n i : nat) (rs acc : list gty) (he : bool) : option (list gty * bool) :=
  match rs with
  | [] => Some (acc, he)
  | r :: rs' =>
      if is_err r then (if Nat.eqb i (n - 1) then scan_results n (S i) rs' acc true else None)
      else scan_results n (S i) rs' (acc ++ [r]) he
  end.

Definition compile_function (s : fsig) : cfunc + sdiag :=
  if sg_variadic s then inr SVariadic else
  match scan_params 0 (sg_params s) [] false with
  | None => inr SCtxPos
  | Some (ins, wc) =>
      match scan_results (length (sg_results s)) 0 (sg_results s) [] false with
      | None => inr SErrPos
      | Some (outs, he) => inl {| cf_wantctx := wc; cf_inputs := ins; cf_outputs := outs; cf_haserr := he |}
      end
  end.

(* compilePredicate: the result checks come before compileFunction *)
Definition compile_predicate (s : fsig) : cfunc + sdiag :=
  if sg_variadic s then inr SVariadic else
  match sg_results s with
  | [GBool] => compile_function s
  | _ => inr SPredResult
  end.

(* the arguments and the bindings of the generated call: fn(ctx?, inputs...) and outputs..., err? := *)
Definition call_args (f : cfunc) : list gty := (if cf_wantctx f then [GCtx] else []) ++ cf_inputs f.
Definition call_binds (f : cfunc) : list gty := cf_outputs f ++ (if cf_haserr f then [GErr] else []).

(* one task with its options, as compileTask sees them: the function, a predicate function,
   the number of FallbackWith arguments, whether Invoke(true) is given. The list of
   diagnostics in the order the code reports them; the task is accepted iff it is empty. *)
Record taskdecl := { td_fn : fsig; td_pred : option fsig; td_fallback : option nat; td_invoke : bool }.

Definition fallback_diags (s : fsig) (f : cfunc) (fb : option nat) : list sdiag :=
  match fb with
  | None => []
  | Some k =>
      if negb (Nat.eqb k (length (cf_outputs f))) then [SFbCount]
      else if negb (existsb is_err (sg_results s)) then [SFbNoErr] else []
  end.

Definition pred_diags (p : option fsig) : list sdiag :=
  match p with
  | None => []
  | Some ps => match compile_predicate ps with inl _ => [] | inr d => [d] end
  end.

Definition compile_task (t : taskdecl) : list sdiag :=
  match compile_function (td_fn t) with
  | inr d => [d]
  | inl f =>
      fallback_diags (td_fn t) f (td_fallback t) ++ pred_diags (td_pred t) ++
      (if Nat.eqb (length (cf_outputs f)) 0 && negb (td_invoke t) then [SNoOutput] else []) ++
      (if negb (Nat.eqb (length (cf_outputs f)) 0) && td_invoke t then [SInvokeWithOutput] else [])
  end.

(* the declarative reading of "supported signature" *)
Definition supported (s : fsig) : Prop :=
  sg_variadic s = false /\
  (forall i, nth_error (sg_params s) i = Some GCtx -> i = 0) /\
  (forall i, nth_error (sg_results s) i = Some GErr -> S i = length (sg_results s)).
