From CffVerif Require Import AliasModel.

Lemma list_eqb_eq a : forall b, list_eqb a b = true <-> a = b.
Proof.
  induction a as [|x a IH]; intros [|y b]; cbn; try (split; [discriminate | intros H; discriminate H]).
  - tauto.
  - rewrite andb_true_iff, Nat.eqb_eq, IH. split; [intros [-> ->]; reflexivity | intros H; injection H as -> ->; auto].
Qed.

Lemma path_eqb_eq a b : path_eqb a b = true <-> a = b.
Proof.
  destruct a as [a1 a2], b as [b1 b2]. unfold path_eqb. cbn.
  rewrite andb_true_iff, !list_eqb_eq. split; [intros [-> ->]; reflexivity | intros H; injection H as -> ->; auto].
Qed.

Lemma mem_in a l : mem a l = true <-> In a l.
Proof.
  unfold mem. rewrite existsb_exists. split.
  - intros [x [Hx He]]. apply list_eqb_eq in He. now subst.
  - intros H. exists a. split; [assumption | now apply list_eqb_eq].
Qed.

Lemma lookup_some p l n : lookup p l = Some n -> In (p, n) l.
Proof.
  induction l as [|[q m] l IH]; cbn; [discriminate|].
  destruct (path_eqb q p) eqn:E.
  - apply path_eqb_eq in E. subst. intros H. injection H as ->. now left.
  - intros H. right. now apply IH.
Qed.

Lemma lookup_none p l : lookup p l = None -> forall n, ~ In (p, n) l.
Proof.
  induction l as [|[q m] l IH]; cbn; [intros _ n []|].
  destruct (path_eqb q p) eqn:E; [discriminate|].
  intros H n [Hq|Hin].
  - injection Hq as -> _. assert (path_eqb p p = true) by now apply path_eqb_eq. congruence.
  - now apply (IH H n).
Qed.

(* ---- the mangling loop *)
Fixpoint unders (k : nat) (a : str) : str := match k with 0 => a | S k' => underscore :: unders k' a end.

Lemma unders_shift k a : unders k (underscore :: a) = unders (S k) a.
Proof. induction k as [|k IH]; cbn; [reflexivity | now rewrite IH]. Qed.

Lemma pick_sound fuel : forall a taken r, pick fuel a taken = Some r ->
  ~ In r taken /\ exists k, r = unders k a /\ forall j, j < k -> In (unders j a) taken.
Proof.
  induction fuel as [|n IH]; intros a taken r H; [discriminate|]. cbn in H.
  destruct (mem a taken) eqn:E.
  - apply IH in H. destruct H as [Hn [k [-> Hk]]]. split; [assumption|].
    exists (S k). rewrite unders_shift. split; [reflexivity|].
    intros j Hj. destruct j as [|j]; [cbn; now apply mem_in|].
    rewrite <- unders_shift. apply Hk. lia.
  - injection H as <-. split.
    + intros Hin. apply mem_in in Hin. congruence.
    + exists 0. split; [reflexivity|]. intros j Hj. lia.
Qed.

Lemma unders_length k a : length (unders k a) = k + length a.
Proof. induction k as [|k IH]; cbn; [reflexivity | now rewrite IH]. Qed.

Lemma unders_inj j k a : unders j a = unders k a -> j = k.
Proof. intros H. apply (f_equal (@length nat)) in H. rewrite !unders_length in H. lia. Qed.

(* termination: the names taken that are at least as long as the candidate decrease *)
Definition longer (n : nat) (taken : list str) : nat := length (filter (fun t => n <=? length t) taken).

Lemma longer_le n taken : longer n taken <= length taken.
Proof.
  unfold longer. induction taken as [|t taken IH]; cbn [filter length]; [lia|].
  destruct (n <=? length t); cbn [length]; lia.
Qed.

Lemma longer_mono n taken : longer (S n) taken <= longer n taken.
Proof.
  unfold longer. induction taken as [|t taken IH]; cbn [filter length]; [lia|].
  destruct (Nat.leb_spec (S n) (length t)), (Nat.leb_spec n (length t)); cbn [length]; lia.
Qed.

Lemma longer_drop a taken : In a taken -> longer (S (length a)) taken < longer (length a) taken.
Proof.
  unfold longer. induction taken as [|t taken IH]; cbn [In filter]; [contradiction|].
  intros [->|Hin].
  - destruct (Nat.leb_spec (S (length a)) (length a)); [lia|].
    destruct (Nat.leb_spec (length a) (length a)); [|lia]. cbn [length].
    pose proof (longer_mono (length a) taken) as Hm. unfold longer in Hm. lia.
  - specialize (IH Hin).
    destruct (Nat.leb_spec (S (length a)) (length t)), (Nat.leb_spec (length a) (length t)); cbn [length]; lia.
Qed.

Lemma pick_total fuel : forall a taken, longer (length a) taken < fuel -> pick fuel a taken <> None.
Proof.
  induction fuel as [|n IH]; intros a taken H; [lia|]. cbn [pick].
  destruct (mem a taken) eqn:E; [|discriminate].
  apply IH. cbn [length]. apply mem_in in E. pose proof (longer_drop a taken E). lia.
Qed.

Lemma pick_enough a taken : pick (S (length taken)) a taken <> None.
Proof. apply pick_total. pose proof (longer_le (length a) taken). lia. Qed.

(* ---- the invariant of a file's generation *)
Definition eff_name (p : path) (n : str) : str := if is_empty n then snd p else n.

Record AInv (init : list str) (s : ist) : Prop := {
  a_used_init : forall n, In n init -> In n (used s);
  a_names_used : forall p n, In (p, n) (adds s) -> In (eff_name p n) (used s);
  a_names_fresh : forall p n, In (p, n) (adds s) -> ~ In (eff_name p n) init;
  a_inj : forall p q n m, In (p, n) (adds s) -> In (q, m) (adds s) -> eff_name p n = eff_name q m -> p = q;
  a_fun : forall p n m, In (p, n) (adds s) -> In (p, m) (adds s) -> n = m
}.

Lemma ainv_start init : AInv init (start init).
Proof. constructor; cbn; try (intros; contradiction); auto. Qed.

Lemma eff_name_new a p : a <> [] -> eff_name p (rec_name a p) = a.
Proof.
  intros Ha. unfold eff_name, rec_name. destruct (list_eqb a (snd p)) eqn:E.
  - cbn. apply list_eqb_eq in E. now symmetry.
  - destruct a; [now elim Ha | reflexivity].
Qed.

Lemma unders_nonempty k a : a <> [] -> unders k a <> [].
Proof. intros Ha H. apply (f_equal (@length nat)) in H. rewrite unders_length in H. destruct a; [now elim Ha | cbn in H; lia]. Qed.

(* a request returns a name recorded for its path; the state stays consistent and only grows.
   Package names are not empty. *)
Lemma print_alias_step init p name s r s' : AInv init s -> name <> [] ->
  print_alias p name s = Some (r, s') ->
  AInv init s' /\ (exists n, In (p, n) (adds s') /\ eff_name p n = r) /\
  (forall q m, In (q, m) (adds s) -> In (q, m) (adds s')).
Proof.
  intros I Hne H. unfold print_alias in H. destruct (lookup p (adds s)) as [nm|] eqn:El.
  - injection H as <- <-. split; [assumption|]. split; [|auto].
    exists nm. split; [now apply lookup_some | reflexivity].
  - destruct (pick (S (length (used s))) name (used s)) as [a|] eqn:Ep; [|discriminate].
    injection H as <- <-. apply pick_sound in Ep. destruct Ep as [Hfresh [k [-> _]]].
    assert (Ha : unders k name <> []) by now apply unders_nonempty.
    remember (unders k name) as a eqn:Ea. clear Ea.
    pose proof (eff_name_new a p Ha) as He.
    split; [|split].
    + constructor; cbn [adds used].
      * intros n Hn. right. now apply (a_used_init init s I).
      * intros q n [Hq|Hq]; [injection Hq as <- <-; rewrite He; now left | right; now apply (a_names_used init s I q n)].
      * intros q n [Hq|Hq]; [injection Hq as <- <-; rewrite He; intros Hi; apply Hfresh; now apply (a_used_init init s I)
                           | now apply (a_names_fresh init s I q n)].
      * intros q1 q2 n m [H1|H1] [H2|H2] Heq.
        -- injection H1 as <- _. injection H2 as <- _. reflexivity.
        -- injection H1 as <- <-. rewrite He in Heq. exfalso. apply Hfresh. rewrite Heq. now apply (a_names_used init s I q2 m).
        -- injection H2 as <- <-. rewrite He in Heq. exfalso. apply Hfresh. rewrite <- Heq. now apply (a_names_used init s I q1 n).
        -- now apply (a_inj init s I q1 q2 n m).
      * intros q n m [H1|H1] [H2|H2].
        -- injection H1 as _ <-. injection H2 as _ <-. reflexivity.
        -- injection H1 as <- _. exfalso. now apply (lookup_none p (adds s) El m).
        -- injection H2 as <- _. exfalso. now apply (lookup_none p (adds s) El n).
        -- now apply (a_fun init s I q n m).
    + eexists. split; [now left | exact He].
    + intros q m Hq. now right.
Qed.

Lemma requests_inv init : forall reqs s names s', AInv init s ->
  (forall p n, In (p, n) reqs -> n <> []) ->
  requests reqs s = Some (names, s') ->
  AInv init s' /\ (forall q m, In (q, m) (adds s) -> In (q, m) (adds s')) /\
  Forall2 (fun req a => exists n, In (fst req, n) (adds s') /\ eff_name (fst req) n = a) reqs names.
Proof.
  induction reqs as [|[p n] reqs IH]; intros s names s' I Hne H; cbn [requests] in H.
  - injection H as <- <-. split; [assumption|]. split; [auto | constructor].
  - destruct (print_alias p n s) as [[a s1]|] eqn:E1; [|discriminate].
    destruct (requests reqs s1) as [[l s2]|] eqn:E2; [|discriminate]. injection H as <- <-.
    destruct (print_alias_step init p n s a s1 I (Hne p n (or_introl eq_refl)) E1) as [I1 [[m [Hm Hem]] Hmono1]].
    destruct (IH s1 l s2 I1 (fun q k Hq => Hne q k (or_intror Hq)) E2) as [I2 [Hmono2 HF]].
    split; [assumption|]. split; [auto|]. constructor; [|assumption].
    exists m. split; [now apply Hmono2 | assumption].
Qed.

(* requests never get stuck in the mangling loop *)
Lemma requests_total : forall reqs s, requests reqs s <> None.
Proof.
  induction reqs as [|[p n] reqs IH]; intros s; cbn [requests]; [discriminate|].
  unfold print_alias. destruct (lookup p (adds s)).
  - destruct (requests reqs s) as [[l s'']|] eqn:E; [discriminate | now elim (IH s)].
  - destruct (pick (S (length (used s))) n (used s)) eqn:Ep; [|now elim (pick_enough n (used s))].
    match goal with |- context [requests reqs ?st] => destruct (requests reqs st) as [[l s'']|] eqn:E; [discriminate | now elim (IH st)] end.
Qed.

Lemma Forall2_nth {A B} (R : A -> B -> Prop) l1 l2 : Forall2 R l1 l2 ->
  forall i a b, nth_error l1 i = Some a -> nth_error l2 i = Some b -> R a b.
Proof.
  induction 1 as [|x y l1 l2 Hxy _ IH]; intros i a b Ha Hb; destruct i; cbn in *; try discriminate.
  - injection Ha as <-. injection Hb as <-. assumption.
  - eapply IH; eauto.
Qed.

(* the names handed out while a file is generated: one name per import path, the same
   every time the path is asked for, different for different paths, never a name the
   file's own imports occupy *)
Theorem alias_names init reqs names s :
  (forall p n, In (p, n) reqs -> n <> []) ->
  requests reqs (start init) = Some (names, s) ->
  forall i j p q n m a b,
    nth_error reqs i = Some (p, n) -> nth_error reqs j = Some (q, m) ->
    nth_error names i = Some a -> nth_error names j = Some b ->
    (p = q <-> a = b) /\ ~ In a init.
Proof.
  intros Hne H i j p q n m a b Hi Hj Ha Hb.
  destruct (requests_inv init reqs (start init) names s (ainv_start init) Hne H) as [I [_ HF]].
  destruct (Forall2_nth _ _ _ HF i _ _ Hi Ha) as [n1 [Hin1 He1]].
  destruct (Forall2_nth _ _ _ HF j _ _ Hj Hb) as [n2 [Hin2 He2]]. cbn [fst] in *.
  split; [split|].
  - intros <-. rewrite <- He1, <- He2. f_equal. eapply (a_fun init s I); eauto.
  - intros <-. eapply (a_inj init s I); eauto. congruence.
  - rewrite <- He1. eapply (a_names_fresh init s I); eauto.
Qed.
