(* Layer 2, Go scoping around a generated directive. The directive is replaced by
     func() (err error) { <prologue: _L_C := user expression ...> <body> }()
   inside the user's function. Identifiers are numbers. A name is looked up in the scopes
   from the innermost outwards: the closure's block (what has been declared so far in it),
   the enclosing function's locals, the file's package-level names and imports.
   Definitions only. *)
From Coq Require Export List Arith Bool Lia.
Export ListNotations.

Inductive binding := BClosure | BUserLocal | BFileLevel | BUnbound.

Definition memn (x : nat) (l : list nat) : bool := existsb (Nat.eqb x) l.

Definition resolve (closure locals file : list nat) (x : nat) : binding :=
  if memn x closure then BClosure
  else if memn x locals then BUserLocal
  else if memn x file then BFileLevel
  else BUnbound.

(* the closure's named result *)
Definition id_err : nat := 0.

(* what the closure has declared when the i-th hoisted expression is evaluated: its result
   parameter and the variables of the earlier hoisted expressions *)
Definition scope_at_prologue (earlier_vars : list nat) : list nat := id_err :: earlier_vars.

(* where a free identifier of a user expression is bound when it is evaluated in the
   prologue, and where the user's program binds it (no closure there) *)
Definition bound_in_generated (earlier_vars locals file : list nat) (x : nat) : binding :=
  resolve (scope_at_prologue earlier_vars) locals file x.
Definition bound_in_source (locals file : list nat) (x : nat) : binding := resolve [] locals file x.

(* where a package reference written by a template (time, debug, context, the cff import)
   is bound inside the closure body, given what the body has declared, and where the
   template means it to be bound (the file's import) *)
Definition template_ref (body_decls locals file : list nat) (pkg : nat) : binding :=
  resolve (id_err :: body_decls) locals file pkg.
