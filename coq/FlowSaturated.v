(* Saturated executions (what ContinueOnError produces, C08; and what a run without failure
   is): every job all of whose dependencies returned nil has run. In such an execution the
   jobs that ran are exactly the tasks the flow semantics does not block, the failures are
   exactly the failures of the semantics and nothing else. *)
From CffVerif Require Import FlowOpModel FlowOpProofs FlowSemProofs FlowAdequacy FlowComplete.

Lemma fid_eq_dec (a b : fid) : {a = b} + {a <> b}.
Proof. decide equality; apply Nat.eq_dec. Defined.

Section Saturated.
  Variable f : fflow.
  Variable sc : scenario.
  Hypothesis Huniq : unique_providers f.
  Hypothesis Hprov : all_provided_b f = true.

  Notation reach := (reach f sc).

  (* nothing more can run *)
  Definition saturated (e : exec) : Prop :=
    forall x, In x (all_jobs f) -> ~ In x (ran e) -> exists d, In d (jdeps f x) /\ ~ In d (xok e).

  Lemma failed_entry e x ef : reach e -> In (x, ef) (xlog e) -> ~ In x (xok e) -> exists er, je_res ef = JFail er.
  Proof.
    intros R Hin Hn. pose proof (reach_good f sc Huniq e R) as G.
    destruct (je_res ef) as [|er] eqn:E; [|eauto]. elim Hn. apply (g_ok f sc e G). eauto.
  Qed.

  (* a type whose provider did not return nil has no value in the semantics, at any fuel *)
  Lemma no_value n : forall e, reach e -> saturated e ->
    (forall t k i, gprov f t = Some (k, i) -> ~ In (FT k) (xok e) -> tval f sc n t = None) /\
    (forall k, k < length (gtasks f) -> ~ In (FT k) (ran e) -> exists pc, tresult f sc n k = RBlocked pc).
  Proof.
    induction n as [|n IH]; intros e R Hsat.
    - split; [reflexivity | intros k _ _; eexists; reflexivity].
    - destruct (IH e R Hsat) as [IHv IHr]. pose proof (reach_good f sc Huniq e R) as G.
      assert (Hval : forall t k i, gprov f t = Some (k, i) -> ~ In (FT k) (xok e) -> tval f sc (S n) t = None).
      { intros t k i Hg Hn. rewrite tval_S. unfold val_step. rewrite Hg.
        destruct (gprov_sound f t k i Hg) as [Hk _].
        destruct (tresult f sc n k) as [pc|er pc tc|outs pc tc] eqn:Et; try reflexivity. exfalso.
        destruct (in_dec fid_eq_dec (FT k) (ran e)) as [Hran|Hnran].
        - unfold ran in Hran. apply in_map_iff in Hran. destruct Hran as [[x ef] [Ex Hin]]. cbn in Ex. subst x.
          destruct (sem_sound f sc Huniq n) as (_ & Hres & _). specialize (Hres k e ef R Hin). rewrite Et in Hres.
          destruct Hres as [Hok _]. apply Hn. apply (g_ok f sc e G). eauto.
        - destruct (IHr k Hk Hnran) as [pc' E']. congruence. }
      split; [exact Hval|].
      intros k Hk Hnran. rewrite tresult_S. unfold task_step. fold (taskof f k).
      destruct (Hsat (FT k) (proj2 (in_all_jobs_FT f k) Hk) Hnran) as [d [Hd Hdn]].
      cbn [jdeps] in Hd. apply in_app_or in Hd. destruct Hd as [Hd|Hd].
      + (* an input's provider did not return nil *)
        unfold prov_jobs in Hd. apply in_flat_map in Hd. destruct Hd as (t & Ht & Hd).
        destruct (gprov f t) as [[k' i]|] eqn:Hg; [|contradiction]. destruct Hd as [<-|[]].
        assert (Hnone : all_some (map (tval f sc n) (kins (taskof f k))) = None).
        { apply all_some_none_in. rewrite <- (IHv t k' i Hg Hdn). now apply in_map. }
        rewrite Hnone. destruct (kpred (taskof f k)) as [pins|]; [|eauto].
        destruct (all_some (map (tval f sc n) pins)); eauto.
      + (* the predicate job did not return nil: it did not run, so one of its inputs is missing *)
        destruct (kpred (taskof f k)) as [pins|] eqn:Ep; [|contradiction]. destruct Hd as [<-|[]].
        assert (Hpn : ~ In (FP k) (ran e)).
        { intros Hr. unfold ran in Hr. apply in_map_iff in Hr. destruct Hr as [[x ef] [Ex Hin]]. cbn in Ex. subst x.
          apply Hdn. apply (g_ok f sc e G). exists ef. split; [exact Hin|].
          rewrite <- (g_stable f sc e G _ _ Hin). apply job_FP_outs. }
        assert (Hjob : In (FP k) (all_jobs f)).
        { unfold all_jobs. apply in_flat_map. exists k. split; [apply in_seq; lia|]. rewrite Ep. now left. }
        destruct (Hsat (FP k) Hjob Hpn) as [d [Hd Hdn']]. cbn [jdeps] in Hd. rewrite Ep in Hd.
        unfold prov_jobs in Hd. apply in_flat_map in Hd. destruct Hd as (t & Ht & Hd).
        destruct (gprov f t) as [[k' i]|] eqn:Hg; [|contradiction]. destruct Hd as [<-|[]].
        assert (Hnone : all_some (map (tval f sc n) pins) = None).
        { apply all_some_none_in. rewrite <- (IHv t k' i Hg Hdn'). now apply in_map. }
        rewrite Hnone. eauto.
  Qed.

  (* in a saturated execution a task ran exactly when the semantics does not block it, and
     then with the outcome of the semantics *)
  Theorem saturated_ran_iff e k : reach e -> saturated e -> k < length (gtasks f) ->
    (In (FT k) (ran e) <-> forall pc, tresult f sc (fuel_of f) k <> RBlocked pc).
  Proof.
    intros R Hsat Hk. split.
    - intros Hr. unfold ran in Hr. apply in_map_iff in Hr. destruct Hr as [[x ef] [Ex Hin]]. cbn in Ex. subst x.
      apply (sem_complete f sc Huniq Hprov e k ef R Hin).
    - intros Hn. destruct (in_dec fid_eq_dec (FT k) (ran e)) as [H|H]; [exact H|].
      destruct (proj2 (no_value (fuel_of f) e R Hsat) k Hk H) as [pc E]. now elim (Hn pc).
  Qed.

  (* the failures of a saturated execution are exactly the failures of the semantics *)
  Theorem saturated_failures e er : reach e -> saturated e ->
    (In er (xfail e) <-> In er (failures f sc)).
  Proof.
    intros R Hsat. pose proof (reach_good f sc Huniq e R) as G. unfold xfail, failures, results_of. split.
    - intros H. apply in_flat_map in H. destruct H as ([x ef] & Hin & Her). cbn [snd] in Her.
      destruct (je_res ef) as [|er'] eqn:Er; [contradiction|]. destruct Her as [<-|[]].
      destruct x as [k|k].
      + pose proof (semantics_is_the_generated_code f sc Huniq Hprov e k ef R Hin) as Hs.
        assert (Hk : k < length (gtasks f)) by (apply in_all_jobs_FT; apply (g_jobs f sc e G); eapply in_ran; eauto).
        apply in_flat_map. exists (tresult f sc (fuel_of f) k). split; [apply in_map; apply in_seq; lia|].
        destruct (tresult f sc (fuel_of f) k) as [pc|e0 pc tc|outs pc tc]; [contradiction| |].
        * destruct Hs as [Hs _]. rewrite Er in Hs. injection Hs as ->. now left.
        * destruct Hs as [Hs _]. congruence.
      + rewrite <- (g_stable f sc e G _ _ Hin) in Er. destruct (job_FP_outs f sc (xstore e) k) as [_ Hok]. congruence.
    - intros H. apply in_flat_map in H. destruct H as (r & Hr & Her).
      apply in_map_iff in Hr. destruct Hr as (k & <- & Hk). apply in_seq in Hk.
      destruct (tresult f sc (fuel_of f) k) as [pc|e0 pc tc|outs pc tc] eqn:Et; try contradiction.
      destruct Her as [<-|[]].
      assert (Hran : In (FT k) (ran e)).
      { apply (saturated_ran_iff e k R Hsat); [lia|]. intros pc'. rewrite Et. discriminate. }
      unfold ran in Hran. apply in_map_iff in Hran. destruct Hran as [[x ef] [Ex Hin]]. cbn in Ex. subst x.
      pose proof (semantics_is_the_generated_code f sc Huniq Hprov e k ef R Hin) as Hs. rewrite Et in Hs.
      destruct Hs as [Hs _]. apply in_flat_map. exists (FT k, ef). split; [exact Hin|]. cbn [snd]. rewrite Hs. now left.
  Qed.

  (* a saturated execution without failure of an acyclic job graph (some rank decreases along
     every dependency - the graphs the validator accepts) ran every job: "nil only if every
     task ran" *)
  Theorem saturated_no_failure_complete (rk : fid -> nat) e :
    (forall x d, In d (jdeps f x) -> rk d < rk x) ->
    reach e -> saturated e -> xfail e = [] -> complete f e = true.
  Proof.
    intros Hrk R Hsat Hnf. pose proof (reach_good f sc Huniq e R) as G.
    assert (Hall : forall n x, rk x < n -> In x (all_jobs f) -> In x (xok e)).
    { induction n as [|n IH]; intros x Hx Hj; [lia|].
      assert (Hdeps : forall d, In d (jdeps f x) -> In d (xok e)).
      { intros d Hd. apply IH; [specialize (Hrk x d Hd); lia|].
        destruct d as [k|k].
        - cbn [jdeps] in Hd. destruct x as [kx|kx]; cbn [jdeps] in Hd.
          + apply in_app_or in Hd. destruct Hd as [Hd|Hd].
            * unfold prov_jobs in Hd. apply in_flat_map in Hd. destruct Hd as (t & _ & Hd).
              destruct (gprov f t) as [[k' i]|] eqn:Hg; [|contradiction]. destruct Hd as [E|[]]. injection E as <-.
              apply in_all_jobs_FT. apply (gprov_sound f t k' i Hg).
            * destruct (kpred (taskof f kx)); [destruct Hd as [E|[]]; discriminate | contradiction].
          + destruct (kpred (taskof f kx)) as [pins|]; [|contradiction].
            unfold prov_jobs in Hd. apply in_flat_map in Hd. destruct Hd as (t & _ & Hd).
            destruct (gprov f t) as [[k' i]|] eqn:Hg; [|contradiction]. destruct Hd as [E|[]]. injection E as <-.
            apply in_all_jobs_FT. apply (gprov_sound f t k' i Hg).
        - destruct x as [kx|kx]; cbn [jdeps] in Hd.
          + apply in_app_or in Hd. destruct Hd as [Hd|Hd].
            * unfold prov_jobs in Hd. apply in_flat_map in Hd. destruct Hd as (t & _ & Hd).
              destruct (gprov f t) as [[k' i]|]; [destruct Hd as [E|[]]; discriminate | contradiction].
            * destruct (kpred (taskof f kx)) as [pins|] eqn:Ep; [|contradiction]. destruct Hd as [E|[]]. injection E as <-.
              apply in_all_jobs_FT in Hj. unfold all_jobs. apply in_flat_map. exists kx. split; [apply in_seq; lia|]. rewrite Ep. now left.
          + destruct (kpred (taskof f kx)) as [pins|]; [|contradiction].
            unfold prov_jobs in Hd. apply in_flat_map in Hd. destruct Hd as (t & _ & Hd).
            destruct (gprov f t) as [[k' i]|]; [destruct Hd as [E|[]]; discriminate | contradiction]. }
      destruct (in_dec fid_eq_dec x (ran e)) as [Hr|Hnr].
      - unfold ran in Hr. apply in_map_iff in Hr. destruct Hr as [[y ef] [Ey Hin]]. cbn in Ey. subst y.
        apply (g_ok f sc e G). exists ef. split; [exact Hin|].
        destruct (je_res ef) as [|er] eqn:Er; [reflexivity|]. exfalso.
        assert (Hf : In er (xfail e)).
        { unfold xfail. apply in_flat_map. exists (x, ef). split; [exact Hin|]. cbn [snd]. rewrite Er. now left. }
        rewrite Hnf in Hf. contradiction.
      - destruct (Hsat x Hj Hnr) as [d [Hd Hnd]]. elim Hnd. now apply Hdeps. }
    unfold complete. apply forallb_forall. intros x Hx. apply existsb_fid. apply (Hall (S (rk x))); [lia | exact Hx].
  Qed.
End Saturated.
