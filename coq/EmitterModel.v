(* Layer 2, emitters: cff.EmitterStack (emitter_stack.go). A stack built by EmitterStack
   is a flat slice of non-stack emitters: nested stacks are flattened when the outer one
   is built; each method of a stack calls the same method of every element in turn.
   Definitions only. *)
From Coq Require Export List Arith Bool Lia.
Export ListNotations.

(* the values of type cff.Emitter the function handles *)
Inductive atom := ALeaf (id : nat) | ANop.
Inductive emv := VOne (a : atom) | VStack (l : list atom).

Definition atoms (v : emv) : list atom := match v with VOne a => [a] | VStack l => l end.

(* func EmitterStack(emitters ...Emitter) Emitter *)
Definition mk_stack (args : list emv) : emv :=
  match args with
  | [] => VOne ANop
  | [x] => x
  | _ => VStack (flat_map atoms args)
  end.

(* expressions the user writes: emitters combined with EmitterStack, however nested *)
Inductive etree := ELeaf (id : nat) | ENop | EStack (l : list etree).

Fixpoint build (t : etree) : emv :=
  match t with
  | ELeaf i => VOne (ALeaf i)
  | ENop => VOne ANop
  | EStack l => mk_stack (map build l)
  end.

(* calling one method (one event) on an emitter value: which user emitters receive it *)
Definition deliver_atom (a : atom) : list nat := match a with ALeaf i => [i] | ANop => [] end.
Definition deliver (v : emv) : list nat := flat_map deliver_atom (atoms v).

(* the user emitters of an expression, in order *)
Fixpoint leaves (t : etree) : list nat :=
  match t with
  | ELeaf i => [i]
  | ENop => []
  | EStack l => flat_map leaves l
  end.

(* a whole sequence of events sent to the combined emitter: what emitter i receives *)
Definition received {E} (v : emv) (evs : list E) (i : nat) : list E :=
  flat_map (fun e => map (fun _ => e) (filter (Nat.eqb i) (deliver v))) evs.
