(* The dependency-countdown invariant of the scheduler loop: which jobs are
   waiting / released / done, and what is known about a released job's dependencies. *)
From CffVerif Require Import SchedModel SchedLemmas SchedInv.

Definition holds (j : nat) (w : wst) : bool :=
  match w with WGot x | WRun x | WPost x _ => Nat.eqb x j | _ => false end.
Definition held (ws : list wst) (j : nat) : nat := countb (holds j) ws.
Definition b2n (b : bool) : nat := if b then 1 else 0.
Definition relc (rd : list nat) (ws : list wst) (dc : list (nat * option err)) (j : nat) : nat :=
  count_occ Nat.eq_dec rd j + held ws j + count_occ Nat.eq_dec (map fst dc) j.
Definition waitingj (js : list jst) (j : nat) : bool := (0 <? remaining (jget js j))%Z.

Section Inv2.
  Variable c : cfg.
  Hypothesis wf : wf_cfg c.
  Notation n := (length (cprog c)).
  Notation deps j := (jdeps (spec c j)).

  Definition nrecv (s : core) : nat := sentn c s - length (enq s).

  Record Inv2' (l : lpc) (nr : nat) (js : list jst) (rel : nat -> nat) : Prop := {
    i2_pristine : l = LRun -> forall j, nr <= j -> jget js j = jst0;
    i2_rem : l = LRun -> forall j, j < nr ->
             remaining (jget js j) = Z.of_nat (length (filter (undone_in js) (deps j)));
    i2_cons : l = LRun -> forall d j, jdone (jget js d) = false ->
              count_occ Nat.eq_dec (consumers (jget js d)) j
              = if waitingj js j then count_occ Nat.eq_dec (deps j) d else 0;
    i2_places : l = LRun -> forall j,
                rel j + b2n (jdone (jget js j)) = if (j <? nr) && negb (waitingj js j) then 1 else 0;
    i2_places_le : forall j, rel j + b2n (jdone (jget js j)) <= 1;
    i2_released : forall j, 0 < rel j -> forall d, In d (deps j) ->
                  jdone (jget js d) = true /\ (jerr (jget js d) = None \/ jinvalid (jget js j) = true);
    i2_inval : l = LRun -> forall j, j < nr -> forall d, In d (deps j) -> jdone (jget js d) = true ->
               jerr (jget js d) = None \/ jinvalid (jget js j) = true;
    i2_ff : ccoe c = false -> l = LRun -> forall d, jdone (jget js d) = true -> jerr (jget js d) = None;
    i2_range : forall j, 0 < rel j + b2n (jdone (jget js j)) -> j < n;
    i2_nr : l = LRun -> nr <= n;
    i2_noerr : forall j, jdone (jget js j) = false -> jerr (jget js j) = None;
  }.

  Definition Inv2 (s : core) : Prop :=
    Inv2' (lp s) (nrecv s) (jobs s) (relc (ready s) (workers s) (donec s)).

  Lemma inv2_ext l nr js rel rel' :
    (forall j, rel j = rel' j) -> Inv2' l nr js rel -> Inv2' l nr js rel'.
  Proof.
    intros E I. destruct I. constructor; intros; rewrite <- ?E in *; eauto.
  Qed.

  (* leaving LRun drops every LRun-guarded clause *)
  Lemma inv2_leave l nr nr' js rel : l <> LRun -> Inv2' LRun nr js rel -> Inv2' l nr' js rel.
  Proof.
    intros Hl I. destruct I. constructor; intros; try congruence; eauto.
  Qed.
  Lemma inv2_stay l l' nr nr' js rel : l <> LRun -> l' <> LRun -> Inv2' l nr js rel -> Inv2' l' nr' js rel.
  Proof.
    intros Hl Hl' I. destruct I. constructor; intros; try congruence; eauto.
  Qed.

  Lemma jget_repeat k x : jget (repeat jst0 k) x = jst0.
  Proof.
    unfold jget. destruct (Nat.lt_ge_cases x k).
    - now apply nth_repeat_lt.
    - apply nth_overflow. now rewrite repeat_length.
  Qed.

  Lemma held_idle k j : held (repeat WIdle k) j = 0.
  Proof. unfold held. induction k; cbn; auto. Qed.

  Lemma inv2_init : Inv2 (initc c).
  Proof.
    unfold Inv2, nrecv, sentn, relc. cbn.
    assert (Hh : forall j, length (filter (holds j) (repeat WIdle (cN c))) = 0)
      by (intros j; apply (held_idle (cN c) j)).
    constructor; intros; unfold waitingj; rewrite ?jget_repeat in *; cbn in *;
      rewrite ?Hh in *; cbn in *; try lia; auto.
  Qed.

  (* ---------- held under worker updates ---------- *)
  Lemma held_upd ws w x j :
    w < length ws ->
    held (upd w (fun _ => x) ws) j + b2n (holds j (nth w ws WExit)) = held ws j + b2n (holds j x).
  Proof.
    intros H. unfold held. pose proof (countb_upd (holds j) w (fun _ => x) ws WExit H) as E.
    unfold b2n. cbn in E. lia.
  Qed.

  Lemma relc_check rd ws dc w x y j :
    nth w ws WExit = x -> x <> WExit -> (forall j, holds j y = holds j x) ->
    relc rd (upd w (fun _ => y) ws) dc j = relc rd ws dc j.
  Proof.
    intros Hx Hne Hh. unfold relc. f_equal. f_equal.
    assert (L : w < length ws) by (apply (nth_not_default_lt ws w WExit); congruence).
    pose proof (held_upd ws w y j L) as E. rewrite Hx, Hh in E. lia.
  Qed.

  Lemma count_occ_map_app dc (j0 : nat) (r : option err) j :
    count_occ Nat.eq_dec (map fst (dc ++ [(j0, r)])) j
    = count_occ Nat.eq_dec (map fst dc) j + b2n (Nat.eqb j0 j).
  Proof.
    rewrite map_app, count_occ_app. cbn [map fst count_occ]. unfold b2n.
    destruct (Nat.eq_dec j0 j) as [->|Hne]; [rewrite Nat.eqb_refl; reflexivity|].
    destruct (Nat.eqb_spec j0 j); [congruence|reflexivity].
  Qed.

  Lemma inv2_frame s s' :
    lp s' = lp s -> nrecv s' = nrecv s -> jobs s' = jobs s ->
    (forall j, relc (ready s') (workers s') (donec s') j = relc (ready s) (workers s) (donec s) j) ->
    Inv2 s -> Inv2 s'.
  Proof.
    unfold Inv2. intros -> -> -> E I. eapply inv2_ext; [|exact I]. intros j. now rewrite E.
  Qed.

  Lemma inv2_nonrun s s' :
    lp s <> LRun -> lp s' <> LRun -> jobs s' = jobs s ->
    (forall j, relc (ready s') (workers s') (donec s') j = relc (ready s) (workers s) (donec s) j) ->
    Inv2 s -> Inv2 s'.
  Proof.
    unfold Inv2. intros H1 H2 -> E I. eapply inv2_ext; [intros j; symmetry; apply E|].
    eapply inv2_stay; [exact H1 | exact H2 | exact I].
  Qed.

  Lemma inv2_drain s : lp s = LRun -> Inv2 s -> Inv2 (set_lp LDrain s).
  Proof.
    unfold Inv2. intros H I. rewrite H in I. cbn. eapply inv2_leave; [discriminate|exact I].
  Qed.

  Lemma relc_dispatch j rest ws dc w x :
    nth w ws WExit = WIdle ->
    relc rest (upd w (fun _ => WGot j) ws) dc x = relc (j :: rest) ws dc x.
  Proof.
    intros Hw. unfold relc. cbn [count_occ].
    assert (L : w < length ws) by (apply (nth_not_default_lt ws w WExit); congruence).
    pose proof (held_upd ws w (WGot j) x L) as E. rewrite Hw in E. cbn [holds b2n] in E.
    destruct (Nat.eq_dec j x) as [->|Hne].
    - rewrite Nat.eqb_refl in E. cbn in E. lia.
    - destruct (Nat.eqb_spec j x); [congruence|]. cbn in E. lia.
  Qed.

  Lemma relc_post rd ws dc w j r x :
    nth w ws WExit = WPost j r ->
    relc rd (upd w (fun _ => WIdle) ws) (dc ++ [(j, r)]) x = relc rd ws dc x.
  Proof.
    intros Hw. unfold relc. rewrite count_occ_map_app.
    assert (L : w < length ws) by (apply (nth_not_default_lt ws w WExit); congruence).
    pose proof (held_upd ws w WIdle x L) as E. rewrite Hw in E. cbn [holds] in E.
    unfold b2n in *. destruct (j =? x); lia.
  Qed.

  Lemma inv2_step_easy s a s' evs :
    match a with ALoopEnqRecv | ALoopDone _ => False | _ => True end ->
    Inv1 c s -> Inv2 s -> stepc c s a = Some (s', evs) -> Inv2 s'.
  Proof.
    intros Ha I1 I2 H. destruct a; try contradiction; stepc_inv H; fin_step H.
    - (* CallerEnq *)
      apply inv2_frame with (s := s); auto. unfold nrecv, sentn. cbn.
      match goal with E : cp s = _ |- _ => rewrite E end.
      match goal with E : enq s = _ |- _ => rewrite E end. cbn. lia.
    - (* CallerWait *)
      apply inv2_frame with (s := s); auto. unfold nrecv, sentn. cbn.
      match goal with E : cp s = _ |- _ => rewrite E end.
      match goal with E : (_ =? _) = true |- _ => apply Nat.eqb_eq in E; rewrite E end. reflexivity.
    - apply inv2_frame with (s := s); auto. unfold nrecv, sentn. cbn.
      match goal with E : cp s = _ |- _ => rewrite E end. reflexivity.
    - apply inv2_frame with (s := s); auto. unfold nrecv, sentn. cbn.
      match goal with E : cp s = _ |- _ => rewrite E end. reflexivity.
    - (* Dispatch *)
      apply inv2_frame with (s := s); auto. intros x. cbn.
      match goal with E : ready s = _ |- _ => rewrite E end. now apply relc_dispatch.
    - apply inv2_drain; [assumption|].
      apply inv2_frame with (s := s); auto. intros x. cbn.
      match goal with E : ready s = _ |- _ => rewrite E end. now apply relc_dispatch.
    - apply inv2_frame with (s := s); auto.
    - apply inv2_drain; [assumption|]. apply inv2_frame with (s := s); auto.
    - assumption.
    - now apply inv2_drain.
    - (* Drain *)
      apply inv2_nonrun with (s := s); auto; cbn; congruence.
    - apply inv2_nonrun with (s := s); auto; cbn; congruence.
    - (* worker check: ctx *)
      apply inv2_frame with (s := s); auto. intros x. cbn.
      eapply relc_check; [eassumption|discriminate|reflexivity].
    - apply inv2_frame with (s := s); auto. intros x. cbn.
      eapply relc_check; [eassumption|discriminate|reflexivity].
    - apply inv2_frame with (s := s); auto. intros x. cbn.
      eapply relc_check; [eassumption|discriminate|reflexivity].
    - apply inv2_frame with (s := s); auto. intros x. cbn.
      eapply relc_check; [eassumption|discriminate|reflexivity].
    - apply inv2_frame with (s := s); auto. intros x. cbn. now apply relc_post.
    - apply inv2_frame with (s := s); auto. intros x. cbn.
      eapply relc_check; [eassumption|discriminate|reflexivity].
    - apply inv2_frame with (s := s); auto.
  Qed.

  Lemma undone_in_ext js js' : (forall x, jdone (jget js' x) = jdone (jget js x)) ->
    forall ds, filter (undone_in js') ds = filter (undone_in js) ds.
  Proof. intros H ds. apply filter_ext'. intros a. unfold undone_in. now rewrite H. Qed.

  Lemma wf_deps_lt k d : k < n -> In d (deps k) -> d < k.
  Proof. intros Hk Hd. destruct wf as [_ W]. eapply W; eauto. Qed.

  Lemma inv2_enqrecv s k rest :
    Inv1 c s -> Inv2 s -> lp s = LRun -> enq s = k :: rest ->
    let js' := reg_deps k (deps k) (jobs s) in
    let s1 := set_pending (pending s + 1)%Z (set_jobs js' (set_enq rest s)) in
    let s2 := if (remaining (nth k js' jst0) =? 0)%Z
              then set_ready (ready s1 ++ [k]) s1 else set_waiting (waiting s1 + 1)%Z s1 in
    Inv2 s2.
  Proof.
    intros I1 I2 Hl He js' s1 s2.
    (* facts about k *)
    destruct (i1_enq _ _ I1) as [E|[E Hs1]]; rewrite He in E; [discriminate|].
    injection E as Ek Er. subst rest.
    pose proof (i1_sent _ _ I1) as Hsn. pose proof (i1_jobs _ _ I1) as Lj.
    assert (Hnr : nrecv s = k) by (unfold nrecv; rewrite He; cbn; lia).
    assert (Hkn : k < n) by lia.
    unfold Inv2 in I2. rewrite Hl, Hnr in I2.
    set (js := jobs s) in *. set (rel := relc (ready s) (workers s) (donec s)) in *.
    assert (Hkl : k < length js) by lia.
    assert (Hnin : ~ In k (deps k)) by (intros H; apply wf_deps_lt in H; lia).
    assert (Hdl : forall x, In x (deps k) -> x < length js) by (intros x H; apply wf_deps_lt in H; lia).
    pose proof (i2_pristine _ _ _ _ I2 eq_refl k (le_n k)) as Pk.
    assert (Hrel0 : rel k = 0 /\ jdone (jget js k) = false).
    { pose proof (i2_places _ _ _ _ I2 eq_refl k) as P. rewrite Nat.ltb_irrefl in P. cbn in P.
      rewrite Pk in *. cbn in *. split; [lia|reflexivity]. }
    destruct Hrel0 as [Hrel0 Hdk].
    (* effects of reg_deps *)
    assert (Hde : forall x, jdone (jget js' x) = jdone (jget js x) /\ jerr (jget js' x) = jerr (jget js x))
      by (intros x; apply reg_deps_done_err).
    assert (Hot : forall x, x <> k -> remaining (jget js' x) = remaining (jget js x) /\
                                      jinvalid (jget js' x) = jinvalid (jget js x))
      by (intros x Hx; now apply reg_deps_other).
    destruct (reg_deps_self k (deps k) js Hkl Hnin) as (Rk & Vk & Ck). fold js' in Rk, Vk, Ck.
    rewrite Pk in Rk, Vk, Ck. cbn in Rk, Vk, Ck.
    assert (Hco : forall d y, count_occ Nat.eq_dec (consumers (jget js' d)) y
                   = count_occ Nat.eq_dec (consumers (jget js d)) y
                     + (if (Nat.eqb y k) && undone_in js d then count_occ Nat.eq_dec (deps k) d else 0))
      by (intros d y; now apply reg_deps_consumers).
    assert (Hun : forall ds, filter (undone_in js') ds = filter (undone_in js) ds)
      by (apply undone_in_ext; intros x; apply Hde).
    assert (Hwo : forall x, x <> k -> waitingj js' x = waitingj js x)
      by (intros x Hx; unfold waitingj; now rewrite (proj1 (Hot x Hx))).
    assert (Hwk : waitingj js k = false) by (unfold waitingj; now rewrite Pk).
    (* the new rel function *)
    set (released := (remaining (jget js' k) =? 0)%Z).
    assert (Hrel' : forall x, relc (ready s2) (workers s2) (donec s2) x
                              = rel x + (if released && (Nat.eqb k x) then 1 else 0)).
    { intros x. unfold s2, s1, released, rel, relc, jget, held, countb. destruct (_ =? 0)%Z; cbn.
      - rewrite count_occ_app. cbn. destruct (Nat.eq_dec k x) as [->|Hne].
        + rewrite Nat.eqb_refl. lia.
        + destruct (Nat.eqb_spec k x); [congruence|lia].
      - lia. }
    assert (Hlp : lp s2 = LRun) by (unfold s2, s1; destruct (_ =? 0)%Z; cbn; assumption).
    assert (Hjs : jobs s2 = js') by (unfold s2, s1; destruct (_ =? 0)%Z; reflexivity).
    assert (Hnr' : nrecv s2 = S k).
    { unfold nrecv, sentn, s2, s1. destruct (_ =? 0)%Z; cbn; unfold sentn in *; lia. }
    unfold Inv2. rewrite Hlp, Hjs, Hnr'.
    eapply inv2_ext; [intros x; symmetry; apply Hrel'|].
    assert (Rnn : (0 <= remaining (jget js' k))%Z) by lia.
    assert (Hrelk : released = negb (waitingj js' k)).
    { unfold released, waitingj. destruct (Z.eqb_spec (remaining (jget js' k)) 0);
        destruct (Z.ltb_spec 0 (remaining (jget js' k))); cbn; auto; lia. }
    constructor.
    - (* pristine *)
      intros _ j Hj. unfold js'. rewrite reg_deps_untouched; [apply (i2_pristine _ _ _ _ I2 eq_refl); lia | lia |].
      intros H. apply wf_deps_lt in H; lia.
    - (* remaining *)
      intros _ j Hj. rewrite Hun. destruct (Nat.eq_dec j k) as [->|Hne].
      + rewrite Rk. reflexivity.
      + rewrite (proj1 (Hot j Hne)). apply (i2_rem _ _ _ _ I2 eq_refl). lia.
    - (* consumers *)
      intros _ d j Hd. rewrite (proj1 (Hde d)) in Hd. rewrite Hco.
      rewrite (i2_cons _ _ _ _ I2 eq_refl d j Hd). unfold undone_in at 1. rewrite Hd. cbn [negb]. rewrite andb_true_r.
      destruct (Nat.eqb_spec j k) as [->|Hne].
      + rewrite Hwk. cbn. destruct (waitingj js' k) eqn:W; [reflexivity|].
        assert (R0 : length (filter (undone_in js) (deps k)) = 0).
        { unfold waitingj in W. apply Z.ltb_ge in W. lia. }
        apply count_occ_not_In. intros Hin. pose proof (filter_none _ _ R0 d Hin) as F.
        unfold undone_in in F. rewrite Hd in F. discriminate.
      + rewrite Hwo by auto. lia.
    - (* places *)
      intros _ j. rewrite (proj1 (Hde j)). destruct (Nat.eq_dec k j) as [<-|Hne].
      + rewrite Nat.eqb_refl, andb_true_r, Hrel0, Hdk. cbn [b2n].
        replace (k <? S k) with true by (symmetry; apply Nat.ltb_lt; lia). cbn [andb].
        rewrite <- Hrelk. destruct released; reflexivity.
      + destruct (Nat.eqb_spec k j); [congruence|]. rewrite andb_false_r, Nat.add_0_r.
        rewrite (i2_places _ _ _ _ I2 eq_refl j). rewrite Hwo by auto.
        replace (j <? S k) with (j <? k); [reflexivity|].
        destruct (Nat.ltb_spec j k), (Nat.ltb_spec j (S k)); auto; lia.
    - (* places_le *)
      intros j. rewrite (proj1 (Hde j)). destruct (Nat.eq_dec k j) as [<-|Hne].
      + rewrite Hrel0, Hdk. destruct (released && _); cbn; lia.
      + destruct (Nat.eqb_spec k j); [congruence|]. rewrite andb_false_r, Nat.add_0_r.
        apply (i2_places_le _ _ _ _ I2).
    - (* released *)
      intros j Hj d Hd. rewrite (proj1 (Hde d)), (proj2 (Hde d)).
      destruct (Nat.eq_dec k j) as [<-|Hne].
      + rewrite Nat.eqb_refl, andb_true_r, Hrel0 in Hj. destruct released eqn:Rl; [|cbn in Hj; lia].
        unfold released in Rl. apply Z.eqb_eq in Rl.
        assert (R0 : length (filter (undone_in js) (deps k)) = 0) by lia.
        pose proof (filter_none _ _ R0 d Hd) as F. unfold undone_in in F. apply negb_false_iff in F.
        split; [exact F|]. destruct (jerr (jget js d)) eqn:Ed; [right|now left].
        rewrite Vk. apply existsb_exists. exists d. split; [exact Hd|].
        unfold failed_in. rewrite F, Ed. reflexivity.
      + destruct (Nat.eqb_spec k j); [congruence|]. rewrite andb_false_r, Nat.add_0_r in Hj.
        rewrite (proj2 (Hot j (not_eq_sym Hne))). apply (i2_released _ _ _ _ I2 j Hj d Hd).
    - (* inval *)
      intros _ j Hj d Hd Hdd. rewrite (proj1 (Hde d)) in Hdd. rewrite (proj2 (Hde d)).
      destruct (Nat.eq_dec j k) as [->|Hne].
      + destruct (jerr (jget js d)) eqn:Ed; [right|now left].
        rewrite Vk. apply existsb_exists. exists d. split; [exact Hd|].
        unfold failed_in. rewrite Hdd, Ed. reflexivity.
      + rewrite (proj2 (Hot j Hne)). apply (i2_inval _ _ _ _ I2 eq_refl j); auto. lia.
    - (* ff *)
      intros Hc _ d Hd. rewrite (proj1 (Hde d)) in Hd. rewrite (proj2 (Hde d)).
      apply (i2_ff _ _ _ _ I2 Hc eq_refl d Hd).
    - (* range *)
      intros j Hj. rewrite (proj1 (Hde j)) in Hj. destruct (Nat.eq_dec k j) as [<-|Hne]; [exact Hkn|].
      destruct (Nat.eqb_spec k j); [congruence|]. rewrite andb_false_r, Nat.add_0_r in Hj.
      apply (i2_range _ _ _ _ I2 j Hj).
    - intros _. lia.
    - intros j Hj. rewrite (proj1 (Hde j)) in Hj. rewrite (proj2 (Hde j)).
      apply (i2_noerr _ _ _ _ I2 j Hj).
  Qed.

  Lemma count_occ_remove_nth (dc : list (nat * option err)) i j0 r x :
    nth_error dc i = Some (j0, r) ->
    count_occ Nat.eq_dec (map fst (remove_nth i dc)) x + b2n (Nat.eqb j0 x)
    = count_occ Nat.eq_dec (map fst dc) x.
  Proof.
    intros H. destruct (nth_error_split_remove _ _ _ H) as (l1 & l2 & -> & ->).
    rewrite !map_app, !count_occ_app. cbn [map fst count_occ]. unfold b2n.
    destruct (Nat.eq_dec j0 x) as [->|Hne]; [rewrite Nat.eqb_refl; lia|].
    destruct (Nat.eqb_spec j0 x); [congruence|lia].
  Qed.

  Lemma existsb_eqb_count cs (x : nat) : existsb (Nat.eqb x) cs = (0 <? count_occ Nat.eq_dec cs x).
  Proof.
    induction cs as [|y cs IH]; cbn; [reflexivity|].
    destruct (Nat.eq_dec y x) as [->|Hne].
    - now rewrite Nat.eqb_refl.
    - rewrite IH. destruct (Nat.eqb_spec x y); [congruence|reflexivity].
  Qed.

  (* the common core of the two continuing branches of the result arm *)
  Lemma inv2_done_core js rel nr j0 r jsA marked wt rd js4 wt' rd' :
    Inv2' LRun nr js rel ->
    length js = n ->
    rel j0 = 1 -> jdone (jget js j0) = false ->
    let cs := consumers (jget js j0) in
    (forall x, jdone (jget jsA x) = jdone (jget js x) || (x =? j0)) ->
    (forall x, x <> j0 -> jerr (jget jsA x) = jerr (jget js x)) ->
    jerr (jget jsA j0) = r ->
    (forall x, remaining (jget jsA x) = remaining (jget js x)) ->
    (forall x, consumers (jget jsA x) = consumers (jget js x)) ->
    (forall x, jinvalid (jget jsA x) = jinvalid (jget js x) || (marked && existsb (Nat.eqb x) cs)) ->
    length jsA = length js ->
    (r <> None -> marked = true) ->
    (r <> None -> ccoe c = true) ->
    notify cs jsA wt rd = (js4, wt', rd') ->
    exists rell,
      rd' = rd ++ rell /\ wt' = (wt - Z.of_nat (length rell))%Z /\
      Inv2' LRun nr js4 (fun x => rel x - b2n (Nat.eqb j0 x) + count_occ Nat.eq_dec rell x) /\
      (forall x, jdone (jget js4 x) = jdone (jget js x) || (x =? j0)) /\
      (forall x, x <> j0 -> jerr (jget js4 x) = jerr (jget js x)) /\
      jerr (jget js4 j0) = r /\
      (forall x, jinvalid (jget js4 x) = jinvalid (jget js x) || (marked && existsb (Nat.eqb x) cs)) /\
      (forall x, remaining (jget js4 x) = (remaining (jget js x) - Z.of_nat (count_occ Nat.eq_dec cs x))%Z) /\
      (forall x, count_occ Nat.eq_dec cs x = if waitingj js x then count_occ Nat.eq_dec (deps x) j0 else 0) /\
      (forall x, count_occ Nat.eq_dec rell x = if waitingj js x && negb (waitingj js4 x) then 1 else 0) /\
      (forall x, waitingj js4 x = true -> waitingj js x = true).
  Proof.
    intros I Ln Hr0 Hd0 cs HAd HAe HAe0 HAr HAc HAi HAl Hmk Hcoe Hn.
    pose proof (i2_places _ _ _ _ I eq_refl j0) as P0. rewrite Hr0, Hd0 in P0. cbn [b2n] in P0.
    destruct ((j0 <? nr) && negb (waitingj js j0)) eqn:B0; [|lia]. apply andb_true_iff in B0 as [B1 B2].
    apply Nat.ltb_lt in B1. apply negb_true_iff in B2.
    assert (U0 : undone_in js j0 = true) by (unfold undone_in; now rewrite Hd0).
    (* consumers of j0 are waiting jobs, counted by their dependency lists *)
    assert (Hcs : forall x, count_occ Nat.eq_dec cs x = if waitingj js x then count_occ Nat.eq_dec (deps x) j0 else 0)
      by (intros x; apply (i2_cons _ _ _ _ I eq_refl j0 x Hd0)).
    assert (Hwnr : forall x, waitingj js x = true -> x < nr).
    { intros x W. destruct (Nat.lt_ge_cases x nr); auto.
      assert (E : jget js x = jst0) by (apply (i2_pristine _ _ _ _ I eq_refl); auto).
      unfold waitingj in W. rewrite E in W. discriminate. }
    assert (Hcsw : forall x, In x cs -> waitingj js x = true /\ x < nr).
    { intros x Hx. apply (count_occ_In Nat.eq_dec) in Hx. rewrite Hcs in Hx.
      destruct (waitingj js x) eqn:W; [split; auto|lia]. }
    assert (Hnrn : nr <= n) by (apply (i2_nr _ _ _ _ I eq_refl)).
    assert (Hlt : forall y, In y cs -> y < length jsA).
    { intros y Hy. destruct (Hcsw y Hy). lia. }
    assert (Hremw : forall x, x < nr -> remaining (jget js x) = Z.of_nat (length (filter (undone_in js) (deps x))))
      by (apply (i2_rem _ _ _ _ I eq_refl)).
    assert (Hge : forall y, In y cs -> (Z.of_nat (count_occ Nat.eq_dec cs y) <= remaining (jget jsA y))%Z).
    { intros y Hy. destruct (Hcsw y Hy) as [W L]. rewrite HAr, Hcs, W, Hremw by auto.
      apply inj_le. now apply count_le_undone. }
    destruct (notify_released cs jsA wt rd js4 wt' rd' Hlt Hge Hn) as (rell & Erd & Ewt & Hrell).
    exists rell. split; [exact Erd|split; [exact Ewt|]].
    (* fields of js4 *)
    assert (H4d : forall x, jdone (jget js4 x) = jdone (jget js x) || (x =? j0)).
    { intros x. rewrite (notify_pres jdone cs jsA wt rd js4 wt' rd' x) by (auto; reflexivity). apply HAd. }
    assert (H4e : forall x, x <> j0 -> jerr (jget js4 x) = jerr (jget js x)).
    { intros x Hx. rewrite (notify_pres jerr cs jsA wt rd js4 wt' rd' x) by (auto; reflexivity). now apply HAe. }
    assert (H4e0 : jerr (jget js4 j0) = r).
    { rewrite (notify_pres jerr cs jsA wt rd js4 wt' rd' j0) by (auto; reflexivity). exact HAe0. }
    assert (H4c : forall x, consumers (jget js4 x) = consumers (jget js x)).
    { intros x. rewrite (notify_pres consumers cs jsA wt rd js4 wt' rd' x) by (auto; reflexivity). apply HAc. }
    assert (H4i : forall x, jinvalid (jget js4 x) = jinvalid (jget js x) || (marked && existsb (Nat.eqb x) cs)).
    { intros x. rewrite (notify_pres jinvalid cs jsA wt rd js4 wt' rd' x) by (auto; reflexivity). apply HAi. }
    assert (H4r : forall x, remaining (jget js4 x) = (remaining (jget js x) - Z.of_nat (count_occ Nat.eq_dec cs x))%Z).
    { intros x. rewrite (notify_remaining cs jsA wt rd js4 wt' rd' x Hlt Hn). now rewrite HAr. }
    (* count of cs in terms of deps, uniformly *)
    assert (Hcs' : forall x, x < nr -> count_occ Nat.eq_dec cs x = count_occ Nat.eq_dec (deps x) j0).
    { intros x Hx. rewrite Hcs. destruct (waitingj js x) eqn:W; [reflexivity|].
      symmetry. apply count_occ_not_In. intros Hin.
      unfold waitingj in W. apply Z.ltb_ge in W. rewrite Hremw in W by auto.
      assert (R0 : length (filter (undone_in js) (deps x)) = 0) by lia.
      pose proof (filter_none _ _ R0 j0 Hin). congruence. }
    assert (U4 : forall ds, length (filter (undone_in js4) ds) + count_occ Nat.eq_dec ds j0
                            = length (filter (undone_in js) ds)).
    { intros ds. apply filter_flip; auto.
      - unfold undone_in. rewrite H4d, Nat.eqb_refl, orb_true_r. reflexivity.
      - intros x Hx. unfold undone_in. rewrite H4d. destruct (Nat.eqb_spec x j0); [congruence|].
        now rewrite orb_false_r. }
    assert (Hrel1 : forall x, count_occ Nat.eq_dec rell x =
              if (0 <? count_occ Nat.eq_dec cs x) && (remaining (jget js x) =? Z.of_nat (count_occ Nat.eq_dec cs x))%Z
              then 1 else 0).
    { intros x. rewrite Hrell, HAr. reflexivity. }
    assert (Hc0 : count_occ Nat.eq_dec cs j0 = 0) by (rewrite Hcs, B2; reflexivity).
    assert (Hflip : forall x, count_occ Nat.eq_dec rell x = if waitingj js x && negb (waitingj js4 x) then 1 else 0).
    { intros x. rewrite Hrel1. unfold waitingj at 2. rewrite H4r. rewrite Hcs.
      destruct (waitingj js x) eqn:W.
      - pose proof (Hwnr x W) as Hx.
        assert (Hle : (Z.of_nat (count_occ Nat.eq_dec (deps x) j0) <= remaining (jget js x))%Z).
        { rewrite Hremw by auto. apply inj_le. now apply count_le_undone. }
        unfold waitingj in W. apply Z.ltb_lt in W. cbn [andb].
        destruct (Z.eqb_spec (remaining (jget js x)) (Z.of_nat (count_occ Nat.eq_dec (deps x) j0))) as [Eq|Neq].
        + replace (0 <? count_occ Nat.eq_dec (deps x) j0) with true by (symmetry; apply Nat.ltb_lt; lia).
          rewrite Eq, Z.sub_diag. reflexivity.
        + rewrite andb_false_r.
          replace (0 <? remaining (jget js x) - Z.of_nat (count_occ Nat.eq_dec (deps x) j0))%Z with true
            by (symmetry; apply Z.ltb_lt; lia). reflexivity.
      - reflexivity. }
    assert (Hmono : forall x, waitingj js4 x = true -> waitingj js x = true).
    { intros x. unfold waitingj. rewrite H4r. intros H. apply Z.ltb_lt in H. apply Z.ltb_lt. lia. }
    split; [|repeat split; auto].
    constructor.
    - (* pristine *)
      intros _ x Hx. pose proof (i2_pristine _ _ _ _ I eq_refl x Hx) as Px.
      assert (Hxj : x <> j0) by lia.
      assert (Cx : count_occ Nat.eq_dec cs x = 0).
      { rewrite Hcs. unfold waitingj. rewrite Px. reflexivity. }
      destruct (jget js4 x) as [r4 c4 d4 e4 i4] eqn:E4.
      pose proof (H4r x) as A1. pose proof (H4c x) as A2. pose proof (H4d x) as A3.
      pose proof (H4e x Hxj) as A4. pose proof (H4i x) as A5.
      rewrite E4, Px, Cx in *. cbn in *.
      destruct (Nat.eqb_spec x j0); [congruence|].
      rewrite existsb_eqb_count, Cx in A5. cbn in A5. rewrite andb_false_r in A5.
      subst. reflexivity.
    - (* remaining *)
      intros _ x Hx. rewrite H4r, Hremw, Hcs' by auto. pose proof (U4 (deps x)). lia.
    - (* consumers *)
      intros _ d x Hd. rewrite H4d in Hd. apply orb_false_iff in Hd as [Hd Hdj].
      apply Nat.eqb_neq in Hdj. rewrite H4c. rewrite (i2_cons _ _ _ _ I eq_refl d x Hd).
      unfold waitingj at 2. rewrite H4r.
      destruct (waitingj js x) eqn:W.
      + destruct (Z.ltb_spec 0 (remaining (jget js x) - Z.of_nat (count_occ Nat.eq_dec cs x))); [reflexivity|].
        (* x is released by this result: d is not among its dependencies *)
        pose proof (Hwnr x W) as Hx. rewrite Hcs', Hremw in H by auto.
        assert (Ud : undone_in js d = true) by (unfold undone_in; now rewrite Hd).
        pose proof (count2_le_undone (undone_in js) (deps x) j0 d (not_eq_sym Hdj) U0 Ud). lia.
      + rewrite Hcs, W. cbn. unfold waitingj in W. rewrite Z.sub_0_r, W. reflexivity.
    - (* places *)
      intros _ x. rewrite H4d. unfold waitingj at 1. rewrite H4r. rewrite Hrel1.
      destruct (Nat.eq_dec j0 x) as [<-|Hne].
      + rewrite Nat.eqb_refl, Hr0, Hd0, Hc0. change (0 <? 0) with false. cbn [andb b2n orb].
        unfold waitingj in B2. rewrite Z.sub_0_r, B2.
        replace (j0 <? nr) with true by (symmetry; now apply Nat.ltb_lt). reflexivity.
      + destruct (Nat.eqb_spec j0 x); [congruence|]. destruct (Nat.eqb_spec x j0); [congruence|].
        rewrite orb_false_r. cbn [b2n]. rewrite Nat.sub_0_r.
        pose proof (i2_places _ _ _ _ I eq_refl x) as Px.
        destruct (waitingj js x) eqn:W.
        * pose proof (Hwnr x W) as Hx. rewrite andb_false_r in Px.
          assert (Hle : (Z.of_nat (count_occ Nat.eq_dec cs x) <= remaining (jget js x))%Z).
          { rewrite Hcs, W, Hremw by auto. apply inj_le. now apply count_le_undone. }
          unfold waitingj in W. apply Z.ltb_lt in W.
          replace (x <? nr) with true by (symmetry; now apply Nat.ltb_lt).
          destruct (Z.eqb_spec (remaining (jget js x)) (Z.of_nat (count_occ Nat.eq_dec cs x))) as [Eq|Neq].
          -- replace (0 <? count_occ Nat.eq_dec cs x) with true by (symmetry; apply Nat.ltb_lt; lia).
             rewrite Eq, Z.sub_diag. cbn. lia.
          -- rewrite andb_false_r.
             replace (0 <? remaining (jget js x) - Z.of_nat (count_occ Nat.eq_dec cs x))%Z with true
               by (symmetry; apply Z.ltb_lt; lia). cbn. lia.
        * rewrite Hcs, W. change (0 <? 0) with false. cbn [andb]. rewrite Z.sub_0_r.
          unfold waitingj in W. rewrite W. lia.
    - (* places_le: from places *)
      intros x. rewrite H4d, Hrel1.
      pose proof (i2_places _ _ _ _ I eq_refl x) as Px.
      destruct (Nat.eq_dec j0 x) as [<-|Hne].
      + rewrite Nat.eqb_refl, Hr0, Hc0. change (0 <? 0) with false. rewrite orb_true_r. cbn. lia.
      + destruct (Nat.eqb_spec j0 x); [congruence|]. destruct (Nat.eqb_spec x j0); [congruence|].
        rewrite orb_false_r. cbn [b2n]. rewrite Nat.sub_0_r.
        destruct (waitingj js x) eqn:W.
        * rewrite andb_false_r in Px. destruct (_ && _); lia.
        * rewrite Hcs, W. cbn. pose proof (i2_places_le _ _ _ _ I x). lia.
    - (* released *)
      intros x Hx d Hd. rewrite H4d.
      destruct (Nat.eq_dec j0 x) as [<-|Hne].
      { exfalso. rewrite Nat.eqb_refl, Hr0, Hrel1, Hc0 in Hx. cbn in Hx. lia. }
      destruct (Nat.eqb_spec j0 x); [congruence|]. cbn [b2n] in Hx. rewrite Nat.sub_0_r in Hx.
      destruct (Nat.eq_dec (rel x) 0) as [Z0|NZ].
      + (* newly released *)
        rewrite Z0, Hrel1 in Hx. cbn [Nat.add] in Hx.
        destruct ((0 <? count_occ Nat.eq_dec cs x) && (remaining (jget js x) =? Z.of_nat (count_occ Nat.eq_dec cs x))%Z) eqn:Rl; [|lia].
        apply andb_true_iff in Rl as [R1 R2]. apply Nat.ltb_lt in R1. apply Z.eqb_eq in R2.
        assert (W : waitingj js x = true) by (rewrite Hcs in R1; destruct (waitingj js x); [reflexivity|lia]).
        pose proof (Hwnr x W) as Hxn. rewrite Hcs', Hremw in R2 by auto.
        apply Nat2Z.inj in R2.
        assert (Dd : d = j0 \/ jdone (jget js d) = true).
        { destruct (Nat.eq_dec d j0) as [|n1]; [now left|right].
          destruct (jdone (jget js d)) eqn:Dd; [reflexivity|exfalso].
          assert (Ud : undone_in js d = true) by (unfold undone_in; now rewrite Dd).
          pose proof (count2_le_undone (undone_in js) (deps x) j0 d (not_eq_sym n1) U0 Ud).
          apply (count_occ_In Nat.eq_dec) in Hd. lia. }
        destruct Dd as [->|Dd].
        * rewrite Nat.eqb_refl, orb_true_r. split; [reflexivity|]. rewrite H4e0.
          destruct r as [e|]; [right|now left]. rewrite H4i, Hmk by discriminate.
          rewrite existsb_eqb_count. replace (0 <? count_occ Nat.eq_dec cs x) with true
            by (symmetry; now apply Nat.ltb_lt). cbn. apply orb_true_r.
        * rewrite Dd. split; [reflexivity|].
          assert (Hdj : d <> j0) by (intros ->; congruence).
          rewrite H4e by auto.
          destruct (i2_inval _ _ _ _ I eq_refl x Hxn d Hd Dd) as [E|E]; [now left|right].
          rewrite H4i, E. reflexivity.
      + destruct (i2_released _ _ _ _ I x ltac:(lia) d Hd) as [Dd E].
        rewrite Dd. split; [reflexivity|].
        assert (Hdj : d <> j0) by (intros ->; congruence).
        rewrite H4e by auto. destruct E as [E|E]; [now left|right]. rewrite H4i, E. reflexivity.
    - (* inval *)
      intros _ x Hx d Hd Hdd. rewrite H4d in Hdd.
      destruct (Nat.eq_dec d j0) as [->|Hdj].
      + rewrite H4e0. destruct r as [e|]; [right|now left].
        rewrite H4i, Hmk by discriminate. rewrite existsb_eqb_count, Hcs' by auto.
        apply (count_occ_In Nat.eq_dec) in Hd.
        replace (0 <? count_occ Nat.eq_dec (deps x) j0) with true by (symmetry; now apply Nat.ltb_lt).
        cbn. apply orb_true_r.
      + destruct (Nat.eqb_spec d j0); [congruence|]. rewrite orb_false_r in Hdd.
        rewrite H4e by auto.
        destruct (i2_inval _ _ _ _ I eq_refl x Hx d Hd Hdd) as [E|E]; [now left|right].
        rewrite H4i, E. reflexivity.
    - (* ff *)
      intros Hc _ d Hd. rewrite H4d in Hd.
      destruct (Nat.eq_dec d j0) as [->|Hdj].
      + rewrite H4e0. destruct r as [e|]; [|reflexivity].
        specialize (Hcoe ltac:(discriminate)). congruence.
      + destruct (Nat.eqb_spec d j0); [congruence|]. rewrite orb_false_r in Hd.
        rewrite H4e by auto. apply (i2_ff _ _ _ _ I Hc eq_refl d Hd).
    - (* range *)
      intros x Hx. rewrite H4d in Hx.
      destruct (Nat.eq_dec j0 x) as [<-|Hne]; [lia|].
      destruct (Nat.eqb_spec j0 x); [congruence|]. destruct (Nat.eqb_spec x j0); [congruence|].
      rewrite orb_false_r in Hx. cbn [b2n] in Hx. rewrite Nat.sub_0_r in Hx.
      destruct (Nat.eq_dec (count_occ Nat.eq_dec rell x) 0) as [Z0|NZ].
      + apply (i2_range _ _ _ _ I x). lia.
      + rewrite Hrel1 in NZ.
        destruct ((0 <? count_occ Nat.eq_dec cs x) && (remaining (jget js x) =? Z.of_nat (count_occ Nat.eq_dec cs x))%Z) eqn:Rl; [|congruence].
        apply andb_true_iff in Rl as [R1 _]. apply Nat.ltb_lt in R1.
        assert (W : waitingj js x = true) by (rewrite Hcs in R1; destruct (waitingj js x); [reflexivity|lia]).
        pose proof (Hwnr x W). lia.
    - intros _. exact Hnrn.
    - intros x Hx. rewrite H4d in Hx. apply orb_false_iff in Hx as [Hx Hxj]. apply Nat.eqb_neq in Hxj.
      rewrite H4e by auto. apply (i2_noerr _ _ _ _ I x Hx).
  Qed.

  (* everything the result arm does, job by job *)
  Definition done_facts (s s' : core) (j0 : nat) (r : option err) : Prop :=
    jdone (job s j0) = false /\ j0 < n /\
    (forall x, jdone (job s' x) = jdone (job s x) || (x =? j0)) /\
    (forall x, x <> j0 -> jerr (job s' x) = jerr (job s x)) /\
    jerr (job s' j0) = r /\
    (forall x, jinvalid (job s' x) = true ->
               jinvalid (job s x) = true \/ (ccoe c = true /\ r <> None /\ In j0 (deps x))) /\
    (forall x, jinvalid (job s x) = true -> jinvalid (job s' x) = true) /\
    (exists rell, ready s' = ready s ++ rell /\ waiting s' = (waiting s - Z.of_nat (length rell))%Z /\
       (forall x, count_occ Nat.eq_dec rell x = if waitingj (jobs s) x && negb (waitingj (jobs s') x) then 1 else 0) /\
       (forall x, waitingj (jobs s') x = true -> waitingj (jobs s) x = true)).

  Lemma done_effect s i j0 r s' evs :
    Inv1 c s -> Inv2 s -> lp s = LRun -> nth_error (donec s) i = Some (j0, r) ->
    stepc c s (ALoopDone i) = Some (s', evs) -> Inv2 s' /\ done_facts s s' j0 r.
  Proof.
    intros I1 I2 Hl Hn H.
    pose proof (i1_jobs _ _ I1) as Lj.
    unfold Inv2 in I2. rewrite Hl in I2.
    set (js := jobs s) in *. set (rel := relc (ready s) (workers s) (donec s)) in *.
    set (nr := nrecv s) in *.
    (* j0 is in donec: exactly once, not done, not waiting *)
    assert (Hc1 : 1 <= count_occ Nat.eq_dec (map fst (donec s)) j0).
    { pose proof (count_occ_remove_nth _ _ _ _ j0 Hn) as E. rewrite Nat.eqb_refl in E. cbn in E. lia. }
    assert (Hrel1 : 1 <= rel j0) by (unfold rel, relc; lia).
    pose proof (i2_places_le _ _ _ _ I2 j0) as Ple.
    assert (Hr0 : rel j0 = 1) by lia.
    assert (Hd0 : jdone (jget js j0) = false) by (destruct (jdone (jget js j0)); [cbn in Ple; lia|reflexivity]).
    assert (Hj0n : j0 < n) by (apply (i2_range _ _ _ _ I2 j0); lia).
    assert (Hj0l : (j0 <? length js) = true) by (apply Nat.ltb_lt; lia).
    (* rel after removing j0 from donec *)
    assert (Hrm : forall x, count_occ Nat.eq_dec (map fst (remove_nth i (donec s))) x
                     = count_occ Nat.eq_dec (map fst (donec s)) x - b2n (Nat.eqb j0 x)).
    { intros x. pose proof (count_occ_remove_nth _ _ _ _ x Hn). lia. }
    set (js1 := upd j0 (jset_jdone true) js).
    assert (G1 : forall x, jget js1 x = if Nat.eqb j0 x then jset_jdone true (jget js x) else jget js x).
    { intros x. unfold js1. rewrite jget_upd, Hj0l, andb_true_r. reflexivity. }
    unfold stepc in H. rewrite Hl, Hn in H. cbv zeta in H. fold js js1 in H.
    destruct r as [e|].
    - set (js2 := upd j0 (jset_jerr (Some e)) js1) in *.
      assert (G2 : forall x, jget js2 x = if Nat.eqb j0 x then jset_jerr (Some e) (jset_jdone true (jget js x)) else jget js x).
      { intros x. unfold js2. rewrite jget_upd.
        replace (j0 <? length js1) with true by (unfold js1; now rewrite upd_length).
        rewrite andb_true_r, G1. destruct (Nat.eqb j0 x); reflexivity. }
      destruct (negb (ccoe c)) eqn:Hcoe.
      + (* fail-fast: the loop leaves *)
        injection H as <- <-. split.
        2:{ unfold done_facts, job. cbn [jobs set_lp set_serr set_jobs set_ongoing set_pending set_donec ready waiting].
            fold js. fold (jget js2) (jget js).
            split; [exact Hd0|]. split; [exact Hj0n|].
            split; [intros x; fold (jget js2 x) (jget js x); rewrite G2, (Nat.eqb_sym x j0);
                    destruct (Nat.eqb j0 x); cbn; [now rewrite orb_true_r|now rewrite orb_false_r]|].
            split; [intros x Hx; fold (jget js2 x) (jget js x); rewrite G2;
                    destruct (Nat.eqb_spec j0 x); [congruence|reflexivity]|].
            split; [fold (jget js2 j0); rewrite G2, Nat.eqb_refl; reflexivity|].
            split; [intros x Hx; fold (jget js2 x) (jget js x) in *; rewrite G2 in Hx;
                    destruct (Nat.eqb j0 x); cbn in Hx; now left|].
            split; [intros x Hx; fold (jget js2 x) (jget js x) in *; rewrite G2;
                    destruct (Nat.eqb j0 x); cbn; exact Hx|].
            exists []. rewrite app_nil_r. cbn [length]. split; [reflexivity|]. split; [lia|].
            assert (Wsame : forall x, waitingj js2 x = waitingj js x).
            { intros x. unfold waitingj. rewrite G2. destruct (Nat.eqb j0 x); reflexivity. }
            split; intros x; rewrite Wsame; [destruct (waitingj js x); reflexivity|auto]. }
        unfold Inv2. cbn.
        eapply inv2_ext with (rel := fun x => rel x - b2n (Nat.eqb j0 x)).
        { intros x. unfold rel, relc. rewrite Hrm.
          destruct (Nat.eq_dec j0 x) as [<-|Hne]; [rewrite Nat.eqb_refl; cbn; lia|].
          destruct (Nat.eqb_spec j0 x); [congruence|cbn; lia]. }
        constructor; try (intros; discriminate).
        * intros x. rewrite G2. destruct (Nat.eqb_spec j0 x) as [<-|Hne]; cbn.
          -- rewrite Hr0. cbn. lia.
          -- rewrite Nat.sub_0_r. apply (i2_places_le _ _ _ _ I2).
        * intros x Hx d Hd. assert (Hx' : 0 < rel x) by lia.
          destruct (i2_released _ _ _ _ I2 x Hx' d Hd) as [Dd E].
          assert (Hdj : j0 <> d) by (intros <-; congruence).
          rewrite !G2. destruct (Nat.eqb_spec j0 d); [congruence|].
          split; [exact Dd|]. destruct E as [E|E]; [now left|right].
          destruct (Nat.eqb j0 x); cbn; exact E.
        * intros x Hx. rewrite G2 in Hx. destruct (Nat.eqb_spec j0 x) as [E|Hne]; [subst x; exact Hj0n|].
          cbn in Hx. rewrite Nat.sub_0_r in Hx. apply (i2_range _ _ _ _ I2 x Hx).
        * intros x Hx. rewrite G2 in *. destruct (Nat.eqb_spec j0 x) as [E|Hne]; [cbn in Hx; discriminate|].
          apply (i2_noerr _ _ _ _ I2 x Hx).
      + (* ContinueOnError with a failure *)
        apply negb_false_iff in Hcoe.
        set (cs := consumers (nth j0 js2 jst0)) in *.
        assert (Ecs : cs = consumers (jget js j0)).
        { unfold cs. fold (jget js2 j0). rewrite G2, Nat.eqb_refl. reflexivity. }
        destruct (notify cs (mark_invalid cs js2) (waiting s) (ready s)) as [[js4 wt'] rd'] eqn:En.
        assert (Hcslt : forall y, In y cs -> y < length js2).
        { intros y Hy. rewrite Ecs in Hy. apply (count_occ_In Nat.eq_dec) in Hy.
          rewrite (i2_cons _ _ _ _ I2 eq_refl j0 y Hd0) in Hy.
          destruct (waitingj js y) eqn:W; [|lia].
          unfold js2, js1. rewrite !upd_length. fold js. rewrite Lj.
          pose proof (i2_nr _ _ _ _ I2 eq_refl).
          destruct (Nat.lt_ge_cases y nr); [lia|].
          pose proof (i2_pristine _ _ _ _ I2 eq_refl y H1) as Py. unfold waitingj in W. rewrite Py in W. discriminate. }
        rewrite Ecs in En.
        set (jsA := mark_invalid (consumers (jget js j0)) js2) in *.
        assert (A1 : forall x, jdone (jget jsA x) = jdone (jget js x) || (x =? j0)).
        { intros x. unfold jsA. rewrite (mark_invalid_pres jdone) by reflexivity. rewrite G2.
          rewrite (Nat.eqb_sym x j0). destruct (Nat.eqb j0 x); cbn; [now rewrite orb_true_r|now rewrite orb_false_r]. }
        assert (A2 : forall x, x <> j0 -> jerr (jget jsA x) = jerr (jget js x)).
        { intros x Hx. unfold jsA. rewrite (mark_invalid_pres jerr) by reflexivity. rewrite G2.
          destruct (Nat.eqb_spec j0 x); [congruence|reflexivity]. }
        assert (A3 : jerr (jget jsA j0) = Some e).
        { unfold jsA. rewrite (mark_invalid_pres jerr) by reflexivity. rewrite G2, Nat.eqb_refl. reflexivity. }
        assert (A4 : forall x, remaining (jget jsA x) = remaining (jget js x)).
        { intros x. unfold jsA. rewrite (mark_invalid_pres remaining) by reflexivity. rewrite G2. destruct (Nat.eqb j0 x); reflexivity. }
        assert (A5 : forall x, consumers (jget jsA x) = consumers (jget js x)).
        { intros x. unfold jsA. rewrite (mark_invalid_pres consumers) by reflexivity. rewrite G2. destruct (Nat.eqb j0 x); reflexivity. }
        assert (A6 : forall x, jinvalid (jget jsA x) = jinvalid (jget js x) || (true && existsb (Nat.eqb x) (consumers (jget js j0)))).
        { intros x. unfold jsA. rewrite mark_invalid_invalid by (rewrite <- Ecs; exact Hcslt).
          rewrite G2. destruct (Nat.eqb j0 x); reflexivity. }
        assert (A7 : length jsA = length js).
        { unfold jsA. rewrite mark_invalid_length. unfold js2, js1. now rewrite !upd_length. }
        assert (A8 : Some e <> None -> true = true) by reflexivity.
        assert (A9 : Some e <> None -> ccoe c = true) by (intros _; exact Hcoe).
        destruct (inv2_done_core js rel nr j0 (Some e) jsA true
                    (waiting s) (ready s) js4 wt' rd' I2 Lj Hr0 Hd0 A1 A2 A3 A4 A5 A6 A7 A8 A9 En)
          as (rell & Erd & Ewt & I4 & F1 & F2 & F3 & F4 & F5 & F6 & F7 & F8).
        assert (DF : done_facts s (set_ready rd' (set_waiting wt' (set_jobs js4
                    (set_serr (if is_err e then serr s ++ [e] else serr s)
                    (set_ongoing (ongoing s - 1)%Z (set_pending (pending s - 1)%Z
                    (set_donec (remove_nth i (donec s)) s))))))) j0 (Some e)).
        { unfold done_facts, job. cbn [jobs set_ready set_waiting set_jobs set_serr set_ongoing set_pending set_donec ready waiting].
          fold js. split; [exact Hd0|]. split; [exact Hj0n|]. split; [exact F1|]. split; [exact F2|]. split; [exact F3|].
          split.
          { intros x Hx. fold (jget js4 x) in Hx. rewrite F4 in Hx. apply orb_true_iff in Hx as [Hx|Hx]; [now left|right].
            cbn in Hx. rewrite existsb_eqb_count in Hx. apply Nat.ltb_lt in Hx. rewrite F6 in Hx.
            split; [exact Hcoe|]. split; [discriminate|].
            destruct (waitingj js x); [|lia]. apply (count_occ_In Nat.eq_dec). exact Hx. }
          split.
          { intros x Hx. fold (jget js4 x). rewrite F4. fold (jget js x) in Hx. rewrite Hx. reflexivity. }
          exists rell. split; [exact Erd|]. split; [exact Ewt|]. split; [exact F7|exact F8]. }
        assert (Inv2 (set_ready rd' (set_waiting wt' (set_jobs js4
                    (set_serr (if is_err e then serr s ++ [e] else serr s)
                    (set_ongoing (ongoing s - 1)%Z (set_pending (pending s - 1)%Z
                    (set_donec (remove_nth i (donec s)) s)))))))) as IS.
          { unfold Inv2. cbn. rewrite Hl. fold nr.
            replace (nrecv _) with nr by reflexivity.
            eapply inv2_ext; [|exact I4]. intros x. unfold rel, relc. cbn. rewrite Erd, count_occ_app, Hrm.
            destruct (Nat.eq_dec j0 x) as [<-|Hne]; [rewrite Nat.eqb_refl; cbn; lia|].
            destruct (Nat.eqb_spec j0 x); [congruence|cbn; lia]. }
          fin_step H; (split; [|
            unfold done_facts in *; cbn [jobs ready waiting set_lp job] in *; exact DF]);
            [exact IS | apply inv2_drain; [exact Hl|exact IS]].
    - (* success *)
      set (cs := consumers (nth j0 js1 jst0)) in *.
      assert (Ecs : cs = consumers (jget js j0)).
      { unfold cs. fold (jget js1 j0). rewrite G1, Nat.eqb_refl. reflexivity. }
      destruct (notify cs js1 (waiting s) (ready s)) as [[js4 wt'] rd'] eqn:En.
      rewrite Ecs in En.
      assert (A1 : forall x, jdone (jget js1 x) = jdone (jget js x) || (x =? j0)).
      { intros x. rewrite G1. rewrite (Nat.eqb_sym x j0).
        destruct (Nat.eqb j0 x); cbn; [now rewrite orb_true_r|now rewrite orb_false_r]. }
      assert (A2 : forall x, x <> j0 -> jerr (jget js1 x) = jerr (jget js x)).
      { intros x Hx. rewrite G1. destruct (Nat.eqb_spec j0 x); [congruence|reflexivity]. }
      assert (A3 : jerr (jget js1 j0) = None).
      { rewrite G1, Nat.eqb_refl. cbn. apply (i2_noerr _ _ _ _ I2 j0 Hd0). }
      assert (A4 : forall x, remaining (jget js1 x) = remaining (jget js x)).
      { intros x. rewrite G1. destruct (Nat.eqb j0 x); reflexivity. }
      assert (A5 : forall x, consumers (jget js1 x) = consumers (jget js x)).
      { intros x. rewrite G1. destruct (Nat.eqb j0 x); reflexivity. }
      assert (A6 : forall x, jinvalid (jget js1 x) = jinvalid (jget js x) || (false && existsb (Nat.eqb x) (consumers (jget js j0)))).
      { intros x. rewrite G1. cbn. rewrite orb_false_r. destruct (Nat.eqb j0 x); reflexivity. }
      assert (A7 : length js1 = length js) by (unfold js1; now rewrite upd_length).
      assert (A8 : @None err <> None -> false = true) by congruence.
      assert (A9 : @None err <> None -> ccoe c = true) by congruence.
      destruct (inv2_done_core js rel nr j0 None js1 false
                  (waiting s) (ready s) js4 wt' rd' I2 Lj Hr0 Hd0 A1 A2 A3 A4 A5 A6 A7 A8 A9 En)
        as (rell & Erd & Ewt & I4 & F1 & F2 & F3 & F4 & F5 & F6 & F7 & F8).
      assert (DF : done_facts s (set_ready rd' (set_waiting wt' (set_jobs js4
                  (set_ongoing (ongoing s - 1)%Z (set_pending (pending s - 1)%Z
                  (set_donec (remove_nth i (donec s)) s)))))) j0 None).
      { unfold done_facts, job. cbn [jobs set_ready set_waiting set_jobs set_ongoing set_pending set_donec ready waiting].
        fold js. split; [exact Hd0|]. split; [exact Hj0n|]. split; [exact F1|]. split; [exact F2|]. split; [exact F3|].
        split.
        { intros x Hx. fold (jget js4 x) in Hx. rewrite F4 in Hx. cbn in Hx. rewrite orb_false_r in Hx. now left. }
        split.
        { intros x Hx. fold (jget js4 x). rewrite F4. fold (jget js x) in Hx. rewrite Hx. reflexivity. }
        exists rell. split; [exact Erd|]. split; [exact Ewt|]. split; [exact F7|exact F8]. }
      assert (Inv2 (set_ready rd' (set_waiting wt' (set_jobs js4
                  (set_ongoing (ongoing s - 1)%Z (set_pending (pending s - 1)%Z
                  (set_donec (remove_nth i (donec s)) s))))))) as IS.
        { unfold Inv2. cbn. rewrite Hl. fold nr.
          replace (nrecv _) with nr by reflexivity.
          eapply inv2_ext; [|exact I4]. intros x. unfold rel, relc. cbn. rewrite Erd, count_occ_app, Hrm.
          destruct (Nat.eq_dec j0 x) as [<-|Hne]; [rewrite Nat.eqb_refl; cbn; lia|].
          destruct (Nat.eqb_spec j0 x); [congruence|cbn; lia]. }
        fin_step H; (split; [|
          unfold done_facts in *; cbn [jobs ready waiting set_lp job] in *; exact DF]);
          [exact IS | apply inv2_drain; [exact Hl|exact IS]].
  Qed.

  Lemma inv2_step s a s' evs : Inv1 c s -> Inv2 s -> stepc c s a = Some (s', evs) -> Inv2 s'.
  Proof.
    intros I1 I2 H. destruct a; try (eapply inv2_step_easy; eauto; exact I).
    - (* EnqRecv *)
      stepc_inv H.
      match goal with Hl : lp s = LRun, He : enq s = ?k :: ?rest |- _ =>
        pose proof (inv2_enqrecv s k rest I1 I2 Hl He) as IS end.
      cbv zeta in IS. fin_step H; [exact IS|].
      apply inv2_drain; [|exact IS].
      match goal with |- lp (if ?b then _ else _) = _ => destruct b; cbn; assumption end.
    - (* Done *)
      pose proof H as H0. unfold stepc in H0.
      destruct (lp s) eqn:Hl; try discriminate.
      destruct (nth_error (donec s) i) as [[j0 r]|] eqn:Hn; try discriminate.
      eapply done_effect; eauto.
  Qed.

  (* everything the enqueue arm does to the job table *)
  Definition enq_facts (s : core) (k : nat) (js' : list jst) : Prop :=
    k < n /\ nrecv s = k /\ jget (jobs s) k = jst0 /\
    (forall x, jdone (jget js' x) = jdone (jget (jobs s) x) /\ jerr (jget js' x) = jerr (jget (jobs s) x)) /\
    (forall x, x <> k -> remaining (jget js' x) = remaining (jget (jobs s) x) /\
                         jinvalid (jget js' x) = jinvalid (jget (jobs s) x)) /\
    remaining (jget js' k) = Z.of_nat (length (filter (undone_in (jobs s)) (deps k))) /\
    jinvalid (jget js' k) = existsb (failed_in (jobs s)) (deps k).

  Lemma enqrecv_facts s k rest :
    Inv1 c s -> Inv2 s -> lp s = LRun -> enq s = k :: rest ->
    rest = [] /\ enq_facts s k (reg_deps k (deps k) (jobs s)).
  Proof.
    intros I1 I2 Hl He.
    destruct (i1_enq _ _ I1) as [E|[E Hs1]]; rewrite He in E; [discriminate|].
    injection E as Ek Er. subst rest. split; [reflexivity|].
    pose proof (i1_sent _ _ I1) as Hsn. pose proof (i1_jobs _ _ I1) as Lj.
    assert (Hnr : nrecv s = k) by (unfold nrecv; rewrite He; cbn; lia).
    assert (Hkn : k < n) by lia.
    unfold Inv2 in I2. rewrite Hl, Hnr in I2.
    assert (Hkl : k < length (jobs s)) by lia.
    assert (Hnin : ~ In k (deps k)) by (intros H; apply wf_deps_lt in H; lia).
    pose proof (i2_pristine _ _ _ _ I2 eq_refl k (le_n k)) as Pk.
    destruct (reg_deps_self k (deps k) (jobs s) Hkl Hnin) as (Rk & Vk & Ck).
    rewrite Pk in Rk, Vk. cbn in Rk, Vk.
    unfold enq_facts. repeat split; auto.
    - apply reg_deps_done_err.
    - apply reg_deps_done_err.
    - now apply reg_deps_other.
    - now apply reg_deps_other.
  Qed.

  (* what the result arm does to everything but the job table *)
  Definition done_frame (s s' : core) (i j0 : nat) (r : option err) (evs : list event) : Prop :=
    workers s' = workers s /\ donec s' = remove_nth i (donec s) /\ cancelled s' = cancelled s /\
    cp s' = cp s /\ enq s' = enq s /\ enq_nil s' = enq_nil s /\ enq_closed s' = enq_closed s /\
    pending s' = (pending s - 1)%Z /\
    ((ccoe c = false /\ lp s' = LDrain /\ (exists e, r = Some e /\ serr s' = [e]) /\
      evs = [EvDoneRecv j0 r; EvLoopExit]) \/
     ((ccoe c = true \/ r = None) /\
      serr s' = match r with Some e => if is_err e then serr s ++ [e] else serr s | None => serr s end /\
      ((lp s' = LRun /\ evs = [EvDoneRecv j0 r]) \/
       (lp s' = LDrain /\ evs = [EvDoneRecv j0 r; EvLoopExit] /\ pending s' = 0%Z /\ enq_nil s' = true)))).

  Lemma done_frame_holds s i j0 r s' evs :
    lp s = LRun -> nth_error (donec s) i = Some (j0, r) ->
    stepc c s (ALoopDone i) = Some (s', evs) -> done_frame s s' i j0 r evs.
  Proof.
    intros Hl Hn H. unfold stepc in H. rewrite Hl, Hn in H. cbv zeta in H. unfold done_frame.
    destruct r as [e|].
    - destruct (negb (ccoe c)) eqn:Hc.
      + apply negb_true_iff in Hc. injection H as <- <-. cbn. repeat split; auto.
        left. repeat split; auto. exists e. auto.
      + apply negb_false_iff in Hc.
        destruct (notify _ _ _ _) as [[js4 wt'] rd'].
        fin_step H; cbn; repeat split; auto; right; (split; [now left|]); (split; [reflexivity|]).
        * now left.
        * right. cbn in *. auto.
    - destruct (notify _ _ _ _) as [[js4 wt'] rd'].
      fin_step H; cbn; repeat split; auto; right; (split; [now right|]); (split; [reflexivity|]).
      * now left.
      * right. cbn in *. auto.
  Qed.
End Inv2.
