(* The provider walk of compileFlow (validateFuncs): invariants of the worklist search, and
   what an empty result means. *)
From CffVerif Require Import ValidateModel ValidateProofs.

Lemma dedup_in l t : In t (dedup l) <-> In t l.
Proof.
  induction l as [|x l IH]; cbn; [tauto|]. destruct (mem x l) eqn:M.
  - rewrite IH. split; [auto|]. intros [->|H]; [now apply mem_In | exact H].
  - cbn. rewrite IH. tauto.
Qed.

Lemma dedup_nodup l : NoDup (dedup l).
Proof.
  induction l as [|x l IH]; cbn; [constructor|]. destruct (mem x l) eqn:M; [exact IH|].
  constructor; [|exact IH]. rewrite dedup_in. now apply mem_false.
Qed.

Lemma remove_ty_in t l p : NoDup l -> (In p (remove_ty t l) <-> In p l /\ p <> t).
Proof.
  induction l as [|x l IH]; intros Hn; cbn; [tauto|]. inversion Hn as [|? ? Hx Hl]; subst.
  destruct (ty_eqb t x) eqn:E.
  - apply ty_eqb_eq in E. subst x. split.
    + intros H. split; [now right|]. intros ->. contradiction.
    + intros [[->|H] Hne]; [now elim Hne | exact H].
  - assert (t <> x) by (intros ->; rewrite ty_eqb_refl in E; discriminate).
    cbn. rewrite (IH Hl). split.
    + intros [->|[H1 H2]]; [split; [now left | congruence] | split; [now right | exact H2]].
    + intros [[->|H1] H2]; [now left | right; split; assumption].
Qed.

Lemma remove_ty_nodup t l : NoDup l -> NoDup (remove_ty t l).
Proof.
  induction l as [|x l IH]; intros Hn; cbn; [constructor|]. inversion Hn as [|? ? Hx Hl]; subst.
  destruct (ty_eqb t x); [exact Hl|]. constructor; [|now apply IH].
  intros H. apply (remove_ty_in t l x Hl) in H. now destruct H.
Qed.

Section Walk.
  Variable f : flow.

  Definition roots : list ty := map TUser (fresults f) ++ sinks f.
  Definition params0 : list ty := dedup (map TUser (fparams f)).
  Definition noprov (t : ty) : Prop := provider f t = None.

  Record WInv (queue visited inputs missing : list ty) : Prop := {
    w_closed : forall v d, In v visited -> In d (succs f v) -> In d visited \/ In d queue;
    w_roots : forall r, In r roots -> In r visited \/ In r queue;
    w_missing : forall m, In m missing -> In m visited /\ noprov m /\ ~ In m params0;
    w_missing' : forall v, In v visited -> noprov v -> ~ In v params0 -> In v missing;
    w_inputs : forall p, In p inputs <-> (In p params0 /\ ~ (In p visited /\ noprov p));
    w_inputs_nodup : NoDup inputs;
    w_seen : forall t, In t visited \/ In t queue -> In t roots \/ exists x, In x (funcs f) /\ In t (fdeps x)
  }.

  Lemma winv_init : WInv roots [] params0 [].
  Proof.
    constructor.
    - intros v d [].
    - intros r Hr. now right.
    - intros m [].
    - intros v [].
    - intros p. split; [intros H; split; [exact H | intros [[] _]] | intros [H _]; exact H].
    - apply dedup_nodup.
    - intros t [[]|H]. now left.
  Qed.

  Lemma succs_fdeps t i : provider f t = Some i -> succs f t = fdeps (nth i (funcs f) fn0).
  Proof. intros H. unfold succs. now rewrite H. Qed.

  Lemma winv_step t q visited inputs missing : WInv (t :: q) visited inputs missing ->
    mem t visited = true \/
    (mem t visited = false /\
     match provider f t with
     | Some i => WInv (q ++ fdeps (nth i (funcs f) fn0)) (t :: visited) inputs missing
     | None => if mem t inputs then WInv q (t :: visited) (remove_ty t inputs) missing
               else WInv q (t :: visited) inputs (missing ++ [t])
     end).
  Proof.
    intros W. destruct (mem t visited) eqn:M; [now left|]. right. split; [reflexivity|].
    apply mem_false in M.
    assert (Hq : forall d, In d visited \/ In d (t :: q) -> forall q', (forall y, In y q -> In y q') -> In d (t :: visited) \/ In d q').
    { intros d [H|[->|H]] q' Hq'; [left; now right | left; now left | right; now apply Hq']. }
    destruct (provider f t) as [i|] eqn:Ep.
    - constructor.
      + intros v d [<-|Hv] Hd.
        * right. apply in_or_app. right. now rewrite <- (succs_fdeps t i Ep).
        * apply (Hq d (w_closed _ _ _ _ W v d Hv Hd)). intros y Hy. apply in_or_app. now left.
      + intros r Hr. apply (Hq r (w_roots _ _ _ _ W r Hr)). intros y Hy. apply in_or_app. now left.
      + intros m Hm. destruct (w_missing _ _ _ _ W m Hm) as (A & B & C). repeat split; auto. now right.
      + intros v [<-|Hv] Hn Hp; [unfold noprov in Hn; congruence | now apply (w_missing' _ _ _ _ W v)].
      + intros p. rewrite (w_inputs _ _ _ _ W p). split; intros [A B]; split; auto.
        * intros [[<-|Hv] Hn]; [unfold noprov in Hn; congruence | apply B; auto].
        * intros [Hv Hn]. apply B. split; [now right | exact Hn].
      + apply (w_inputs_nodup _ _ _ _ W).
      + intros x [[<-|Hv]|Hx].
        * apply (w_seen _ _ _ _ W). right. now left.
        * apply (w_seen _ _ _ _ W). now left.
        * apply in_app_or in Hx. destruct Hx as [Hx|Hx]; [apply (w_seen _ _ _ _ W); right; now right|].
          right. exists (nth i (funcs f) fn0). split; [|exact Hx].
          apply nth_In. destruct (provider_in_U f t i Ep) as [_ Hi]. exact Hi.
    - destruct (mem t inputs) eqn:Mi.
      + apply mem_In in Mi. constructor.
        * intros v d [<-|Hv] Hd; [unfold succs in Hd; rewrite Ep in Hd; contradiction|].
          apply (Hq d (w_closed _ _ _ _ W v d Hv Hd)). auto.
        * intros r Hr. apply (Hq r (w_roots _ _ _ _ W r Hr)). auto.
        * intros m Hm. destruct (w_missing _ _ _ _ W m Hm) as (A & B & C). repeat split; auto. now right.
        * intros v [<-|Hv] Hn Hp; [|now apply (w_missing' _ _ _ _ W v)].
          exfalso. apply Hp. apply (proj1 (w_inputs _ _ _ _ W t) Mi).
        * intros p. rewrite (remove_ty_in t inputs p (w_inputs_nodup _ _ _ _ W)), (w_inputs _ _ _ _ W p). split.
          -- intros [[A B] Hne]. split; [exact A|]. intros [[<-|Hv] Hn]; [now elim Hne | apply B; auto].
          -- intros [A B]. split; [split; [exact A|]|].
             ++ intros [Hv Hn]. apply B. split; [now right | exact Hn].
             ++ intros ->. apply B. split; [now left | exact Ep].
        * apply remove_ty_nodup. apply (w_inputs_nodup _ _ _ _ W).
        * intros x [[<-|Hv]|Hx]; apply (w_seen _ _ _ _ W); [right; now left | now left | right; now right].
      + apply mem_false in Mi. constructor.
        * intros v d [<-|Hv] Hd; [unfold succs in Hd; rewrite Ep in Hd; contradiction|].
          apply (Hq d (w_closed _ _ _ _ W v d Hv Hd)). auto.
        * intros r Hr. apply (Hq r (w_roots _ _ _ _ W r Hr)). auto.
        * intros m Hm. apply in_app_or in Hm. destruct Hm as [Hm|[<-|[]]].
          -- destruct (w_missing _ _ _ _ W m Hm) as (A & B & C). repeat split; auto. now right.
          -- repeat split; [now left | exact Ep|]. intros Hp. apply Mi. apply (w_inputs _ _ _ _ W t).
             split; [exact Hp|]. intros [Hv _]. contradiction.
        * intros v [<-|Hv] Hn Hp; apply in_or_app; [right; now left | left; now apply (w_missing' _ _ _ _ W v)].
        * intros p. rewrite (w_inputs _ _ _ _ W p). split; intros [A B]; split; auto.
          -- intros [[<-|Hv] Hn]; [|apply B; auto].
             apply Mi. apply (w_inputs _ _ _ _ W t). split; [exact A|]. intros [Hv _]. contradiction.
          -- intros [Hv Hn]. apply B. split; [now right | exact Hn].
        * apply (w_inputs_nodup _ _ _ _ W).
        * intros x [[<-|Hv]|Hx]; apply (w_seen _ _ _ _ W); [right; now left | now left | right; now right].
  Qed.

  (* a walk that reports nothing missing ends in a state without queue that satisfies the invariant *)
  Lemma walk_end fuel : forall q v i m i',
    WInv q v i m -> walk f fuel q v i m = ([], i') -> exists v', WInv [] v' i' [].
  Proof.
    induction fuel as [|fuel IH]; intros q v i m i' W H; cbn [walk] in H.
    - injection H as Hm <-. apply app_eq_nil in Hm. destruct Hm as [-> ->]. eauto.
    - destruct q as [|t q]; [injection H as -> <-; eauto|].
      destruct (winv_step t q v i m W) as [M|[M Hstep]]; rewrite M in H.
      + apply (IH q v i m i'); [|exact H].
        apply mem_In in M. destruct W as [A B C D E F G]. constructor; auto.
        * intros x d Hx Hd. destruct (A x d Hx Hd) as [K|[<-|K]]; auto.
        * intros r Hr. destruct (B r Hr) as [K|[<-|K]]; auto.
        * intros x [Hx|Hx]; apply G; [now left | right; now right].
      + destruct (provider f t) as [j|]; [eapply IH; eauto|].
        destruct (mem t i); eapply IH; eauto.
  Qed.
End Walk.

(* ---------- who provides what ---------- *)
Definition is_invoke (t : ty) : bool := match t with TInvoke _ => true | _ => false end.

Lemma NoDup_partition {A} (p : A -> bool) (l : list A) :
  NoDup (filter p l) -> NoDup (filter (fun x => negb (p x)) l) -> NoDup l.
Proof.
  induction l as [|a l IH]; cbn; intros H1 H2; [constructor|].
  destruct (p a) eqn:E; cbn in H2.
  - inversion H1 as [|? ? Ha Hl]; subst. constructor; [|now apply IH].
    intros Hin. apply Ha. apply filter_In. split; assumption.
  - inversion H2 as [|? ? Ha Hl]; subst. constructor; [|now apply IH].
    intros Hin. apply Ha. apply filter_In. split; [assumption | now rewrite E].
Qed.

Lemma filter_invoke_user l : filter is_invoke (map TUser l) = [].
Proof. induction l as [|a l IH]; cbn; auto. Qed.
Lemma filter_notinvoke_user l : filter (fun x => negb (is_invoke x)) (map TUser l) = map TUser l.
Proof. induction l as [|a l IH]; cbn; [reflexivity | now rewrite IH]. Qed.

(* the invoke sentinels of funcs_from pc ic ts are TInvoke k with k > ic, strictly increasing *)
Lemma sentinels_from ts : forall pc ic,
  exists ks, filter is_invoke (flat_map fprov (funcs_from pc ic ts)) = map TInvoke ks /\
             (forall k, In k ks -> ic < k) /\ NoDup ks.
Proof.
  induction ts as [|t ts IH]; intros pc ic; [exists []; repeat split; [intros k [] | constructor]|].
  cbn [funcs_from]. destruct (tpred t) as [pins|]; cbn [flat_map fprov]; rewrite ?filter_app, ?filter_invoke_user;
    destruct (tinvoke t); cbn [filter is_invoke app].
  - destruct (IH (S pc) (S ic)) as [ks [E [Hk Hn]]]. exists (S ic :: ks). rewrite E. repeat split.
    + intros k [<-|H]; [lia | specialize (Hk k H); lia].
    + constructor; [|exact Hn]. intros H. specialize (Hk _ H). lia.
  - destruct (IH (S pc) ic) as [ks [E [Hk Hn]]]. exists ks. rewrite E. repeat split; auto.
  - destruct (IH pc (S ic)) as [ks [E [Hk Hn]]]. exists (S ic :: ks). rewrite E. repeat split.
    + intros k [<-|H]; [lia | specialize (Hk k H); lia].
    + constructor; [|exact Hn]. intros H. specialize (Hk _ H). lia.
  - destruct (IH pc ic) as [ks [E [Hk Hn]]]. exists ks. rewrite E. repeat split; auto.
Qed.

Lemma notinvoke_from ts : forall pc ic,
  filter (fun x => negb (is_invoke x)) (flat_map fprov (funcs_from pc ic ts)) = flat_map fouts (funcs_from pc ic ts).
Proof.
  induction ts as [|t ts IH]; intros pc ic; [reflexivity|].
  cbn [funcs_from]. destruct (tpred t) as [pins|]; cbn [flat_map fprov fouts];
    rewrite ?filter_app, ?filter_notinvoke_user, IH; destruct (tinvoke t); cbn [filter is_invoke negb app];
    rewrite ?app_nil_r; reflexivity.
Qed.

Lemma NoDup_map_inj {A B} (g : A -> B) l : (forall x y, g x = g y -> x = y) -> NoDup l -> NoDup (map g l).
Proof.
  intros Hinj. induction 1 as [|a l Ha Hl IH]; cbn; constructor; [|exact IH].
  intros H. apply in_map_iff in H. destruct H as [y [E Hy]]. apply Hinj in E. now subst.
Qed.

Lemma fprov_nodup f : NoDup (flat_map fouts (funcs f)) -> NoDup (flat_map fprov (funcs f)).
Proof.
  intros H. apply (NoDup_partition is_invoke).
  - destruct (sentinels_from (ftasks f) 0 0) as [ks [E [_ Hn]]]. unfold funcs. rewrite E.
    apply NoDup_map_inj; [intros x y Hxy; now injection Hxy | exact Hn].
  - unfold funcs. rewrite notinvoke_from. exact H.
Qed.

Lemma provider_from_none fs : forall i t, provider_from i fs t = None -> ~ In t (flat_map fprov fs).
Proof.
  induction fs as [|x fs IH]; intros i t H; cbn in *; [tauto|].
  destruct (provider_from (S i) fs t) eqn:E; [discriminate|].
  destruct (mem t (fprov x)) eqn:M; [discriminate|]. intros Hin. apply in_app_or in Hin.
  destruct Hin as [Hin|Hin]; [apply mem_false in M; contradiction | now apply (IH (S i) t E)].
Qed.

Lemma provider_from_complete fs : forall i j t, NoDup (flat_map fprov fs) -> j < length fs ->
  In t (fprov (nth j fs fn0)) -> provider_from i fs t = Some (i + j).
Proof.
  induction fs as [|x fs IH]; intros i j t Hn Hj Hin; [cbn in Hj; lia|].
  cbn [flat_map] in Hn. cbn [provider_from]. destruct j as [|j].
  - cbn [nth] in Hin.
    destruct (provider_from (S i) fs t) as [k|] eqn:E.
    + exfalso. destruct (provider_from_some _ _ _ _ E) as (A & B & C). apply mem_In in C.
      assert (In t (flat_map fprov fs)).
      { apply in_flat_map. exists (nth (k - S i) fs fn0). split; [apply nth_In; lia | exact C]. }
      clear - Hn Hin H. induction (fprov x) as [|a l IHl]; [contradiction|]. cbn in Hn. inversion Hn as [|? ? Ha Hl]; subst.
      destruct Hin as [->|Hin]; [apply Ha; apply in_or_app; now right | now apply IHl].
    + apply mem_In in Hin. rewrite Hin. f_equal. lia.
  - cbn [nth] in Hin. cbn [length] in Hj.
    assert (Hn' : NoDup (flat_map fprov fs)).
    { clear - Hn. induction (fprov x) as [|a l IHl]; [exact Hn|]. cbn in Hn. inversion Hn; subst. now apply IHl. }
    rewrite (IH (S i) j t Hn' ltac:(lia) Hin). f_equal. lia.
Qed.

Section Provide.
  Variable f : flow.
  Hypothesis Hnd : NoDup (flat_map fouts (funcs f)).

  Lemma provider_iff t g : provider f t = Some g <-> g < length (funcs f) /\ In t (fprov (nth g (funcs f) fn0)).
  Proof.
    split.
    - intros H. destruct (provider_from_some _ _ _ _ H) as (_ & B & C). rewrite Nat.sub_0_r in C.
      split; [lia | now apply mem_In].
    - intros [Hg Hin]. unfold provider. rewrite (provider_from_complete (funcs f) 0 g t (fprov_nodup f Hnd) Hg Hin). reflexivity.
  Qed.

  Lemma needs_of_provided g h t : g < length (funcs f) -> In h (fprov (nth g (funcs f) fn0)) ->
    In t (fdeps (nth g (funcs f) fn0)) -> In t (succs f h).
  Proof.
    intros Hg Hh Ht. unfold succs. rewrite (proj2 (provider_iff h g) (conj Hg Hh)). exact Ht.
  Qed.
End Provide.

(* ---------- every function leads forward to a root ---------- *)
Lemma np_snoc f a b c : needs_plus f a b -> In c (succs f b) -> needs_plus f a c.
Proof.
  intros H Hc. induction H as [a b Hab|a b c0 Hab Hbc IH].
  - eapply np_step; [exact Hab | now apply np_one].
  - eapply np_step; [exact Hab | now apply IH].
Qed.

Lemma np_trans f a b c : needs_plus f a b -> needs_plus f b c -> needs_plus f a c.
Proof.
  intros H1 H2. induction H2 as [b c Hbc|b c d Hbc Hcd IH].
  - eapply np_snoc; eauto.
  - apply IH. eapply np_snoc; eauto.
Qed.

(* shape of the compiled functions *)
Lemma funcs_shape ts : forall pc ic x, In x (funcs_from pc ic ts) ->
  (exists t, In t ts /\ fouts x = map TUser (touts t) /\ incl (fouts x) (fprov x) /\
             (tinvoke t = true -> exists k, In (TInvoke k) (fprov x))) \/
  (exists k, fouts x = [TPred k] /\ fprov x = [TPred k]).
Proof.
  induction ts as [|t ts IH]; intros pc ic x Hx; [contradiction|].
  cbn [funcs_from] in Hx.
  assert (Htask : forall ins, let y := {| fdeps := ins; fouts := map TUser (touts t);
                     fprov := map TUser (touts t) ++ (if tinvoke t then [TInvoke (S ic)] else []) |} in
            exists t0, In t0 (t :: ts) /\ fouts y = map TUser (touts t0) /\ incl (fouts y) (fprov y) /\
                       (tinvoke t0 = true -> exists k, In (TInvoke k) (fprov y))).
  { intros ins y. exists t. split; [now left|]. split; [reflexivity|]. split.
    - intros o Ho. cbn. apply in_or_app. now left.
    - intros Hi. cbn. rewrite Hi. exists (S ic). apply in_or_app. right. now left. }
  destruct (tpred t) as [pins|].
  - destruct Hx as [<-|[<-|Hx]].
    + left. apply Htask.
    + right. exists (S pc). split; reflexivity.
    + destruct (IH _ _ x Hx) as [(t0 & Ht0 & R)|R]; [left; exists t0; split; [now right | exact R] | now right].
  - destruct Hx as [<-|Hx].
    + left. apply Htask.
    + destruct (IH _ _ x Hx) as [(t0 & Ht0 & R)|R]; [left; exists t0; split; [now right | exact R] | now right].
Qed.

Section Forward.
  Variable f : flow.
  Hypothesis Hnd : NoDup (flat_map fouts (funcs f)).
  Hypothesis Hused : forall o, In o (flat_map fouts (funcs f)) -> In o (consumed f).
  Hypothesis Hinv : forall t, In t (ftasks f) -> (touts t = [] <-> tinvoke t = true).
  Hypothesis Hacyc : forall t, ~ needs_plus f t t.

  Notation U := (all_types f).
  Notation fn g := (nth g (funcs f) fn0).

  Definition good (h : ty) : Prop := In h (roots f) \/ exists y, In y (funcs f) /\ In h (fdeps y).

  (* every function provides a type that is a root or is consumed by some function *)
  Lemma handle x : In x (funcs f) -> exists h, In h (fprov x) /\ good h.
  Proof.
    intros Hx. destruct (funcs_shape (ftasks f) 0 0 x Hx) as [(t & Ht & Eo & Hincl & Hsent)|(k & Eo & Ep)].
    - destruct (fouts x) as [|o os] eqn:E.
      + (* no outputs: an Invoke task, its sentinel is a root *)
        assert (Hti : tinvoke t = true).
        { apply (Hinv t Ht). destruct (touts t); [reflexivity | discriminate]. }
        destruct (Hsent Hti) as [k Hk]. exists (TInvoke k). split; [exact Hk|]. left.
        unfold roots, sinks. apply in_or_app. right. apply filter_In. split; [|reflexivity].
        apply in_flat_map. eauto.
      + exists o. split; [apply Hincl; now left|].
        assert (Hc : In o (consumed f)).
        { apply Hused. apply in_flat_map. exists x. split; [exact Hx | rewrite E; now left]. }
        unfold consumed in Hc. apply in_app_or in Hc. destruct Hc as [Hc|Hc].
        * left. unfold roots. apply in_or_app. now left.
        * right. apply in_flat_map in Hc. exact Hc.
    - exists (TPred k). split; [rewrite Ep; now left|].
      assert (Hc : In (TPred k) (consumed f)).
      { apply Hused. apply in_flat_map. exists x. split; [exact Hx | rewrite Eo; now left]. }
      unfold consumed in Hc. apply in_app_or in Hc. destruct Hc as [Hc|Hc].
      + apply in_map_iff in Hc. destruct Hc as [u [Hu _]]. discriminate.
      + right. apply in_flat_map in Hc. exact Hc.
  Qed.

  Definition Reach (t : ty) : Prop := exists r, In r (roots f) /\ (r = t \/ needs_plus f r t).

  Lemma fprov_in_U x h : In x (funcs f) -> In h (fprov x) -> In h U.
  Proof.
    intros Hx Hh. unfold all_types. apply in_or_app. right. apply in_or_app. right.
    apply in_flat_map. exists x. split; [exact Hx | apply in_or_app; now right].
  Qed.

  Lemma forward fuel : forall path h x,
    In x (funcs f) -> In h (fprov x) -> good h ->
    (forall y, In y path -> needs_plus f h y) -> NoDup path -> incl path U ->
    length U < length path + fuel -> Reach h.
  Proof.
    induction fuel as [|fuel IH]; intros path h x Hx Hh Hg Hpath Hn Hi Hl.
    - pose proof (NoDup_incl_length Hn Hi). lia.
    - destruct Hg as [Hr|(y & Hy & Hhy)]; [exists h; split; [exact Hr | now left]|].
      destruct (handle y Hy) as (h' & Hh' & Hg').
      destruct (In_nth _ _ fn0 Hy) as (g' & Hg'lt & Eg').
      assert (Hedge : In h (succs f h')).
      { apply (needs_of_provided f Hnd g' h' h Hg'lt); rewrite Eg'; assumption. }
      assert (Hnot : ~ In h path).
      { intros Hin. apply (Hacyc h). now apply Hpath. }
      destruct (IH (h :: path) h' y Hy Hh' Hg') as (r & Hr & Hrh).
      + intros z [<-|Hz]; [now apply np_one | eapply np_step; [exact Hedge | now apply Hpath]].
      + constructor; assumption.
      + intros z [<-|Hz]; [exact (fprov_in_U x h Hx Hh) | now apply Hi].
      + cbn [length]. lia.
      + exists r. split; [exact Hr|]. right. destruct Hrh as [->|Hrh]; [now apply np_one | eapply np_snoc; eauto].
  Qed.

  Lemma every_function_reached x : In x (funcs f) -> exists h, In h (fprov x) /\ Reach h.
  Proof.
    intros Hx. destruct (handle x Hx) as (h & Hh & Hg). exists h. split; [exact Hh|].
    apply (forward (S (length U)) [] h x Hx Hh Hg); [intros y [] | constructor | intros y [] | cbn; lia].
  Qed.

  (* a final state of the walk has visited everything that is consumed *)
  Lemma closed_needs v i m : WInv f [] v i m -> forall a c, needs_plus f a c -> In a v -> In c v.
  Proof.
    intros W a c H. induction H as [a b Hab|a b c Hab Hbc IH]; intros Ha.
    - destruct (w_closed f _ _ _ _ W a b Ha Hab) as [H|[]]; exact H.
    - apply IH. destruct (w_closed f _ _ _ _ W a b Ha Hab) as [H|[]]; exact H.
  Qed.

  Lemma closed_reach v i m : WInv f [] v i m -> forall t, Reach t -> In t v.
  Proof.
    intros W t (r & Hr & Hrt).
    assert (Hrv : In r v) by (destruct (w_roots f _ _ _ _ W r Hr) as [H|[]]; exact H).
    destruct Hrt as [<-|Hrt]; [exact Hrv | eapply closed_needs; eauto].
  Qed.

  Lemma consumed_visited v i m : WInv f [] v i m -> forall t, In t (consumed f) -> In t v.
  Proof.
    intros W t Ht. unfold consumed in Ht. apply in_app_or in Ht. destruct Ht as [Ht|Ht].
    - destruct (w_roots f _ _ _ _ W t) as [H|[]]; [|exact H]. unfold roots. apply in_or_app. now left.
    - apply in_flat_map in Ht. destruct Ht as (x & Hx & Htx).
      destruct (every_function_reached x Hx) as (h & Hh & Hreach).
      pose proof (closed_reach v i m W h Hreach) as Hv.
      destruct (In_nth _ _ fn0 Hx) as (g & Hg & Eg).
      assert (Hs : In t (succs f h)) by (apply (needs_of_provided f Hnd g h t Hg); rewrite Eg; assumption).
      destruct (w_closed f _ _ _ _ W h t Hv Hs) as [H|[]]; exact H.
  Qed.
End Forward.

(* ---------- soundness: every accepted flow is well-formed ---------- *)
Lemma fdeps_not_invoke ts : forall pc ic x d, In x (funcs_from pc ic ts) -> In d (fdeps x) -> is_invoke d = false.
Proof.
  induction ts as [|t ts IH]; intros pc ic x d Hx Hd; [contradiction|]. cbn [funcs_from] in Hx.
  assert (Hu : forall l, In d (map TUser l) -> is_invoke d = false).
  { intros l H. apply in_map_iff in H. destruct H as [u [<- _]]. reflexivity. }
  destruct (tpred t) as [pins|].
  - destruct Hx as [<-|[<-|Hx]]; cbn [fdeps] in Hd.
    + apply in_app_or in Hd. destruct Hd as [Hd|[<-|[]]]; [eapply Hu; eauto | reflexivity].
    + eapply Hu; eauto.
    + eapply IH; eauto.
  - destruct Hx as [<-|Hx]; cbn [fdeps] in Hd; [eapply Hu; eauto | eapply IH; eauto].
Qed.

Lemma fouts_in_fprov ts : forall pc ic x, In x (funcs_from pc ic ts) -> incl (fouts x) (fprov x).
Proof.
  intros pc ic x Hx. destruct (funcs_shape ts pc ic x Hx) as [(t & _ & _ & H & _)|(k & -> & ->)]; [exact H | apply incl_refl].
Qed.

Lemma NoDup_app_intro {A} (l1 l2 : list A) : NoDup l1 -> NoDup l2 -> (forall x, In x l1 -> ~ In x l2) -> NoDup (l1 ++ l2).
Proof.
  induction l1 as [|a l1 IH]; cbn; intros H1 H2 Hd; [exact H2|]. inversion H1 as [|? ? Ha Hl]; subst.
  constructor.
  - intros H. apply in_app_or in H. destruct H as [H|H]; [contradiction | apply (Hd a); auto].
  - apply IH; auto.
Qed.

Theorem accepts_wellformed f : accepts f = true -> WellFormed f.
Proof.
  intros H. unfold accepts, validate in H.
  destruct (chk_dup_param f) eqn:E1; [discriminate|].
  destruct (chk_no_output f) eqn:E2; [discriminate|].
  destruct (chk_invoke_outputs f) eqn:E3; [discriminate|].
  destruct (chk_dup_provider f) eqn:E4; [discriminate|].
  destruct (chk_unused_output f) eqn:E5; [discriminate|].
  destruct (chk_no_provider f) eqn:E6; [discriminate|].
  destruct (chk_unused_input f) eqn:E7; [discriminate|].
  destruct (chk_cycle f) eqn:E8; [discriminate|]. clear H.
  pose proof (proj1 (chk_dup_param_spec f) E1) as Hparams.
  pose proof (proj1 (chk_invoke_spec f) (conj E2 E3)) as Hinv.
  pose proof (proj1 (chk_dup_provider_spec f) E4) as Hnd.
  pose proof (proj1 (chk_unused_output_spec f) E5) as Hused.
  pose proof (proj1 (chk_cycle_spec f) E8) as Hacyc.
  (* the walk ended with nothing missing and no input left *)
  unfold chk_no_provider in E6. unfold chk_unused_input in E7.
  destruct (walk_result f) as [m' i'] eqn:Ew. cbn [fst snd] in E6, E7.
  destruct m' as [|? ?]; [|discriminate]. destruct i' as [|? ?]; [|discriminate].
  unfold walk_result in Ew. fold (roots f) in Ew. fold (params0 f) in Ew.
  destruct (walk_end f _ _ _ _ _ _ (winv_init f) Ew) as [v W].
  assert (Hvis : forall t, In t (consumed f) -> In t v) by (apply (consumed_visited f Hnd Hused Hinv Hacyc v [] [] W)).
  assert (Hparam_np : forall p, In p (params0 f) -> In p v /\ provider f p = None).
  { intros p Hp.
    assert (Hnot : ~ ~ (In p v /\ noprov f p)).
    { intros Hc. assert (Hin : In p []); [|contradiction].
      apply (proj2 (w_inputs f _ _ _ _ W p)). split; assumption. }
    destruct (mem p v) eqn:Mv.
    - apply mem_In in Mv. destruct (provider f p) eqn:Ep; [|auto].
      exfalso. apply Hnot. intros [_ Hn]. unfold noprov in Hn. congruence.
    - exfalso. apply mem_false in Mv. apply Hnot. intros [Hv _]. contradiction. }
  assert (Hout_prov : forall o, In o (flat_map fouts (funcs f)) -> provider f o <> None).
  { intros o Ho. apply in_flat_map in Ho. destruct Ho as (x & Hx & Hox).
    destruct (In_nth _ _ fn0 Hx) as (g & Hg & Eg).
    rewrite (proj2 (provider_iff f Hnd o g)); [discriminate|]. split; [exact Hg|]. rewrite Eg.
    apply (fouts_in_fprov (ftasks f) 0 0 x Hx). exact Hox. }
  constructor.
  - (* unique *)
    unfold provided. apply NoDup_app_intro; [exact Hparams | exact Hnd|].
    intros p Hp Ho. destruct (Hparam_np p) as [_ Hn]; [unfold params0; apply (proj2 (dedup_in _ _)); assumption|]. now apply (Hout_prov p Ho).
  - (* provided *)
    intros t Ht. pose proof (Hvis t Ht) as Hv. unfold provided. apply in_or_app.
    destruct (provider f t) as [g|] eqn:Ep.
    + right. destruct (proj1 (provider_iff f Hnd t g) Ep) as [Hg Hin].
      assert (Hni : is_invoke t = false).
      { unfold consumed in Ht. apply in_app_or in Ht. destruct Ht as [Ht|Ht].
        - apply in_map_iff in Ht. destruct Ht as [u [<- _]]. reflexivity.
        - apply in_flat_map in Ht. destruct Ht as (x & Hx & Hd). eapply (fdeps_not_invoke (ftasks f) 0 0); eauto. }
      unfold funcs. rewrite <- notinvoke_from. apply filter_In. split; [|now rewrite Hni].
      apply in_flat_map. exists (nth g (funcs f) fn0). split; [apply nth_In; exact Hg | exact Hin].
    + left. destruct (mem t (params0 f)) eqn:Mp.
      * apply mem_In in Mp. unfold params0 in Mp. exact (proj1 (dedup_in _ _) Mp).
      * exfalso. apply mem_false in Mp. assert (Hm : In t []); [|contradiction]. apply (w_missing' f _ _ _ _ W t Hv Ep Mp).
  - exact Hacyc.
  - (* used *)
    intros t Ht. unfold provided in Ht. apply in_app_or in Ht. destruct Ht as [Ht|Ht]; [|now apply Hused].
    destruct (Hparam_np t) as [Hv _]; [unfold params0; apply (proj2 (dedup_in _ _)); assumption|].
    destruct (w_seen f _ _ _ _ W t (or_introl Hv)) as [Hr|(x & Hx & Hd)].
    + unfold roots in Hr. apply in_app_or in Hr. destruct Hr as [Hr|Hr].
      * unfold consumed. apply in_or_app. now left.
      * exfalso. unfold sinks in Hr. apply filter_In in Hr. destruct Hr as [_ Hr].
        apply in_map_iff in Ht. destruct Ht as [u [<- _]]. discriminate.
    + unfold consumed. apply in_or_app. right. apply in_flat_map. eauto.
  - exact Hinv.
Qed.

(* ---------- the walk's fuel always suffices ---------- *)
Section Fuel.
  Variable f : flow.
  Notation U := (all_types f).
  Notation FD := (flat_map fdeps (funcs f)).

  Definition cost (t : ty) : nat :=
    match provider f t with Some i => length (fdeps (nth i (funcs f) fn0)) | None => 0 end.

  Definition sumcost (l visited : list ty) : nat :=
    list_sum (map cost (filter (fun t => negb (mem t visited)) l)).

  Definition phi (q visited : list ty) : nat := length q + sumcost (dedup U) visited.

  Lemma mem_cons x t v : mem x (t :: v) = ty_eqb x t || mem x v.
  Proof. reflexivity. Qed.

  Lemma filter_unvisited_other l t v : ~ In t l ->
    filter (fun x => negb (mem x (t :: v))) l = filter (fun x => negb (mem x v)) l.
  Proof.
    intros Hn. apply filter_ext_in. intros x Hx. rewrite mem_cons.
    destruct (ty_eqb x t) eqn:E; [|reflexivity]. apply ty_eqb_eq in E. subst. contradiction.
  Qed.

  Lemma sumcost_visit l : forall t v, NoDup l -> In t l -> ~ In t v ->
    sumcost l (t :: v) + cost t = sumcost l v.
  Proof.
    induction l as [|a l IH]; intros t v Hn Hin Hv; [contradiction|].
    inversion Hn as [|? ? Ha Hl]; subst. unfold sumcost in *. cbn [filter]. rewrite mem_cons.
    destruct Hin as [E|Hin].
    - subst a. rewrite ty_eqb_refl. cbn [orb negb]. apply mem_false in Hv. rewrite Hv. cbn [negb map].
      rewrite (filter_unvisited_other l t v Ha). unfold list_sum. cbn [fold_right]. lia.
    - assert (Hne : ty_eqb a t = false).
      { destruct (ty_eqb a t) eqn:E; [|reflexivity]. apply ty_eqb_eq in E. subst. contradiction. }
      rewrite Hne. cbn [orb]. specialize (IH t v Hl Hin Hv).
      destruct (mem a v); cbn [negb map]; unfold list_sum in *; cbn [fold_right]; lia.
  Qed.

  Lemma sumcost_visit_other l t v : ~ In t l -> sumcost l (t :: v) = sumcost l v.
  Proof.
    intros Hn. unfold sumcost. now rewrite (filter_unvisited_other l t v Hn).
  Qed.

  Lemma cost_noprov t : provider f t = None -> cost t = 0.
  Proof. unfold cost. now intros ->. Qed.

  (* with enough fuel the walk runs to an empty queue, whatever it reports *)
  Lemma walk_runs fuel : forall q v i m m' i',
    WInv f q v i m -> incl q U -> phi q v < fuel -> walk f fuel q v i m = (m', i') ->
    exists v', WInv f [] v' i' m'.
  Proof.
    induction fuel as [|fuel IH]; intros q v i m m' i' W Hq Hphi H; [lia|]. cbn [walk] in H.
    destruct q as [|t q]; [injection H as <- <-; eauto|].
    assert (HtU : In t (dedup U)) by (apply dedup_in; apply Hq; now left).
    assert (Hq' : incl q U) by (intros x Hx; apply Hq; now right).
    destruct (winv_step f t q v i m W) as [M|[M Hstep]]; rewrite M in H.
    - apply (IH q v i m m' i'); [| exact Hq' | unfold phi in *; cbn [length] in Hphi; lia | exact H].
      apply mem_In in M. destruct W as [A B C D E F G]. constructor; auto.
      + intros x d Hx Hd. destruct (A x d Hx Hd) as [K|[<-|K]]; auto.
      + intros r Hr. destruct (B r Hr) as [K|[<-|K]]; auto.
      + intros x [Hx|Hx]; apply G; [now left | right; now right].
    - apply mem_false in M.
      pose proof (sumcost_visit (dedup U) t v (dedup_nodup U) HtU M) as Hs.
      destruct (provider f t) as [j|] eqn:Ep.
      + eapply (IH _ _ _ _ m' i' Hstep); [| | exact H].
        * intros x Hx. apply in_app_or in Hx. destruct Hx as [Hx|Hx]; [now apply Hq'|].
          destruct (provider_in_U f t j Ep) as [_ Hj].
          unfold all_types. apply in_or_app. right. apply in_or_app. right. apply in_flat_map.
          exists (nth j (funcs f) fn0). split; [now apply nth_In | apply in_or_app; now left].
        * unfold phi in *. rewrite app_length. cbn [length] in Hphi. unfold cost in Hs. rewrite Ep in Hs. lia.
      + rewrite (cost_noprov t Ep) in Hs.
        destruct (mem t i); eapply (IH _ _ _ _ m' i' Hstep); try exact H; try exact Hq';
          unfold phi in *; cbn [length] in Hphi; lia.
  Qed.

  Lemma length_le_flat_map {A B} (g : A -> list B) l x : In x l -> length (g x) <= length (flat_map g l).
  Proof.
    induction l as [|a l IH]; intros H; [contradiction|]. cbn. rewrite app_length.
    destruct H as [->|H]; [lia | specialize (IH H); lia].
  Qed.

  Lemma cost_le t : cost t <= length FD.
  Proof.
    unfold cost. destruct (provider f t) as [i|] eqn:E; [|lia].
    destruct (provider_in_U f t i E) as [_ Hi]. apply length_le_flat_map. now apply nth_In.
  Qed.

  Lemma sumcost_le l v : sumcost l v <= length l * length FD.
  Proof.
    unfold sumcost. induction l as [|a l IH]; [cbn; lia|]. cbn [filter length]. rewrite Nat.mul_succ_l.
    destruct (negb (mem a v)); cbn [map]; unfold list_sum in *; cbn [fold_right]; pose proof (cost_le a); lia.
  Qed.

  Lemma dedup_length (l : list ty) : length (dedup l) <= length l.
  Proof. induction l as [|a l IH]; cbn; [lia|]. destruct (mem a l); cbn; lia. Qed.

  Lemma sinks_length ts : forall pc ic,
    length (filter is_invoke (flat_map fprov (funcs_from pc ic ts))) <= length (funcs_from pc ic ts).
  Proof.
    induction ts as [|t ts IH]; intros pc ic; [cbn; lia|].
    cbn [funcs_from]. destruct (tpred t) as [pins|]; cbn [flat_map fprov length];
      rewrite ?filter_app, ?app_length, ?filter_invoke_user; destruct (tinvoke t); cbn [filter is_invoke app length];
      match goal with |- context [funcs_from ?a ?b ts] => specialize (IH a b) end; lia.
  Qed.

  Lemma roots_in_U r : In r (roots f) -> In r U.
  Proof.
    unfold roots, all_types. intros H. apply in_app_or in H. destruct H as [H|H].
    - apply in_or_app. right. apply in_or_app. now left.
    - unfold sinks in H. apply filter_In in H. destruct H as [H _]. apply in_flat_map in H.
      destruct H as (x & Hx & Hr). apply in_or_app. right. apply in_or_app. right.
      apply in_flat_map. exists x. split; [exact Hx | apply in_or_app; now right].
  Qed.

  Lemma phi_init : phi (roots f) [] < walk_fuel f.
  Proof.
    unfold phi, walk_fuel, roots. rewrite app_length, map_length.
    pose proof (sinks_length (ftasks f) 0 0) as Hs. fold (funcs f) in Hs. fold (sinks f) in Hs.
    pose proof (sumcost_le (dedup U) []) as Hc. pose proof (dedup_length U) as Hd.
    assert (length (dedup U) * length FD <= S (length U) * S (length FD)) by nia.
    unfold sinks in *.
    assert (Hs' : length (filter (fun t : ty => match t with TInvoke _ => true | _ => false end) (flat_map fprov (funcs f))) <= length (funcs f)) by exact Hs.
    lia.
  Qed.

  Theorem walk_terminates : exists v, WInv f [] v (snd (walk_result f)) (fst (walk_result f)).
  Proof.
    destruct (walk_result f) as [m' i'] eqn:Ew. unfold walk_result in Ew.
    fold (roots f) in Ew. fold (params0 f) in Ew. cbn [fst snd].
    apply (walk_runs (walk_fuel f) (roots f) [] (params0 f) [] m' i' (winv_init f)); [|apply phi_init | exact Ew].
    intros r Hr. now apply roots_in_U.
  Qed.
End Fuel.

(* ---------- completeness: every well-formed flow is accepted ---------- *)
Lemma NoDup_app_l {A} (l1 l2 : list A) : NoDup (l1 ++ l2) -> NoDup l1.
Proof.
  induction l1 as [|a l1 IH]; cbn; intros H; [constructor|]. inversion H as [|? ? Ha Hl]; subst.
  constructor; [|now apply IH]. intros Hin. apply Ha. apply in_or_app. now left.
Qed.
Lemma NoDup_app_r' {A} (l1 l2 : list A) : NoDup (l1 ++ l2) -> NoDup l2.
Proof. induction l1 as [|a l1 IH]; cbn; intros H; [exact H|]. inversion H; subst. now apply IH. Qed.
Lemma NoDup_app_disjoint {A} (l1 l2 : list A) x : NoDup (l1 ++ l2) -> In x l1 -> In x l2 -> False.
Proof.
  induction l1 as [|a l1 IH]; cbn; intros Hn H1 H2; [contradiction|]. inversion Hn as [|? ? Ha Hl]; subst.
  destruct H1 as [->|H1]; [apply Ha; apply in_or_app; now right | now apply (IH Hl H1 H2)].
Qed.

Theorem wellformed_accepts f : WellFormed f -> accepts f = true.
Proof.
  intros [Huniq Hprov Hacyc Hused Hinv].
  pose proof (NoDup_app_l _ _ Huniq) as Hparams. pose proof (NoDup_app_r' _ _ Huniq) as Hnd.
  assert (Hused_o : forall o, In o (flat_map fouts (funcs f)) -> In o (consumed f)).
  { intros o Ho. apply Hused. unfold provided. apply in_or_app. now right. }
  assert (Hout_prov : forall o, In o (flat_map fouts (funcs f)) -> provider f o <> None).
  { intros o Ho. apply in_flat_map in Ho. destruct Ho as (x & Hx & Hox).
    destruct (In_nth _ _ fn0 Hx) as (g & Hg & Eg).
    rewrite (proj2 (provider_iff f Hnd o g)); [discriminate|]. split; [exact Hg|]. rewrite Eg.
    apply (fouts_in_fprov (ftasks f) 0 0 x Hx). exact Hox. }
  assert (Hprov_src : forall t, In t (consumed f) -> provider f t <> None \/ In t (params0 f)).
  { intros t Ht. specialize (Hprov t Ht). unfold provided in Hprov. apply in_app_or in Hprov.
    destruct Hprov as [H|H]; [right; unfold params0; apply (proj2 (dedup_in _ _)); exact H | left; now apply Hout_prov]. }
  destruct (walk_terminates f) as [v W].
  assert (E6 : chk_no_provider f = false).
  { unfold chk_no_provider. destruct (fst (walk_result f)) as [|m ms] eqn:Em; [reflexivity|]. exfalso.
    destruct (w_missing f _ _ _ _ W m (or_introl eq_refl)) as (Hv & Hn & Hp).
    destruct (w_seen f _ _ _ _ W m (or_introl Hv)) as [Hr|(x & Hx & Hd)].
    - unfold roots in Hr. apply in_app_or in Hr. destruct Hr as [Hr|Hr].
      + destruct (Hprov_src m) as [H|H]; [unfold consumed; apply in_or_app; now left | now apply H | contradiction].
      + unfold sinks in Hr. apply filter_In in Hr. destruct Hr as [Hr _]. apply in_flat_map in Hr.
        destruct Hr as (x & Hx & Hmx). destruct (In_nth _ _ fn0 Hx) as (g & Hg & Eg).
        unfold noprov in Hn. rewrite (proj2 (provider_iff f Hnd m g)) in Hn; [discriminate|].
        split; [exact Hg | now rewrite Eg].
    - destruct (Hprov_src m) as [H|H]; [unfold consumed; apply in_or_app; right; apply in_flat_map; eauto | now apply H | contradiction]. }
  assert (E7 : chk_unused_input f = false).
  { unfold chk_unused_input. destruct (snd (walk_result f)) as [|p ps] eqn:Ei; [reflexivity|]. exfalso.
    destruct (proj1 (w_inputs f _ _ _ _ W p) (or_introl eq_refl)) as [Hp Hnot].
    assert (Hpp : In p (map TUser (fparams f))) by (unfold params0 in Hp; exact (proj1 (dedup_in _ _) Hp)).
    apply Hnot. split.
    - apply (consumed_visited f Hnd Hused_o Hinv Hacyc v _ _ W). apply Hused. unfold provided. apply in_or_app. now left.
    - unfold noprov. destruct (provider f p) as [g|] eqn:Ep; [|reflexivity]. exfalso.
      destruct (proj1 (provider_iff f Hnd p g) Ep) as [Hg Hin].
      apply (NoDup_app_disjoint _ _ p Huniq Hpp).
      unfold funcs. rewrite <- notinvoke_from. apply filter_In. split.
      + apply in_flat_map. exists (nth g (funcs f) fn0). split; [apply nth_In; exact Hg | exact Hin].
      + apply in_map_iff in Hpp. destruct Hpp as [u [<- _]]. reflexivity. }
  unfold accepts, validate.
  rewrite (proj2 (chk_dup_param_spec f) Hparams).
  destruct (proj2 (chk_invoke_spec f) Hinv) as [-> ->].
  rewrite (proj2 (chk_dup_provider_spec f) Hnd), (proj2 (chk_unused_output_spec f) Hused_o), E6, E7,
          (proj2 (chk_cycle_spec f) Hacyc). reflexivity.
Qed.

Theorem accepts_iff_wellformed f : accepts f = true <-> WellFormed f.
Proof. split; [apply accepts_wellformed | apply wellformed_accepts]. Qed.
