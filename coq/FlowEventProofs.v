(* The emitter protocol of a generated Flow (C18), over the operational model. *)
From CffVerif Require Import FlowOpModel FlowOpProofs.

Section Events.
  Variable f : fflow.
  Variable sc : scenario.

  Definition expected_outcome (k : nat) : tev :=
    match sc_task sc k with
    | OOK => EvSuccess
    | OERR => if kfallback (taskof f k) then EvErrorRecovered (FErr k) else EvError (FErr k)
    | OPANIC => if kfallback (taskof f k) then EvPanicRecovered (FPanic k) else EvPanic (FPanic k)
    end.

  (* an invocation of the task function: exactly one outcome event, matching what the
     function did, then exactly one TaskDone *)
  Lemma job_events_invoked st k :
    je_calls (job_sem f sc st (FT k)) <> [] ->
    je_events (job_sem f sc st (FT k)) = [expected_outcome k; EvDone].
  Proof.
    unfold job_sem, expected_outcome.
    repeat match goal with |- context [if ?c then _ else _] => destruct c end;
      try destruct (sc_task sc k); repeat match goal with |- context [if ?c then _ else _] => destruct c end;
      cbn [je_calls je_events]; intros H; try (now elim H); reflexivity.
  Qed.

  Definition is_invocation_event (t : tev) : bool :=
    match t with EvSuccess | EvError _ | EvErrorRecovered _ | EvDone => true | _ => false end.

  (* no invocation: no TaskDone, no Success/Error; at most the report of a predicate panic *)
  Lemma job_events_not_invoked st k :
    je_calls (job_sem f sc st (FT k)) = [] ->
    je_events (job_sem f sc st (FT k)) = [] \/
    je_events (job_sem f sc st (FT k)) = [EvPanicRecovered (FPredPanic k)] \/
    je_events (job_sem f sc st (FT k)) = [EvPanic (FPredPanic k)].
  Proof.
    unfold job_sem.
    repeat match goal with |- context [if ?c then _ else _] => destruct c end;
      try destruct (sc_task sc k); repeat match goal with |- context [if ?c then _ else _] => destruct c end;
      cbn [je_calls je_events]; intros H; try discriminate; auto.
  Qed.

  Lemma pred_job_no_events st k : je_events (job_sem f sc st (FP k)) = [].
  Proof. unfold job_sem. destruct (kpred (taskof f k)); reflexivity. Qed.

  (* ---- the directive's own events *)
  Definition is_flow_outcome (v : fev) : bool := match v with FvSuccess | FvError _ => true | _ => false end.
  Definition is_done (v : fev) : bool := match v with FvDone => true | _ => false end.
  Definition is_skipped (k : nat) (v : fev) : bool := match v with FvSkipped k' => Nat.eqb k' k | _ => false end.

  Lemma filter_none {A} (p : A -> bool) l : (forall x, In x l -> p x = false) -> filter p l = [].
  Proof.
    induction l as [|a l IH]; cbn; intros H; [reflexivity|].
    rewrite (H a (or_introl eq_refl)). apply IH. intros x Hx. apply H. now right.
  Qed.

  Lemma task_part_props (e : exec) :
    forall v, In v (flat_map (fun p => match fst p with FT k => map (FvTask k) (je_events (snd p)) | FP _ => [] end) (xlog e)) ->
      exists k t, v = FvTask k t.
  Proof.
    intros v H. apply in_flat_map in H. destruct H as [[x ef] [_ H]]. cbn in H.
    destruct x as [k|k]; [|contradiction]. apply in_map_iff in H. destruct H as [t [<- _]]. eauto.
  Qed.

  (* exactly one of Success / Error, and it carries the error the directive returns *)
  Theorem flow_outcome_once e ret :
    filter is_flow_outcome (flow_events f e ret) = [match ret with None => FvSuccess | Some er => FvError er end].
  Proof.
    unfold flow_events. rewrite !filter_app.
    rewrite (filter_none is_flow_outcome (flat_map _ _)).
    2:{ intros v Hv. apply task_part_props in Hv. destruct Hv as [k [t ->]]. reflexivity. }
    rewrite (filter_none is_flow_outcome (map FvSkipped _)).
    2:{ intros v Hv. apply in_map_iff in Hv. destruct Hv as [k [<- _]]. reflexivity. }
    cbn. destruct ret; reflexivity.
  Qed.

  (* FlowDone exactly once, after everything else *)
  Theorem flow_done_last e ret :
    exists l, flow_events f e ret = l ++ [FvDone] /\ filter is_done l = [].
  Proof.
    unfold flow_events. eexists. rewrite !app_assoc. split; [reflexivity|].
    rewrite !filter_app.
    rewrite (filter_none is_done (flat_map _ _)).
    2:{ intros v Hv. apply task_part_props in Hv. destruct Hv as [k [t ->]]. reflexivity. }
    rewrite (filter_none is_done (map FvSkipped _)).
    2:{ intros v Hv. apply in_map_iff in Hv. destruct Hv as [k [<- _]]. reflexivity. }
    cbn. destruct ret; reflexivity.
  Qed.

  Lemma filter_skipped_map k l : NoDup l ->
    filter (is_skipped k) (map FvSkipped l) = if existsb (Nat.eqb k) l then [FvSkipped k] else [].
  Proof.
    induction l as [|a l IH]; cbn; intros Hn; [reflexivity|].
    inversion Hn as [|? ? Ha Hl]; subst. rewrite (IH Hl).
    destruct (Nat.eqb_spec a k) as [->|Hne].
    - rewrite Nat.eqb_refl. cbn.
      assert (He : existsb (Nat.eqb k) l = false).
      { apply not_true_is_false. intros H. apply existsb_exists in H. destruct H as [x [Hx Hk]].
        apply Nat.eqb_eq in Hk. subst. contradiction. }
      now rewrite He.
    - destruct (Nat.eqb_spec k a) as [->|_]; [now elim Hne|]. reflexivity.
  Qed.

  (* every task whose function was not invoked is reported skipped exactly once; an
     invoked one never is *)
  Theorem skipped_once e ret k : k < length (gtasks f) ->
    filter (is_skipped k) (flow_events f e ret) = if invoked e k then [] else [FvSkipped k].
  Proof.
    intros Hk. unfold flow_events. rewrite !filter_app.
    rewrite (filter_none (is_skipped k) (flat_map _ _)).
    2:{ intros v Hv. apply task_part_props in Hv. destruct Hv as [k' [t ->]]. reflexivity. }
    cbn [app]. replace (filter (is_skipped k) [match ret with None => FvSuccess | Some er => FvError er end]) with (@nil fev)
      by (destruct ret; reflexivity).
    replace (filter (is_skipped k) [FvDone]) with (@nil fev) by reflexivity.
    rewrite app_nil_r. cbn [app].
    rewrite filter_skipped_map.
    2:{ apply NoDup_filter. apply seq_NoDup. }
    destruct (invoked e k) eqn:Ei.
    - assert (He : existsb (Nat.eqb k) (filter (fun k0 => negb (invoked e k0)) (seq 0 (length (gtasks f)))) = false).
      { apply not_true_is_false. intros H. apply existsb_exists in H. destruct H as [x [Hx Hxk]].
        apply Nat.eqb_eq in Hxk. subst x. apply filter_In in Hx. destruct Hx as [_ Hx]. rewrite Ei in Hx. discriminate. }
      now rewrite He.
    - assert (He : existsb (Nat.eqb k) (filter (fun k0 => negb (invoked e k0)) (seq 0 (length (gtasks f)))) = true).
      { apply existsb_exists. exists k. split; [|apply Nat.eqb_refl]. apply filter_In. split; [apply in_seq; lia|]. now rewrite Ei. }
      now rewrite He.
  Qed.

  (* in every execution the scheduler can produce, the events of a task's job are those of
     its one run (each job runs once: C02_once) *)
  Theorem task_events_of_run e k ef : unique_providers f -> reach f sc e -> In (FT k, ef) (xlog e) ->
    (je_calls ef <> [] -> je_events ef = [expected_outcome k; EvDone]) /\
    (je_calls ef = [] -> je_events ef = [] \/ je_events ef = [EvPanicRecovered (FPredPanic k)] \/
                         je_events ef = [EvPanic (FPredPanic k)]).
  Proof.
    intros Hu R Hin. pose proof (g_stable f sc e (reach_good f sc Hu e R) _ _ Hin) as <-.
    split; [apply job_events_invoked | apply job_events_not_invoked].
  Qed.
End Events.
