(* The flow semantics (FlowSemModel, the specification C04/C07/C11 are stated on) is sound
   for the generated program (FlowOpModel): whenever it assigns an outcome to a task - at
   whatever fuel - every execution the scheduler can produce in which the task's job runs
   gives that outcome: same result, same values assigned, same calls with the same
   arguments. Together with C02_schedule_independent this makes the semantics the meaning
   of the generated code on all schedules. (The converse - enough fuel for every job that
   runs - is checked per case by the harness, not proved.) *)
From CffVerif Require Import FlowOpModel FlowOpProofs FlowSemProofs.

Lemma gprov_idx_from ts : forall k0 t k i, prov_from k0 ts t = Some (k, i) ->
  find_idx t (kouts (nth (k - k0) ts ktask0)) 0 = Some i /\ k0 <= k.
Proof.
  induction ts as [|x r IH]; cbn [prov_from]; intros k0 t k i H; [discriminate|].
  destruct (prov_from (S k0) r t) as [p|] eqn:E.
  - injection H as ->. apply IH in E. destruct E as [E Hle]. split; [|lia].
    replace (k - k0) with (S (k - S k0)) by lia. exact E.
  - destruct (find_idx t (kouts x) 0) eqn:F; [|discriminate]. injection H as <- <-.
    replace (k0 - k0) with 0 by lia. split; [exact F | lia].
Qed.

Lemma gprov_idx f t k i : gprov f t = Some (k, i) -> find_idx t (kouts (taskof f k)) 0 = Some i.
Proof.
  unfold gprov, taskof. intros H. apply gprov_idx_from in H. destruct H as [H _].
  now replace (k - 0) with k in H by lia.
Qed.

Lemma assoc_find_idx t l : forall i0 i vs v, find_idx t l i0 = Some i -> nth_error vs (i - i0) = Some v ->
  i0 <= i /\ assoc t (combine l vs) = Some v.
Proof.
  induction l as [|x l IH]; intros i0 i vs v H Hn; cbn in H; [discriminate|].
  destruct (Nat.eqb x t) eqn:E.
  - injection H as <-. replace (i0 - i0) with 0 in Hn by lia. destruct vs as [|w vs]; [discriminate|].
    cbn in Hn. injection Hn as ->. cbn. rewrite E. split; [lia | reflexivity].
  - assert (Hle : S i0 <= i).
    { clear -H. revert i0 H. induction l as [|y l IHl]; intros i0 H; cbn in H; [discriminate|].
      destruct (Nat.eqb y t); [injection H as <-; lia|]. apply IHl in H. lia. }
    destruct vs as [|w vs]; [destruct (i - i0); discriminate|].
    replace (i - i0) with (S (i - S i0)) in Hn by lia. cbn in Hn.
    destruct (IH (S i0) i vs v H Hn) as [_ Ha]. cbn. rewrite E. split; [lia | exact Ha].
Qed.

Lemma all_some_map {A} (g h : nat -> option A) l args :
  all_some (map g l) = Some args ->
  (forall t a, In t l -> g t = Some a -> h t = Some a) -> map h l = map Some args.
Proof.
  revert args. induction l as [|t l IH]; intros args H Hh; cbn in H.
  - injection H as <-. reflexivity.
  - destruct (g t) as [a|] eqn:Eg; [|discriminate].
    destruct (all_some (map g l)) as [r|] eqn:Er; [|discriminate]. injection H as <-.
    cbn. rewrite (Hh t a (or_introl eq_refl) Eg). f_equal. apply IH; [reflexivity|].
    intros t' a' Hin. apply Hh. now right.
Qed.

Lemma known_map_some l : known (map Some l) = l.
Proof. unfold known. induction l as [|a l IH]; cbn; [reflexivity | f_equal; exact IH]. Qed.

Section Adequacy.
  Variable f : fflow.
  Variable sc : scenario.
  Hypothesis Huniq : unique_providers f.

  Notation reach := (reach f sc).
  Notation Good := (Good f sc).

  (* the three statements, for one fuel level *)
  Definition val_sound (n : nat) : Prop :=
    forall t v, tval f sc n t = Some v ->
      forall e, reach e -> (forall k i, gprov f t = Some (k, i) -> In (FT k) (xok e)) ->
        slot (xstore e) t = Some v.

  Definition call_of (k : nat) (tc : option (list term)) : list call :=
    match tc with Some a => [(false, k, map Some a)] | None => [] end.

  Definition res_sound (n : nat) : Prop :=
    forall k e ef, reach e -> In (FT k, ef) (xlog e) ->
      match tresult f sc n k with
      | RBlocked _ => True
      | ROuts outs _ tc => je_res ef = JOk /\ je_outs ef = Some outs /\ je_calls ef = call_of k tc
      | RFail er _ tc => je_res ef = JFail er /\ je_calls ef = call_of k tc
      end.

  Definition pred_sound (n : nat) : Prop :=
    forall k pargs e efp, pcall_of (tresult f sc n k) = Some pargs ->
      reach e -> In (FP k, efp) (xlog e) -> je_calls efp = [(true, k, map Some pargs)].

  Lemma val_step_sound n : res_sound n -> val_sound (S n).
  Proof.
    intros IH t v Hv e R Hprov. pose proof (reach_good f sc Huniq e R) as G.
    rewrite tval_S in Hv. unfold val_step in Hv.
    destruct (gprov f t) as [[k i]|] eqn:Hg.
    - destruct (tresult f sc n k) as [| |outs pc tc] eqn:Er; try discriminate.
      destruct (ok_entry f sc e k G (Hprov k i eq_refl)) as (ef & vs & Hin & Hr & Ho).
      specialize (IH k e ef R Hin). rewrite Er in IH. destruct IH as (_ & Ho' & _).
      rewrite Ho in Ho'. injection Ho' as ->.
      destruct (gprov_sound f t k i Hg) as [_ Hint].
      rewrite (g_outs f sc e G k ef outs Hin Ho t Hint). unfold write_outs.
      destruct (assoc_find_idx t (kouts (taskof f k)) 0 i outs v (gprov_idx f t k i Hg)) as [_ ->]; [|reflexivity].
      now replace (i - 0) with i by lia.
    - rewrite (g_unowned f sc e G t Hg). cbn [store0 slot].
      destruct (existsb (Nat.eqb t) (gparams f)); [exact Hv | discriminate].
  Qed.

  (* the values a job reads are those the semantics computes, when it computes them *)
  Lemma reads_sound n e x tys args : val_sound n -> reach e -> In x (ran e) ->
    (forall t k i, In t tys -> gprov f t = Some (k, i) -> In (FT k) (jdeps f x)) ->
    all_some (map (tval f sc n) tys) = Some args -> map (slot (xstore e)) tys = map Some args.
  Proof.
    intros IHv R Hx Hdeps Ha. pose proof (reach_good f sc Huniq e R) as G.
    apply (all_some_map _ _ _ _ Ha). intros t a Hin Ht. apply (IHv t a Ht e R).
    intros k i Hg. apply (g_deps f sc e G x Hx). eapply Hdeps; eauto.
  Qed.

  Lemma pred_flags e k pins : reach e -> In (FT k) (ran e) -> kpred (taskof f k) = Some pins ->
    pflag (xstore e) k = match sc_pred sc k with PTRUE => true | _ => false end /\
    ppanic (xstore e) k = match sc_pred sc k with PPANIC => true | _ => false end.
  Proof.
    intros R Hx Hp. pose proof (reach_good f sc Huniq e R) as G.
    assert (Hd : In (FP k) (jdeps f (FT k))).
    { cbn [jdeps]. rewrite Hp. apply in_or_app. right. now left. }
    pose proof (g_deps f sc e G (FT k) Hx _ Hd) as Hok. apply (g_ok f sc e G) in Hok.
    destruct Hok as [efp [Hin _]]. destruct (g_flags f sc e G k efp Hin) as [-> ->].
    rewrite <- (g_stable f sc e G _ _ Hin). unfold job_sem. rewrite Hp. split; reflexivity.
  Qed.

  Lemma task_step_sound n : val_sound n -> res_sound (S n).
  Proof.
    intros IHv k e ef R Hin. pose proof (reach_good f sc Huniq e R) as G.
    pose proof (in_ran e _ _ Hin) as Hran.
    rewrite tresult_S. unfold task_step. fold (taskof f k).
    rewrite <- (g_stable f sc e G _ _ Hin). unfold job_sem.
    assert (Hins : forall args, all_some (map (tval f sc n) (kins (taskof f k))) = Some args ->
                     map (slot (xstore e)) (kins (taskof f k)) = map Some args).
    { intros args Ha. apply (reads_sound n e (FT k) _ args IHv R Hran); [|exact Ha].
      intros t k' i Ht Hg. cbn [jdeps]. apply in_or_app. left. eapply in_prov_jobs; eauto. }
    destruct (kpred (taskof f k)) as [pins|] eqn:Hp.
    - destruct (all_some (map (tval f sc n) pins)) as [pargs|]; [|exact I].
      destruct (all_some (map (tval f sc n) (kins (taskof f k)))) as [args|] eqn:Ea; [|exact I].
      destruct (pred_flags e k pins R Hran Hp) as [-> ->]. rewrite (Hins args eq_refl), known_map_some.
      destruct (sc_pred sc k); cbn [andb negb].
      + destruct (sc_task sc k); try destruct (kfallback (taskof f k)); cbn; repeat split; reflexivity.
      + cbn. repeat split; reflexivity.
      + destruct (kfallback (taskof f k)); cbn; repeat split; reflexivity.
    - cbn [andb].
      destruct (all_some (map (tval f sc n) (kins (taskof f k)))) as [args|] eqn:Ea; [|exact I].
      rewrite (Hins args eq_refl), known_map_some.
      destruct (sc_task sc k); try destruct (kfallback (taskof f k)); cbn; repeat split; reflexivity.
  Qed.

  Lemma pred_step_sound n : val_sound n -> pred_sound (S n).
  Proof.
    intros IHv k pargs e efp Hpc R Hin. pose proof (reach_good f sc Huniq e R) as G.
    rewrite tresult_S in Hpc. unfold task_step in Hpc. fold (taskof f k) in Hpc.
    rewrite <- (g_stable f sc e G _ _ Hin). unfold job_sem.
    destruct (kpred (taskof f k)) as [pins|] eqn:Hp.
    - destruct (all_some (map (tval f sc n) pins)) as [pa|] eqn:Ea; [|discriminate].
      assert (Epa : pa = pargs).
      { destruct (all_some (map (tval f sc n) (kins (taskof f k)))); [|cbn in Hpc; congruence].
        destruct (sc_pred sc k); [destruct (sc_task sc k)| |]; try destruct (kfallback (taskof f k)); cbn in Hpc; congruence. }
      subst pa.
      rewrite (reads_sound n e (FP k) pins pargs IHv R (in_ran e _ _ Hin)); [reflexivity| |exact Ea].
      intros t k' i Ht Hg. cbn [jdeps]. rewrite Hp. eapply in_prov_jobs; eauto.
    - destruct (all_some (map (tval f sc n) (kins (taskof f k)))); [|discriminate].
      destruct (sc_task sc k); try destruct (kfallback (taskof f k)); discriminate.
  Qed.

  Theorem sem_sound n : val_sound n /\ res_sound n /\ pred_sound n.
  Proof.
    induction n as [|n (IHv & IHr & IHp)].
    - split; [intros t v H; discriminate|]. split; [intros k e ef H1 H2; exact I|].
      intros k pargs e efp H. discriminate.
    - pose proof (val_step_sound n IHr) as Hv. split; [exact Hv|].
      split; [apply task_step_sound; exact IHv | apply pred_step_sound; exact IHv].
  Qed.

  (* when the semantics yields the Results values, every execution in which all jobs
     returned nil leaves exactly those values in the Results targets *)
  Theorem results_sound e vs : reach e -> complete f e = true ->
    result_values f sc = Some vs -> map (slot (xstore e)) (gresults f) = map Some vs.
  Proof.
    intros R C H. unfold result_values in H. destruct (sem_sound (fuel_of f)) as [Hv _].
    apply (all_some_map _ _ _ _ H). intros t a _ Ht. apply (Hv t a Ht e R).
    intros k i Hg. destruct (gprov_sound f t k i Hg) as [Hk _].
    unfold complete in C. rewrite forallb_forall in C. apply existsb_fid, C, in_all_jobs_FT. exact Hk.
  Qed.

  (* a failure the semantics predicts is the failure of that job in every execution where it runs *)
  Theorem failure_sound e k ef er pc tc : reach e -> In (FT k, ef) (xlog e) ->
    tresult f sc (fuel_of f) k = RFail er pc tc -> je_res ef = JFail er.
  Proof.
    intros R Hin H. destruct (sem_sound (fuel_of f)) as (_ & Hr & _).
    specialize (Hr k e ef R Hin). rewrite H in Hr. exact (proj1 Hr).
  Qed.
End Adequacy.
