(* Layer 2, emitters, second level: the Init methods of cff.EmitterStack and the child
   stacks they return (emitter_stack.go: emitterStack.TaskInit / FlowInit / ParallelInit /
   SchedulerInit build a taskEmitterStack / flowEmitterStack / parallelEmitterStack /
   schedulerEmitterStack holding, in order, the child returned by the same Init method of
   every element; each method of a child stack calls that method of every child in turn).
   A session is what generated code does with the combined emitter: Init calls, each
   creating the next child handle, and method calls on child handles created before.
   What a user emitter sees is the same kind of thing: Init calls on itself (each creating
   its own next child) and method calls on its own children. Definitions only. *)
From CffVerif Require Export EmitterModel.

Inductive sop (E : Type) := SInit (info : E) | SEv (h : nat) (e : E).
Arguments SInit {E}. Arguments SEv {E}.

Definition upd (c : nat -> nat) (i v : nat) : nat -> nat := fun j => if Nat.eqb j i then v else c j.

(* one Init call on the stack whose elements are the user emitters ls (in order): every
   element's Init is called once; the child stack holds (emitter, that emitter's child) *)
Fixpoint init_all (ls : list nat) (cnt : nat -> nat) : (nat -> nat) * list (nat * nat) :=
  match ls with
  | [] => (cnt, [])
  | i :: r => let '(cnt', k) := init_all r (upd cnt i (S (cnt i))) in (cnt', (i, cnt i) :: k)
  end.

Record sstate := { s_cnt : nat -> nat;                 (* Init calls each user emitter has seen *)
                   s_kids : list (list (nat * nat)) }. (* the child stacks, by handle *)
Definition sstate0 := {| s_cnt := fun _ => 0; s_kids := [] |}.

Definition sstep {E} (ls : list nat) (st : sstate) (o : sop E) : sstate * list (nat * sop E) :=
  match o with
  | SInit info =>
      let '(cnt', k) := init_all ls (s_cnt st) in
      ({| s_cnt := cnt'; s_kids := s_kids st ++ [k] |}, map (fun i => (i, SInit info)) ls)
  | SEv h e => (st, map (fun p => (fst p, SEv (snd p) e)) (nth h (s_kids st) []))
  end.

(* the calls received by user emitters, in global order: (emitter, call on it) *)
Fixpoint srun {E} (ls : list nat) (st : sstate) (ops : list (sop E)) : list (nat * sop E) :=
  match ops with
  | [] => []
  | o :: r => let '(st', out) := sstep ls st o in out ++ srun ls st' r
  end.

Definition session {E} (v : emv) (ops : list (sop E)) := srun (deliver v) sstate0 ops.

(* what one user emitter sees *)
Definition sees {E} (i : nat) (log : list (nat * sop E)) : list (sop E) :=
  map snd (filter (fun p => Nat.eqb i (fst p)) log).

(* a session generated code can perform: a child is used only after its creation *)
Fixpoint swf {E} (n : nat) (ops : list (sop E)) : bool :=
  match ops with
  | [] => true
  | SInit _ :: r => swf (S n) r
  | SEv h _ :: r => Nat.ltb h n && swf n r
  end.
