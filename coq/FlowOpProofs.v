(* The dataflow theorem: whatever order the scheduler runs the generated jobs in - as long
   as it respects the Dependencies lists, which Layer 0 proves - every job reads exactly
   what its providers wrote, and what a job does does not depend on the order. *)
From CffVerif Require Import FlowOpModel.

Lemma fid_eqb_spec a b : fid_eqb a b = true <-> a = b.
Proof.
  destruct a as [x|x], b as [y|y]; cbn; try (split; [discriminate | intros H; discriminate H]);
    rewrite Nat.eqb_eq; split; intros H; [now subst | now injection H | now subst | now injection H].
Qed.

Lemma existsb_fid x l : existsb (fid_eqb x) l = true <-> In x l.
Proof.
  rewrite existsb_exists. split.
  - intros [y [Hin He]]. apply fid_eqb_spec in He. now subst.
  - intros H. exists x. split; [assumption | now apply fid_eqb_spec].
Qed.

(* ---- the provider function is sound *)
Lemma find_idx_in t l i0 i : find_idx t l i0 = Some i -> In t l.
Proof.
  revert i0. induction l as [|x l IH]; cbn; intros i0 H; [discriminate|].
  destruct (Nat.eqb x t) eqn:E.
  - apply Nat.eqb_eq in E. now left.
  - right. eapply IH; eauto.
Qed.

Lemma prov_from_sound ts : forall k0 t k i, prov_from k0 ts t = Some (k, i) ->
  k0 <= k < k0 + length ts /\ In t (kouts (nth (k - k0) ts ktask0)).
Proof.
  induction ts as [|x r IH]; cbn [prov_from]; intros k0 t k i H; [discriminate|].
  destruct (prov_from (S k0) r t) as [p|] eqn:E.
  - injection H as ->. apply IH in E. destruct E as [Hr Hin]. cbn [length]. split; [lia|].
    replace (k - k0) with (S (k - S k0)) by lia. exact Hin.
  - destruct (find_idx t (kouts x) 0) eqn:F; [|discriminate]. injection H as <- <-.
    cbn [length]. split; [lia|]. replace (k0 - k0) with 0 by lia. cbn. eapply find_idx_in; eauto.
Qed.

Lemma gprov_sound f t k i : gprov f t = Some (k, i) ->
  k < length (gtasks f) /\ In t (kouts (taskof f k)).
Proof.
  unfold gprov, taskof. intros H. apply prov_from_sound in H. destruct H as [Hr Hin].
  replace (k - 0) with k in Hin by lia. split; [lia | assumption].
Qed.

(* ---- assignments to the output variables *)
Lemma assoc_notin t l : ~ In t (map fst l) -> assoc t l = None.
Proof.
  induction l as [|[a v] l IH]; cbn; intros H; [reflexivity|].
  destruct (Nat.eqb a t) eqn:E.
  - apply Nat.eqb_eq in E. elim H. now left.
  - apply IH. intros Hin. apply H. now right.
Qed.

Lemma write_outs_notin sl tys vs t : ~ In t tys -> write_outs sl tys vs t = sl t.
Proof.
  intros H. unfold write_outs. rewrite assoc_notin; [reflexivity|].
  intros Hin. apply H. apply in_map_iff in Hin. destruct Hin as [[a v] [<- Hc]].
  apply in_combine_l in Hc. exact Hc.
Qed.

Lemma assoc_in t tys : forall vs, In t tys -> length vs = length tys ->
  exists v, assoc t (combine tys vs) = Some v.
Proof.
  induction tys as [|a tys IH]; intros vs Hin Hl; [contradiction|].
  destruct vs as [|v vs]; [discriminate|]. cbn.
  destruct (Nat.eqb a t) eqn:E; [eauto|].
  apply IH; [|cbn in Hl; lia]. destruct Hin as [->|Hin]; [|assumption].
  rewrite Nat.eqb_refl in E. discriminate.
Qed.

Lemma write_outs_in sl sl' tys vs t : In t tys -> length vs = length tys ->
  write_outs sl tys vs t = write_outs sl' tys vs t /\ write_outs sl tys vs t <> None.
Proof.
  intros Hin Hl. unfold write_outs. destruct (assoc_in t tys vs Hin Hl) as [v ->].
  split; [reflexivity | discriminate].
Qed.

Lemma in_prov_jobs f tys t k i : In t tys -> gprov f t = Some (k, i) -> In (FT k) (prov_jobs f tys).
Proof.
  intros Hin Hg. unfold prov_jobs. apply in_flat_map. exists t. split; [assumption|].
  rewrite Hg. now left.
Qed.

Lemma in_all_jobs_FT f k : In (FT k) (all_jobs f) <-> k < length (gtasks f).
Proof.
  unfold all_jobs. rewrite in_flat_map. split.
  - intros [k' [Hk Hin]]. apply in_seq in Hk.
    destruct (kpred (taskof f k')); cbn in Hin.
    + destruct Hin as [H|[H|[]]]; [discriminate|]. injection H as <-. lia.
    + destruct Hin as [H|[]]. injection H as <-. lia.
  - intros Hk. exists k. split; [apply in_seq; lia|].
    destruct (kpred (taskof f k)); cbn; auto.
Qed.

Lemma in_all_jobs_FP f k : In (FP k) (all_jobs f) -> k < length (gtasks f) /\ kpred (taskof f k) <> None.
Proof.
  unfold all_jobs. rewrite in_flat_map. intros [k' [Hk Hin]]. apply in_seq in Hk.
  destruct (kpred (taskof f k')) eqn:E; cbn in Hin.
  - destruct Hin as [H|[H|[]]]; [|discriminate]. injection H as <-. split; [lia|]. rewrite E. discriminate.
  - destruct Hin as [H|[]]. discriminate.
Qed.

(* every output has its task as provider: what compileFlow's "provided multiple times"
   check guarantees; decidable, and re-checked on every generated flow by the harness *)
Definition unique_providers (f : fflow) : Prop :=
  forall k t, k < length (gtasks f) -> In t (kouts (taskof f k)) -> exists i, gprov f t = Some (k, i).

Definition unique_providers_b (f : fflow) : bool :=
  forallb (fun k => forallb (fun t => match gprov f t with Some (k', _) => Nat.eqb k' k | None => false end)
                            (kouts (taskof f k))) (seq 0 (length (gtasks f))).

Lemma unique_providers_b_spec f : unique_providers_b f = true -> unique_providers f.
Proof.
  unfold unique_providers_b, unique_providers. intros H k t Hk Hin.
  rewrite forallb_forall in H. specialize (H k). rewrite forallb_forall in H.
  assert (Hs : In k (seq 0 (length (gtasks f)))) by (apply in_seq; lia).
  specialize (H Hs t Hin). destruct (gprov f t) as [[k' i]|]; [|discriminate].
  apply Nat.eqb_eq in H. subst. eauto.
Qed.

Lemma NoDup_snoc {A} (l : list A) (x : A) : NoDup l -> ~ In x l -> NoDup (l ++ [x]).
Proof.
  induction l as [|a l IH]; cbn; intros Hn Hx.
  - constructor; [intros []|constructor].
  - inversion Hn as [|? ? Ha Hl]; subst. constructor.
    + intros H. apply in_app_or in H. destruct H as [H|[H|[]]]; [contradiction|]. subst. apply Hx. now left.
    + apply IH; [assumption|]. intros H. apply Hx. now right.
Qed.

Section Dataflow.
  Variable f : fflow.
  Variable sc : scenario.
  Hypothesis Huniq : unique_providers f.

  Notation job_sem := (job_sem f sc).
  Notation step := (step f sc).
  Notation may_run := (may_run f).
  (* exec has no parameters *)

  (* what a job reads *)
  Definition same_inputs (s1 s2 : store) (x : fid) : Prop :=
    match x with
    | FT k => (forall t, In t (kins (taskof f k)) -> slot s1 t = slot s2 t) /\
              (kpred (taskof f k) <> None -> pflag s1 k = pflag s2 k /\ ppanic s1 k = ppanic s2 k)
    | FP k => forall pins, kpred (taskof f k) = Some pins -> forall t, In t pins -> slot s1 t = slot s2 t
    end.

  Lemma job_sem_ext s1 s2 x : same_inputs s1 s2 x -> job_sem s1 x = job_sem s2 x.
  Proof.
    destruct x as [k|k]; cbn [same_inputs]; intros H; unfold FlowOpModel.job_sem.
    - destruct H as [Hs Hf].
      rewrite (map_ext_in _ _ _ Hs).
      destruct (kpred (taskof f k)) eqn:Ep.
      + destruct Hf as [-> ->]; [discriminate|]. reflexivity.
      + reflexivity.
    - destruct (kpred (taskof f k)) as [pins|] eqn:Ep; [|reflexivity].
      rewrite (map_ext_in _ _ _ (H pins eq_refl)). reflexivity.
  Qed.

  Lemma job_outs_len st k vs :
    je_outs (job_sem st (FT k)) = Some vs -> length vs = length (kouts (taskof f k)).
  Proof.
    unfold FlowOpModel.job_sem, fallback_vals, zero_vals.
    repeat match goal with |- context [if ?c then _ else _] => destruct c end;
      try destruct (sc_task sc k); repeat match goal with |- context [if ?c then _ else _] => destruct c end;
      cbn [je_outs]; intros H; try discriminate; injection H as <-;
      rewrite map_length, ?seq_length; reflexivity.
  Qed.

  Lemma job_ok_outs st k : je_res (job_sem st (FT k)) = JOk -> exists vs, je_outs (job_sem st (FT k)) = Some vs.
  Proof.
    unfold FlowOpModel.job_sem.
    repeat match goal with |- context [if ?c then _ else _] => destruct c end;
      try destruct (sc_task sc k); repeat match goal with |- context [if ?c then _ else _] => destruct c end;
      cbn [je_outs je_res]; intros H; try discriminate; eauto.
  Qed.

  Lemma job_FP_outs st k : je_outs (job_sem st (FP k)) = None /\ je_res (job_sem st (FP k)) = JOk.
  Proof. unfold FlowOpModel.job_sem. destruct (kpred (taskof f k)); split; reflexivity. Qed.

  (* ---- effects of a job on the variables *)
  Lemma eff_slot st x ef t :
    (forall k, x = FT k -> ~ In t (kouts (taskof f k))) -> slot (apply_eff f st x ef) t = slot st t.
  Proof.
    destruct x as [k|k]; cbn [apply_eff]; intros H; [|reflexivity].
    destruct (je_outs ef); [|reflexivity]. cbn. apply write_outs_notin. now apply H.
  Qed.

  Lemma eff_flags st x ef k :
    x <> FP k -> pflag (apply_eff f st x ef) k = pflag st k /\ ppanic (apply_eff f st x ef) k = ppanic st k.
  Proof.
    destruct x as [k'|k']; cbn [apply_eff]; intros H.
    - destruct (je_outs ef); split; reflexivity.
    - assert (Hne : Nat.eqb k k' = false) by (apply Nat.eqb_neq; intros ->; now apply H).
      cbn. unfold upd. destruct (je_flag ef), (je_panic ef); rewrite ?Hne; split; reflexivity.
  Qed.

  Definition ran_step e x : ran (step e x) = ran e ++ [x].
  Proof. unfold ran, FlowOpModel.step. cbn. rewrite map_app. reflexivity. Qed.

  (* ---- the invariant of every execution the scheduler can produce *)
  Inductive reach : exec -> Prop :=
  | reach0 : reach (exec0 f)
  | reach_step e x : reach e -> may_run e x = true -> reach (step e x).

  Record Good (e : exec) : Prop := {
    g_stable : forall x ef, In (x, ef) (xlog e) -> job_sem (xstore e) x = ef;
    g_outs : forall k ef vs, In (FT k, ef) (xlog e) -> je_outs ef = Some vs ->
             forall t, In t (kouts (taskof f k)) ->
               slot (xstore e) t = write_outs (fun _ => None) (kouts (taskof f k)) vs t;
    g_flags : forall k ef, In (FP k, ef) (xlog e) ->
              pflag (xstore e) k = je_flag ef /\ ppanic (xstore e) k = je_panic ef;
    g_noflag : forall k, ~ In (FP k) (ran e) -> pflag (xstore e) k = false /\ ppanic (xstore e) k = false;
    g_ok : forall x, In x (xok e) <-> exists ef, In (x, ef) (xlog e) /\ je_res ef = JOk;
    g_deps : forall x, In x (ran e) -> forall d, In d (jdeps f x) -> In d (xok e);
    g_nodup : NoDup (ran e);
    g_jobs : forall x, In x (ran e) -> In x (all_jobs f);
    g_unowned : forall t, gprov f t = None -> slot (xstore e) t = slot (store0 f) t
  }.

  Lemma may_run_spec e x : may_run e x = true ->
    In x (all_jobs f) /\ ~ In x (ran e) /\ forall d, In d (jdeps f x) -> In d (xok e).
  Proof.
    unfold FlowOpModel.may_run. rewrite !andb_true_iff, negb_true_iff. intros [[H1 H2] H3].
    split; [now apply existsb_fid|]. split.
    - intros Hin. apply existsb_fid in Hin. congruence.
    - intros d Hd. rewrite forallb_forall in H3. apply existsb_fid. now apply H3.
  Qed.

  Lemma ok_ran e : Good e -> forall x, In x (xok e) -> In x (ran e).
  Proof.
    intros G x H. apply (g_ok e G) in H. destruct H as [ef [Hin _]].
    unfold ran. apply in_map_iff. exists (x, ef). split; [reflexivity | assumption].
  Qed.

  (* a job that may run now writes nothing that a job that already ran reads, nor what it
     reads itself *)
  Lemma frame e x y : Good e -> may_run e x = true -> (In y (ran e) \/ y = x) ->
    same_inputs (xstore e) (apply_eff f (xstore e) x (job_sem (xstore e) x)) y.
  Proof.
    intros G Hm Hy. destruct (may_run_spec e x Hm) as [Hjob [Hnot Hdeps]].
    assert (Hdy : forall d, In d (jdeps f y) -> In d (ran e)).
    { intros d Hd. apply (ok_ran e G). destruct Hy as [Hy| ->]; [eapply (g_deps e G); eauto | now apply Hdeps]. }
    assert (Hslot : forall tys, (forall t k i, In t tys -> gprov f t = Some (k, i) -> In (FT k) (jdeps f y)) ->
                    forall t, In t tys ->
                      slot (xstore e) t = slot (apply_eff f (xstore e) x (job_sem (xstore e) x)) t).
    { intros tys Hty t Ht. symmetry. apply eff_slot. intros k -> Hin.
      apply in_all_jobs_FT in Hjob. destruct (Huniq k t Hjob Hin) as [i Hg].
      apply Hnot. apply Hdy. eapply Hty; eauto. }
    destruct y as [k2|k2]; cbn [same_inputs].
    - split.
      + apply Hslot. intros t k i Ht Hg. cbn [jdeps]. apply in_or_app. left. eapply in_prov_jobs; eauto.
      + intros Hp. assert (Hne : x <> FP k2).
        { intros ->. apply Hnot. apply Hdy. cbn [jdeps]. apply in_or_app. right.
          destruct (kpred (taskof f k2)); [now left | now elim Hp]. }
        destruct (eff_flags (xstore e) x (job_sem (xstore e) x) k2 Hne) as [-> ->]. split; reflexivity.
    - intros pins Hp. apply Hslot. intros t k i Ht Hg. cbn [jdeps]. rewrite Hp. eapply in_prov_jobs; eauto.
  Qed.

  Lemma good0 : Good (exec0 f).
  Proof.
    constructor; cbn; try (intros; contradiction); try (intros; reflexivity).
    - intros k _. split; reflexivity.
    - intros x. split; [contradiction | intros [ef [[] _]]].
    - constructor.
  Qed.

  Lemma good_step e x : Good e -> may_run e x = true -> Good (step e x).
  Proof.
    intros G Hm. destruct (may_run_spec e x Hm) as [Hjob [Hnot Hdeps]].
    set (ef := job_sem (xstore e) x).
    assert (Hlog : forall y efy, In (y, efy) (xlog (step e x)) ->
                     (In (y, efy) (xlog e) /\ In y (ran e) /\ y <> x) \/ (y = x /\ efy = ef)).
    { unfold FlowOpModel.step. cbn [xlog]. intros y efy H. apply in_app_or in H. destruct H as [H|[H|[]]].
      - left. assert (Hr : In y (ran e)) by (unfold ran; apply in_map_iff; exists (y, efy); auto).
        repeat split; auto. intros ->. contradiction.
      - injection H as <- <-. right. split; reflexivity. }
    constructor.
    - (* stable *)
      intros y efy H. apply Hlog in H. unfold FlowOpModel.step at 1. cbn [xstore].
      destruct H as [(Hin & Hr & _)|[-> ->]].
      + rewrite <- (job_sem_ext _ _ y (frame e x y G Hm (or_introl Hr))). now apply (g_stable e G).
      + symmetry. apply job_sem_ext. apply (frame e x x G Hm). now right.
    - (* outs *)
      intros k efy vs H Ho t Ht. apply Hlog in H. unfold FlowOpModel.step. cbn [xstore]. fold ef.
      destruct H as [(Hin & Hr & Hne)|[<- ->]].
      + rewrite eff_slot; [now apply (g_outs e G k efy vs)|].
        intros k' -> Hin'. apply in_all_jobs_FT in Hjob.
        apply (g_jobs e G) in Hr. apply in_all_jobs_FT in Hr.
        destruct (Huniq k' t Hjob Hin') as [i Hg]. destruct (Huniq k t Hr Ht) as [i' Hg'].
        rewrite Hg in Hg'. injection Hg' as -> _. now apply Hne.
      + cbn [apply_eff]. rewrite Ho. cbn [set_outs slot].
        apply write_outs_in; [assumption|]. eapply job_outs_len. exact Ho.
    - (* flags *)
      intros k efy H. apply Hlog in H. unfold FlowOpModel.step. cbn [xstore]. fold ef.
      destruct H as [(Hin & Hr & Hne)|[<- ->]].
      + destruct (eff_flags (xstore e) x ef k) as [-> ->]; [congruence|]. now apply (g_flags e G).
      + destruct (g_noflag e G k Hnot) as [Hf Hp]. cbn [apply_eff].
        destruct (je_flag ef), (je_panic ef); cbn [pflag ppanic]; unfold upd;
          rewrite ?Nat.eqb_refl, ?Hf, ?Hp; split; reflexivity.
    - (* noflag *)
      intros k Hk. rewrite ran_step in Hk. unfold FlowOpModel.step. cbn [xstore]. fold ef.
      destruct (eff_flags (xstore e) x ef k) as [-> ->].
      + intros ->. apply Hk. apply in_or_app. right. now left.
      + apply (g_noflag e G). intros H. apply Hk. apply in_or_app. now left.
    - (* ok *)
      intros y. unfold FlowOpModel.step. cbn [xok xlog]. fold ef. split.
      + intros H. destruct (is_ok (je_res ef)) eqn:Eo.
        * apply in_app_or in H. destruct H as [H|[<-|[]]].
          -- apply (g_ok e G) in H. destruct H as [efy [Hin Hr]]. exists efy. split; [apply in_or_app; now left | assumption].
          -- exists ef. split; [apply in_or_app; right; now left|]. destruct (je_res ef); [reflexivity | discriminate].
        * apply (g_ok e G) in H. destruct H as [efy [Hin Hr]]. exists efy. split; [apply in_or_app; now left | assumption].
      + intros [efy [Hin Hr]]. apply in_app_or in Hin. destruct Hin as [Hin|[Hin|[]]].
        * assert (Hy : In y (xok e)) by (apply (g_ok e G); eauto).
          destruct (is_ok (je_res ef)); [apply in_or_app; now left | assumption].
        * injection Hin as <- <-. fold ef in Hr. rewrite Hr. cbn. apply in_or_app. right. now left.
    - (* deps *)
      intros y Hy d Hd. rewrite ran_step in Hy.
      assert (Hin : In d (xok e)).
      { apply in_app_or in Hy. destruct Hy as [Hy|[<-|[]]]; [eapply (g_deps e G); eauto | now apply Hdeps]. }
      unfold FlowOpModel.step. cbn [xok]. destruct (is_ok _); [apply in_or_app; now left | assumption].
    - (* nodup *)
      rewrite ran_step. apply NoDup_snoc; [apply (g_nodup e G) | assumption].
    - (* jobs *)
      intros y Hy. rewrite ran_step in Hy. apply in_app_or in Hy.
      destruct Hy as [Hy|[<-|[]]]; [now apply (g_jobs e G) | assumption].
    - (* unowned *)
      intros t Ht. unfold FlowOpModel.step. cbn [xstore]. rewrite eff_slot; [now apply (g_unowned e G)|].
      intros k -> Hin. apply in_all_jobs_FT in Hjob. destruct (Huniq k t Hjob Hin) as [i Hg]. congruence.
  Qed.

  Lemma reach_good e : reach e -> Good e.
  Proof. induction 1; [apply good0 | now apply good_step]. Qed.

  Lemma in_ran e x ef : In (x, ef) (xlog e) -> In x (ran e).
  Proof. intros H. unfold ran. apply in_map_iff. exists (x, ef). auto. Qed.

  Lemma ok_entry e k : Good e -> In (FT k) (xok e) ->
    exists ef vs, In (FT k, ef) (xlog e) /\ je_res ef = JOk /\ je_outs ef = Some vs.
  Proof.
    intros G H. apply (g_ok e G) in H. destruct H as [ef [Hin Hr]].
    pose proof (g_stable e G _ _ Hin) as Hs. rewrite <- Hs in Hr.
    destruct (job_ok_outs _ _ Hr) as [vs Ho]. rewrite Hs in Ho, Hr. exists ef, vs. auto.
  Qed.

  (* ---- schedule independence: what a job does is the same in every execution *)
  Theorem confluence e1 e2 : reach e1 -> reach e2 ->
    forall x ef1 ef2, In (x, ef1) (xlog e1) -> In (x, ef2) (xlog e2) -> ef1 = ef2.
  Proof.
    intros R1 R2. pose proof (reach_good e2 R2) as G2. induction R1 as [|e1 x0 R1 IH Hm].
    - intros x ef1 ef2 [].
    - pose proof (reach_good e1 R1) as G1.
      destruct (may_run_spec e1 x0 Hm) as [Hjob [Hnot Hdeps]].
      intros x ef1 ef2 H1 H2. unfold FlowOpModel.step in H1. cbn [xlog] in H1.
      apply in_app_or in H1. destruct H1 as [H1|[H1|[]]]; [eapply IH; eauto|].
      injection H1 as <- <-. rewrite <- (g_stable e2 G2 _ _ H2).
      assert (Hd2 : forall d, In d (jdeps f x0) -> In d (xok e2)).
      { intros d Hd. eapply (g_deps e2 G2); eauto. eapply in_ran; eauto. }
      assert (Hslot : forall tys, (forall t k i, In t tys -> gprov f t = Some (k, i) -> In (FT k) (jdeps f x0)) ->
                      forall t, In t tys -> slot (xstore e1) t = slot (xstore e2) t).
      { intros tys Hty t Ht. destruct (gprov f t) as [[k i]|] eqn:Hg.
        - pose proof (Hty t k i Ht Hg) as Hd.
          destruct (ok_entry e1 k G1 (Hdeps _ Hd)) as (efa & vs & Ha & _ & Hoa).
          destruct (ok_entry e2 k G2 (Hd2 _ Hd)) as (efb & vs' & Hb & _ & Hob).
          pose proof (IH _ _ _ Ha Hb) as <-. rewrite Hoa in Hob. injection Hob as <-.
          destruct (gprov_sound f t k i Hg) as [_ Hin].
          rewrite (g_outs e1 G1 k efa vs Ha Hoa t Hin), (g_outs e2 G2 k efa vs Hb Hoa t Hin). reflexivity.
        - rewrite (g_unowned e1 G1 t Hg), (g_unowned e2 G2 t Hg). reflexivity. }
      apply job_sem_ext. destruct x0 as [k|k]; cbn [same_inputs].
      + split.
        * apply Hslot. intros t k' i Ht Hg. cbn [jdeps]. apply in_or_app. left. eapply in_prov_jobs; eauto.
        * intros Hp. assert (Hd : In (FP k) (jdeps f (FT k))).
          { cbn [jdeps]. apply in_or_app. right. destruct (kpred (taskof f k)); [now left | now elim Hp]. }
          pose proof (Hdeps _ Hd) as Ho1. pose proof (Hd2 _ Hd) as Ho2.
          apply (g_ok e1 G1) in Ho1. apply (g_ok e2 G2) in Ho2.
          destruct Ho1 as [efa [Ha _]]. destruct Ho2 as [efb [Hb _]].
          pose proof (IH _ _ _ Ha Hb) as <-.
          destruct (g_flags e1 G1 k efa Ha) as [-> ->]. destruct (g_flags e2 G2 k efa Hb) as [-> ->].
          split; reflexivity.
      + intros pins Hp. apply Hslot. intros t k' i Ht Hg. cbn [jdeps]. rewrite Hp. eapply in_prov_jobs; eauto.
  Qed.

  (* a variable whose provider returned nil in both executions holds the same value *)
  Theorem slot_confluent e1 e2 : reach e1 -> reach e2 ->
    forall t, (forall k i, gprov f t = Some (k, i) -> In (FT k) (xok e1) /\ In (FT k) (xok e2)) ->
      slot (xstore e1) t = slot (xstore e2) t.
  Proof.
    intros R1 R2 t H. pose proof (reach_good e1 R1) as G1. pose proof (reach_good e2 R2) as G2.
    destruct (gprov f t) as [[k i]|] eqn:Hg.
    - destruct (H k i eq_refl) as [H1 H2].
      destruct (ok_entry e1 k G1 H1) as (efa & vs & Ha & _ & Hoa).
      destruct (ok_entry e2 k G2 H2) as (efb & vs' & Hb & _ & Hob).
      pose proof (confluence e1 e2 R1 R2 _ _ _ Ha Hb) as <-. rewrite Hoa in Hob. injection Hob as <-.
      destruct (gprov_sound f t k i Hg) as [_ Hin].
      rewrite (g_outs e1 G1 k efa vs Ha Hoa t Hin), (g_outs e2 G2 k efa vs Hb Hoa t Hin). reflexivity.
    - rewrite (g_unowned e1 G1 t Hg), (g_unowned e2 G2 t Hg). reflexivity.
  Qed.

  (* two executions in which every job returned nil leave the same values in the Results *)
  Theorem results_confluent e1 e2 : reach e1 -> reach e2 ->
    complete f e1 = true -> complete f e2 = true ->
    map (slot (xstore e1)) (gresults f) = map (slot (xstore e2)) (gresults f).
  Proof.
    intros R1 R2 C1 C2. apply map_ext_in. intros t _. apply slot_confluent; auto.
    intros k i Hg. destruct (gprov_sound f t k i Hg) as [Hk _].
    unfold complete in C1, C2. rewrite forallb_forall in C1, C2.
    apply in_all_jobs_FT in Hk. split; apply existsb_fid; auto.
  Qed.

  (* ---- every argument is the value its unique provider assigned *)
  Theorem args_from_providers e k ef : reach e -> In (FT k, ef) (xlog e) ->
    forall c, In c (je_calls ef) ->
      c = (false, k, map (slot (xstore e)) (kins (taskof f k))) /\
      forall t, In t (kins (taskof f k)) ->
        match gprov f t with
        | Some (kp, i) =>
            exists efp vs, In (FT kp, efp) (xlog e) /\ je_res efp = JOk /\ je_outs efp = Some vs /\
                           slot (xstore e) t = write_outs (fun _ => None) (kouts (taskof f kp)) vs t /\
                           slot (xstore e) t <> None
        | None => slot (xstore e) t = slot (store0 f) t
        end.
  Proof.
    intros R Hin c Hc. pose proof (reach_good e R) as G. split.
    - rewrite <- (g_stable e G _ _ Hin) in Hc. unfold FlowOpModel.job_sem in Hc.
      repeat match type of Hc with context [if ?b then _ else _] => destruct b end;
        try destruct (sc_task sc k); repeat match type of Hc with context [if ?b then _ else _] => destruct b end;
        cbn [je_calls] in Hc; try contradiction; destruct Hc as [<-|[]]; reflexivity.
    - intros t Ht. destruct (gprov f t) as [[kp i]|] eqn:Hg; [|now apply (g_unowned e G)].
      assert (Hd : In (FT kp) (jdeps f (FT k))).
      { cbn [jdeps]. apply in_or_app. left. eapply in_prov_jobs; eauto. }
      pose proof (g_deps e G (FT k) (in_ran e _ _ Hin) _ Hd) as Hok.
      destruct (ok_entry e kp G Hok) as (efp & vs & Hp & Hr & Ho).
      exists efp, vs. destruct (gprov_sound f t kp i Hg) as [_ Hinp].
      pose proof (g_outs e G kp efp vs Hp Ho t Hinp) as Hs. repeat split; auto.
      rewrite Hs.
      assert (Hlen : length vs = length (kouts (taskof f kp))).
      { rewrite <- (g_stable e G _ _ Hp) in Ho. eapply job_outs_len; eauto. }
      destruct (write_outs_in (fun _ => None) (fun _ => None) _ vs t Hinp Hlen) as [_ Hne]. exact Hne.
  Qed.

  (* each job, hence each user function, runs at most once *)
  Theorem runs_once e : reach e -> NoDup (ran e).
  Proof. intros R. apply (g_nodup e (reach_good e R)). Qed.

  (* the predicate gates its task, in every execution *)
  Theorem task_called_pred_true e k ef : reach e -> In (FT k, ef) (xlog e) -> je_calls ef <> [] ->
    kpred (taskof f k) = None \/
    (exists efp, In (FP k, efp) (xlog e) /\ je_flag efp = true /\ sc_pred sc k = PTRUE).
  Proof.
    intros R Hin Hc. pose proof (reach_good e R) as G.
    destruct (kpred (taskof f k)) as [pins|] eqn:Ep; [right | now left].
    assert (Hd : In (FP k) (jdeps f (FT k))).
    { cbn [jdeps]. rewrite Ep. apply in_or_app. right. now left. }
    pose proof (g_deps e G (FT k) (in_ran e _ _ Hin) _ Hd) as Hok.
    apply (g_ok e G) in Hok. destruct Hok as [efp [Hp _]]. exists efp. split; [assumption|].
    destruct (g_flags e G k efp Hp) as [Hf Hpn].
    rewrite <- (g_stable e G _ _ Hin) in Hc. rewrite <- (g_stable e G _ _ Hp).
    unfold FlowOpModel.job_sem in Hc |- *. rewrite Ep in Hc |- *. cbn [andb] in Hc.
    rewrite <- (g_stable e G _ _ Hp) in Hf, Hpn. unfold FlowOpModel.job_sem in Hf, Hpn. rewrite Ep in Hf, Hpn.
    cbn [je_flag je_panic] in Hf, Hpn |- *.
    destruct (sc_pred sc k); [split; reflexivity | |]; rewrite Hf, Hpn in Hc; cbn in Hc;
      try (destruct (kfallback (taskof f k)); cbn in Hc); now elim Hc.
  Qed.

  (* ---- schedules *)
  Lemma valid_reach sch : forall e, reach e -> valid_from f sc e sch = true -> reach (fold_left step sch e).
  Proof.
    induction sch as [|x r IH]; cbn [valid_from fold_left]; intros e R H; [assumption|].
    apply andb_true_iff in H. destruct H as [Hm Hv]. apply IH; [now apply reach_step | assumption].
  Qed.

  Theorem valid_run_reach sch : valid f sc sch = true -> reach (run f sc sch).
  Proof. intros H. apply valid_reach; [apply reach0 | exact H]. Qed.

  Lemma canon_valid n : forall e, valid_from f sc e (canon f sc n e) = true.
  Proof.
    induction n as [|n IH]; intros e; cbn [canon valid_from]; [reflexivity|].
    destruct (xfail e); [|reflexivity].
    destruct (find (may_run e) (all_jobs f)) as [x|] eqn:Ef; [|reflexivity].
    cbn [valid_from]. apply find_some in Ef. destruct Ef as [_ ->]. cbn. apply IH.
  Qed.

  Theorem canonical_valid : valid f sc (canonical f sc) = true.
  Proof. apply canon_valid. Qed.

  (* ---- order of the log: a job's dependencies are logged before it, all with result nil *)
  Lemma log_entry_unique e x ef1 ef2 : Good e -> In (x, ef1) (xlog e) -> In (x, ef2) (xlog e) -> ef1 = ef2.
  Proof.
    intros G H1 H2. rewrite <- (g_stable e G _ _ H1), <- (g_stable e G _ _ H2). reflexivity.
  Qed.

  Lemma snoc_split {A} (l l1 l2 : list A) (a b : A) : l ++ [a] = l1 ++ b :: l2 ->
    (l2 = [] /\ l = l1 /\ a = b) \/ (exists l2', l2 = l2' ++ [a] /\ l = l1 ++ b :: l2').
  Proof.
    revert l. induction l1 as [|c l1 IH]; intros l H.
    - destruct l as [|d l]; cbn in H.
      + injection H as <- <-. left. auto.
      + injection H as <- H. right. exists l. auto.
    - destruct l as [|d l]; cbn in H.
      + injection H as _ H. destruct l1; discriminate.
      + injection H as <- H. destruct (IH l H) as [(-> & -> & ->)|[l2' [-> ->]]]; [left; auto | right; eauto].
  Qed.

  Theorem deps_logged_before e : reach e -> forall l1 x ef l2, xlog e = l1 ++ (x, ef) :: l2 ->
    forall d, In d (jdeps f x) -> exists efd, In (d, efd) l1 /\ je_res efd = JOk.
  Proof.
    induction 1 as [|e x0 R IH Hm]; intros l1 x ef l2 Hl d Hd.
    - destruct l1; discriminate.
    - unfold FlowOpModel.step in Hl. cbn [xlog] in Hl.
      destruct (snoc_split _ _ _ _ _ Hl) as [(-> & <- & Heq)|[l2' [-> Hl']]].
      + injection Heq as <- _. destruct (may_run_spec e x0 Hm) as [_ [_ Hdeps]].
        apply (g_ok e (reach_good e R)). now apply Hdeps.
      + eapply IH; eauto.
  Qed.

  (* a job that failed, or never ran, starves everything that depends on it *)
  Theorem failed_dep_starves e x d : reach e -> In d (jdeps f x) ->
    (~ In d (ran e) \/ exists efd er, In (d, efd) (xlog e) /\ je_res efd = JFail er) -> ~ In x (ran e).
  Proof.
    intros R Hd Hbad Hx. pose proof (reach_good e R) as G.
    pose proof (g_deps e G x Hx d Hd) as Hok.
    destruct Hbad as [Hn|[efd [er [Hin Hr]]]].
    - apply Hn. now apply (ok_ran e G).
    - apply (g_ok e G) in Hok. destruct Hok as [ef' [Hin' Hr']].
      rewrite (log_entry_unique e d efd ef' G Hin Hin') in Hr. congruence.
  Qed.

  (* a task without predicate that ran has called its function, once *)
  Lemma no_pred_calls st k : kpred (taskof f k) = None ->
    je_calls (job_sem st (FT k)) = [(false, k, map (slot st) (kins (taskof f k)))].
  Proof.
    intros Hp. unfold FlowOpModel.job_sem. rewrite Hp. cbn [andb].
    destruct (sc_task sc k); try destruct (kfallback (taskof f k)); reflexivity.
  Qed.

  Theorem complete_all_called e : reach e -> complete f e = true ->
    forall k, k < length (gtasks f) -> kpred (taskof f k) = None ->
      exists ef, In (FT k, ef) (xlog e) /\ je_res ef = JOk /\ length (je_calls ef) = 1.
  Proof.
    intros R C k Hk Hp. pose proof (reach_good e R) as G.
    unfold complete in C. rewrite forallb_forall in C.
    assert (Hok : In (FT k) (xok e)) by (apply existsb_fid, C, in_all_jobs_FT; exact Hk).
    apply (g_ok e G) in Hok. destruct Hok as [ef [Hin Hr]]. exists ef. repeat split; auto.
    rewrite <- (g_stable e G _ _ Hin). rewrite (no_pred_calls _ k Hp). reflexivity.
  Qed.

  (* transitively: nothing downstream of a job that failed or never ran is ever run *)
  Inductive depends_plus : fid -> fid -> Prop :=
  | dp_one x d : In d (jdeps f x) -> depends_plus x d
  | dp_step x y d : In y (jdeps f x) -> depends_plus y d -> depends_plus x d.

  Theorem failed_starves_downstream e x d : reach e -> depends_plus x d ->
    (~ In d (ran e) \/ exists efd er, In (d, efd) (xlog e) /\ je_res efd = JFail er) -> ~ In x (ran e).
  Proof.
    intros R Hp Hbad. induction Hp as [x d Hd|x y d Hy Hp IH].
    - eapply failed_dep_starves; eauto.
    - eapply failed_dep_starves; eauto.
  Qed.

  (* the Results targets are written only when no job failed *)
  Theorem results_untouched_on_failure e : xfail e <> [] -> results f e = None.
  Proof. unfold results. destruct (xfail e); [intros H; now elim H | reflexivity]. Qed.
End Dataflow.
