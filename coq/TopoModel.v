(* Layer 2, the order in which the generated code declares and enqueues the functions of a
   flow (internal/graph.go toposort, used by scheduleFlowAndToposort for flow.TopoFuncs): a
   depth-first post-order over the Dependencies. The Go code marks a node visited when it
   appends it, so the visited set is the set of elements of the output. The Go recursion has
   no bound (cycles are rejected before); the model recurses on fuel. Definitions only. *)
From Coq Require Export List Arith Bool Lia.
Export ListNotations.

Definition memn (x : nat) (l : list nat) : bool := existsb (Nat.eqb x) l.

Section Topo.
  Variable deps : nat -> list nat.

  Fixpoint visit (fuel : nat) (n : nat) (st : list nat) : list nat :=
    match fuel with
    | 0 => st
    | S f => if memn n st then st
             else fold_left (fun s d => visit f d s) (deps n) st ++ [n]
    end.

  Definition toposort (fuel count : nat) : list nat :=
    fold_left (fun s n => visit fuel n s) (seq 0 count) [].
End Topo.
