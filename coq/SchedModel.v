(* Layer 0: executable model of scheduler/scheduler.go as a labelled transition
   system: one caller, the scheduler loop, N worker slots, an environment that
   cancels contexts.  Each action is one select arm / statement group of the Go
   code (line numbers refer to the unhooked file).  Definitions only. *)
From Coq Require Export List Arith Bool Lia ZArith.
Export ListNotations.

(* notations, not definitions: [lia]/[rewrite] compare terms syntactically *)
Notation jid := nat (only parsing).
Notation ctxid := nat (only parsing).
Notation wid := nat (only parsing).

(* errors as atoms *)
Inductive err :=
| EUser (e : nat)        (* the error value a job returned *)
| ECtx (c : ctxid)       (* ctx.Err() of context c *)
| EInvalid               (* errJobInvalid, the internal sentinel *)
| EExit.                 (* "job exited unexpectedly" (runtime.Goexit inside a job) *)

(* what the user's Run function does (a panic that the job closure does not
   recover is outside Layer 0; generated closures always recover, Layer 1) *)
Inductive outcome := OOk | OErr (e : nat) | OGoexit.

Record jspec := { jdeps : list jid; jctx : ctxid }.

Record cfg := {
  cN : nat;               (* Concurrency, >= 1 *)
  ccoe : bool;            (* ContinueOnError *)
  cgated : bool;          (* dispatch guarded by ongoing < N (true = current code; false = before fix c428103) *)
  cprog : list jspec;     (* job k = k-th Enqueue call *)
  cwctx : ctxid           (* the context given to Wait *)
}.

Definition jspec0 := {| jdeps := []; jctx := 0 |}.
Definition spec (c : cfg) (j : jid) : jspec := nth j (cprog c) jspec0.

(* ScheduledJob's loop-owned fields, scheduler.go:299-303 *)
Record jst := { remaining : Z; consumers : list jid; jdone : bool; jerr : option err; jinvalid : bool }.
Definition jst0 := {| remaining := 0; consumers := []; jdone := false; jerr := None; jinvalid := false |}.

Inductive wst :=
| WIdle                              (* blocked in "for j := range readyc" *)
| WGot (j : jid)                     (* received j, before the ctx/invalid test *)
| WRun (j : jid)                     (* inside j.run *)
| WPost (j : jid) (r : option err)   (* about to send the result on donec (incl. the deferred send after Goexit) *)
| WExit.                             (* returned after readyc was closed *)

Inductive lpc := LRun | LDrain | LFin.
Inductive cpc := CEnq (k : nat) | CWait | CRet (r : list err).

Inductive event :=
| EvEnqSent (j : jid) | EvWaitCalled | EvRet (r : list err)
| EvEnqRecv (j : jid) | EvDispatch (j : jid) (w : wid) | EvDoneRecv (j : jid) (r : option err)
| EvTick (p r w i c : Z) | EvEnqClosed | EvLoopExit | EvDrained (j : jid) | EvFinish
| EvStart (j : jid) | EvSkip (j : jid) (e : err) | EvEnd (j : jid) (o : outcome) | EvPost (j : jid) | EvWExit (w : wid)
| EvCancel (c : ctxid).

Record core := {
  enq : list jid;                     (* enqueuec, capacity 1 *)
  enq_closed : bool;                  (* Wait closed enqueuec *)
  donec : list (jid * option err);    (* donec, capacity N; received in any order (superset of FIFO) *)
  lp : lpc;
  ready : list jid;                   (* container/list FIFO *)
  ongoing : Z; pending : Z; waiting : Z;
  enq_nil : bool;                     (* the loop's local enqueuec was set to nil *)
  jobs : list jst;
  serr : list err;                    (* s.err: nil, one error, or a multierr list *)
  workers : list wst;
  cp : cpc;
  cancelled : list ctxid
}.

(* full state: the scheduler's state plus the ghost history (newest first).
   The history is kept outside [core] so that [stepc] cannot read it. *)
Record st := { core_of :> core; log : list event }.

Definition set_enq (v : list jid) (s : core) : core :=
  {| enq := v; enq_closed := enq_closed s; donec := donec s; lp := lp s; ready := ready s; ongoing := ongoing s; pending := pending s; waiting := waiting s; enq_nil := enq_nil s; jobs := jobs s; serr := serr s; workers := workers s; cp := cp s; cancelled := cancelled s |}.
Definition set_enq_closed (v : bool) (s : core) : core :=
  {| enq := enq s; enq_closed := v; donec := donec s; lp := lp s; ready := ready s; ongoing := ongoing s; pending := pending s; waiting := waiting s; enq_nil := enq_nil s; jobs := jobs s; serr := serr s; workers := workers s; cp := cp s; cancelled := cancelled s |}.
Definition set_donec (v : list (jid * option err)) (s : core) : core :=
  {| enq := enq s; enq_closed := enq_closed s; donec := v; lp := lp s; ready := ready s; ongoing := ongoing s; pending := pending s; waiting := waiting s; enq_nil := enq_nil s; jobs := jobs s; serr := serr s; workers := workers s; cp := cp s; cancelled := cancelled s |}.
Definition set_lp (v : lpc) (s : core) : core :=
  {| enq := enq s; enq_closed := enq_closed s; donec := donec s; lp := v; ready := ready s; ongoing := ongoing s; pending := pending s; waiting := waiting s; enq_nil := enq_nil s; jobs := jobs s; serr := serr s; workers := workers s; cp := cp s; cancelled := cancelled s |}.
Definition set_ready (v : list jid) (s : core) : core :=
  {| enq := enq s; enq_closed := enq_closed s; donec := donec s; lp := lp s; ready := v; ongoing := ongoing s; pending := pending s; waiting := waiting s; enq_nil := enq_nil s; jobs := jobs s; serr := serr s; workers := workers s; cp := cp s; cancelled := cancelled s |}.
Definition set_ongoing (v : Z) (s : core) : core :=
  {| enq := enq s; enq_closed := enq_closed s; donec := donec s; lp := lp s; ready := ready s; ongoing := v; pending := pending s; waiting := waiting s; enq_nil := enq_nil s; jobs := jobs s; serr := serr s; workers := workers s; cp := cp s; cancelled := cancelled s |}.
Definition set_pending (v : Z) (s : core) : core :=
  {| enq := enq s; enq_closed := enq_closed s; donec := donec s; lp := lp s; ready := ready s; ongoing := ongoing s; pending := v; waiting := waiting s; enq_nil := enq_nil s; jobs := jobs s; serr := serr s; workers := workers s; cp := cp s; cancelled := cancelled s |}.
Definition set_waiting (v : Z) (s : core) : core :=
  {| enq := enq s; enq_closed := enq_closed s; donec := donec s; lp := lp s; ready := ready s; ongoing := ongoing s; pending := pending s; waiting := v; enq_nil := enq_nil s; jobs := jobs s; serr := serr s; workers := workers s; cp := cp s; cancelled := cancelled s |}.
Definition set_enq_nil (v : bool) (s : core) : core :=
  {| enq := enq s; enq_closed := enq_closed s; donec := donec s; lp := lp s; ready := ready s; ongoing := ongoing s; pending := pending s; waiting := waiting s; enq_nil := v; jobs := jobs s; serr := serr s; workers := workers s; cp := cp s; cancelled := cancelled s |}.
Definition set_jobs (v : list jst) (s : core) : core :=
  {| enq := enq s; enq_closed := enq_closed s; donec := donec s; lp := lp s; ready := ready s; ongoing := ongoing s; pending := pending s; waiting := waiting s; enq_nil := enq_nil s; jobs := v; serr := serr s; workers := workers s; cp := cp s; cancelled := cancelled s |}.
Definition set_serr (v : list err) (s : core) : core :=
  {| enq := enq s; enq_closed := enq_closed s; donec := donec s; lp := lp s; ready := ready s; ongoing := ongoing s; pending := pending s; waiting := waiting s; enq_nil := enq_nil s; jobs := jobs s; serr := v; workers := workers s; cp := cp s; cancelled := cancelled s |}.
Definition set_workers (v : list wst) (s : core) : core :=
  {| enq := enq s; enq_closed := enq_closed s; donec := donec s; lp := lp s; ready := ready s; ongoing := ongoing s; pending := pending s; waiting := waiting s; enq_nil := enq_nil s; jobs := jobs s; serr := serr s; workers := v; cp := cp s; cancelled := cancelled s |}.
Definition set_cp (v : cpc) (s : core) : core :=
  {| enq := enq s; enq_closed := enq_closed s; donec := donec s; lp := lp s; ready := ready s; ongoing := ongoing s; pending := pending s; waiting := waiting s; enq_nil := enq_nil s; jobs := jobs s; serr := serr s; workers := workers s; cp := v; cancelled := cancelled s |}.
Definition set_cancelled (v : list ctxid) (s : core) : core :=
  {| enq := enq s; enq_closed := enq_closed s; donec := donec s; lp := lp s; ready := ready s; ongoing := ongoing s; pending := pending s; waiting := waiting s; enq_nil := enq_nil s; jobs := jobs s; serr := serr s; workers := workers s; cp := cp s; cancelled := v |}.

Definition jset_remaining (v : Z) (s : jst) : jst :=
  {| remaining := v; consumers := consumers s; jdone := jdone s; jerr := jerr s; jinvalid := jinvalid s |}.
Definition jset_consumers (v : list jid) (s : jst) : jst :=
  {| remaining := remaining s; consumers := v; jdone := jdone s; jerr := jerr s; jinvalid := jinvalid s |}.
Definition jset_jdone (v : bool) (s : jst) : jst :=
  {| remaining := remaining s; consumers := consumers s; jdone := v; jerr := jerr s; jinvalid := jinvalid s |}.
Definition jset_jerr (v : option err) (s : jst) : jst :=
  {| remaining := remaining s; consumers := consumers s; jdone := jdone s; jerr := v; jinvalid := jinvalid s |}.
Definition jset_jinvalid (v : bool) (s : jst) : jst :=
  {| remaining := remaining s; consumers := consumers s; jdone := jdone s; jerr := jerr s; jinvalid := v |}.


Fixpoint upd {A} (n : nat) (f : A -> A) (l : list A) : list A :=
  match l, n with
  | [], _ => []
  | x :: t, 0 => f x :: t
  | x :: t, S n' => x :: upd n' f t
  end.

Definition job (s : core) (j : jid) : jst := nth j (jobs s) jst0.
Definition wk (s : core) (w : wid) : wst := nth w (workers s) WExit.

Definition memc (c : ctxid) (l : list ctxid) : bool := existsb (Nat.eqb c) l.

Definition initc (c : cfg) : core :=
  {| enq := []; enq_closed := false; donec := []; lp := LRun; ready := [];
     ongoing := 0; pending := 0; waiting := 0; enq_nil := false;
     jobs := repeat jst0 (length (cprog c)); serr := [];
     workers := repeat WIdle (cN c); cp := CEnq 0; cancelled := [] |}.
Definition init (c : cfg) : st := {| core_of := initc c; log := [] |}.

(* scheduler.go:430-439: register the new job k with each dependency *)
Fixpoint reg_deps (k : jid) (ds : list jid) (js : list jst) : list jst :=
  match ds with
  | [] => js
  | d :: ds' =>
      let jd := nth d js jst0 in
      if jdone jd then
        reg_deps k ds' (match jerr jd with
                        | Some _ => upd k (jset_jinvalid true) js
                        | None => js
                        end)
      else
        reg_deps k ds'
          (upd k (fun x => jset_remaining (remaining x + 1)%Z x)
             (upd d (fun x => jset_consumers (consumers x ++ [k]) x) js))
  end.

(* scheduler.go:471-473 *)
Fixpoint mark_invalid (cs : list jid) (js : list jst) : list jst :=
  match cs with
  | [] => js
  | c :: cs' => mark_invalid cs' (upd c (jset_jinvalid true) js)
  end.

(* scheduler.go:479-485 *)
Fixpoint notify (cs : list jid) (js : list jst) (wt : Z) (rd : list jid) : list jst * Z * list jid :=
  match cs with
  | [] => (js, wt, rd)
  | c :: cs' =>
      let js' := upd c (fun x => jset_remaining (remaining x - 1)%Z x) js in
      if (remaining (nth c js' jst0) =? 0)%Z
      then notify cs' js' (wt - 1)%Z (rd ++ [c])
      else notify cs' js' wt rd
  end.

(* scheduler.go:538-546 *)
Definition idle_workers (n : nat) (ongoing : Z) : Z :=
  let idle := (Z.of_nat n - ongoing)%Z in if (idle <? 0)%Z then 0%Z else idle.

(* scheduler.go:505-507, evaluated after every arm of the select *)
Definition exit_test (s : core) (evs : list event) : core * list event :=
  if (pending s =? 0)%Z && enq_nil s then (set_lp LDrain s, evs ++ [EvLoopExit]) else (s, evs).

Definition res_of (o : outcome) : option err :=
  match o with OOk => None | OErr e => Some (EUser e) | OGoexit => Some EExit end.

Fixpoint remove_nth {A} (i : nat) (l : list A) : list A :=
  match l, i with
  | [], _ => []
  | _ :: t, 0 => t
  | x :: t, S i' => x :: remove_nth i' t
  end.

Inductive act :=
| ACallerEnq | ACallerWait | ACallerRetCtx | ACallerRetFin
| ALoopDispatch (w : wid) | ALoopEnqRecv | ALoopEnqClosed | ALoopDone (i : nat)
| ALoopTick | ALoopDrain | ALoopFinish
| AWorkerCheck (w : wid) | AWorkerEnd (w : wid) (o : outcome) | AWorkerPost (w : wid) | AWorkerExit (w : wid)
| ACancel (c : ctxid).

Definition is_err (e : err) : bool := match e with EInvalid => false | _ => true end.

(* one action on the scheduler state; returns the new state and the events it
   produced, oldest first *)
Definition stepc (c : cfg) (s : core) (a : act) : option (core * list event) :=
  match a with
  (* ---- caller: Enqueue (scheduler.go:314-327), Wait (518-534) ---- *)
  | ACallerEnq =>
      match cp s, enq s with
      | CEnq k, [] =>
          if k <? length (cprog c)
          then Some ((set_cp (CEnq (S k)) (set_enq [k] s)), [(EvEnqSent k)])
          else None
      | _, _ => None
      end
  | ACallerWait =>
      match cp s with
      | CEnq k =>
          if k =? length (cprog c)
          then Some ((set_cp CWait (set_enq_closed true s)), [EvWaitCalled])
          else None
      | _ => None
      end
  | ACallerRetCtx =>
      match cp s with
      | CWait =>
          if memc (cwctx c) (cancelled s)
          then Some ((set_cp (CRet [ECtx (cwctx c)]) s), [(EvRet [ECtx (cwctx c)])])
          else None
      | _ => None
      end
  | ACallerRetFin =>
      match cp s, lp s with
      | CWait, LFin =>
          let r := match serr s with
                   | [] => if memc (cwctx c) (cancelled s) then [ECtx (cwctx c)] else []
                   | l => l
                   end in
          Some ((set_cp (CRet r) s), [(EvRet r)])
      | _, _ => None
      end
  (* ---- scheduler loop (340-509) ---- *)
  | ALoopDispatch w =>
      match lp s, ready s, wk s w with
      | LRun, j :: rest, WIdle =>
          if negb (cgated c) || (ongoing s <? Z.of_nat (cN c))%Z
          then Some (exit_test (set_workers (upd w (fun _ => WGot j) (workers s))
                 (set_ongoing (ongoing s + 1)%Z (set_ready rest s))) [(EvDispatch j w)])
          else None
      | _, _, _ => None
      end
  | ALoopEnqRecv =>
      match lp s, enq_nil s, enq s with
      | LRun, false, k :: rest =>
          let js := reg_deps k (jdeps (spec c k)) (jobs s) in
          let s1 := set_pending (pending s + 1)%Z (set_jobs js (set_enq rest s)) in
          let s2 := if (remaining (nth k js jst0) =? 0)%Z
                    then set_ready (ready s1 ++ [k]) s1
                    else set_waiting (waiting s1 + 1)%Z s1 in
          Some (exit_test s2 [(EvEnqRecv k)])
      | _, _, _ => None
      end
  | ALoopEnqClosed =>
      match lp s, enq_nil s, enq s, enq_closed s with
      | LRun, false, [], true => Some (exit_test (set_enq_nil true s) [EvEnqClosed])
      | _, _, _, _ => None
      end
  | ALoopDone i =>
      match lp s, nth_error (donec s) i with
      | LRun, Some (j, r) =>
          let js1 := upd j (jset_jdone true) (jobs s) in
          let s1 := set_ongoing (ongoing s - 1)%Z (set_pending (pending s - 1)%Z
                      (set_donec (remove_nth i (donec s)) s)) in
          match r with
          | Some e =>
              let js2 := upd j (jset_jerr (Some e)) js1 in
              if negb (ccoe c)
              then Some (set_lp LDrain (set_serr [e] (set_jobs js2 s1)), [EvDoneRecv j r; EvLoopExit])
              else
                let se := if is_err e then serr s ++ [e] else serr s in
                let cs := consumers (nth j js2 jst0) in
                let js3 := mark_invalid cs js2 in
                let '(js4, wt, rd) := notify cs js3 (waiting s) (ready s) in
                Some (exit_test (set_ready rd (set_waiting wt (set_jobs js4 (set_serr se s1)))) [EvDoneRecv j r])
          | None =>
              let cs := consumers (nth j js1 jst0) in
              let '(js4, wt, rd) := notify cs js1 (waiting s) (ready s) in
              Some (exit_test (set_ready rd (set_waiting wt (set_jobs js4 s1))) [EvDoneRecv j r])
          end
      | _, _ => None
      end
  | ALoopTick =>
      match lp s with
      | LRun =>
          Some (exit_test s [(EvTick (pending s) (Z.of_nat (length (ready s))) (waiting s)
                                 (idle_workers (cN c) (ongoing s)) (Z.of_nat (cN c)))])
      | _ => None
      end
  | ALoopDrain =>
      match lp s, enq s with
      | LDrain, k :: rest => Some ((set_enq rest s), [(EvDrained k)])
      | _, _ => None
      end
  | ALoopFinish =>
      match lp s, enq s, enq_closed s with
      | LDrain, [], true => Some ((set_lp LFin s), [EvFinish])
      | _, _, _ => None
      end
  (* ---- workers (128-158) ---- *)
  | AWorkerCheck w =>
      match wk s w with
      | WGot j =>
          let cx := jctx (spec c j) in
          if memc cx (cancelled s)
          then Some ((set_workers (upd w (fun _ => WPost j (Some (ECtx cx))) (workers s)) s), [(EvSkip j (ECtx cx))])
          else if jinvalid (job s j)
          then Some ((set_workers (upd w (fun _ => WPost j (Some EInvalid)) (workers s)) s), [(EvSkip j EInvalid)])
          else Some ((set_workers (upd w (fun _ => WRun j) (workers s)) s), [(EvStart j)])
      | _ => None
      end
  | AWorkerEnd w o =>
      match wk s w with
      | WRun j => Some ((set_workers (upd w (fun _ => WPost j (res_of o)) (workers s)) s), [(EvEnd j o)])
      | _ => None
      end
  | AWorkerPost w =>
      match wk s w with
      | WPost j r =>
          if length (donec s) <? cN c
          then Some ((set_workers (upd w (fun _ => WIdle) (workers s))
                                      (set_donec (donec s ++ [(j, r)]) s)), [(EvPost j)])
          else None
      | _ => None
      end
  | AWorkerExit w =>
      match wk s w, lp s with
      | WIdle, LFin => Some ((set_workers (upd w (fun _ => WExit) (workers s)) s), [(EvWExit w)])
      | _, _ => None
      end
  (* ---- environment ---- *)
  | ACancel cx =>
      if memc cx (cancelled s) then None
      else Some ((set_cancelled (cx :: cancelled s) s), [(EvCancel cx)])
  end.

Definition step (c : cfg) (s : st) (a : act) : option st :=
  match stepc c s a with
  | Some (k, evs) => Some {| core_of := k; log := rev evs ++ log s |}
  | None => None
  end.

Fixpoint run (c : cfg) (s : st) (acts : list act) : option st :=
  match acts with
  | [] => Some s
  | a :: rest => match step c s a with Some s' => run c s' rest | None => None end
  end.

(* well-formed configurations: N >= 1 and dependencies enqueued before dependents *)
Definition wf_cfg (c : cfg) : Prop :=
  1 <= cN c /\ forall k d, k < length (cprog c) -> In d (jdeps (spec c k)) -> d < k.

Fixpoint wf_prog_b (k : nat) (p : list jspec) : bool :=
  match p with
  | [] => true
  | x :: t => forallb (fun d => d <? k) (jdeps x) && wf_prog_b (S k) t
  end.
Definition wf_cfg_b (c : cfg) : bool := (1 <=? cN c) && wf_prog_b 0 (cprog c).

(* ---- replay of an observed execution: every step must be enabled and must
   append exactly the observed events (newest last in [expect]) ---- *)
Definition outcome_eqb (a b : outcome) : bool :=
  match a, b with
  | OOk, OOk => true | OErr x, OErr y => Nat.eqb x y | OGoexit, OGoexit => true | _, _ => false
  end.
Definition err_eqb (a b : err) : bool :=
  match a, b with
  | EUser x, EUser y => Nat.eqb x y | ECtx x, ECtx y => Nat.eqb x y
  | EInvalid, EInvalid => true | EExit, EExit => true | _, _ => false
  end.
Definition oerr_eqb (a b : option err) : bool :=
  match a, b with Some x, Some y => err_eqb x y | None, None => true | _, _ => false end.
Fixpoint errs_eqb (a b : list err) : bool :=
  match a, b with
  | [], [] => true | x :: a', y :: b' => err_eqb x y && errs_eqb a' b' | _, _ => false
  end.
Definition event_eqb (a b : event) : bool :=
  match a, b with
  | EvEnqSent x, EvEnqSent y => Nat.eqb x y
  | EvWaitCalled, EvWaitCalled => true
  | EvRet x, EvRet y => errs_eqb x y
  | EvEnqRecv x, EvEnqRecv y => Nat.eqb x y
  | EvDispatch x w, EvDispatch y v => Nat.eqb x y && Nat.eqb w v
  | EvDoneRecv x r, EvDoneRecv y q => Nat.eqb x y && oerr_eqb r q
  | EvTick a1 a2 a3 a4 a5, EvTick b1 b2 b3 b4 b5 =>
      (a1 =? b1)%Z && (a2 =? b2)%Z && (a3 =? b3)%Z && (a4 =? b4)%Z && (a5 =? b5)%Z
  | EvEnqClosed, EvEnqClosed => true
  | EvLoopExit, EvLoopExit => true
  | EvDrained x, EvDrained y => Nat.eqb x y
  | EvFinish, EvFinish => true
  | EvStart x, EvStart y => Nat.eqb x y
  | EvSkip x e, EvSkip y f => Nat.eqb x y && err_eqb e f
  | EvEnd x o, EvEnd y p => Nat.eqb x y && outcome_eqb o p
  | EvPost x, EvPost y => Nat.eqb x y
  | EvWExit x, EvWExit y => Nat.eqb x y
  | EvCancel x, EvCancel y => Nat.eqb x y
  | _, _ => false
  end.
Fixpoint events_eqb (a b : list event) : bool :=
  match a, b with
  | [], [] => true | x :: a', y :: b' => event_eqb x y && events_eqb a' b' | _, _ => false
  end.

(* Replay works on [stepc] directly: the history is not part of [core]. *)
Inductive replay_result :=
| RpOk (s : core)
| RpDisabled (n : nat) (s : core)                       (* n-th action not enabled in s *)
| RpMismatch (n : nat) (s : core) (got : list event).   (* enabled, but the model's events differ *)

Fixpoint replay (c : cfg) (s : core) (n : nat) (tr : list (act * list event)) : replay_result :=
  match tr with
  | [] => RpOk s
  | (a, expect) :: rest =>
      match stepc c s a with
      | None => RpDisabled n s
      | Some (s', evs) =>
          if events_eqb evs expect then replay c s' (S n) rest
          else RpMismatch n s evs
      end
  end.

(* final states: everything the scheduler started has terminated *)
Definition all_exited (s : core) : bool := forallb (fun w => match w with WExit => true | _ => false end) (workers s).
Definition is_final (s : core) : bool :=
  match cp s, lp s with CRet _, LFin => all_exited s | _, _ => false end.

(* scheduler.go:220-225: the limit when Concurrency is 0 *)
Definition default_concurrency (gomaxprocs : nat) : nat := Nat.max gomaxprocs 4.
