(* The scheduler properties derived from the run-level invariants. *)
From CffVerif Require Import SchedModel SchedLemmas SchedInv SchedInv2 SchedProps SchedInv3 SchedInv4.

Section Theorems.
  Variable c : cfg.
  Hypothesis wf : wf_cfg c.
  Notation n := (length (cprog c)).
  Notation deps j := (jdeps (spec c j)).
  Notation jc j := (jctx (spec c j)).

  (* ---------- C01 ---------- *)
  Lemma c01_ok_app l1 l2 : c01_ok c (l1 ++ l2) -> c01_ok c l2.
  Proof. induction l1 as [|e l1 IH]; cbn; [auto|]. intros [H _]. auto. Qed.

  Lemma checked_start j l : In (EvStart j) l -> existsb (checked j) l = true.
  Proof. intros H. apply existsb_exists. exists (EvStart j). split; [exact H|cbn; apply Nat.eqb_refl]. Qed.

  Theorem order_once acts s post j pre :
    run c (init c) acts = Some s -> log s = post ++ EvStart j :: pre ->
    ~ In (EvStart j) pre /\ (forall d, In d (deps j) -> In (EvEnd d OOk) pre).
  Proof.
    intros Hr Hl. pose proof (r3_hist _ _ (run_rinv3 c wf _ _ Hr)) as Hh. rewrite Hl in Hh.
    apply c01_ok_app in Hh. cbn in Hh. destruct Hh as [_ [Hc Hd]]. split; [|exact Hd].
    intros F. apply checked_start in F. congruence.
  Qed.

  (* at most one end per job *)
  Lemma end_unique l j o1 o2 : c01_ok c l -> In (EvEnd j o1) l -> In (EvEnd j o2) l -> o1 = o2.
  Proof.
    induction l as [|e l IH]; cbn; [tauto|]. intros [Hl He] [H1|H1] [H2|H2].
    - congruence.
    - subst e. exfalso. eapply He; eauto.
    - subst e. exfalso. eapply He; eauto.
    - auto.
  Qed.

  (* ---------- transitive dependencies ---------- *)
  Inductive reach : nat -> nat -> Prop :=
  | reach_dep d j : In d (deps j) -> reach d j
  | reach_trans d m j : In m (deps j) -> reach d m -> reach d j.

  Lemma start_deps_ended s j :
    RInv3 c s -> In (EvStart j) (log s) -> forall d, In d (deps j) -> In (EvEnd d OOk) (log s).
  Proof.
    intros R Hs d Hd. pose proof (r3_hist _ _ R) as Hh.
    apply in_split in Hs as (l1 & l2 & E). rewrite E in Hh. apply c01_ok_app in Hh.
    cbn in Hh. destruct Hh as [_ [_ Hx]]. rewrite E. apply in_or_app. right. right. auto.
  Qed.

  (* no job with a failed (or unfinished) job among its transitive dependencies ever starts *)
  Theorem downstream acts s j d :
    run c (init c) acts = Some s -> In (EvStart j) (log s) -> reach d j ->
    In (EvEnd d OOk) (log s) /\ forall o, In (EvEnd d o) (log s) -> o = OOk.
  Proof.
    intros Hr Hs Hre. pose proof (run_rinv3 c wf _ _ Hr) as R.
    assert (G : In (EvEnd d OOk) (log s)).
    { induction Hre as [d j Hd|d m j Hm Hre IH].
      - eapply start_deps_ended; eauto.
      - apply IH. eapply (r3_end_start _ _ R). eapply start_deps_ended; eauto. }
    split; [exact G|]. intros o Ho. eapply end_unique; eauto. apply (r3_hist _ _ R).
  Qed.

  (* ---------- C07: fail-fast ---------- *)
  Lemma res_of_none o : res_of o = None -> o = OOk.
  Proof. destruct o; cbn; congruence. Qed.

  Lemma done_not_inflight (s : st) j :
    RInv3 c s -> jdone (job s j) = true ->
    (forall w r, wk s w <> WPost j r) /\ (forall r, ~ In (j, r) (donec s)).
  Proof.
    intros R Hd. pose proof (i2_places_le _ _ _ _ _ (r3_inv2 _ _ R) j) as P.
    unfold relc, job, jget in *. rewrite Hd in P. cbn [b2n] in P. split.
    - intros w r Hw.
      assert (L : w < length (workers s)) by (apply wk_lt; rewrite Hw; discriminate).
      pose proof (countb_nth_pos (holds j) (workers s) w WExit L) as C.
      unfold wk in Hw. rewrite Hw in C. cbn in C. rewrite Nat.eqb_refl in C. specialize (C eq_refl).
      unfold held in P. lia.
    - intros r Hin. apply (in_map fst) in Hin. cbn in Hin. apply (count_occ_In Nat.eq_dec) in Hin. lia.
  Qed.

  Lemma ff_noerr (s : st) :
    RInv4 c s -> ccoe c = false -> serr s = [] -> forall d, jdone (job s d) = true -> jerr (job s d) = None.
  Proof.
    intros R Hff Hs d Hd. destruct (jerr (job s d)) as [e|] eqn:E; [exfalso|reflexivity].
    pose proof (r4_jdone_recv _ _ R d Hd) as F. rewrite E in F.
    destruct (r4_serr_ff _ _ R Hff) as [[_ B]|[_ (j & e' & B1 & _)]]; [eapply B; eauto|congruence].
  Qed.

  (* nil is returned only if every job ran and ended successfully, none failed *)
  Theorem ff_nil acts s :
    run c (init c) acts = Some s -> ccoe c = false -> cp s = CRet [] ->
    forall j, j < n ->
      In (EvStart j) (log s) /\ In (EvEnd j OOk) (log s) /\ (forall o, In (EvEnd j o) (log s) -> o = OOk).
  Proof.
    intros Hr Hff Hc j Hj. pose proof (run_rinv4 c wf _ _ Hr) as R4. pose proof (r4_inv3 _ _ R4) as R.
    destruct (r4_ret _ _ R4 _ Hc) as [[A _]|[Hl Hs]]; [discriminate A|]. symmetry in Hs.
    assert (Hd : jdone (job s j) = true) by (apply (r3_exit _ _ R); [congruence|now right|exact Hj]).
    pose proof (ff_noerr s R4 Hff Hs j Hd) as He.
    pose proof (r3_done _ _ R j Hd) as J. rewrite He in J. cbn in J.
    split; [eapply (r3_end_start _ _ R); eauto|]. split; [exact J|].
    intros o Ho. eapply end_unique; eauto. apply (r3_hist _ _ R).
  Qed.

  Lemma stepc_cp s a s' evs :
    stepc c s a = Some (s', evs) ->
    cp s' = cp s \/ (exists k, cp s' = CEnq k) \/ cp s' = CWait \/ cp s' = CRet [ECtx (cwctx c)] \/
    (a = ACallerRetFin /\
     cp s' = CRet (match serr s with
                   | [] => if memc (cwctx c) (cancelled s) then [ECtx (cwctx c)] else []
                   | l => l end)).
  Proof.
    intros H. destruct a; stepc_inv H; fin_step H;
      try match goal with |- context [if ?b then set_ready _ _ else _] => destruct b end;
      cbn; eauto 6.
  Qed.

  (* the moment Wait returns nil, its context is not cancelled *)
  Theorem ff_nil_ctx acts s a s' :
    run c (init c) acts = Some s -> step c s a = Some s' ->
    (forall r, cp s <> CRet r) -> cp s' = CRet [] ->
    memc (cwctx c) (cancelled s) = false /\ ~ In (EvCancel (cwctx c)) (log s).
  Proof.
    intros Hr Hs Hn Hc. pose proof (run_rinv c _ _ Hr) as R.
    assert (Hm : memc (cwctx c) (cancelled s) = false).
    { destruct (step_stepc _ _ _ _ Hs) as (evs & Hst & _).
      destruct (stepc_cp _ _ _ _ Hst) as [E|[[k E]|[E|[E|[_ E]]]]]; rewrite E in Hc.
      - exfalso. eapply Hn; eauto.
      - discriminate.
      - discriminate.
      - discriminate.
      - destruct (serr s); [|discriminate Hc].
        destruct (memc (cwctx c) (cancelled s)); [discriminate Hc|reflexivity]. }
    split; [exact Hm|]. intros F. apply (r_cancel _ _ R) in F. congruence.
  Qed.

  (* an error returned in fail-fast mode is a single one, and it is real *)
  Theorem ff_error acts s r :
    run c (init c) acts = Some s -> ccoe c = false -> cp s = CRet r -> r <> [] ->
    exists e, r = [e] /\
      ((e = ECtx (cwctx c) /\ In (EvCancel (cwctx c)) (log s)) \/
       (exists j, resjust c (log s) j (Some e) /\ e <> EInvalid)).
  Proof.
    intros Hr Hff Hc Hne. pose proof (run_rinv4 c wf _ _ Hr) as R4. pose proof (r4_inv3 _ _ R4) as R.
    destruct (r4_ret _ _ R4 _ Hc) as [[A B]|[Hl Hs]].
    - exists (ECtx (cwctx c)). split; [exact A|]. left. auto.
    - subst r. destruct (r4_serr_ff _ _ R4 Hff) as [[A _]|[_ (j & e & B1 & B2)]]; [congruence|].
      exists e. split; [exact B1|]. right. exists j.
      destruct (r3_donerecv _ _ R j _ B2) as [D1 D2]. pose proof (r3_done _ _ R j D1) as J. rewrite D2 in J.
      split; [exact J|]. intros ->. cbn in J. apply (r3_skipinv _ _ R) in J.
      destruct (r3_invalid _ _ R j J) as [Hcoe _]. congruence.
  Qed.

  (* ---------- C08: ContinueOnError ---------- *)
  Definition ev_err (x : event) : list err :=
    match x with EvDoneRecv _ (Some e) => if is_err e then [e] else [] | _ => [] end.

  Lemma errs_of_cons x l : errs_of (x :: l) = errs_of l ++ ev_err x.
  Proof.
    destruct x; cbn; try (now rewrite app_nil_r).
    match goal with |- context [match ?r with _ => _ end] => destruct r end; cbn; [reflexivity|now rewrite app_nil_r].
  Qed.

  Lemma errs_of_in l j e : In (EvDoneRecv j (Some e)) l -> is_err e = true -> In e (errs_of l).
  Proof.
    induction l as [|x l IH]; [cbn; tauto|]. rewrite errs_of_cons. intros [H|H] He; apply in_or_app.
    - subst x. right. cbn. rewrite He. now left.
    - left. auto.
  Qed.

  Lemma errs_of_sound l e : In e (errs_of l) -> exists j, In (EvDoneRecv j (Some e)) l /\ is_err e = true.
  Proof.
    induction l as [|x l IH]; [cbn; tauto|]. rewrite errs_of_cons. intros H.
    apply in_app_or in H as [H|H].
    - destruct (IH H) as (j & A & B). exists j. split; [now right|exact B].
    - destruct x; cbn in H; try contradiction.
      match goal with H : In _ (match ?r with _ => _ end) |- _ => destruct r as [e0|]; [|contradiction] end.
      destruct (is_err e0) eqn:E; [|contradiction]. destruct H as [->|[]].
      eexists. split; [left; reflexivity|exact E].
  Qed.

  (* what Wait returns in ContinueOnError mode after normal completion *)
  Theorem coe_errors acts s :
    run c (init c) acts = Some s -> ccoe c = true ->
    serr s = errs_of (log s) /\
    (forall e, In e (serr s) -> e <> EInvalid /\ exists j, resjust c (log s) j (Some e)) /\
    (lp s = LFin -> forall j o, In (EvEnd j o) (log s) -> o <> OOk ->
                    exists e, res_of o = Some e /\ In e (serr s)).
  Proof.
    intros Hr Hcoe. pose proof (run_rinv4 c wf _ _ Hr) as R4. pose proof (r4_inv3 _ _ R4) as R.
    pose proof (r3_serr_coe _ _ R Hcoe) as Es. split; [exact Es|]. split.
    - intros e He. rewrite Es in He. apply errs_of_sound in He as (j & A & B).
      split; [intros ->; discriminate B|]. exists j.
      destruct (r3_donerecv _ _ R j _ A) as [D1 D2]. pose proof (r3_done _ _ R j D1) as J. now rewrite D2 in J.
    - intros Hl j o Ho Hne.
      destruct (r3_endres _ _ R j o Ho) as [[w E]|[E|[E1 E2]]].
      + exfalso. pose proof (r_pool _ _ (run_rinv c _ _ Hr)) as _. 
        assert (Hj : j < n).
        { apply (i2_range _ _ _ _ _ (r3_inv2 _ _ R) j).
          assert (L : w < length (workers s)) by (apply wk_lt; rewrite E; discriminate).
          pose proof (countb_nth_pos (holds j) (workers s) w WExit L) as C.
          unfold wk in E. rewrite E in C. cbn in C. rewrite Nat.eqb_refl in C. specialize (C eq_refl).
          unfold relc, held. lia. }
        assert (Hd : jdone (job s j) = true) by (apply (r3_exit _ _ R); [congruence|now left|exact Hj]).
        destruct (done_not_inflight s j R Hd) as [A _]. eapply A; eauto.
      + exfalso.
        assert (Hj : j < n).
        { apply (i2_range _ _ _ _ _ (r3_inv2 _ _ R) j). apply (in_map fst) in E. cbn in E.
          apply (count_occ_In Nat.eq_dec) in E. unfold relc. lia. }
        assert (Hd : jdone (job s j) = true) by (apply (r3_exit _ _ R); [congruence|now left|exact Hj]).
        destruct (done_not_inflight s j R Hd) as [_ A]. eapply A; eauto.
      + destruct (res_of o) as [e|] eqn:Eo; [|apply res_of_none in Eo; congruence].
        exists e. split; [reflexivity|]. rewrite Es. eapply errs_of_in.
        * pose proof (r4_jdone_recv _ _ R4 j E1) as F. rewrite E2 in F. exact F.
        * destruct o; cbn in Eo; try discriminate; injection Eo as <-; reflexivity.
  Qed.

  (* every job whose dependencies all ended successfully was started, or skipped for its context *)
  Theorem coe_runs acts s j :
    run c (init c) acts = Some s -> ccoe c = true -> lp s = LFin -> j < n ->
    (forall d, In d (deps j) -> In (EvEnd d OOk) (log s)) ->
    In (EvStart j) (log s) \/ In (EvSkip j (ECtx (jc j))) (log s).
  Proof.
    intros Hr Hcoe Hl Hj Hd. pose proof (run_rinv3 c wf _ _ Hr) as R.
    assert (Dj : jdone (job s j) = true) by (apply (r3_exit _ _ R); [congruence|now left|exact Hj]).
    pose proof (r3_done _ _ R j Dj) as J.
    destruct (jerr (job s j)) as [[x|cx| |]|] eqn:E; cbn in J.
    - left. eapply (r3_end_start _ _ R); eauto.
    - right. destruct J as (-> & A & _). exact A.
    - exfalso. apply (r3_skipinv _ _ R) in J. destruct (r3_invalid _ _ R j J) as [_ (d & Hin & D1 & D2)].
      specialize (Hd d Hin). destruct (r3_endres _ _ R d OOk Hd) as [[w Ew]|[Ei|[_ E2]]].
      + destruct (done_not_inflight s d R D1) as [A _]. eapply A; eauto.
      + destruct (done_not_inflight s d R D1) as [_ A]. eapply A; eauto.
      + cbn in E2. congruence.
    - left. eapply (r3_end_start _ _ R); eauto.
    - left. eapply (r3_end_start _ _ R); eauto.
  Qed.

  (* ---------- C19: the remaining bounds ---------- *)
  Lemma h2_ok_app l1 l2 : h2_ok c (l1 ++ l2) -> h2_ok c l2.
  Proof. induction l1 as [|e l1 IH]; cbn; [auto|]. intros [H _]. auto. Qed.

  Theorem report_bounds acts s post pre p r w i cc :
    run c (init c) acts = Some s -> log s = post ++ EvTick p r w i cc :: pre ->
    (0 <= w /\ p <= Z.of_nat (nsent pre) /\ w <= Z.of_nat (nsentd c pre))%Z.
  Proof.
    intros Hr Hl. pose proof (r4_hist2 _ _ (run_rinv4 c wf _ _ Hr)) as Hh. rewrite Hl in Hh.
    apply h2_ok_app in Hh. cbn in Hh. tauto.
  Qed.
End Theorems.
