(* Converse of FlowAdequacy: the fuel of the flow semantics is enough for every job that
   runs in any execution - so the semantics at fuel_of assigns an outcome (never "blocked")
   to every job that runs, and by FlowAdequacy that outcome is the job's. *)
From CffVerif Require Import FlowOpModel FlowOpProofs FlowSemProofs FlowAdequacy.

Lemma all_some_mono {A} (g h : nat -> option A) l a :
  all_some (map g l) = Some a -> (forall t v, g t = Some v -> h t = Some v) -> all_some (map h l) = Some a.
Proof.
  revert a. induction l as [|t l IH]; intros a H Hm; cbn in *; [exact H|].
  destruct (g t) as [v|] eqn:Eg; [|discriminate]. rewrite (Hm t v Eg).
  destruct (all_some (map g l)) as [r|] eqn:Er; [|discriminate]. now rewrite (IH r eq_refl Hm).
Qed.

Section Mono.
  Variable f : fflow.
  Variable sc : scenario.

  Definition nonblocked (r : tres) : Prop := forall pc, r <> RBlocked pc.

  Lemma task_step_mono tv1 tv2 k : (forall t v, tv1 t = Some v -> tv2 t = Some v) ->
    nonblocked (task_step f sc tv1 k) -> task_step f sc tv2 k = task_step f sc tv1 k.
  Proof.
    intros Hm Hn. unfold task_step in *.
    destruct (kpred (nth k (gtasks f) ktask0)) as [pins|].
    - destruct (all_some (map tv1 pins)) as [pa|] eqn:Ep; [|now elim (Hn None)].
      rewrite (all_some_mono _ _ _ _ Ep Hm).
      destruct (all_some (map tv1 (kins (nth k (gtasks f) ktask0)))) as [a|] eqn:Ea; [|now elim (Hn (Some pa))].
      now rewrite (all_some_mono _ _ _ _ Ea Hm).
    - destruct (all_some (map tv1 (kins (nth k (gtasks f) ktask0)))) as [a|] eqn:Ea; [|now elim (Hn None)].
      now rewrite (all_some_mono _ _ _ _ Ea Hm).
  Qed.

  Lemma val_step_mono tr1 tr2 t v : (forall k, nonblocked (tr1 k) -> tr2 k = tr1 k) ->
    val_step f tr1 t = Some v -> val_step f tr2 t = Some v.
  Proof.
    intros Hm H. unfold val_step in *. destruct (gprov f t) as [[k i]|]; [|exact H].
    destruct (tr1 k) as [| |outs pc tc] eqn:E; try discriminate.
    rewrite (Hm k); [now rewrite E|]. rewrite E. intros pc'. discriminate.
  Qed.

  Lemma mono_step n :
    (forall t v, tval f sc n t = Some v -> tval f sc (S n) t = Some v) /\
    (forall k, nonblocked (tresult f sc n k) -> tresult f sc (S n) k = tresult f sc n k).
  Proof.
    induction n as [|n [IHv IHr]].
    - split; [intros t v H; discriminate | intros k H; now elim (H None)].
    - assert (Hv : forall t v, tval f sc (S n) t = Some v -> tval f sc (S (S n)) t = Some v).
      { intros t v H. rewrite tval_S in *. eapply val_step_mono; eauto. }
      split; [exact Hv|]. intros k H. rewrite !tresult_S in *. apply task_step_mono; assumption.
  Qed.

  Lemma tval_mono n m t v : n <= m -> tval f sc n t = Some v -> tval f sc m t = Some v.
  Proof. induction 1 as [|m _ IH]; intros H; [exact H|]. apply (proj1 (mono_step m)). now apply IH. Qed.

  Lemma tresult_mono n m k : n <= m -> nonblocked (tresult f sc n k) -> tresult f sc m k = tresult f sc n k.
  Proof.
    induction 1 as [|m _ IH]; intros H; [reflexivity|].
    rewrite <- (IH H). apply (proj2 (mono_step m)). now rewrite (IH H).
  Qed.

  Lemma task_step_outs_len tv k outs pc tc :
    task_step f sc tv k = ROuts outs pc tc -> length outs = length (kouts (nth k (gtasks f) ktask0)).
  Proof.
    unfold task_step.
    repeat match goal with |- context [match ?x with _ => _ end] => destruct x end;
      intros H; try discriminate; injection H as <- _ _; now rewrite map_length, ?seq_length.
  Qed.
End Mono.

Lemma find_idx_lt t l : forall i0 i, find_idx t l i0 = Some i -> i - i0 < length l.
Proof.
  induction l as [|x l IH]; intros i0 i H; cbn in H; [discriminate|].
  destruct (Nat.eqb x t); [injection H as <-; cbn; lia|]. apply IH in H. cbn. lia.
Qed.

Section Complete.
  Variable f : fflow.
  Variable sc : scenario.
  Hypothesis Huniq : unique_providers f.

  Notation reach := (reach f sc).

  (* what is known about the entry at position i of the log *)
  Definition entry_ok (i : nat) (x : fid) : Prop :=
    match x with
    | FT k => nonblocked (tresult f sc (S (S (i + i))) k)
    | FP k => forall pins, kpred (taskof f k) = Some pins ->
                exists pa, all_some (map (tval f sc (S (i + i))) pins) = Some pa
    end.

  (* a provider that returned nil at an earlier position makes the value available *)
  Lemma provider_value e l1 l2 x ef t k i efk :
    reach e -> xlog e = l1 ++ (x, ef) :: l2 ->
    (forall l1' y efy l2', xlog e = l1' ++ (y, efy) :: l2' -> length l1' < length l1 -> entry_ok (length l1') y) ->
    gprov f t = Some (k, i) -> In (FT k, efk) l1 -> je_res efk = JOk ->
    exists v, tval f sc (S (length l1 + length l1)) t = Some v.
  Proof.
    intros R Hl Hprev Hg Hin Hr.
    destruct (in_split _ _ Hin) as [la [lb Hs]].
    assert (Hlen : length la < length l1) by (rewrite Hs, app_length; cbn; lia).
    assert (Hdec : xlog e = la ++ (FT k, efk) :: (lb ++ (x, ef) :: l2)).
    { rewrite Hl, Hs, <- app_assoc. reflexivity. }
    pose proof (Hprev la (FT k) efk _ Hdec Hlen) as Hok. cbn [entry_ok] in Hok.
    assert (Hink : In (FT k, efk) (xlog e)) by (rewrite Hdec; apply in_or_app; right; now left).
    destruct (sem_sound f sc Huniq (S (S (length la + length la)))) as (_ & Hres & _).
    specialize (Hres k e efk R Hink).
    destruct (tresult f sc (S (S (length la + length la))) k) as [pc|er pc tc|outs pc tc] eqn:Et.
    - now elim (Hok pc).
    - destruct Hres as [Hf _]. congruence.
    - assert (Hlo : length outs = length (kouts (taskof f k))).
      { rewrite tresult_S in Et. eapply task_step_outs_len; eauto. }
      pose proof (find_idx_lt t _ 0 i (gprov_idx f t k i Hg)) as Hlt. rewrite Nat.sub_0_r in Hlt.
      destruct (nth_error outs i) as [v|] eqn:En; [|apply nth_error_None in En; lia].
      exists v. apply (tval_mono f sc (S (S (S (length la + length la))))); [lia|].
      rewrite tval_S. unfold val_step. rewrite Hg, Et. exact En.
  Qed.

  Lemma params_value t : gprov f t = None -> forall n v, slot (store0 f) t = Some v -> tval f sc (S n) t = Some v.
  Proof.
    intros Hg n v H. rewrite tval_S. unfold val_step. rewrite Hg. cbn [store0 slot] in H. exact H.
  Qed.

  (* all inputs of a job at position |l1| are available at fuel 2|l1|+1 *)
  Lemma inputs_available e l1 l2 x ef tys : reach e -> xlog e = l1 ++ (x, ef) :: l2 ->
    (forall l1' y efy l2', xlog e = l1' ++ (y, efy) :: l2' -> length l1' < length l1 -> entry_ok (length l1') y) ->
    (forall t k i, In t tys -> gprov f t = Some (k, i) -> In (FT k) (jdeps f x)) ->
    (forall t, In t tys -> gprov f t = None -> slot (store0 f) t <> None) ->
    exists args, all_some (map (tval f sc (S (length l1 + length l1))) tys) = Some args.
  Proof.
    intros R Hl Hprev Hdeps Hpar. induction tys as [|t tys IH]; [exists []; reflexivity|].
    destruct IH as [args Ha].
    { intros t' k i Hin. apply Hdeps. now right. }
    { intros t' Hin. apply Hpar. now right. }
    assert (Hv : exists v, tval f sc (S (length l1 + length l1)) t = Some v).
    { destruct (gprov f t) as [[k i]|] eqn:Hg.
      - pose proof (Hdeps t k i (or_introl eq_refl) Hg) as Hd.
        destruct (deps_logged_before f sc Huniq e R l1 x ef l2 Hl _ Hd) as [efk [Hin Hr]].
        eapply provider_value; eauto.
      - destruct (slot (store0 f) t) as [v|] eqn:Es; [|now elim (Hpar t (or_introl eq_refl) Hg)].
        exists v. now apply params_value. }
    destruct Hv as [v Hv]. exists (v :: args). cbn [map all_some]. now rewrite Hv, Ha.
  Qed.
End Complete.

(* every type a function or cff.Results consumes has a provider or is a cff.Params type:
   what the provider walk of compileFlow guarantees ("no provider found"); decidable and
   re-evaluated on every generated flow *)
Definition has_source (f : fflow) (t : nat) : bool :=
  match gprov f t with Some _ => true | None => existsb (Nat.eqb t) (gparams f) end.

Definition all_provided_b (f : fflow) : bool :=
  forallb (fun k => forallb (has_source f) (kins (taskof f k)) &&
                    match kpred (taskof f k) with Some pins => forallb (has_source f) pins | None => true end)
          (seq 0 (length (gtasks f))) &&
  forallb (has_source f) (gresults f).

Section Complete2.
  Variable f : fflow.
  Variable sc : scenario.
  Hypothesis Huniq : unique_providers f.
  Hypothesis Hprov : all_provided_b f = true.

  Notation reach := (reach f sc).

  Lemma source_param t : has_source f t = true -> gprov f t = None -> slot (store0 f) t <> None.
  Proof.
    unfold has_source. intros H Hg. rewrite Hg in H. cbn [store0 slot]. rewrite H. discriminate.
  Qed.

  Lemma task_sources k : k < length (gtasks f) ->
    (forall t, In t (kins (taskof f k)) -> has_source f t = true) /\
    (forall pins, kpred (taskof f k) = Some pins -> forall t, In t pins -> has_source f t = true).
  Proof.
    intros Hk. unfold all_provided_b in Hprov. apply andb_true_iff in Hprov. destruct Hprov as [H _].
    rewrite forallb_forall in H. specialize (H k). rewrite andb_true_iff in H.
    destruct H as [H1 H2]; [apply in_seq; lia|]. split.
    - intros t Ht. rewrite forallb_forall in H1. now apply H1.
    - intros pins Hp t Ht. rewrite Hp in H2. rewrite forallb_forall in H2. now apply H2.
  Qed.

  Theorem entries_ok e : reach e -> forall n l1 x ef l2, length l1 = n ->
    xlog e = l1 ++ (x, ef) :: l2 -> entry_ok f sc (length l1) x.
  Proof.
    intros R n. induction n as [n IH] using lt_wf_ind. intros l1 x ef l2 Hn Hl.
    pose proof (reach_good f sc Huniq e R) as G.
    assert (Hprev : forall l1' y efy l2', xlog e = l1' ++ (y, efy) :: l2' -> length l1' < length l1 -> entry_ok f sc (length l1') y).
    { intros l1' y efy l2' Hl' Hlt. eapply (IH (length l1')); eauto. lia. }
    assert (Hx : In x (all_jobs f)).
    { apply (g_jobs f sc e G). unfold ran. rewrite Hl, map_app. apply in_or_app. right. now left. }
    destruct x as [k|k]; cbn [entry_ok].
    - apply in_all_jobs_FT in Hx. destruct (task_sources k Hx) as [Hs1 Hs2].
      destruct (inputs_available f sc Huniq e l1 l2 (FT k) ef (kins (taskof f k)) R Hl Hprev) as [args Ha].
      { intros t k' i Ht Hg. cbn [jdeps]. apply in_or_app. left. eapply in_prov_jobs; eauto. }
      { intros t Ht Hg. apply source_param; auto. }
      rewrite tresult_S. unfold task_step. fold (taskof f k). rewrite Ha.
      destruct (kpred (taskof f k)) as [pins|] eqn:Hp.
      + (* the predicate job ran earlier: its inputs were available then, hence now *)
        assert (Hd : In (FP k) (jdeps f (FT k))).
        { cbn [jdeps]. rewrite Hp. apply in_or_app. right. now left. }
        destruct (deps_logged_before f sc Huniq e R l1 (FT k) ef l2 Hl _ Hd) as [efp [Hin _]].
        destruct (in_split _ _ Hin) as [la [lb Hsp]].
        assert (Hlen : length la < length l1) by (rewrite Hsp, app_length; cbn; lia).
        assert (Hdec : xlog e = la ++ (FP k, efp) :: (lb ++ (FT k, ef) :: l2)).
        { rewrite Hl, Hsp, <- app_assoc. reflexivity. }
        destruct (Hprev la (FP k) efp _ Hdec Hlen pins Hp) as [pa Hpa].
        rewrite (all_some_mono _ (tval f sc (S (length l1 + length l1))) _ _ Hpa).
        2:{ intros t v Hv. eapply tval_mono; [|exact Hv]. lia. }
        intros pc. destruct (sc_pred sc k); [destruct (sc_task sc k)| |]; try destruct (kfallback (taskof f k)); discriminate.
      + intros pc. destruct (sc_task sc k); try destruct (kfallback (taskof f k)); discriminate.
    - intros pins Hp. destruct (in_all_jobs_FP f k Hx) as [Hk _]. destruct (task_sources k Hk) as [_ Hs2].
      apply (inputs_available f sc Huniq e l1 l2 (FP k) ef pins R Hl Hprev).
      + intros t k' i Ht Hg. cbn [jdeps]. rewrite Hp. eapply in_prov_jobs; eauto.
      + intros t Ht Hg. apply source_param; eauto.
  Qed.

  Lemma all_jobs_len : length (all_jobs f) <= 2 * length (gtasks f).
  Proof.
    unfold all_jobs. generalize (seq 0 (length (gtasks f))) (seq_length (length (gtasks f)) 0).
    intros l. generalize (length (gtasks f)). induction l as [|a l IH]; intros n Hl; cbn [flat_map length] in *; [lia|].
    destruct n; [discriminate|]. injection Hl as Hl. rewrite app_length. specialize (IH n Hl).
    destruct (kpred (taskof f a)); cbn [length].
    - apply (Nat.le_trans _ (2 + 2 * n)); [apply Nat.add_le_mono_l; exact IH | lia].
    - apply (Nat.le_trans _ (1 + 2 * n)); [apply Nat.add_le_mono_l; exact IH | lia].
  Qed.

  (* the semantics at fuel_of assigns an outcome to every job that runs - and by
     FlowAdequacy.sem_sound that outcome is the job's *)
  Theorem sem_complete e k ef : reach e -> In (FT k, ef) (xlog e) ->
    nonblocked (tresult f sc (fuel_of f) k).
  Proof.
    intros R Hin. pose proof (reach_good f sc Huniq e R) as G.
    destruct (in_split _ _ Hin) as [l1 [l2 Hl]].
    pose proof (entries_ok e R (length l1) l1 (FT k) ef l2 eq_refl Hl) as Hok. cbn [entry_ok] in Hok.
    assert (Hlen : length (xlog e) <= length (all_jobs f)).
    { rewrite <- (map_length fst). apply NoDup_incl_length; [apply (g_nodup f sc e G)|].
      intros y Hy. now apply (g_jobs f sc e G). }
    pose proof all_jobs_len as Hj. rewrite Hl, app_length in Hlen. cbn [length] in Hlen.
    intros pc Hb. apply (Hok pc). rewrite <- Hb. symmetry.
    apply tresult_mono; [unfold fuel_of; lia | exact Hok].
  Qed.

  Theorem semantics_is_the_generated_code e k ef : reach e -> In (FT k, ef) (xlog e) ->
    match tresult f sc (fuel_of f) k with
    | RBlocked _ => False
    | ROuts outs _ tc => je_res ef = JOk /\ je_outs ef = Some outs /\ je_calls ef = call_of k tc
    | RFail er _ tc => je_res ef = JFail er /\ je_calls ef = call_of k tc
    end.
  Proof.
    intros R Hin. pose proof (sem_complete e k ef R Hin) as Hn.
    destruct (sem_sound f sc Huniq (fuel_of f)) as (_ & Hr & _). specialize (Hr k e ef R Hin).
    destruct (tresult f sc (fuel_of f) k) as [pc| |]; [now elim (Hn pc) | exact Hr | exact Hr].
  Qed.
End Complete2.
