(* Layer 2, operational: the program cff generates for a Flow, as the scheduler sees it.
   One job per task function and one per predicate function, each with the Dependencies
   list the generator prints; the jobs communicate through one variable per type (v<hash>)
   and one flag per predicate (p<hash>, p<hash>PanicRecover), exactly as in
   internal/templates/flow/{task,predicate,flow}.go.tmpl. A schedule is any order in which
   the scheduler may run the jobs; Layer 0 proves which orders those are (C01, C07).
   Definitions only. *)
From CffVerif Require Export FlowSemModel.

Inductive fid := FT (k : nat) | FP (k : nat).

Definition fid_eqb (a b : fid) : bool :=
  match a, b with
  | FT x, FT y => Nat.eqb x y
  | FP x, FP y => Nat.eqb x y
  | _, _ => false
  end.

Definition taskof (f : fflow) (k : nat) : ftask := nth k (gtasks f) ktask0.

(* the provider jobs of a list of types: Params have none (compile.go, scheduleFlowAndToposort) *)
Definition prov_jobs (f : fflow) (tys : list nat) : list fid :=
  flat_map (fun t => match gprov f t with Some (k, _) => [FT k] | None => [] end) tys.

(* Dependencies: of the job of a function *)
Definition jdeps (f : fflow) (x : fid) : list fid :=
  match x with
  | FT k => prov_jobs f (kins (taskof f k)) ++
            match kpred (taskof f k) with Some _ => [FP k] | None => [] end
  | FP k => match kpred (taskof f k) with Some pins => prov_jobs f pins | None => [] end
  end.

Definition all_jobs (f : fflow) : list fid :=
  flat_map (fun k => match kpred (taskof f k) with Some _ => [FP k; FT k] | None => [FT k] end)
           (seq 0 (length (gtasks f))).

(* the variables the jobs share *)
Record store := {
  slot : nat -> option term;        (* v<type>: None = not assigned yet *)
  pflag : nat -> bool;              (* p<pred>: the predicate returned true *)
  ppanic : nat -> bool              (* p<pred>PanicRecover != nil *)
}.

Definition upd {A} (g : nat -> A) (k : nat) (v : A) : nat -> A :=
  fun x => if Nat.eqb x k then v else g x.

Fixpoint write_outs (sl : nat -> option term) (tys : list nat) (vs : list term) : nat -> option term :=
  match tys, vs with
  | t :: tr, v :: vr => write_outs (upd sl t (Some v)) tr vr
  | _, _ => sl
  end.

Definition store0 (f : fflow) : store :=
  {| slot := fun t => if existsb (Nat.eqb t) (gparams f) then Some (TmParam t) else None;
     pflag := fun _ => false; ppanic := fun _ => false |}.

(* a user function call as the harness sees it: predicate?, task, the arguments read
   from the variables (None: a variable read before anything was assigned to it) *)
Definition call := (bool * nat * list (option term))%type.

Inductive jres := JOk | JFail (e : ferr).

Definition known (l : list (option term)) : list term :=
  flat_map (fun o => match o with Some v => [v] | None => [] end) l.

Section Op.
  Variable f : fflow.
  Variable sc : scenario.

  Definition set_outs (st : store) (k : nat) (vs : list term) : store :=
    {| slot := write_outs (slot st) (kouts (taskof f k)) vs; pflag := pflag st; ppanic := ppanic st |}.

  Definition fallback_vals (k : nat) : list term :=
    map (fun i => TmFall k i) (seq 0 (length (kouts (taskof f k)))).
  Definition zero_vals (k : nat) : list term := map (fun _ => TmZero) (kouts (taskof f k)).

  (* the run closure of a job *)
  Definition run_job (st : store) (x : fid) : store * list call * jres :=
    match x with
    | FP k =>
        match kpred (taskof f k) with
        | None => (st, [], JOk)
        | Some pins =>
            let args := map (slot st) pins in
            match sc_pred sc k with
            | PTRUE => ({| slot := slot st; pflag := upd (pflag st) k true; ppanic := ppanic st |}, [(true, k, args)], JOk)
            | PFALSE => (st, [(true, k, args)], JOk)
            | PPANIC => ({| slot := slot st; pflag := pflag st; ppanic := upd (ppanic st) k true |}, [(true, k, args)], JOk)
            end
        end
    | FT k =>
        let tk := taskof f k in
        let has_pred := match kpred tk with Some _ => true | None => false end in
        if has_pred && ppanic st k then
          (* "if !p { return nil }", then the deferred handler finds p..PanicRecover *)
          if kfallback tk then (set_outs st k (fallback_vals k), [], JOk)
          else (st, [], JFail (FPredPanic k))
        else if has_pred && negb (pflag st k) then
          (* the outputs keep their zero values *)
          (set_outs st k (zero_vals k), [], JOk)
        else
          let args := map (slot st) (kins tk) in
          match sc_task sc k with
          | OOK => (set_outs st k (map (fun i => TmOut k i (known args)) (seq 0 (length (kouts tk)))),
                    [(false, k, args)], JOk)
          | OERR => if kfallback tk then (set_outs st k (fallback_vals k), [(false, k, args)], JOk)
                    else (st, [(false, k, args)], JFail (FErr k))
          | OPANIC => if kfallback tk then (set_outs st k (fallback_vals k), [(false, k, args)], JOk)
                      else (st, [(false, k, args)], JFail (FPanic k))
          end
    end.

  (* the state of an execution: variables, calls made, jobs that returned nil, failures *)
  Record exec := { xstore : store; xcalls : list call; xok : list fid; xfail : list (fid * ferr) }.

  Definition exec0 : exec := {| xstore := store0 f; xcalls := []; xok := []; xfail := [] |}.

  Definition step (e : exec) (x : fid) : exec :=
    match run_job (xstore e) x with
    | (st, cs, JOk) => {| xstore := st; xcalls := xcalls e ++ cs; xok := xok e ++ [x]; xfail := xfail e |}
    | (st, cs, JFail er) => {| xstore := st; xcalls := xcalls e ++ cs; xok := xok e; xfail := xfail e ++ [(x, er)] |}
    end.

  Definition run (sch : list fid) : exec := fold_left step sch exec0.

  Definition ran (e : exec) : list fid := xok e ++ map fst (xfail e).

  (* the scheduler runs a job only once, only after every dependency returned nil
     (Layer 0: C01_order_once, C07_downstream) *)
  Definition may_run (e : exec) (x : fid) : bool :=
    existsb (fid_eqb x) (all_jobs f) && negb (existsb (fid_eqb x) (ran e)) &&
    forallb (fun d => existsb (fid_eqb d) (xok e)) (jdeps f x).

  Fixpoint valid_from (e : exec) (sch : list fid) : bool :=
    match sch with
    | [] => true
    | x :: r => may_run e x && valid_from (step e x) r
    end.
  Definition valid (sch : list fid) : bool := valid_from exec0 sch.

  (* what the directive returns and leaves in the Results targets *)
  Definition flow_error (e : exec) : list ferr := map snd (xfail e).
  Definition results (e : exec) : option (list (option term)) :=
    match xfail e with [] => Some (map (slot (xstore e)) (gresults f)) | _ => None end.

  (* a canonical schedule: repeatedly run the first job that may run; stop at a failure *)
  Fixpoint canon (fuel : nat) (e : exec) : list fid :=
    match fuel with
    | 0 => []
    | S n =>
        match xfail e with
        | _ :: _ => []
        | [] => match find (may_run e) (all_jobs f) with
                | Some x => x :: canon n (step e x)
                | None => []
                end
        end
    end.
  Definition canonical : list fid := canon (length (all_jobs f)) exec0.
  Definition complete (e : exec) : bool :=
    forallb (fun x => existsb (fid_eqb x) (xok e)) (all_jobs f).
End Op.
