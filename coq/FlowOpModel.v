(* Layer 2, operational: the program cff generates for a Flow, as the scheduler sees it.
   One job per task function and one per predicate function, each with the Dependencies
   list the generator prints; the jobs communicate through one variable per type (v<hash>)
   and one flag per predicate (p<hash>, p<hash>PanicRecover), exactly as in
   internal/templates/flow/{task,predicate,flow}.go.tmpl. A schedule is any order in which
   the scheduler may run the jobs; Layer 0 proves which orders those are (C01, C07).
   Definitions only. *)
From CffVerif Require Export FlowSemModel.

Inductive fid := FT (k : nat) | FP (k : nat).

Definition fid_eqb (a b : fid) : bool :=
  match a, b with
  | FT x, FT y => Nat.eqb x y
  | FP x, FP y => Nat.eqb x y
  | _, _ => false
  end.

Definition taskof (f : fflow) (k : nat) : ftask := nth k (gtasks f) ktask0.

(* the provider jobs of a list of types: Params have none (compile.go, scheduleFlowAndToposort) *)
Definition prov_jobs (f : fflow) (tys : list nat) : list fid :=
  flat_map (fun t => match gprov f t with Some (k, _) => [FT k] | None => [] end) tys.

(* Dependencies: of the job of a function *)
Definition jdeps (f : fflow) (x : fid) : list fid :=
  match x with
  | FT k => prov_jobs f (kins (taskof f k)) ++
            match kpred (taskof f k) with Some _ => [FP k] | None => [] end
  | FP k => match kpred (taskof f k) with Some pins => prov_jobs f pins | None => [] end
  end.

Definition all_jobs (f : fflow) : list fid :=
  flat_map (fun k => match kpred (taskof f k) with Some _ => [FP k; FT k] | None => [FT k] end)
           (seq 0 (length (gtasks f))).

(* the variables the jobs share *)
Record store := {
  slot : nat -> option term;        (* v<type>: None = not assigned yet *)
  pflag : nat -> bool;              (* p<pred>: the predicate returned true *)
  ppanic : nat -> bool              (* p<pred>PanicRecover != nil *)
}.

Definition upd {A} (g : nat -> A) (k : nat) (v : A) : nat -> A :=
  fun x => if Nat.eqb x k then v else g x.

Fixpoint assoc (t : nat) (l : list (nat * term)) : option term :=
  match l with
  | [] => None
  | (a, v) :: r => if Nat.eqb a t then Some v else assoc t r
  end.

(* "v1, v2, err = f(...)": the output variables receive the values, the rest is untouched *)
Definition write_outs (sl : nat -> option term) (tys : list nat) (vs : list term) : nat -> option term :=
  fun t => match assoc t (combine tys vs) with Some v => Some v | None => sl t end.

Definition store0 (f : fflow) : store :=
  {| slot := fun t => if existsb (Nat.eqb t) (gparams f) then Some (TmParam t) else None;
     pflag := fun _ => false; ppanic := fun _ => false |}.

(* a user function call as the harness sees it: predicate?, task, the arguments read
   from the variables (None: a variable read before anything was assigned to it) *)
Definition call := (bool * nat * list (option term))%type.

Inductive jres := JOk | JFail (e : ferr).

(* events a task's emitter receives while the job runs (templates/flow/task.go.tmpl) *)
Inductive tev := EvSuccess | EvError (e : ferr) | EvErrorRecovered (e : ferr)
               | EvPanic (e : ferr) | EvPanicRecovered (e : ferr) | EvDone.

Definition known (l : list (option term)) : list term :=
  flat_map (fun o => match o with Some v => [v] | None => [] end) l.

Section Op.
  Variable f : fflow.
  Variable sc : scenario.

  Definition set_outs (st : store) (k : nat) (vs : list term) : store :=
    {| slot := write_outs (slot st) (kouts (taskof f k)) vs; pflag := pflag st; ppanic := ppanic st |}.

  Definition fallback_vals (k : nat) : list term :=
    map (fun i => TmFall k i) (seq 0 (length (kouts (taskof f k)))).
  Definition zero_vals (k : nat) : list term := map (fun _ => TmZero) (kouts (taskof f k)).

  (* what the run closure of a job does, as a function of the variables it reads *)
  Record jeff := {
    je_outs : option (list term);      (* values assigned to the task's output variables *)
    je_flag : bool; je_panic : bool;   (* predicate job: p = true / pPanicRecover set *)
    je_calls : list call;              (* user functions called *)
    je_events : list tev;              (* what the task's emitter is told, in order *)
    je_res : jres                      (* what the job returns to the scheduler *)
  }.

  Definition job_sem (st : store) (x : fid) : jeff :=
    match x with
    | FP k =>
        match kpred (taskof f k) with
        | None => {| je_outs := None; je_flag := false; je_panic := false; je_calls := []; je_events := []; je_res := JOk |}
        | Some pins =>
            let args := map (slot st) pins in
            {| je_outs := None;
               je_flag := match sc_pred sc k with PTRUE => true | _ => false end;
               je_panic := match sc_pred sc k with PPANIC => true | _ => false end;
               je_calls := [(true, k, args)]; je_events := []; je_res := JOk |}
        end
    | FT k =>
        let tk := taskof f k in
        let has_pred := match kpred tk with Some _ => true | None => false end in
        let mk o c ev r := {| je_outs := o; je_flag := false; je_panic := false; je_calls := c; je_events := ev; je_res := r |} in
        if has_pred && ppanic st k then
          (* "if !p { return nil }", then the deferred handler finds p..PanicRecover *)
          if kfallback tk then mk (Some (fallback_vals k)) [] [EvPanicRecovered (FPredPanic k)] JOk
          else mk None [] [EvPanic (FPredPanic k)] (JFail (FPredPanic k))
        else if has_pred && negb (pflag st k) then
          (* the outputs keep their zero values *)
          mk (Some (zero_vals k)) [] [] JOk
        else
          let args := map (slot st) (kins tk) in
          match sc_task sc k with
          | OOK => mk (Some (map (fun i => TmOut k i (known args)) (seq 0 (length (kouts tk))))) [(false, k, args)]
                      [EvSuccess; EvDone] JOk
          | OERR => if kfallback tk then mk (Some (fallback_vals k)) [(false, k, args)] [EvErrorRecovered (FErr k); EvDone] JOk
                    else mk None [(false, k, args)] [EvError (FErr k); EvDone] (JFail (FErr k))
          | OPANIC => if kfallback tk then mk (Some (fallback_vals k)) [(false, k, args)] [EvPanicRecovered (FPanic k); EvDone] JOk
                      else mk None [(false, k, args)] [EvPanic (FPanic k); EvDone] (JFail (FPanic k))
          end
    end.

  Definition apply_eff (st : store) (x : fid) (ef : jeff) : store :=
    match x with
    | FT k => match je_outs ef with Some vs => set_outs st k vs | None => st end
    | FP k => {| slot := slot st;
                 pflag := if je_flag ef then upd (pflag st) k true else pflag st;
                 ppanic := if je_panic ef then upd (ppanic st) k true else ppanic st |}
    end.

  Definition is_ok (r : jres) : bool := match r with JOk => true | JFail _ => false end.

  (* the state of an execution: variables, what each job that ran did, jobs that returned nil *)
  Record exec := { xstore : store; xlog : list (fid * jeff); xok : list fid }.

  Definition exec0 : exec := {| xstore := store0 f; xlog := []; xok := [] |}.

  Definition step (e : exec) (x : fid) : exec :=
    let ef := job_sem (xstore e) x in
    {| xstore := apply_eff (xstore e) x ef;
       xlog := xlog e ++ [(x, ef)];
       xok := if is_ok (je_res ef) then xok e ++ [x] else xok e |}.

  Definition run (sch : list fid) : exec := fold_left step sch exec0.

  Definition ran (e : exec) : list fid := map fst (xlog e).
  Definition xcalls (e : exec) : list call := flat_map (fun p => je_calls (snd p)) (xlog e).
  Definition xfail (e : exec) : list ferr :=
    flat_map (fun p => match je_res (snd p) with JFail er => [er] | JOk => [] end) (xlog e).

  (* the scheduler runs a job only once, only after every dependency returned nil
     (Layer 0: C01_order_once, C07_downstream) *)
  Definition may_run (e : exec) (x : fid) : bool :=
    existsb (fid_eqb x) (all_jobs f) && negb (existsb (fid_eqb x) (ran e)) &&
    forallb (fun d => existsb (fid_eqb d) (xok e)) (jdeps f x).

  Fixpoint valid_from (e : exec) (sch : list fid) : bool :=
    match sch with
    | [] => true
    | x :: r => may_run e x && valid_from (step e x) r
    end.
  Definition valid (sch : list fid) : bool := valid_from exec0 sch.

  (* what the directive returns and leaves in the Results targets *)
  Definition flow_error (e : exec) : list ferr := xfail e.
  Definition results (e : exec) : option (list (option term)) :=
    match xfail e with [] => Some (map (slot (xstore e)) (gresults f)) | _ => None end.

  (* the events of the whole directive (templates/flow/flow.go.tmpl): what the tasks'
     emitters were told while the jobs ran, then the flow's outcome, then - from the
     deferred functions - TaskSkipped for every task whose function was not invoked, and
     FlowDone last. ret is the error the directive returns. *)
  Inductive fev := FvTask (k : nat) (t : tev) | FvSkipped (k : nat)
                 | FvSuccess | FvError (e : ferr) | FvDone.

  Definition invoked (e : exec) (k : nat) : bool :=
    existsb (fun p => match fst p with
                      | FT k' => Nat.eqb k' k && match je_calls (snd p) with [] => false | _ => true end
                      | FP _ => false
                      end) (xlog e).

  Definition flow_events (e : exec) (ret : option ferr) : list fev :=
    flat_map (fun p => match fst p with FT k => map (FvTask k) (je_events (snd p)) | FP _ => [] end) (xlog e)
    ++ [match ret with None => FvSuccess | Some er => FvError er end]
    ++ map FvSkipped (filter (fun k => negb (invoked e k)) (seq 0 (length (gtasks f))))
    ++ [FvDone].

  (* a canonical schedule: repeatedly run the first job that may run; stop at a failure *)
  Fixpoint canon (fuel : nat) (e : exec) : list fid :=
    match fuel with
    | 0 => []
    | S n =>
        match xfail e with
        | _ :: _ => []
        | [] => match find (may_run e) (all_jobs f) with
                | Some x => x :: canon n (step e x)
                | None => []
                end
        end
    end.
  Definition canonical : list fid := canon (length (all_jobs f)) exec0.
  Definition complete (e : exec) : bool :=
    forallb (fun x => existsb (fid_eqb x) (xok e)) (all_jobs f).
End Op.
