From CffVerif Require Import EmitterSessionModel EmitterProofs.

Definition mine (i : nat) (k : list (nat * nat)) := filter (fun p => Nat.eqb i (fst p)) k.

Lemma init_all_other ls : forall cnt i, count_occ Nat.eq_dec ls i = 0 ->
  fst (init_all ls cnt) i = cnt i /\ mine i (snd (init_all ls cnt)) = [].
Proof.
  induction ls as [|a ls IH]; intros cnt i H; cbn [init_all]; [now split|].
  cbn [count_occ] in H. destruct (Nat.eq_dec a i) as [->|Hne]; [discriminate|].
  destruct (init_all ls (upd cnt a (S (cnt a)))) as [c' k] eqn:Ei.
  destruct (IH (upd cnt a (S (cnt a))) i H) as [H1 H2]. rewrite Ei in H1, H2. cbn [fst snd] in *.
  split.
  - rewrite H1. unfold upd. destruct (Nat.eqb_spec i a) as [->|_]; [now elim Hne|reflexivity].
  - unfold mine in *. cbn [filter fst]. destruct (Nat.eqb_spec i a) as [->|_]; [now elim Hne|exact H2].
Qed.

Lemma init_all_once ls : forall cnt i, count_occ Nat.eq_dec ls i = 1 ->
  fst (init_all ls cnt) i = S (cnt i) /\ mine i (snd (init_all ls cnt)) = [(i, cnt i)].
Proof.
  induction ls as [|a ls IH]; intros cnt i H; cbn [init_all]; [discriminate|].
  cbn [count_occ] in H.
  destruct (init_all ls (upd cnt a (S (cnt a)))) as [c' k] eqn:Ei.
  destruct (Nat.eq_dec a i) as [->|Hne].
  - injection H as H. destruct (init_all_other ls (upd cnt i (S (cnt i))) i H) as [H1 H2].
    rewrite Ei in H1, H2. cbn [fst snd] in *. split.
    + rewrite H1. unfold upd. now rewrite Nat.eqb_refl.
    + unfold mine in *. cbn [filter fst]. rewrite Nat.eqb_refl. now rewrite H2.
  - destruct (IH (upd cnt a (S (cnt a))) i H) as [H1 H2]. rewrite Ei in H1, H2. cbn [fst snd] in *.
    assert (Hu : upd cnt a (S (cnt a)) i = cnt i).
    { unfold upd. destruct (Nat.eqb_spec i a) as [->|_]; [now elim Hne|reflexivity]. }
    rewrite Hu in H1, H2. split; [exact H1|].
    unfold mine in *. cbn [filter fst]. destruct (Nat.eqb_spec i a) as [->|_]; [now elim Hne|exact H2].
Qed.

Lemma sees_app {E} i (a b : list (nat * sop E)) : sees i (a ++ b) = sees i a ++ sees i b.
Proof. unfold sees. now rewrite filter_app, map_app. Qed.

Lemma sees_init {E} i ls (info : E) :
  sees i (map (fun j => (j, SInit info)) ls) = repeat (SInit info) (count_occ Nat.eq_dec ls i).
Proof.
  unfold sees. induction ls as [|a ls IH]; [reflexivity|]. cbn [map filter fst count_occ].
  destruct (Nat.eq_dec a i) as [->|Hne].
  - rewrite Nat.eqb_refl. cbn. now rewrite IH.
  - destruct (Nat.eqb_spec i a) as [->|_]; [now elim Hne|exact IH].
Qed.

Lemma sees_ev {E} i (e : E) k :
  sees i (map (fun p => (fst p, SEv (snd p) e)) k) = map (fun p => SEv (snd p) e) (mine i k).
Proof.
  unfold sees, mine. induction k as [|[j hj] k IH]; [reflexivity|]. cbn [map filter fst snd].
  destruct (Nat.eqb i j); cbn [map snd]; now rewrite IH.
Qed.

(* the states of the stack and of emitter i used alone, related *)
Definition srel (i : nat) (s s1 : sstate) : Prop :=
  s_cnt s i = s_cnt s1 i /\ map (mine i) (s_kids s) = s_kids s1.

Lemma mine_idem i k : mine i (mine i k) = mine i k.
Proof.
  unfold mine. induction k as [|p k IH]; [reflexivity|]. cbn [filter].
  destruct (Nat.eqb i (fst p)) eqn:Ep; [cbn [filter]; rewrite Ep; now rewrite IH|exact IH].
Qed.

Lemma mine_single i c : mine i [(i, c)] = [(i, c)].
Proof. unfold mine. cbn. now rewrite Nat.eqb_refl. Qed.

Lemma srun_alone {E} ls i (ops : list (sop E)) : count_occ Nat.eq_dec ls i = 1 ->
  forall s s1, srel i s s1 -> sees i (srun ls s ops) = sees i (srun [i] s1 ops).
Proof.
  intros Hocc. induction ops as [|o ops IH]; intros s s1 [Hc Hk]; [reflexivity|].
  cbn [srun]. destruct o as [info|h e]; cbn [sstep].
  - destruct (init_all ls (s_cnt s)) as [c' k] eqn:Ei.
    destruct (init_all [i] (s_cnt s1)) as [c1 k1] eqn:E1.
    rewrite !sees_app, !sees_init, Hocc. cbn [count_occ]. destruct (Nat.eq_dec i i) as [_|Hn]; [|now elim Hn].
    f_equal. apply IH.
    destruct (init_all_once ls (s_cnt s) i Hocc) as [H1 H2]. rewrite Ei in H1, H2. cbn [fst snd] in H1, H2.
    cbn [init_all] in E1. injection E1 as <- <-.
    split; cbn [s_cnt s_kids].
    + rewrite H1. unfold upd. rewrite Nat.eqb_refl. now rewrite Hc.
    + rewrite map_app. cbn [map]. rewrite H2, Hk, Hc. reflexivity.
  - rewrite !sees_app, !sees_ev. f_equal; [|apply IH; now split].
    rewrite <- Hk. change (@nil (nat * nat)) with (mine i []) at 2. rewrite map_nth.
    now rewrite mine_idem.
Qed.

Lemma nth_map_seq {A} (F : nat -> A) d n h : h < n -> nth h (map F (seq 0 n)) d = F h.
Proof.
  intros H. rewrite (nth_indep _ d (F 0)) by (rewrite map_length, seq_length; exact H).
  rewrite map_nth, seq_nth by exact H. reflexivity.
Qed.

(* alone, on a session that uses children only after creating them, an emitter sees the
   session itself: its n-th child is the combination's n-th child *)
Lemma srun_single {E} i (ops : list (sop E)) : forall s,
  s_kids s = map (fun h => [(i, h)]) (seq 0 (s_cnt s i)) ->
  swf (s_cnt s i) ops = true -> srun [i] s ops = map (fun o => (i, o)) ops.
Proof.
  induction ops as [|o ops IH]; intros s Hk Hwf; [reflexivity|].
  cbn [srun map]. destruct o as [info|h e]; cbn [sstep swf] in *.
  - cbn [init_all map app]. f_equal. apply IH; cbn [s_cnt s_kids]; unfold upd; rewrite Nat.eqb_refl.
    + rewrite seq_S, map_app, Hk. reflexivity.
    + exact Hwf.
  - apply andb_prop in Hwf as [Hh Hwf]. apply Nat.ltb_lt in Hh.
    rewrite Hk. rewrite (nth_map_seq (fun h => [(i, h)]) [] _ _ Hh). cbn [map app fst snd]. f_equal.
    apply IH; [rewrite Hk; reflexivity|exact Hwf].
Qed.

(* ---- the statements used by props/C18.v ---- *)
Theorem session_alone {E} t (ops : list (sop E)) i :
  count_occ Nat.eq_dec (leaves t) i = 1 ->
  sees i (session (build t) ops) = sees i (session (VOne (ALeaf i)) ops).
Proof.
  intros H. unfold session. rewrite deliver_build. change (deliver (VOne (ALeaf i))) with [i].
  apply srun_alone; [exact H|]. now split.
Qed.

Theorem session_single {E} (ops : list (sop E)) i :
  swf 0 ops = true -> session (VOne (ALeaf i)) ops = map (fun o => (i, o)) ops.
Proof.
  intros H. unfold session. change (deliver (VOne (ALeaf i))) with [i].
  apply srun_single; [reflexivity|exact H].
Qed.

Theorem session_sees_itself {E} t (ops : list (sop E)) i :
  count_occ Nat.eq_dec (leaves t) i = 1 -> swf 0 ops = true ->
  sees i (session (build t) ops) = ops.
Proof.
  intros H Hwf. rewrite (session_alone t ops i H), (session_single ops i Hwf).
  clear Hwf H. unfold sees. induction ops as [|o ops IH]; [reflexivity|]. cbn [map filter fst].
  rewrite Nat.eqb_refl. cbn [map snd]. now rewrite IH.
Qed.

(* an emitter that does not occur in the expression sees nothing at all *)
Lemma srun_absent {E} ls i (ops : list (sop E)) : count_occ Nat.eq_dec ls i = 0 ->
  forall s, Forall (fun k => mine i k = []) (s_kids s) -> sees i (srun ls s ops) = [].
Proof.
  intros Hocc. induction ops as [|o ops IH]; intros s Hk; [reflexivity|].
  cbn [srun]. destruct o as [info|h e]; cbn [sstep].
  - destruct (init_all ls (s_cnt s)) as [c' k] eqn:Ei.
    rewrite sees_app, sees_init, Hocc. cbn [repeat app]. apply IH. cbn [s_kids].
    apply Forall_app. split; [exact Hk|]. constructor; [|constructor].
    pose proof (proj2 (init_all_other ls (s_cnt s) i Hocc)) as H2. now rewrite Ei in H2.
  - rewrite sees_app, sees_ev, (IH s Hk), app_nil_r.
    assert (Hn : mine i (nth h (s_kids s) []) = []).
    { destruct (Nat.lt_ge_cases h (length (s_kids s))) as [Hlt|Hge].
      - exact (proj1 (Forall_forall _ _) Hk _ (nth_In _ _ Hlt)).
      - now rewrite (nth_overflow _ _ Hge). }
    now rewrite Hn.
Qed.

Theorem session_absent {E} t (ops : list (sop E)) i :
  count_occ Nat.eq_dec (leaves t) i = 0 -> sees i (session (build t) ops) = [].
Proof.
  intros H. unfold session. rewrite deliver_build. apply srun_absent; [exact H|constructor].
Qed.

(* the whole log is made of calls on user emitters of the expression: Init calls reach
   every one of them in order, and nothing is invented *)
Theorem session_inits {E} t (ops : list (sop E)) :
  forall i o, In (i, o) (session (build t) ops) -> In i (leaves t).
Proof.
  intros i o Hin. destruct (in_dec Nat.eq_dec i (leaves t)) as [Hi|Hni]; [exact Hi|exfalso].
  pose proof (session_absent t ops i (proj1 (count_occ_not_In Nat.eq_dec _ _) Hni)) as Hs.
  unfold sees in Hs. apply map_eq_nil in Hs.
  assert (Hf : In (i, o) (filter (fun p => Nat.eqb i (fst p)) (session (build t) ops))).
  { apply filter_In. split; [exact Hin|]. cbn. apply Nat.eqb_refl. }
  rewrite Hs in Hf. exact Hf.
Qed.

(* every Init call on the combination reaches emitter i once per occurrence, whatever i *)
Definition is_init {E} (o : sop E) : bool := match o with SInit _ => true | SEv _ _ => false end.

Lemma srun_init_count {E} ls i (ops : list (sop E)) : forall s,
  length (filter is_init (sees i (srun ls s ops))) = count_occ Nat.eq_dec ls i * length (filter is_init ops).
Proof.
  induction ops as [|o ops IH]; intros s; [cbn; lia|].
  cbn [srun]. destruct o as [info|h e]; cbn [sstep].
  - destruct (init_all ls (s_cnt s)) as [c' k].
    rewrite sees_app, filter_app, app_length, IH, sees_init. cbn [filter is_init length].
    assert (Hr : forall n, length (filter is_init (repeat (SInit info) n)) = n).
    { induction n as [|n IHn]; [reflexivity|]. cbn [repeat filter is_init length]. now rewrite IHn. }
    rewrite Hr. lia.
  - rewrite sees_app, filter_app, app_length, IH, sees_ev. cbn [filter is_init].
    assert (Hm : forall l : list (nat * nat), filter is_init (map (fun p => SEv (snd p) e) l) = []).
    { induction l as [|p l IHl]; [reflexivity|]. cbn [map filter is_init]. exact IHl. }
    rewrite Hm. cbn [length]. lia.
Qed.

Theorem session_init_count {E} t (ops : list (sop E)) i :
  length (filter is_init (sees i (session (build t) ops))) =
  count_occ Nat.eq_dec (leaves t) i * length (filter is_init ops).
Proof. unfold session. rewrite deliver_build. apply srun_init_count. Qed.

(* non-vacuity: a nested expression with a shared leaf and a session with two children *)
Example session_example :
  let t := EStack [ELeaf 1; EStack [ENop; ELeaf 2; EStack [ELeaf 3]]; ELeaf 4] in
  let ops := [SInit 10; SInit 11; SEv 1 7; SEv 0 8; SInit 12; SEv 2 9] in
  count_occ Nat.eq_dec (leaves t) 3 = 1 /\ swf 0 ops = true /\
  sees 3 (session (build t) ops) = ops /\
  length (session (build t) ops) = 24.
Proof. vm_compute. repeat split. Qed.
