(* List lemmas and inversion lemmas for the scheduler model. *)
From CffVerif Require Import SchedModel.

(* ---------- upd / nth ---------- *)
Section Upd.
  Context {A : Type}.
  Implicit Types (l : list A) (f : A -> A).

  Lemma upd_length n f l : length (upd n f l) = length l.
  Proof. revert n; induction l as [|x l IH]; intros [|n]; cbn; auto. Qed.

  Lemma nth_upd_eq n f l d : n < length l -> nth n (upd n f l) d = f (nth n l d).
  Proof.
    revert n; induction l as [|x l IH]; intros [|n] H; cbn in *; try lia; auto.
    apply IH; lia.
  Qed.

  Lemma nth_upd_neq n m f l d : n <> m -> nth m (upd n f l) d = nth m l d.
  Proof.
    revert n m; induction l as [|x l IH]; intros [|n] [|m] H; cbn; auto; try congruence.
  Qed.

  Lemma upd_oob n f l : length l <= n -> upd n f l = l.
  Proof.
    revert n; induction l as [|x l IH]; intros [|n] H; cbn in *; auto; try lia.
    f_equal. apply IH. lia.
  Qed.

  Lemma nth_upd n m f l d :
    nth m (upd n f l) d = if (Nat.eqb n m) && (n <? length l) then f (nth m l d) else nth m l d.
  Proof.
    destruct (Nat.eqb_spec n m) as [->|Hne]; cbn [andb].
    - destruct (Nat.ltb_spec m (length l)).
      + now apply nth_upd_eq.
      + now rewrite upd_oob.
    - now apply nth_upd_neq.
  Qed.
End Upd.

Lemma nth_repeat_lt {A} (a d : A) m k : k < m -> nth k (repeat a m) d = a.
Proof. revert k; induction m as [|m IH]; intros [|k] H; cbn; try lia; auto. apply IH; lia. Qed.

Lemma remove_nth_length {A} i (l : list A) x :
  nth_error l i = Some x -> S (length (remove_nth i l)) = length l.
Proof.
  revert i; induction l as [|y l IH]; intros [|i] H; cbn in *; try discriminate.
  - reflexivity.
  - f_equal. now apply IH.
Qed.

Lemma remove_nth_In {A} i (l : list A) y : In y (remove_nth i l) -> In y l.
Proof.
  revert i; induction l as [|x l IH]; intros [|i]; cbn; auto.
  intros [->|H]; auto. right. eapply IH; eauto.
Qed.

Lemma nth_error_split_remove {A} i (l : list A) x :
  nth_error l i = Some x ->
  exists l1 l2, l = l1 ++ x :: l2 /\ remove_nth i l = l1 ++ l2.
Proof.
  revert i; induction l as [|y l IH]; intros [|i] H; cbn in *; try discriminate.
  - injection H as ->. exists [], l. auto.
  - destruct (IH _ H) as (l1 & l2 & -> & E). exists (y :: l1), l2. cbn. now rewrite E.
Qed.

(* ---------- exit_test ---------- *)

Lemma exit_test_cases s evs :
  (exit_test s evs = (s, evs) /\ ((pending s =? 0)%Z && enq_nil s = false))
  \/ (exit_test s evs = (set_lp LDrain s, evs ++ [EvLoopExit]) /\ pending s = 0%Z /\ enq_nil s = true).
Proof.
  unfold exit_test. destruct ((pending s =? 0)%Z && enq_nil s) eqn:E; [right|left]; auto.
  apply andb_true_iff in E as [E1 E2]. apply Z.eqb_eq in E1. auto.
Qed.

(* ---------- effects of reg_deps / mark_invalid / notify, job by job ---------- *)

Definition jget (js : list jst) (x : jid) : jst := nth x js jst0.

Lemma jget_upd js x y f : jget (upd y f js) x = if (Nat.eqb y x) && (y <? length js) then f (jget js x) else jget js x.
Proof. unfold jget. apply nth_upd. Qed.

Lemma jget_upd_pres {A} (P : jst -> A) js x y f :
  (forall z, P (f z) = P z) -> P (jget (upd y f js) x) = P (jget js x).
Proof. intros H. rewrite jget_upd. destruct (_ && _); auto. Qed.

Definition is_some {A} (o : option A) : bool := match o with Some _ => true | None => false end.

Section RegDeps.
  Variable k : jid.

  Lemma reg_deps_done_err ds : forall js x,
    jdone (jget (reg_deps k ds js) x) = jdone (jget js x) /\
    jerr (jget (reg_deps k ds js) x) = jerr (jget js x).
  Proof.
    induction ds as [|d ds IH]; intros js x; cbn [reg_deps]; auto.
    fold (jget js d). destruct (jdone (jget js d)) eqn:Dd.
    - destruct (jerr (jget js d)).
      + destruct (IH (upd k (jset_jinvalid true) js) x) as [-> ->].
        rewrite jget_upd. destruct (_ && _); auto.
      + apply IH.
    - destruct (IH (upd k (fun x0 => jset_remaining (remaining x0 + 1)%Z x0)
                      (upd d (fun x0 => jset_consumers (consumers x0 ++ [k]) x0) js)) x) as [-> ->].
      rewrite !jget_upd. destruct (_ && _), (_ && _); auto.
  Qed.

  Lemma reg_deps_other ds : forall js x, x <> k ->
    remaining (jget (reg_deps k ds js) x) = remaining (jget js x) /\
    jinvalid (jget (reg_deps k ds js) x) = jinvalid (jget js x).
  Proof.
    induction ds as [|d ds IH]; intros js x Hx; cbn [reg_deps]; auto.
    fold (jget js d). destruct (jdone (jget js d)).
    - destruct (jerr (jget js d)).
      + destruct (IH (upd k (jset_jinvalid true) js) x Hx) as [-> ->].
        rewrite jget_upd. destruct (Nat.eqb_spec k x); [congruence|]. auto.
      + now apply IH.
    - destruct (IH (upd k (fun x0 => jset_remaining (remaining x0 + 1)%Z x0)
                      (upd d (fun x0 => jset_consumers (consumers x0 ++ [k]) x0) js)) x Hx) as [-> ->].
      rewrite !jget_upd. destruct (Nat.eqb_spec k x); [congruence|]. cbn [andb].
      destruct (_ && _); auto.
  Qed.

  Lemma filter_ext' {A} (f g : A -> bool) l : (forall a, f a = g a) -> filter f l = filter g l.
  Proof. intros H. induction l as [|a l IH]; cbn; auto. rewrite H, IH. reflexivity. Qed.
  Lemma existsb_ext' {A} (f g : A -> bool) l : (forall a, f a = g a) -> existsb f l = existsb g l.
  Proof. intros H. induction l as [|a l IH]; cbn; auto. rewrite H, IH. reflexivity. Qed.

  Definition undone_in (js : list jst) (d : jid) : bool := negb (jdone (jget js d)).
  Definition failed_in (js : list jst) (d : jid) : bool := jdone (jget js d) && is_some (jerr (jget js d)).

  Lemma reg_deps_self ds : forall js,
    k < length js -> ~ In k ds ->
    remaining (jget (reg_deps k ds js) k)
      = (remaining (jget js k) + Z.of_nat (length (filter (undone_in js) ds)))%Z /\
    jinvalid (jget (reg_deps k ds js) k) = jinvalid (jget js k) || existsb (failed_in js) ds /\
    consumers (jget (reg_deps k ds js) k) = consumers (jget js k).
  Proof.
    induction ds as [|d ds IH]; intros js Hk Hn.
    - cbn. rewrite Z.add_0_r, orb_false_r. auto.
    - assert (Hdk : d <> k) by (intros ->; apply Hn; now left).
      assert (Hn' : ~ In k ds) by (intros H; apply Hn; now right).
      apply Nat.ltb_lt in Hk as Hk'.
      cbn [reg_deps filter existsb]. fold (jget js d). unfold undone_in at 1, failed_in at 1.
      destruct (jdone (jget js d)) eqn:Dd; cbn [negb andb].
      + destruct (jerr (jget js d)) eqn:Ed; cbn [is_some].
        * destruct (IH (upd k (jset_jinvalid true) js)) as (R & V & C); [now rewrite upd_length | auto |].
          rewrite R, V, C. rewrite !jget_upd, Nat.eqb_refl, Hk'. cbn.
          rewrite orb_true_r.
          rewrite (filter_ext' (undone_in (upd k (jset_jinvalid true) js)) (undone_in js)).
          2:{ intros a. unfold undone_in. now rewrite (jget_upd_pres jdone). }
          auto.
        * destruct (IH js Hk Hn') as (R & V & C). rewrite R, V, C. auto.
      + set (f1 := fun x0 => jset_remaining (remaining x0 + 1)%Z x0).
        set (f2 := fun x0 => jset_consumers (consumers x0 ++ [k]) x0).
        destruct (IH (upd k f1 (upd d f2 js))) as (R & V & C); [now rewrite !upd_length | auto |].
        rewrite R, V, C. rewrite !jget_upd, Nat.eqb_refl, upd_length, Hk'.
        destruct (Nat.eqb_spec d k); [congruence|]. cbn [andb]. unfold f1; cbn.
        rewrite (filter_ext' (undone_in (upd k f1 (upd d f2 js))) (undone_in js)).
        2:{ intros a. unfold undone_in. now rewrite !(jget_upd_pres jdone). }
        rewrite (existsb_ext' (failed_in (upd k f1 (upd d f2 js))) (failed_in js)).
        2:{ intros a. unfold failed_in. now rewrite !(jget_upd_pres jdone), !(jget_upd_pres jerr). }
        split; [|split]; auto. rewrite Zpos_P_of_succ_nat. lia.
  Qed.

  (* consumers of every job: k is appended once per occurrence of an undone dependency *)
  Lemma reg_deps_consumers ds : forall js d y,
    k < length js -> ~ In k ds -> (forall x, In x ds -> x < length js) ->
    count_occ Nat.eq_dec (consumers (jget (reg_deps k ds js) d)) y
    = count_occ Nat.eq_dec (consumers (jget js d)) y
      + (if (Nat.eqb y k) && undone_in js d then count_occ Nat.eq_dec ds d else 0).
  Proof.
    induction ds as [|d0 ds IH]; intros js d y Hk Hn Hlt.
    - cbn [reg_deps count_occ]. destruct (_ && _); lia.
    - assert (Hdk : d0 <> k) by (intros ->; apply Hn; now left).
      assert (Hn' : ~ In k ds) by (intros H; apply Hn; now right).
      assert (Hd0 : d0 < length js) by (apply Hlt; now left).
      assert (Hlt' : forall x, In x ds -> x < length js) by (intros x Hx; apply Hlt; now right).
      cbn [reg_deps]. fold (jget js d0).
      destruct (jdone (jget js d0)) eqn:Dd.
      + assert (E : count_occ Nat.eq_dec (d0 :: ds) d = count_occ Nat.eq_dec ds d
                    \/ undone_in js d = false).
        { destruct (Nat.eq_dec d0 d) as [->|Hne].
          - right. unfold undone_in. now rewrite Dd.
          - left. now rewrite count_occ_cons_neq. }
        destruct (jerr (jget js d0)).
        * rewrite IH; [|now rewrite upd_length|auto|intros; rewrite upd_length; auto].
          rewrite jget_upd. unfold undone_in. rewrite jget_upd.
          replace (consumers (if (k =? d) && (k <? length js) then jset_jinvalid true (jget js d) else jget js d))
            with (consumers (jget js d)) by (destruct (_ && _); reflexivity).
          replace (jdone (if (k =? d) && (k <? length js) then jset_jinvalid true (jget js d) else jget js d))
            with (jdone (jget js d)) by (destruct (_ && _); reflexivity).
          fold (undone_in js d). destruct E as [->| ->]; [reflexivity|]. now rewrite !andb_false_r.
        * rewrite IH; auto. destruct E as [->| ->]; [reflexivity|]. now rewrite !andb_false_r.
      + set (f1 := fun x0 => jset_remaining (remaining x0 + 1)%Z x0).
        set (f2 := fun x0 => jset_consumers (consumers x0 ++ [k]) x0).
        rewrite IH; [|now rewrite !upd_length|auto|intros; rewrite !upd_length; auto].
        unfold undone_in. rewrite !jget_upd, upd_length.
        assert (Hd0' : (d0 <? length js) = true) by now apply Nat.ltb_lt.
        apply Nat.ltb_lt in Hk as Hk'. rewrite Hk', Hd0'. rewrite !andb_true_r.
        destruct (Nat.eqb_spec k d) as [->|Hkd].
        * (* d = k: k is not a dependency, consumers of k unchanged *)
          destruct (Nat.eqb_spec d0 d); [congruence|]. unfold f1; cbn.
          destruct (Nat.eq_dec d0 d); [congruence|reflexivity].
        * destruct (Nat.eqb_spec d0 d) as [->|Hne].
          -- unfold f2; cbn [jset_consumers consumers jdone]. rewrite count_occ_app. cbn [count_occ].
             rewrite Dd. cbn [negb]. rewrite !andb_true_r.
             destruct (Nat.eq_dec d d); [|congruence].
             destruct (Nat.eq_dec k y) as [->|Hky].
             ++ destruct (Nat.eqb_spec y y); [lia|congruence].
             ++ destruct (Nat.eqb_spec y k); [congruence|lia].
          -- cbn [count_occ]. destruct (Nat.eq_dec d0 d); [congruence|reflexivity].
  Qed.
End RegDeps.

Lemma mark_invalid_pres {A} (P : jst -> A) cs : forall js x,
  (forall z, P (jset_jinvalid true z) = P z) ->
  P (jget (mark_invalid cs js) x) = P (jget js x).
Proof.
  induction cs as [|c0 cs IH]; intros js x H; cbn [mark_invalid]; auto.
  rewrite IH by auto. now apply jget_upd_pres.
Qed.

Lemma mark_invalid_invalid cs : forall js x,
  (forall y, In y cs -> y < length js) ->
  jinvalid (jget (mark_invalid cs js) x) = jinvalid (jget js x) || existsb (Nat.eqb x) cs.
Proof.
  induction cs as [|c0 cs IH]; intros js x Hlt; cbn [mark_invalid existsb].
  - now rewrite orb_false_r.
  - rewrite IH by (intros; rewrite upd_length; apply Hlt; now right).
    rewrite jget_upd. assert (E : (c0 <? length js) = true) by (apply Nat.ltb_lt, Hlt; now left).
    rewrite E, andb_true_r. rewrite (Nat.eqb_sym x c0).
    destruct (Nat.eqb c0 x); cbn; [now rewrite orb_true_r | reflexivity].
Qed.

(* notify: every field but [remaining] is untouched *)
Lemma notify_pres {A} (P : jst -> A) cs : forall js wt rd js' wt' rd' x,
  (forall z r, P (jset_remaining r z) = P z) ->
  notify cs js wt rd = (js', wt', rd') -> P (jget js' x) = P (jget js x).
Proof.
  induction cs as [|c0 cs IH]; intros js wt rd js' wt' rd' x H E; cbn in E.
  - now injection E as <- _ _.
  - destruct (_ =? 0)%Z; apply IH with (x := x) in E; auto; rewrite E; now apply jget_upd_pres.
Qed.

Lemma notify_remaining cs : forall js wt rd js' wt' rd' x,
  (forall y, In y cs -> y < length js) ->
  notify cs js wt rd = (js', wt', rd') ->
  remaining (jget js' x) = (remaining (jget js x) - Z.of_nat (count_occ Nat.eq_dec cs x))%Z.
Proof.
  induction cs as [|c0 cs IH]; intros js wt rd js' wt' rd' x Hlt E; cbn in E.
  - injection E as <- _ _. cbn. lia.
  - assert (L : (c0 <? length js) = true) by (apply Nat.ltb_lt, Hlt; now left).
    destruct (_ =? 0)%Z; apply IH with (x := x) in E;
      try (intros; rewrite upd_length; apply Hlt; now right);
      rewrite E, jget_upd, L, andb_true_r; cbn [count_occ];
      destruct (Nat.eqb_spec c0 x) as [->|Hne]; destruct (Nat.eq_dec _ _); try congruence; cbn; lia.
Qed.

(* the jobs released by notify: those whose counter reaches zero, each exactly once;
   precondition: no counter is driven below zero *)
Lemma notify_released cs : forall js wt rd js' wt' rd',
  (forall y, In y cs -> y < length js) ->
  (forall y, In y cs -> (Z.of_nat (count_occ Nat.eq_dec cs y) <= remaining (jget js y))%Z) ->
  notify cs js wt rd = (js', wt', rd') ->
  exists rel, rd' = rd ++ rel /\ wt' = (wt - Z.of_nat (length rel))%Z /\
    forall x, count_occ Nat.eq_dec rel x =
              if (0 <? count_occ Nat.eq_dec cs x) && (remaining (jget js x) =? Z.of_nat (count_occ Nat.eq_dec cs x))%Z
              then 1 else 0.
Proof.
  induction cs as [|c0 cs IH]; intros js wt rd js' wt' rd' Hlt Hge E; cbn [notify] in E.
  - injection E as _ <- <-. exists []. rewrite app_nil_r. split; [auto|split; [cbn; lia|]].
    intros x. reflexivity.
  - assert (L : (c0 <? length js) = true) by (apply Nat.ltb_lt, Hlt; now left).
    set (f := fun x0 => jset_remaining (remaining x0 - 1)%Z x0) in *.
    assert (R0 : remaining (nth c0 (upd c0 f js) jst0) = (remaining (jget js c0) - 1)%Z).
    { fold (jget (upd c0 f js) c0). rewrite jget_upd, Nat.eqb_refl, L. reflexivity. }
    assert (Hlt' : forall y, In y cs -> y < length (upd c0 f js))
      by (intros; rewrite upd_length; apply Hlt; now right).
    assert (Hge' : forall y, In y cs ->
               (Z.of_nat (count_occ Nat.eq_dec cs y) <= remaining (jget (upd c0 f js) y))%Z).
    { intros y Hy. specialize (Hge y (or_intror Hy)). rewrite jget_upd, L, andb_true_r.
      cbn [count_occ] in Hge. destruct (Nat.eqb_spec c0 y) as [->|Hne];
        destruct (Nat.eq_dec _ _); try congruence; unfold f; cbn; lia. }
    assert (Hc0 : (Z.of_nat (S (count_occ Nat.eq_dec cs c0)) <= remaining (jget js c0))%Z).
    { specialize (Hge c0 (or_introl eq_refl)). cbn [count_occ] in Hge.
      destruct (Nat.eq_dec c0 c0); [exact Hge|congruence]. }
    rewrite R0 in E.
    destruct (remaining (jget js c0) - 1 =? 0)%Z eqn:Z0.
    + apply Z.eqb_eq in Z0.
      destruct (IH _ _ _ _ _ _ Hlt' Hge' E) as (rel & -> & -> & Hrel).
      exists (c0 :: rel). rewrite <- app_assoc. split; [reflexivity|split; [cbn [length]; lia|]].
      intros x. cbn [count_occ]. rewrite Hrel. rewrite jget_upd, L, andb_true_r.
      assert (C0 : count_occ Nat.eq_dec cs c0 = 0) by lia.
      destruct (Nat.eq_dec c0 x) as [->|Hne].
      * rewrite Nat.eqb_refl, C0. cbn [Nat.ltb Nat.leb andb].
        replace (remaining (jget js x) =? Z.of_nat 1)%Z with true by (symmetry; apply Z.eqb_eq; lia).
        reflexivity.
      * destruct (Nat.eqb_spec c0 x); [congruence|]. reflexivity.
    + apply Z.eqb_neq in Z0.
      destruct (IH _ _ _ _ _ _ Hlt' Hge' E) as (rel & -> & -> & Hrel).
      exists rel. split; [reflexivity|split; [reflexivity|]].
      intros x. rewrite Hrel. rewrite jget_upd, L, andb_true_r. cbn [count_occ].
      destruct (Nat.eq_dec c0 x) as [->|Hne].
      * rewrite Nat.eqb_refl. unfold f; cbn [jset_remaining remaining].
        destruct (count_occ Nat.eq_dec cs x) as [|m] eqn:Cx.
        -- cbn [Nat.ltb Nat.leb andb]. 
           replace (remaining (jget js x) =? Z.of_nat 1)%Z with false
             by (symmetry; apply Z.eqb_neq; lia). reflexivity.
        -- replace (0 <? S m) with true by reflexivity.
           replace (0 <? S (S m)) with true by reflexivity. cbn [andb].
           destruct (Z.eqb_spec (remaining (jget js x) - 1) (Z.of_nat (S m)));
           destruct (Z.eqb_spec (remaining (jget js x)) (Z.of_nat (S (S m)))); auto; lia.
      * destruct (Nat.eqb_spec c0 x); [congruence|]. reflexivity.
Qed.

Lemma reg_deps_untouched k ds : forall js x, x <> k -> ~ In x ds -> jget (reg_deps k ds js) x = jget js x.
Proof.
  induction ds as [|d ds IH]; intros js x Hk Hn; cbn [reg_deps]; auto.
  assert (Hd : d <> x) by (intros ->; apply Hn; now left).
  assert (Hn' : ~ In x ds) by (intros H; apply Hn; now right).
  fold (jget js d). destruct (jdone (jget js d)).
  - destruct (jerr (jget js d)); rewrite IH by auto; auto.
    rewrite jget_upd. destruct (Nat.eqb_spec k x); [congruence|reflexivity].
  - rewrite IH by auto. rewrite !jget_upd.
    destruct (Nat.eqb_spec k x); [congruence|]. destruct (Nat.eqb_spec d x); [congruence|]. reflexivity.
Qed.

(* counting undone dependencies *)
Definition countb' {A} (p : A -> bool) (l : list A) : nat := length (filter p l).

Lemma count_le_undone (u : nat -> bool) ds d :
  u d = true -> count_occ Nat.eq_dec ds d <= length (filter u ds).
Proof.
  intros Hu. induction ds as [|x ds IH]; cbn; [lia|].
  destruct (Nat.eq_dec x d) as [->|Hne].
  - rewrite Hu. cbn. lia.
  - destruct (u x); cbn; lia.
Qed.

Lemma count2_le_undone (u : nat -> bool) ds d1 d2 :
  d1 <> d2 -> u d1 = true -> u d2 = true ->
  count_occ Nat.eq_dec ds d1 + count_occ Nat.eq_dec ds d2 <= length (filter u ds).
Proof.
  intros Hne H1 H2. induction ds as [|x ds IH]; cbn; [lia|].
  destruct (Nat.eq_dec x d1) as [E1|N1]; destruct (Nat.eq_dec x d2) as [E2|N2]; try congruence; subst.
  - rewrite H1. cbn. lia.
  - rewrite H2. cbn. lia.
  - destruct (u x); cbn; lia.
Qed.


(* flipping one element of the predicate from true to false *)
Lemma filter_flip (u u' : nat -> bool) ds d :
  u d = true -> u' d = false -> (forall x, x <> d -> u' x = u x) ->
  length (filter u' ds) + count_occ Nat.eq_dec ds d = length (filter u ds).
Proof.
  intros Hu Hu' Hx. induction ds as [|x ds IH]; cbn; [lia|].
  destruct (Nat.eq_dec x d) as [->|Hne].
  - rewrite Hu, Hu'. cbn. lia.
  - rewrite (Hx _ Hne). destruct (u x); cbn; lia.
Qed.

Lemma filter_none {A} (u : A -> bool) ds : length (filter u ds) = 0 -> forall d, In d ds -> u d = false.
Proof.
  induction ds as [|x ds IH]; cbn; [tauto|]. destruct (u x) eqn:E; cbn; [lia|].
  intros H d [->|Hd]; auto.
Qed.

Lemma count_occ_zero_notin ds (d : nat) : count_occ Nat.eq_dec ds d = 0 <-> ~ In d ds.
Proof. symmetry. apply count_occ_not_In. Qed.
