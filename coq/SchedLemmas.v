(* List lemmas and inversion lemmas for the scheduler model. *)
From CffVerif Require Import SchedModel.

(* ---------- upd / nth ---------- *)
Section Upd.
  Context {A : Type}.
  Implicit Types (l : list A) (f : A -> A).

  Lemma upd_length n f l : length (upd n f l) = length l.
  Proof. revert n; induction l as [|x l IH]; intros [|n]; cbn; auto. Qed.

  Lemma nth_upd_eq n f l d : n < length l -> nth n (upd n f l) d = f (nth n l d).
  Proof.
    revert n; induction l as [|x l IH]; intros [|n] H; cbn in *; try lia; auto.
    apply IH; lia.
  Qed.

  Lemma nth_upd_neq n m f l d : n <> m -> nth m (upd n f l) d = nth m l d.
  Proof.
    revert n m; induction l as [|x l IH]; intros [|n] [|m] H; cbn; auto; try congruence.
  Qed.

  Lemma upd_oob n f l : length l <= n -> upd n f l = l.
  Proof.
    revert n; induction l as [|x l IH]; intros [|n] H; cbn in *; auto; try lia.
    f_equal. apply IH. lia.
  Qed.

  Lemma nth_upd n m f l d :
    nth m (upd n f l) d = if (Nat.eqb n m) && (n <? length l) then f (nth m l d) else nth m l d.
  Proof.
    destruct (Nat.eqb_spec n m) as [->|Hne]; cbn [andb].
    - destruct (Nat.ltb_spec m (length l)).
      + now apply nth_upd_eq.
      + now rewrite upd_oob.
    - now apply nth_upd_neq.
  Qed.
End Upd.

Lemma remove_nth_length {A} i (l : list A) x :
  nth_error l i = Some x -> S (length (remove_nth i l)) = length l.
Proof.
  revert i; induction l as [|y l IH]; intros [|i] H; cbn in *; try discriminate.
  - reflexivity.
  - f_equal. now apply IH.
Qed.

Lemma remove_nth_In {A} i (l : list A) y : In y (remove_nth i l) -> In y l.
Proof.
  revert i; induction l as [|x l IH]; intros [|i]; cbn; auto.
  intros [->|H]; auto. right. eapply IH; eauto.
Qed.

Lemma nth_error_split_remove {A} i (l : list A) x :
  nth_error l i = Some x ->
  exists l1 l2, l = l1 ++ x :: l2 /\ remove_nth i l = l1 ++ l2.
Proof.
  revert i; induction l as [|y l IH]; intros [|i] H; cbn in *; try discriminate.
  - injection H as ->. exists [], l. auto.
  - destruct (IH _ H) as (l1 & l2 & -> & E). exists (y :: l1), l2. cbn. now rewrite E.
Qed.

(* ---------- exit_test ---------- *)

Lemma exit_test_cases s evs :
  (exit_test s evs = (s, evs) /\ ((pending s =? 0)%Z && enq_nil s = false))
  \/ (exit_test s evs = (set_lp LDrain s, evs ++ [EvLoopExit]) /\ pending s = 0%Z /\ enq_nil s = true).
Proof.
  unfold exit_test. destruct ((pending s =? 0)%Z && enq_nil s) eqn:E; [right|left]; auto.
  apply andb_true_iff in E as [E1 E2]. apply Z.eqb_eq in E1. auto.
Qed.
