(* Layer 2, generated imports (internal/gen.go: printImportAlias, GenerateFile). The
   generated code of a file may need packages the file does not import; each such import
   path is given a name that is not yet taken in the file: the package's own name, with
   "_" prepended until it is free. addImports (path -> name, "" for "no explicit name")
   and aliases (names taken) are per file and shared by all directives of the file; at
   the end the new imports are added in sorted path order. Strings are lists of character
   codes; a path is (directory, base). Definitions only. *)
From CffVerif Require Export BuildTagModel.

Definition path := (str * str)%type.
Definition path_eqb (a b : path) : bool := list_eqb (fst a) (fst b) && list_eqb (snd a) (snd b).

Record ist := { adds : list (path * str); used : list str }.

Fixpoint lookup (p : path) (l : list (path * str)) : option str :=
  match l with
  | [] => None
  | (q, n) :: r => if path_eqb q p then Some n else lookup p r
  end.

Definition mem (a : str) (l : list str) : bool := existsb (list_eqb a) l.

Definition underscore : nat := 95.

(* the "for { ... alias = "_" + alias }" loop; fuel = number of names taken + 1 suffices *)
Fixpoint pick (fuel : nat) (alias : str) (taken : list str) : option str :=
  match fuel with
  | 0 => None
  | S n => if mem alias taken then pick n (underscore :: alias) taken else Some alias
  end.

Definition is_empty (s : str) : bool := match s with [] => true | _ => false end.

(* what is recorded in addImports: "" when the name is the path's base (no explicit name needed) *)
Definition rec_name (a : str) (p : path) : str := if list_eqb a (snd p) then [] else a.

(* printImportAlias(importPath, alias, addImports, aliases) *)
Definition print_alias (p : path) (name : str) (s : ist) : option (str * ist) :=
  match lookup p (adds s) with
  | Some nm => Some (if is_empty nm then snd p else nm, s)
  | None =>
      match pick (S (length (used s))) name (used s) with
      | None => None
      | Some a => Some (a, {| adds := (p, rec_name a p) :: adds s; used := a :: used s |})
      end
  end.

(* a file: the names its own imports occupy, then the requests of its directives in order *)
Fixpoint requests (reqs : list (path * str)) (s : ist) : option (list str * ist) :=
  match reqs with
  | [] => Some ([], s)
  | (p, n) :: r =>
      match print_alias p n s with
      | None => None
      | Some (a, s') => match requests r s' with
                        | None => None
                        | Some (l, s'') => Some (a :: l, s'')
                        end
      end
  end.

Definition start (file_imports : list str) : ist := {| adds := []; used := file_imports |}.
