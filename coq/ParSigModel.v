(* Layer 2, how the generator reads the functions of a cff.Parallel
   (internal/compile_parallel.go: compileParallelTaskFn/checkParallelTask, compileSlice with
   applySliceOptions/compileSliceEnd, compileMap with its option loop/compileMapEnd, and the
   End-versus-ContinueOnError rule of compileParallel). Built on SignatureModel's
   compile_function; atom 0 stands for Go's int (the type the slice index must have),
   assignability of element types is a parameter. Definitions only. *)
From CffVerif Require Export SignatureModel.

Definition GInt : gty := GVal 0.
Definition is_int (t : gty) : bool := gty_eqb t GInt.

Inductive pdiag :=
| PFn (d : sdiag)   (* compileFunction's diagnostic, followed by "... function failed to compile" *)
| PTaskArgs         (* parallel tasks function is invalid: the only allowed argument is a single context.Context parameter *)
| PTaskResults      (* parallel tasks function is invalid: the only allowed return value is an error *)
| PSliceResults     (* the only allowed return value is an error *)
| PSliceArity       (* slice function expects one or two non-context arguments *)
| PSliceIndex       (* the first non-context argument of the slice function must be an int *)
| PSliceElem        (* slice element of type .. cannot be passed as a parameter *)
| PMapResults
| PMapArity         (* map function expects two non-context arguments *)
| PMapKey
| PMapVal
| PEndArgs          (* End function takes something besides a context *)
| PEndResults       (* End function returns something besides an error *)
| PEndTwice         (* at most one SliceEnd / MapEnd *)
| PEndWithCOE.      (* End hook together with ContinueOnError *)

(* cff.Tasks / cff.Task of a Parallel *)
Definition compile_par_task (s : fsig) : cfunc + list pdiag :=
  match compile_function s with
  | inr d => inr [PFn d]
  | inl f =>
      match cf_inputs f, cf_outputs f with
      | _ :: _, _ => inr [PTaskArgs]
      | [], _ :: _ => inr [PTaskResults]
      | [], [] => inl f
      end
  end.

(* compileSliceEnd / compileMapEnd *)
Definition compile_end (s : fsig) : cfunc + list pdiag :=
  match compile_function s with
  | inr d => inr [PFn d]
  | inl f =>
      match cf_inputs f, cf_outputs f with
      | _ :: _, _ => inr [PEndArgs]
      | [], _ :: _ => inr [PEndResults]
      | [], [] => inl f
      end
  end.

(* the option loop: the first End function that compiles is kept, every further one that
   compiles is "at most one"; those that do not compile report their own diagnostic *)
Fixpoint apply_ends (ends : list fsig) (cur : option cfunc) : option cfunc * list pdiag :=
  match ends with
  | [] => (cur, [])
  | e :: r =>
      match compile_end e with
      | inr ds => let (c, ds') := apply_ends r cur in (c, ds ++ ds')
      | inl f =>
          match cur with
          | Some _ => let (c, ds') := apply_ends r cur in (c, PEndTwice :: ds')
          | None => apply_ends r (Some f)
          end
      end
  end.

Record slice_task := { sl_fn : cfunc; sl_hasidx : bool; sl_end : option cfunc }.
Record map_task := { mp_fn : cfunc; mp_end : option cfunc }.

Section Assignable.
  Variable assignable : gty -> gty -> bool.   (* types.AssignableTo(value type, parameter type) *)

  Definition compile_slice (fn : fsig) (elem : gty) (ends : list fsig) : option slice_task * list pdiag :=
    match compile_function fn with
    | inr d => (None, [PFn d])
    | inl f =>
        match cf_outputs f with
        | _ :: _ => (None, [PSliceResults])
        | [] =>
            match cf_inputs f with
            | [p] =>
                if assignable elem p
                then let (e, ds) := apply_ends ends None in (Some {| sl_fn := f; sl_hasidx := false; sl_end := e |}, ds)
                else (None, [PSliceElem])
            | [i; p] =>
                if negb (is_int i) then (None, [PSliceIndex])
                else if assignable elem p
                then let (e, ds) := apply_ends ends None in (Some {| sl_fn := f; sl_hasidx := true; sl_end := e |}, ds)
                else (None, [PSliceElem])
            | _ => (None, [PSliceArity])
            end
        end
    end.

  Definition compile_map (fn : fsig) (key val : gty) (ends : list fsig) : option map_task * list pdiag :=
    match compile_function fn with
    | inr d => (None, [PFn d])
    | inl f =>
        match cf_outputs f with
        | _ :: _ => (None, [PMapResults])
        | [] =>
            match cf_inputs f with
            | [k; v] =>
                if negb (assignable key k) then (None, [PMapKey])
                else if negb (assignable val v) then (None, [PMapVal])
                else let (e, ds) := apply_ends ends None in (Some {| mp_fn := f; mp_end := e |}, ds)
            | _ => (None, [PMapArity])
            end
        end
    end.

  (* one item of a Parallel and the whole directive's verdict *)
  Inductive pitem :=
  | ITask (s : fsig)
  | ISlice (fn : fsig) (elem : gty) (ends : list fsig)
  | IMap (fn : fsig) (key val : gty) (ends : list fsig).

  Definition item_diags (coe : bool) (it : pitem) : list pdiag :=
    match it with
    | ITask s => match compile_par_task s with inl _ => [] | inr ds => ds end
    | ISlice fn e ends =>
        let (t, ds) := compile_slice fn e ends in
        ds ++ match t with Some st => (match sl_end st with Some _ => if coe then [PEndWithCOE] else [] | None => [] end) | None => [] end
    | IMap fn k v ends =>
        let (t, ds) := compile_map fn k v ends in
        ds ++ match t with Some mt => (match mp_end mt with Some _ => if coe then [PEndWithCOE] else [] | None => [] end) | None => [] end
    end.

  Definition compile_parallel (coe : bool) (items : list pitem) : list pdiag :=
    flat_map (item_diags coe) items.
End Assignable.

(* the arguments of the generated element calls *)
Definition slice_call_args (t : slice_task) (elem_param : gty) : list gty :=
  (if cf_wantctx (sl_fn t) then [GCtx] else []) ++ (if sl_hasidx t then [GInt] else []) ++ [elem_param].
