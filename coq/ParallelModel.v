(* Layer 2, cff.Parallel as the scheduler sees it (templates/parallel/*.tmpl): one job per
   Task/Tasks function, one job per element of a Slice or entry of a Map, and - for a
   SliceEnd / MapEnd hook - one job whose Dependencies are all element jobs of its own
   collection. This is a flow in which every element "produces" a private type that only
   the End hook consumes: the embedding below, on which the theorems of FlowOpModel apply. *)
From CffVerif Require Export FlowOpModel.

Inductive pitem :=
| PTask (haserr : bool)
| PColl (n : nat) (elem_err : bool) (hasend : bool) (end_err : bool).   (* Slice or Map with n elements *)

Definition plain_task (he : bool) : ftask :=
  {| kins := []; kouts := []; kpred := None; kinvoke := true; kfallback := false; khaserr := he |}.
Definition elem_task (ty : nat) (he : bool) : ftask :=
  {| kins := []; kouts := [ty]; kpred := None; kinvoke := false; kfallback := false; khaserr := he |}.
Definition end_task (tys : list nat) (he : bool) : ftask :=
  {| kins := tys; kouts := []; kpred := None; kinvoke := true; kfallback := false; khaserr := he |}.

Fixpoint embed (items : list pitem) (ty : nat) : list ftask :=
  match items with
  | [] => []
  | PTask he :: r => plain_task he :: embed r ty
  | PColl n ee false _ :: r => map (fun _ => plain_task ee) (seq 0 n) ++ embed r ty
  | PColl n ee true ende :: r =>
      map (fun j => elem_task j ee) (seq ty n) ++ [end_task (seq ty n) ende] ++ embed r (ty + n)
  end.

Definition par_flow (items : list pitem) : fflow := {| gparams := []; gresults := []; gtasks := embed items 0 |}.

(* ---- the element closures of cff.Slice / cff.Map (templates/parallel/slice.go.tmpl:
     for idx, val := range slice { idx := idx; val := val; task.fn = func(...) { f(idx, val) } ... })
   The jobs run after the loop has moved on. A closure either captured its own copies
   (the template's "idx := idx; val := val") or the loop's variables; before Go 1.22 the
   loop has one pair of variables for all iterations, from 1.22 on one pair per iteration. *)
Section LoopCapture.
  Variable V : Type.
  Variable dflt : V.

  Inductive capture := OwnCopy | LoopVars.

  (* what the closure built in iteration i passes to the user's function when it runs later,
     given the value the loop's shared variables hold at that time (the last iteration's) *)
  Definition element_args (c : capture) (per_iteration_vars : bool) (s : list V) (i : nat) : nat * V :=
    match c with
    | OwnCopy => (i, nth i s dflt)
    | LoopVars => if per_iteration_vars then (i, nth i s dflt)
                  else (length s - 1, nth (length s - 1) s dflt)
    end.
End LoopCapture.
