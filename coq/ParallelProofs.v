(* Every embedding of a Parallel has unique providers: the hypothesis of the dataflow
   theorems holds for all Parallel programs. *)
From CffVerif Require Import FlowOpModel FlowOpProofs ValidateModel FlowBridge ParallelModel.

Lemma outs_plain ee l : flat_map kouts (map (fun _ : nat => plain_task ee) l) = [].
Proof. induction l as [|a l IH]; cbn; [reflexivity | exact IH]. Qed.

Lemma outs_elems ee l : flat_map kouts (map (fun j => elem_task j ee) l) = l.
Proof. induction l as [|a l IH]; cbn; [reflexivity | now rewrite IH]. Qed.

Lemma embed_outs items : forall ty, exists m, flat_map kouts (embed items ty) = seq ty m.
Proof.
  induction items as [|it items IH]; intros ty.
  - exists 0. reflexivity.
  - destruct it as [he|n ee [|] ende]; cbn [embed].
    + destruct (IH ty) as [m Hm]. exists m. cbn. exact Hm.
    + destruct (IH (ty + n)) as [m Hm]. exists (n + m).
      rewrite !flat_map_app, outs_elems, Hm. cbn [flat_map end_task kouts app]. rewrite seq_app. reflexivity.
    + destruct (IH ty) as [m Hm]. exists m. rewrite flat_map_app, outs_plain, Hm. reflexivity.
Qed.

Theorem par_flow_unique_providers items : unique_providers (par_flow items).
Proof.
  apply nodup_unique_providers. cbn [par_flow gtasks]. destruct (embed_outs items 0) as [m ->]. apply seq_NoDup.
Qed.

(* with the template's per-iteration copies every element job calls the function with its
   own (i, s[i]), under either loop-variable semantics of Go; without them it does not *)
Theorem own_copy_args (V : Type) (d : V) sem s i : element_args V d OwnCopy sem s i = (i, nth i s d).
Proof. reflexivity. Qed.

Theorem loop_vars_refuted : element_args nat 0 LoopVars false [7; 8] 0 = (1, 8).
Proof. reflexivity. Qed.
