(* One run of the tool, for every list of files and every --file selection: an output is
   written exactly for the selected files that compile and contain a directive, to their
   target; a file that --file does not name by its exact base name is never written for; the
   exit status is non-zero exactly when a selected file failed (or the selection repeats an
   input); without --file no two files share an output. *)
From CffVerif Require Import BuildTagModel BuildTagProofs FileSelModel.

Definition emits_of (s : list selarg) (f : cfile) : list (opath * cfile) :=
  match target s f with
  | Some o => if sf_fail f then [] else if sf_emits f then [(o, f)] else []
  | None => []
  end.

Lemma fold_spec s files : forall acc,
  let r := fold_left (process1 s) files acc in
  written r = written acc ++ flat_map (emits_of s) files /\
  processed r = processed acc + length (filter (selected s) files) /\
  errored r = errored acc + length (filter (fun f => selected s f && sf_fail f) files).
Proof.
  induction files as [|f files IH]; intros acc; cbn [fold_left flat_map filter].
  - rewrite app_nil_r. cbn. repeat split; lia.
  - destruct (IH (process1 s acc f)) as (Hw & Hp & He). cbv zeta. rewrite Hw, Hp, He. clear IH Hw Hp He.
    unfold process1, emits_of, selected. destruct (target s f) as [o|]; cbn [written processed errored andb].
    + destruct (sf_fail f); cbn [written processed errored app length].
      * repeat split; lia.
      * destruct (sf_emits f); cbn [app]; rewrite <- ?app_assoc; repeat split; cbn [app]; lia.
    + repeat split; lia.
Qed.

Theorem written_spec s files o f :
  In (o, f) (written (run_files s files)) <->
  In f files /\ target s f = Some o /\ sf_fail f = false /\ sf_emits f = true.
Proof.
  unfold run_files. destruct (fold_spec s files {| written := []; processed := 0; errored := 0 |}) as (Hw & _ & _).
  cbv zeta in Hw. rewrite Hw. cbn [written app]. rewrite in_flat_map. split.
  - intros [g [Hg Hin]]. unfold emits_of in Hin. destruct (target s g) as [o'|] eqn:Ht; [|destruct Hin].
    destruct (sf_fail g) eqn:Hf; [destruct Hin|]. destruct (sf_emits g) eqn:He; [|destruct Hin].
    destruct Hin as [Heq|[]]. injection Heq as <- <-. auto.
  - intros (Hin & Ht & Hf & He). exists f. split; [exact Hin|]. unfold emits_of. rewrite Ht, Hf, He. now left.
Qed.

(* files that are not selected are never written for *)
Theorem unselected_untouched s files f : selected s f = false ->
  forall o, ~ In (o, f) (written (run_files s files)).
Proof.
  intros Hs o H. apply written_spec in H. destruct H as (_ & Ht & _). unfold selected in Hs. now rewrite Ht in Hs.
Qed.

(* nothing is written for a file that was rejected *)
Theorem rejected_not_written s files f : sf_fail f = true ->
  forall o, ~ In (o, f) (written (run_files s files)).
Proof. intros Hf o H. apply written_spec in H. destruct H as (_ & _ & Hc & _). congruence. Qed.

(* --file names files by their exact base name *)
Theorem selected_spec s f : selected s f = true <->
  (s = [] \/ exists o, In (sf_base f, o) s).
Proof.
  unfold selected, target. destruct s as [|a s]; [split; auto|].
  unfold lookup. destruct (find (fun p => list_eqb (fst p) (sf_base f)) (a :: s)) as [[i o]|] eqn:Hfind.
  - apply find_some in Hfind. destruct Hfind as [Hin He]. cbn [fst] in He. apply list_eqb_eq in He. subst i.
    split; [|now destruct o]. intros _. right. now exists o.
  - split; [discriminate|]. intros [Hc|[o Hin]]; [discriminate|].
    pose proof (find_none _ _ Hfind _ Hin) as Hn. cbn [fst] in Hn.
    assert (list_eqb (sf_base f) (sf_base f) = true) by now apply list_eqb_eq. congruence.
Qed.

(* the exit status *)
Theorem exit_spec s files : exit_nonzero (run_tool s files) = true <->
  (dup_input s = true \/ exists f, In f files /\ selected s f = true /\ sf_fail f = true).
Proof.
  unfold run_tool, exit_nonzero. destruct (dup_input s); [split; auto|].
  unfold run_files. destruct (fold_spec s files {| written := []; processed := 0; errored := 0 |}) as (_ & _ & He).
  cbv zeta in He. rewrite He. cbn [errored Nat.add]. rewrite Bool.negb_true_iff, Nat.eqb_neq. split.
  - intros Hn. right. destruct (filter (fun f => selected s f && sf_fail f) files) as [|g l] eqn:Hfl; [cbn in Hn; lia|].
    assert (Hg : In g (filter (fun f => selected s f && sf_fail f) files)) by (rewrite Hfl; now left).
    apply filter_In in Hg. destruct Hg as [Hin Hb]. apply andb_prop in Hb. exists g. tauto.
  - intros [Hc|[f (Hin & Hs & Hf)]]; [discriminate|].
    assert (Hg : In f (filter (fun f => selected s f && sf_fail f) files)) by (apply filter_In; rewrite Hs, Hf; auto).
    destruct (filter (fun f => selected s f && sf_fail f) files); [destruct Hg | cbn; lia].
Qed.

(* the counts of the closing log line "Processed N files with M errors" *)
Theorem counts_spec s files :
  processed (run_files s files) = length (filter (selected s) files) /\
  errored (run_files s files) = length (filter (fun f => selected s f && sf_fail f) files).
Proof.
  unfold run_files. destruct (fold_spec s files {| written := []; processed := 0; errored := 0 |}) as (_ & Hp & He).
  cbv zeta in Hp, He. rewrite Hp, He. split; reflexivity.
Qed.

(* without --file, distinct .go files never share an output *)
Theorem default_outputs_distinct files :
  NoDup (map (fun f => (sf_dir f, sf_base f)) files) ->
  (forall f, In f files -> has_suffix (sf_base f) s_go = true) ->
  NoDup (map fst (written (run_files [] files))).
Proof.
  intros Hnd Hgo. unfold run_files.
  destruct (fold_spec [] files {| written := []; processed := 0; errored := 0 |}) as (Hw & _ & _).
  cbv zeta in Hw. rewrite Hw. cbn [written app]. clear Hw.
  induction files as [|f files IH]; cbn [flat_map map]; [constructor|].
  cbn [map] in Hnd. inversion Hnd as [|? ? Hnotin Hnd']; subst.
  assert (IH' := IH Hnd' (fun g Hg => Hgo g (or_intror Hg))). clear IH.
  rewrite map_app. unfold emits_of at 1. cbn [target].
  destruct (sf_fail f); [exact IH'|]. destruct (sf_emits f); [|exact IH'].
  cbn [map fst app]. constructor; [|exact IH'].
  intros Hin. apply in_map_iff in Hin. destruct Hin as [[o g] [Ho Hg]]. cbn [fst] in Ho. subst o.
  apply in_flat_map in Hg. destruct Hg as [g' [Hg' He]]. unfold emits_of in He. cbn [target] in He.
  destruct (sf_fail g'); [destruct He|]. destruct (sf_emits g'); [|destruct He]. destruct He as [He|[]].
  injection He as Hd Hn <-. apply Hnotin. apply in_map_iff. exists g'. split; [|exact Hg'].
  f_equal; [exact Hd|]. apply gen_filename_injective; [apply Hgo; now right | apply Hgo; now left | exact Hn].
Qed.

(* non-vacuity: two packages with a foo.go each, a test file, a rejected file; -file=foo.go *)
Example ex_run :
  let foo := [102;111;111;46;103;111] in let bar := [98;97;114;46;103;111] in
  let files := [ {| sf_dir := 0; sf_base := foo; sf_fail := false; sf_emits := true |};
                 {| sf_dir := 0; sf_base := bar; sf_fail := true; sf_emits := true |};
                 {| sf_dir := 1; sf_base := foo; sf_fail := false; sf_emits := true |} ] in
  exit_nonzero (run_tool [] files) = true /\
  length (written (run_files [] files)) = 2 /\
  exit_nonzero (run_tool [(foo, [])] files) = false /\
  length (written (run_files [(foo, [])] files)) = 2 /\
  run_tool [(foo, []); (foo, [120])] files = None.
Proof. vm_compute. repeat split. Qed.
