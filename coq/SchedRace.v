(* Access discipline of the scheduler model: who writes what, and the chain of
   channel operations between the end of a job and the start of its consumers. *)
From CffVerif Require Import SchedModel SchedLemmas SchedInv SchedInv2 SchedProps SchedInv3 SchedInv4 SchedLive.

Section Race.
  Variable c : cfg.
  Hypothesis wf : wf_cfg c.
  Notation n := (length (cprog c)).
  Notation deps j := (jdeps (spec c j)).

  Definition is_loop_act (a : act) : bool :=
    match a with
    | ALoopDispatch _ | ALoopEnqRecv | ALoopEnqClosed | ALoopDone _ | ALoopTick | ALoopDrain | ALoopFinish => true
    | _ => false
    end.

  (* only the loop touches job state, the ready list, the counters and s.err *)
  Lemma loop_only s a s' evs :
    stepc c s a = Some (s', evs) -> is_loop_act a = false ->
    jobs s' = jobs s /\ ready s' = ready s /\ serr s' = serr s /\
    pending s' = pending s /\ ongoing s' = ongoing s /\ waiting s' = waiting s /\
    lp s' = lp s /\ enq_nil s' = enq_nil s.
  Proof.
    intros H Ha. destruct a; try discriminate Ha; stepc_inv H; fin_step H; cbn; repeat split; try reflexivity; congruence.
  Qed.

  (* Enqueue touches nothing but the enqueue channel (and the caller's own position) *)
  Lemma enqueue_only s s' evs :
    stepc c s ACallerEnq = Some (s', evs) ->
    jobs s' = jobs s /\ ready s' = ready s /\ serr s' = serr s /\ workers s' = workers s /\
    donec s' = donec s /\ pending s' = pending s /\ ongoing s' = ongoing s /\ waiting s' = waiting s /\
    lp s' = lp s /\ enq_nil s' = enq_nil s /\ enq_closed s' = enq_closed s /\ cancelled s' = cancelled s.
  Proof. intros H. stepc_inv H; fin_step H; cbn; repeat split; try reflexivity; congruence. Qed.

  (* workers never write: a worker action changes only its own slot and donec *)
  Lemma worker_only s a s' evs :
    stepc c s a = Some (s', evs) ->
    match a with AWorkerCheck _ | AWorkerEnd _ _ | AWorkerPost _ | AWorkerExit _ => True | _ => False end ->
    jobs s' = jobs s /\ enq s' = enq s /\ cp s' = cp s /\ cancelled s' = cancelled s /\ enq_closed s' = enq_closed s.
  Proof.
    intros H Ha. destruct a; try contradiction; stepc_inv H; fin_step H; cbn; repeat split; try reflexivity; congruence.
  Qed.

  (* the invalid flag of a job is never written once the job has been released
     (put on the ready list, handed to a worker, or its result posted): the worker's
     read of it races with no write *)
  Lemma invalid_stable (s : st) a (s' : st) j :
    RInv3 c s -> step c s a = Some s' ->
    0 < relc (ready s) (workers s) (donec s) j ->
    jinvalid (job s' j) = jinvalid (job s j).
  Proof.
    intros R H Hrel. destruct (step_stepc _ _ _ _ H) as (evs & Hc & _).
    pose proof (r3_inv1 _ _ R) as I1. pose proof (r3_inv2 _ _ R) as I2.
    destruct (is_done_act a) eqn:Ed.
    - destruct a; try discriminate Ed.
      assert (Hlk : lp s = LRun) by (unfold stepc in Hc; destruct (lp s); try discriminate; reflexivity).
      destruct (nth_error (donec s) i) as [[j0 r]|] eqn:Hn.
      2:{ unfold stepc in Hc. rewrite Hlk, Hn in Hc. discriminate. }
      destruct (done_effect c s i j0 r s' evs I1 I2 Hlk Hn Hc) as [_ DF].
      destruct DF as (Hd0 & _ & _ & _ & _ & Fi1 & Fi2 & _).
      destruct (jinvalid (job s j)) eqn:E; [now apply Fi2|].
      destruct (jinvalid (job s' j)) eqn:E'; [exfalso|reflexivity].
      destruct (Fi1 j E') as [F|(_ & _ & Hin)]; [congruence|].
      destruct (i2_released _ _ _ _ _ I2 j Hrel j0 Hin) as [D _]. unfold job, jget in *. congruence.
    - destruct a; try discriminate Ed; try (stepc_inv Hc; fin_step Hc; reflexivity).
      (* the enqueue arm writes the flag of the job it receives, which is not released yet *)
      pose proof Hc as Hc0. stepc_inv Hc.
      match goal with Hl : lp (core_of s) = LRun, He : enq (core_of s) = ?k0 :: ?rest |- _ =>
        destruct (enqrecv_facts c wf s k0 rest I1 I2 Hl He) as (-> & Hkn & Hnr & Pk & Hde & Hot & Rk & Vk);
        assert (Hne : j <> k0);
        [ intros ->; unfold Inv2 in I2; rewrite Hl, Hnr in I2;
          pose proof (i2_places _ _ _ _ _ I2 eq_refl k0) as P; rewrite Nat.ltb_irrefl in P; cbn in P; lia |] end.
      unfold job. fin_step Hc;
        match goal with |- context [if ?b then set_ready _ _ else _] => destruct b end; cbn; apply Hot; auto.
  Qed.

  (* ---------- the happens-before chain, as precedence in the history ---------- *)
  Fixpoint h3_ok (l : list event) : Prop :=
    match l with
    | [] => True
    | e :: l' =>
        h3_ok l' /\
        match e with
        | EvStart j | EvSkip j _ => exists w, In (EvDispatch j w) l'
        | EvDispatch j _ => forall d, In d (deps j) -> exists r, In (EvDoneRecv d r) l'
        | EvDoneRecv j _ => In (EvPost j) l'
        | EvPost j => (exists o, In (EvEnd j o) l') \/ (exists e, In (EvSkip j e) l')
        | EvEnd j _ => In (EvStart j) l'
        | _ => True
        end
    end.

  Record RInv6 (s : st) : Prop := {
    r6_inv4 : RInv4 c s;
    r6_got : forall w j, wk s w = WGot j -> exists w', In (EvDispatch j w') (log s);
    r6_posted : forall j r, In (j, r) (donec s) -> In (EvPost j) (log s);
    r6_hist3 : h3_ok (log s);
  }.

  Lemma rinv6_init : RInv6 (init c).
  Proof.
    constructor; cbn; auto.
    - apply rinv4_init.
    - intros w j Hw. destruct (wk_init c w) as [E|E]; unfold wk in *; cbn in *; congruence.
  Qed.

  Lemma resjust_end_or_skip l j r :
    resjust c l j r -> (exists o, In (EvEnd j o) l) \/ (exists e, In (EvSkip j e) l).
  Proof. destruct r as [[x|cx| |]|]; cbn; intros H; [left|right|right|left|left]; try (eexists; eauto; fail); destruct H as (_ & H & _); eauto. Qed.

  Lemma rinv6_step s a s' : RInv6 s -> step c s a = Some s' -> RInv6 s'.
  Proof.
    intros R H. pose proof (rinv4_step c wf _ _ _ (r6_inv4 _ R) H) as R4'.
    destruct (step_stepc _ _ _ _ H) as (evs & Hc & Hl).
    destruct R as [R4 Rg Rp Rh]. pose proof (r4_inv3 _ _ R4) as R3.
    pose proof (r3_inv2 _ _ R3) as I2.
    destruct s as [k l]. destruct s' as [k' l']. cbn [core_of log] in *. subst l'. clear H.
    constructor; [exact R4'| | |]; cbn [core_of log].
    - (* got *)
      destruct a; stepc_inv Hc; fin_step Hc;
        try match goal with |- context [if ?b then set_ready _ _ else _] => destruct b end;
        unfold wk in *; cbn;
        intros w0 j0 Hw0;
        try (rewrite nth_upd in Hw0; destruct (_ && _) eqn:Eb;
             [first [discriminate Hw0 | injection Hw0 as <-; eexists; cbn; eauto] | ]);
        try (destruct (Rg _ _ Hw0) as (w' & Hin); exists w'; cbn; tauto).
    - (* posted *)
      destruct a; stepc_inv Hc; fin_step Hc;
        try match goal with |- context [if ?b then set_ready _ _ else _] => destruct b end;
        cbn; intros j0 r0 Hin;
        try (apply remove_nth_In in Hin);
        try (apply in_app_or in Hin as [Hin|[Hin|[]]]; [|injection Hin as <- <-; now left]);
        try (pose proof (Rp _ _ Hin); tauto).
    - (* hist3 *)
      destruct a; stepc_inv Hc; fin_step Hc;
        try match goal with |- context [if ?b then set_ready _ _ else _] => destruct b end;
        cbn; repeat split; auto.
      all: unfold wk in *.
      all: try (eapply Rg; eassumption).
      all: try (match goal with Hn : nth_error (donec _) _ = Some _ |- In (EvPost _) _ =>
                  apply nth_error_In in Hn; subst; eapply Rp; eassumption end).
      all: try match goal with Hw : nth _ _ WExit = WPost ?j ?r |- _ =>
                 apply (resjust_end_or_skip l j r); apply (r3_wpost _ _ R3 _ _ _ Hw) end.
      all: try match goal with Hw : nth _ _ WExit = WRun ?j |- In (EvStart ?j) _ =>
                 apply (r3_wrun _ _ R3 _ _ Hw) end.
      all: try (intros d Hd;
                match goal with Hr : ready _ = ?j :: _ |- _ =>
                  assert (Hrel : 0 < relc (ready k) (workers k) (donec k) j)
                    by (unfold relc; rewrite Hr; cbn; destruct (Nat.eq_dec j j); [lia|congruence]);
                  destruct (i2_released _ _ _ _ _ I2 j Hrel d Hd) as [Dd _];
                  eexists; apply (r4_jdone_recv _ _ R4 d Dd) end).
  Qed.

  Lemma run_rinv6 acts s : run c (init c) acts = Some s -> RInv6 s.
  Proof. apply run_invariant; [apply rinv6_init | apply rinv6_step]. Qed.

  (* [chain l es]: the events es occur in l in this order, newest first *)
  Fixpoint chain (l : list event) (es : list event) : Prop :=
    match es with
    | [] => True
    | e :: es' => exists l1 l2, l = l1 ++ e :: l2 /\ chain l2 es'
    end.

  Lemma h3_ok_app l1 l2 : h3_ok (l1 ++ l2) -> h3_ok l2.
  Proof. induction l1 as [|e l1 IH]; cbn; [auto|]. intros [H _]. auto. Qed.

  Lemma c01_ok_app' l1 l2 : c01_ok c (l1 ++ l2) -> c01_ok c l2.
  Proof. induction l1 as [|e l1 IH]; cbn; [auto|]. intros [H _]. auto. Qed.

  Lemma skip_xor_start l j e : c01_ok c l -> In (EvSkip j e) l -> In (EvStart j) l -> False.
  Proof.
    induction l as [|x l IH]; cbn; [tauto|]. intros [Hl Hx] [H1|H1] [H2|H2].
    - congruence.
    - subst x. assert (E : existsb (checked j) l = true).
      { apply existsb_exists. exists (EvStart j). split; [exact H2|cbn; apply Nat.eqb_refl]. }
      congruence.
    - subst x. destruct Hx as [Hx _]. assert (E : existsb (checked j) l = true).
      { apply existsb_exists. exists (EvSkip j e). split; [exact H1|cbn; apply Nat.eqb_refl]. }
      congruence.
    - eauto.
  Qed.

  Lemma end_unique' l j o1 o2 : c01_ok c l -> In (EvEnd j o1) l -> In (EvEnd j o2) l -> o1 = o2.
  Proof.
    induction l as [|e l IH]; cbn; [tauto|]. intros [Hl He] [H1|H1] [H2|H2].
    - congruence.
    - subst e. exfalso. eapply He; eauto.
    - subst e. exfalso. eapply He; eauto.
    - auto.
  Qed.

  (* Between the successful end of a dependency p and the start of its consumer j lie,
     in this order: the worker's send of p's result, the loop's receipt of it, and the
     dispatch of j - the channel operations that carry the happens-before edge from
     the write of p's outputs to their read by j. *)
  Theorem hb_chain acts s post j pre p :
    run c (init c) acts = Some s -> log s = post ++ EvStart j :: pre -> In p (deps j) ->
    exists w, chain pre [EvDispatch j w; EvDoneRecv p None; EvPost p; EvEnd p OOk].
  Proof.
    intros Hr Hl Hp. pose proof (run_rinv6 _ _ Hr) as R6. pose proof (r6_hist3 _ R6) as H3.
    pose proof (r6_inv4 _ R6) as R4. pose proof (r4_inv3 _ _ R4) as R3.
    pose proof (r3_hist _ _ R3) as H1.
    rewrite Hl in H3, H1. apply h3_ok_app in H3. apply c01_ok_app' in H1.
    cbn in H3, H1. destruct H3 as [H3 (w & Hd)]. destruct H1 as [H1 [_ Hends]].
    specialize (Hends p Hp).
    exists w. apply in_split in Hd as (a1 & b1 & E1). subst pre.
    exists a1, b1. split; [reflexivity|].
    apply h3_ok_app in H3 as H3b. cbn in H3b. destruct H3b as [H3b Hdeps].
    destruct (Hdeps p Hp) as (r & Hrecv).
    apply in_split in Hrecv as (a2 & b2 & E2). subst b1.
    apply h3_ok_app in H3b as H3c. cbn in H3c. destruct H3c as [H3c Hpost].
    apply in_split in Hpost as (a3 & b3 & E3). subst b2.
    apply h3_ok_app in H3c as H3d. cbn in H3d. destruct H3d as [H3d Hes].
    (* the whole older part is a suffix of the log: uniqueness facts apply to it *)
    set (older := a1 ++ EvDispatch j w :: a2 ++ EvDoneRecv p r :: a3 ++ EvPost p :: b3) in *.
    assert (Sub : forall e, In e b3 -> In e older).
    { intros e He. unfold older. apply in_or_app. right. right. apply in_or_app. right. right.
      apply in_or_app. right. right. exact He. }
    assert (Hend_b3 : In (EvEnd p OOk) b3).
    { destruct Hes as [(o & Ho)|(e & He)].
      - rewrite (end_unique' older p OOk o H1 Hends (Sub _ Ho)). exact Ho.
      - exfalso. apply (skip_xor_start older p e H1 (Sub _ He)).
        (* p ended, so it started before *)
        pose proof Hends as Hx. apply in_split in Hx as (x1 & x2 & Ex).
        pose proof H3 as H3e. fold older in H3e. rewrite Ex in H3e. apply h3_ok_app in H3e. cbn in H3e.
        destruct H3e as [_ Hs]. rewrite Ex. apply in_or_app. right. right. exact Hs. }
    (* the received result is the successful one *)
    assert (Hends_full : In (EvEnd p OOk) (log s)).
    { rewrite Hl. apply in_or_app. right. right. exact Hends. }
    assert (Hstart_p : In (EvStart p) (log s)) by (eapply (r3_end_start _ _ R3); eauto).
    pose proof (r3_hist _ _ R3) as Hh.
    assert (Hr0 : r = None).
    { assert (Hin : In (EvDoneRecv p r) (log s)).
      { rewrite Hl. apply in_or_app. right. right. unfold older. apply in_or_app. right. right. apply in_or_app. right. now left. }
      destruct (r3_donerecv _ _ R3 p r Hin) as [D1 D2].
      pose proof (r3_done _ _ R3 p D1) as J. rewrite D2 in J.
      destruct r as [[x|cx| |]|]; [| | | |reflexivity]; cbn in J; exfalso.
      - pose proof (end_unique' _ p OOk (OErr x) Hh Hends_full J). discriminate.
      - destruct J as (_ & Jk & _). apply (skip_xor_start _ p _ Hh Jk Hstart_p).
      - apply (skip_xor_start _ p _ Hh J Hstart_p).
      - pose proof (end_unique' _ p OOk OGoexit Hh Hends_full J). discriminate. }
    subst r. exists a2, (a3 ++ EvPost p :: b3). split; [reflexivity|].
    exists a3, b3. split; [reflexivity|].
    apply in_split in Hend_b3 as (a4 & b4 & E4). exists a4, b4. split; [exact E4|exact I].
  Qed.
End Race.
