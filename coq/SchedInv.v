(* Invariants of the scheduler model, by induction over runs. *)
From CffVerif Require Import SchedModel SchedLemmas.

Ltac stepc_inv H :=
  unfold stepc in H; cbv zeta in H;
  repeat match type of H with
  | (match ?x with _ => _ end) = Some _ => destruct x eqn:?; try discriminate H
  | (if ?x then _ else _) = Some _ => destruct x eqn:?; try discriminate H
  | (let '(_, _) := ?x in _) = Some _ => destruct x eqn:?
  end.

Ltac fin_step H :=
  match type of H with
  | Some (exit_test ?x ?e) = Some (_, _) =>
      let E := fresh "E" in
      injection H as H;
      destruct (exit_test_cases x e) as [[E _]|[E [? ?]]];
      (let H2 := fresh "H" in
       assert (H2 := eq_trans (eq_sym E) H); clear H E; injection H2 as <- <-)
  | Some (_, _) = Some (_, _) => injection H as <- <-
  end.

Definition busy (w : wst) : bool :=
  match w with WGot _ | WRun _ | WPost _ _ => true | _ => false end.
Definition countb {A} (p : A -> bool) (l : list A) : nat := length (filter p l).

Lemma countb_app {A} (p : A -> bool) l1 l2 : countb p (l1 ++ l2) = countb p l1 + countb p l2.
Proof. unfold countb. now rewrite filter_app, app_length. Qed.

Lemma countb_upd {A} (p : A -> bool) w f (l : list A) d :
  w < length l ->
  countb p (upd w f l) + (if p (nth w l d) then 1 else 0)
  = countb p l + (if p (f (nth w l d)) then 1 else 0).
Proof.
  revert w. induction l as [|x l IH]; intros [|w] H; cbn in *; try lia.
  - unfold countb; cbn. destruct (p x), (p (f x)); cbn; lia.
  - specialize (IH w ltac:(lia)). unfold countb in *; cbn. destruct (p x); cbn; lia.
Qed.

Lemma countb_le {A} (p : A -> bool) l : countb p l <= length l.
Proof. unfold countb. induction l as [|x l IH]; cbn; [lia|]. destruct (p x); cbn; lia. Qed.

Lemma nth_not_default_lt {A} (l : list A) w d : nth w l d <> d -> w < length l.
Proof.
  intros H. destruct (Nat.lt_ge_cases w (length l)); auto.
  exfalso. apply H. now apply nth_overflow.
Qed.

Definition b2z (b : bool) : Z := if b then 1%Z else 0%Z.

Lemma countb_upd_z {A} (p : A -> bool) w y (l : list A) d :
  w < length l ->
  Z.of_nat (countb p (upd w (fun _ => y) l))
  = (Z.of_nat (countb p l) - b2z (p (nth w l d)) + b2z (p y))%Z.
Proof.
  intros H. pose proof (countb_upd p w (fun _ => y) l d H) as E. cbn in E.
  unfold b2z. destruct (p (nth w l d)), (p y); lia.
Qed.

Lemma wk_lt s w : wk s w <> WExit -> w < length (workers s).
Proof. apply nth_not_default_lt. Qed.

Lemma reg_deps_length k ds js : length (reg_deps k ds js) = length js.
Proof.
  revert js. induction ds as [|d ds IH]; intros js; cbn; auto.
  destruct (jdone (nth d js jst0)).
  - rewrite IH. destruct (jerr (nth d js jst0)); now rewrite ?upd_length.
  - rewrite IH. now rewrite !upd_length.
Qed.

Lemma mark_invalid_length cs js : length (mark_invalid cs js) = length js.
Proof. revert js. induction cs as [|x cs IH]; intros js; cbn; auto. now rewrite IH, upd_length. Qed.

Lemma notify_length cs : forall js wt rd js' wt' rd',
  notify cs js wt rd = (js', wt', rd') -> length js' = length js.
Proof.
  induction cs as [|x cs IH]; intros js wt rd js' wt' rd' H; cbn in H.
  - now injection H as <- _ _.
  - destruct (remaining _ =? 0)%Z; apply IH in H; now rewrite upd_length in H.
Qed.

(* notify moves jobs from waiting to ready one for one *)
Lemma notify_counts cs : forall js wt rd js' wt' rd',
  notify cs js wt rd = (js', wt', rd') ->
  (Z.of_nat (length rd') + wt' = Z.of_nat (length rd) + wt)%Z.
Proof.
  induction cs as [|x cs IH]; intros js wt rd js' wt' rd' H; cbn in H.
  - injection H as _ <- <-. lia.
  - destruct (remaining _ =? 0)%Z; apply IH in H; rewrite ?app_length in H; cbn in H; lia.
Qed.

Section Inv.
  Variable c : cfg.
  Notation n := (length (cprog c)).

  Definition sentn (s : core) : nat := match cp s with CEnq k => k | _ => n end.

  Record Inv1 (s : core) : Prop := {
    i1_jobs : length (jobs s) = n;
    i1_workers : length (workers s) = cN c;
    i1_sent : sentn s <= n;
    i1_closed : enq_closed s = match cp s with CEnq _ => false | _ => true end;
    i1_enq : enq s = [] \/ (enq s = [sentn s - 1] /\ 1 <= sentn s);
    i1_nil : enq_nil s = true -> enq_closed s = true /\ enq s = [];
    i1_fin : lp s = LFin -> enq_closed s = true /\ enq s = [];
    i1_ongoing : ongoing s = Z.of_nat (countb busy (workers s) + length (donec s));
    i1_donec : length (donec s) <= cN c;
    i1_gated : cgated c = true -> (ongoing s <= Z.of_nat (cN c))%Z;
    i1_pending : lp s = LRun -> pending s = (Z.of_nat (length (ready s)) + waiting s + ongoing s)%Z;
  }.

  Lemma countb_busy_idle k : countb busy (repeat WIdle k) = 0.
  Proof. induction k; cbn; auto. Qed.

  Lemma inv1_init : Inv1 (initc c).
  Proof.
    constructor; cbn -[countb];
      try solve [auto | lia | intros; discriminate | apply repeat_length].
    now rewrite countb_busy_idle.
  Qed.

  Ltac t1 :=
    unfold sentn in *;
    cbn -[countb Z.of_nat Z.add Z.sub Nat.ltb Nat.leb Nat.eqb Z.ltb Z.eqb Nat.sub] in *;
    try match goal with E : cp _ = _ |- _ => rewrite E in * end;
    rewrite ?upd_length, ?app_length, ?reg_deps_length, ?mark_invalid_length in *;
    cbn -[countb Z.of_nat Z.add Z.sub Nat.ltb Nat.leb Nat.eqb Z.ltb Z.eqb Nat.sub] in *;
    try solve [auto | lia | intros; discriminate | congruence
              | intuition (auto; try congruence; try discriminate; try lia)].

  Ltac t2 :=
    repeat match goal with
    | H : nth_error (donec _) _ = Some _ |- _ => apply remove_nth_length in H
    | H : notify _ _ _ _ = (_, _, _) |- _ =>
        pose proof (notify_length _ _ _ _ _ _ _ H); pose proof (notify_counts _ _ _ _ _ _ _ H); clear H
    | H : (_ <? _) = true |- _ => apply Nat.ltb_lt in H
    | H : (_ <? _)%Z = true |- _ => apply Z.ltb_lt in H
    | H : (_ =? _) = true |- _ => apply Nat.eqb_eq in H
    | H : (_ || _) = true |- _ => apply orb_true_iff in H
    | H : negb _ = true |- _ => apply negb_true_iff in H
    end;
    try match goal with
    | H : wk ?s ?w = ?x |- context [countb busy (upd ?w _ (workers ?s))] =>
        rewrite Nat2Z.inj_add, (countb_upd_z busy w _ (workers s) WExit)
          by (apply wk_lt; rewrite H; discriminate);
        unfold wk in H; rewrite H; cbn [busy b2z]
    end;
    rewrite ?mark_invalid_length, ?reg_deps_length, ?upd_length, ?app_length in *;
    cbn [length] in *;
    try match goal with
    | D : _ :: _ = [] \/ _ |- _ =>
        destruct D as [D|[D ?]]; [discriminate D | injection D as -> ->]
    end;
    try solve [auto | lia | congruence | intuition (auto; try congruence; try discriminate; try lia)].

  Lemma inv1_step s a s' evs : Inv1 s -> stepc c s a = Some (s', evs) -> Inv1 s'.
  Proof.
    intros I H. destruct I. destruct a; stepc_inv H; fin_step H.
    all: try match goal with |- context [if ?b then set_ready _ _ else _] => destruct b end.
    all: constructor; t1; t2.
    - right. split; [f_equal; lia | lia].
    - intros G. rewrite G in *. cbn in *.
      match goal with D : false = true \/ _ |- _ => destruct D as [?|?]; [discriminate|lia] end.
    - intros G. rewrite G in *. cbn in *.
      match goal with D : false = true \/ _ |- _ => destruct D as [?|?]; [discriminate|lia] end.
  Qed.
End Inv.
