(* Termination and absence of leaks: a measure that every scheduler action
   decreases, and progress in every non-final reachable state (gated dispatch). *)
From CffVerif Require Import SchedModel SchedLemmas SchedInv SchedInv2 SchedProps SchedInv3 SchedInv4.

Section Live.
  Variable c : cfg.
  Hypothesis wf : wf_cfg c.
  Notation n := (length (cprog c)).
  Notation deps j := (jdeps (spec c j)).

  (* environment actions: the ticker firing, a context being cancelled *)
  Definition is_env (a : act) : bool := match a with ALoopTick | ACancel _ => true | _ => false end.

  Definition wweight (w : wst) : Z :=
    match w with WGot _ => 5 | WRun _ => 4 | WPost _ _ => 3 | WIdle => 1 | WExit => 0 end%Z.
  Fixpoint wsum (ws : list wst) : Z := match ws with [] => 0 | w :: t => wweight w + wsum t end%Z.

  Definition mu (s : core) : Z :=
    ((match cp s with CEnq k => 10 * (Z.of_nat n - Z.of_nat k) + 2 | CWait => 1 | CRet _ => 0 end)
     + 8 * Z.of_nat (length (enq s))
     + 7 * (Z.of_nat (length (ready s)) + waiting s)
     + wsum (workers s)
     + Z.of_nat (length (donec s))
     + (match lp s with LRun => 3 + (if enq_nil s then 0 else 1) | LDrain => 1 | LFin => 0 end))%Z.

  Lemma wsum_upd ws w x :
    w < length ws -> wsum (upd w (fun _ => x) ws) = (wsum ws - wweight (nth w ws WExit) + wweight x)%Z.
  Proof.
    revert w. induction ws as [|y ws IH]; intros [|w] H; cbn [wsum upd nth length] in *; try lia.
    rewrite IH by lia. lia.
  Qed.

  Lemma wsum_nonneg ws : (0 <= wsum ws)%Z.
  Proof. induction ws as [|w ws IH]; cbn [wsum]; [lia|]. destruct w; cbn [wweight]; lia. Qed.

  (* every scheduler action strictly decreases the measure; environment actions keep it *)
  Lemma mu_step s a s' evs :
    stepc c s a = Some (s', evs) ->
    if is_env a then mu s' = mu s \/ (mu s' < mu s)%Z else (mu s' < mu s)%Z.
  Proof.
    intros H. destruct a; stepc_inv H; fin_step H.
    all: try match goal with |- context [if ?b then set_ready _ _ else _] => destruct b end.
    all: repeat match goal with
         | Hn : notify _ _ _ _ = (_, _, _) |- _ => apply notify_counts in Hn
         | Hw : wk _ ?w = _ |- _ => pose proof (wk_lt _ _ ltac:(rewrite Hw; discriminate)) as Lw; unfold wk in Hw
         | Hx : nth_error (donec _) _ = Some _ |- _ => apply remove_nth_length in Hx
         end.
    all: unfold mu; cbn -[Z.mul Z.add Z.sub Z.of_nat wsum];
         rewrite ?wsum_upd by assumption;
         repeat match goal with Hw : nth _ _ WExit = _ |- _ => rewrite Hw end;
         rewrite ?app_length; cbn [wweight length];
         repeat match goal with
                | E : cp _ = _ |- _ => rewrite E
                | E : enq _ = _ |- _ => rewrite E
                | E : ready _ = _ |- _ => rewrite E
                | E : lp _ = _ |- _ => rewrite E
                | E : enq_nil _ = _ |- _ => rewrite E
                | E : (_ <? _) = true |- _ => apply Nat.ltb_lt in E
                | E : (_ =? _) = true |- _ => apply Nat.eqb_eq in E
                end; cbn [length]; try lia;
         try (destruct (cp s); try destruct (enq_nil s); lia).
  Qed.

  Record RInv5 (s : st) : Prop := {
    r5_inv4 : RInv4 c s;
    r5_wnn : (0 <= waiting s)%Z;
    r5_noexit : lp s = LRun -> (pending s =? 0)%Z && enq_nil s = false;
  }.

  Lemma rinv5_init : RInv5 (init c).
  Proof. constructor; [apply rinv4_init; exact wf | cbn; lia | reflexivity]. Qed.

  Lemma rinv5_step s a s' : RInv5 s -> step c s a = Some s' -> RInv5 s'.
  Proof.
    intros R H. pose proof (rinv4_step c wf _ _ _ (r5_inv4 _ R) H) as R4'.
    destruct R as [R4 Wn Ne]. constructor; [exact R4'| |].
    all: destruct s' as [k' l']; cbn [core_of log] in *.
    - (* waiting stays non-negative *)
      destruct (lp k') eqn:Hl'.
      + destruct (r3_counts _ _ (r4_inv3 _ _ R4') Hl') as [_ B]. cbn [core_of] in B. rewrite B. lia.
      + (* the loop just left, or had left before: waiting as computed by the last loop action *)
        destruct (step_stepc _ _ _ _ H) as (evs & Hc & _).
        destruct (is_done_act a) eqn:Ed.
        * destruct a; try discriminate Ed.
          pose proof (r4_inv3 _ _ R4) as R3. pose proof (r3_inv1 _ _ R3) as I1. pose proof (r3_inv2 _ _ R3) as I2.
          assert (Hlk : lp s = LRun) by (unfold stepc in Hc; destruct (lp s); try discriminate; reflexivity).
          destruct (nth_error (donec s) i) as [[j0 r]|] eqn:Hn.
          2:{ unfold stepc in Hc. rewrite Hlk, Hn in Hc. discriminate. }
          destruct (done_effect c s i j0 r k' evs I1 I2 Hlk Hn Hc) as [_ DF].
          destruct DF as (_ & _ & _ & _ & _ & _ & _ & (rell & _ & Ewt & Frell & Fmono)).
          destruct (r3_counts _ _ R3 Hlk) as [_ B].
          assert (Wn' : forall x, waitingj (jobs s) x = true -> x < n).
          { intros x W. unfold Inv2 in I2. rewrite Hlk in I2. pose proof (i2_nr _ _ _ _ _ I2 eq_refl).
            destruct (Nat.lt_ge_cases x (nrecv c s)); [lia|].
            pose proof (i2_pristine _ _ _ _ _ I2 eq_refl x H1) as P. unfold waitingj in W. rewrite P in W. discriminate. }
          pose proof (cnt_sum_occ rell n (waitingj (jobs s)) (waitingj (jobs k'))) as S.
          rewrite Ewt, B, <- S; [lia| | |].
          -- intros x Hx. apply (count_occ_In Nat.eq_dec) in Hx. rewrite Frell in Hx.
             destruct (waitingj (jobs s) x) eqn:W; [auto|cbn in Hx; lia].
          -- intros x _. apply Frell.
          -- intros x _. apply Fmono.
        * destruct a; try discriminate Ed; stepc_inv Hc; fin_step Hc;
            try match goal with |- context [if ?b then set_ready _ _ else _] => destruct b end;
            cbn in *; try lia; try discriminate.
      + destruct (step_stepc _ _ _ _ H) as (evs & Hc & _).
        destruct a; stepc_inv Hc; fin_step Hc;
          try match goal with |- context [if ?b then set_ready _ _ else _] => destruct b end;
          cbn in *; try lia; try discriminate; try congruence.
    - (* a loop that is still running has not met its exit condition *)
      intros Hl'. destruct (step_stepc _ _ _ _ H) as (evs & Hc & _).
      destruct a; stepc_inv Hc;
      try match goal with H0 : context [if ?b then set_ready _ _ else _] |- _ => destruct b end;
      try (match goal with H0 : Some (exit_test _ _) = Some _ |- _ =>
             injection H0 as H0; unfold exit_test in H0;
             match type of H0 with (if ?b then _ else _) = _ => destruct b eqn:Ex end;
             injection H0 as <- <-; [cbn in Hl'; discriminate | cbn in *; exact Ex] end);
      try (fin_step Hc; cbn in *; try discriminate; try congruence; apply Ne; assumption).
  Qed.

  Lemma run_rinv5 acts s : run c (init c) acts = Some s -> RInv5 s.
  Proof. apply run_invariant; [apply rinv5_init | apply rinv5_step]. Qed.

  (* ---------- the measure bounds the number of scheduler actions ---------- *)
  Definition count_sched (acts : list act) : nat := length (filter (fun a => negb (is_env a)) acts).

  Lemma run_mu acts : forall s0 s, run c s0 acts = Some s -> (Z.of_nat (count_sched acts) <= mu s0 - mu s)%Z.
  Proof.
    induction acts as [|a acts IH]; intros s0 s H; cbn in H.
    - injection H as <-. unfold count_sched. cbn. lia.
    - destruct (step c s0 a) as [s1|] eqn:E; [|discriminate].
      specialize (IH _ _ H). destruct (step_stepc _ _ _ _ E) as (evs & Hc & _).
      pose proof (mu_step _ _ _ _ Hc) as M. unfold count_sched in *. cbn [filter].
      destruct (is_env a); cbn [negb length]; lia.
  Qed.

  Lemma mu_nonneg (s : st) : RInv5 s -> (0 <= mu s)%Z.
  Proof.
    intros R. pose proof (r5_wnn _ R). pose proof (wsum_nonneg (workers s)).
    pose proof (i1_sent _ _ (r3_inv1 _ _ (r4_inv3 _ _ (r5_inv4 _ R)))) as Hs. unfold sentn in Hs.
    unfold mu. destruct (cp s), (lp s); try destruct (enq_nil s); lia.
  Qed.

  Lemma wsum_idle k : wsum (repeat WIdle k) = Z.of_nat k.
  Proof. induction k; cbn [repeat wsum wweight]; lia. Qed.

  Theorem sched_actions_bounded acts s :
    run c (init c) acts = Some s -> count_sched acts <= 10 * n + cN c + 6.
  Proof.
    intros H. pose proof (run_mu _ _ _ H) as B. pose proof (mu_nonneg s (run_rinv5 _ _ H)) as P.
    assert (E : mu (init c) = (10 * Z.of_nat n + Z.of_nat (cN c) + 6)%Z).
    { unfold mu, init, initc. cbn [core_of cp enq ready waiting workers donec lp enq_nil length]. rewrite wsum_idle. lia. }
    lia.
  Qed.

  (* ---------- progress ---------- *)
  Lemma held_le_busy ws j : held ws j <= countb busy ws.
  Proof.
    unfold held, countb. induction ws as [|w ws IH]; cbn; [lia|].
    destruct w; cbn; try destruct (Nat.eqb _ j); cbn; lia.
  Qed.

  Lemma cnt_pos_ex f m : 0 < cnt f m -> exists x, x < m /\ f x = true.
  Proof.
    induction m as [|m IH]; cbn; [lia|]. destruct (f m) eqn:E.
    - intros _. exists m. split; [lia|exact E].
    - intros H. destruct IH as (x & Hx & Fx); [lia|]. exists x. split; [lia|exact Fx].
  Qed.

  Lemma filter_pos_ex {A} (f : A -> bool) l : 0 < length (filter f l) -> exists x, In x l /\ f x = true.
  Proof.
    induction l as [|y l IH]; cbn; [lia|]. destruct (f y) eqn:E.
    - intros _. exists y. auto.
    - intros H. destruct (IH H) as (x & Hx & Fx). exists x. auto.
  Qed.

  (* with nothing in flight and nothing ready, nothing can be waiting: a waiting job's
     unfinished dependency would itself have to be waiting, and dependencies come earlier *)
  Lemma no_wait_deadlock (s : st) :
    RInv3 c s -> lp s = LRun -> ready s = [] -> countb busy (workers s) = 0 -> donec s = [] ->
    forall x, waitingj (jobs s) x = false.
  Proof.
    intros R Hl Hr Hb Hd. pose proof (r3_inv2 _ _ R) as I2. unfold Inv2 in I2. rewrite Hl in I2.
    pose proof (r3_inv1 _ _ R) as I1.
    assert (Hrel : forall d, relc (ready s) (workers s) (donec s) d = 0).
    { intros d. unfold relc. rewrite Hr, Hd. cbn. pose proof (held_le_busy (workers s) d). lia. }
    intros x. induction x as [x IH] using lt_wf_ind.
    destruct (waitingj (jobs s) x) eqn:W; [exfalso|reflexivity].
    assert (Hx : x < nrecv c s).
    { destruct (Nat.lt_ge_cases x (nrecv c s)); auto.
      pose proof (i2_pristine _ _ _ _ _ I2 eq_refl x H) as P. unfold waitingj in W. rewrite P in W. discriminate. }
    pose proof (i2_rem _ _ _ _ _ I2 eq_refl x Hx) as Rm. unfold waitingj in W. apply Z.ltb_lt in W.
    destruct (filter_pos_ex (undone_in (jobs s)) (deps x)) as (d & Hin & Ud); [lia|].
    pose proof (i2_nr _ _ _ _ _ I2 eq_refl) as Hnr.
    assert (Hdx : d < x). { destruct wf as [_ Wd]. apply (Wd x d); [lia|exact Hin]. }
    pose proof (i2_places _ _ _ _ _ I2 eq_refl d) as P. rewrite Hrel in P.
    unfold undone_in in Ud. apply negb_true_iff in Ud. rewrite Ud in P. cbn [b2n] in P.
    replace (d <? nrecv c s) with true in P by (symmetry; apply Nat.ltb_lt; lia).
    rewrite (IH d Hdx) in P. cbn in P. lia.
  Qed.

  Lemma countb_zero_nth {A} (p : A -> bool) ws w d : countb p ws = 0 -> w < length ws -> p (nth w ws d) = false.
  Proof.
    intros H L. destruct (p (nth w ws d)) eqn:E; [|reflexivity].
    pose proof (countb_nth_pos p ws w d L E). lia.
  Qed.

  Lemma countb_pos_ex {A} (p : A -> bool) ws d : 0 < countb p ws -> exists w, w < length ws /\ p (nth w ws d) = true.
  Proof.
    unfold countb. induction ws as [|x ws IH]; cbn; [lia|]. destruct (p x) eqn:E.
    - intros _. exists 0. split; [lia|exact E].
    - intros H. destruct (IH H) as (w & L & P). exists (S w). split; [lia|exact P].
  Qed.

  (* a busy worker can always take its next step (gated: there is room for its result) *)
  Lemma busy_progress (s : st) w :
    RInv3 c s -> cgated c = true -> w < cN c -> busy (wk s w) = true ->
    exists a s', is_env a = false /\ step c s a = Some s'.
  Proof.
    intros R G Hw Hb. pose proof (r3_inv1 _ _ R) as I1.
    unfold step. destruct (wk s w) eqn:E; try discriminate Hb.
    - exists (AWorkerCheck w). unfold stepc. rewrite E.
      destruct (memc _ _); [eauto|]. destruct (jinvalid _); eauto.
    - exists (AWorkerEnd w OOk). unfold stepc. rewrite E. eauto.
    - exists (AWorkerPost w). unfold stepc. rewrite E.
      assert (L : length (donec s) < cN c).
      { pose proof (i1_ongoing _ _ I1) as O. pose proof (i1_gated _ _ I1 G) as Gd.
        assert (B : 1 <= countb busy (workers s)).
        { apply (countb_nth_pos busy (workers s) w WExit); [rewrite (i1_workers _ _ I1); exact Hw|].
          unfold wk in E. rewrite E. reflexivity. }
        lia. }
      apply Nat.ltb_lt in L. rewrite L. eauto.
  Qed.

  Lemma forallb_exists_false (ws : list wst) (p : wst -> bool) :
    forallb p ws = false -> exists w, w < length ws /\ p (nth w ws WExit) = false.
  Proof.
    induction ws as [|x ws IH]; cbn; [discriminate|]. destruct (p x) eqn:E; cbn.
    - intros H. destruct (IH H) as (w & L & P). exists (S w). split; [lia|exact P].
    - intros _. exists 0. split; [lia|exact E].
  Qed.

  (* the loop is running, no worker is busy, the enqueue channel is closed or not *)
  Lemma loop_running_progress (s : st) :
    RInv c s -> RInv5 s -> cgated c = true -> lp s = LRun -> countb busy (workers s) = 0 ->
    (forall w, w < cN c -> wk s w = WIdle \/ wk s w = WExit) ->
    enq_closed s = true ->
    exists a s', is_env a = false /\ step c s a = Some s'.
  Proof.
    intros R0 R5 G El Hb Hidle Hcl. pose proof (r5_inv4 _ R5) as R4. pose proof (r4_inv3 _ _ R4) as R.
    pose proof (r3_inv1 _ _ R) as I1. destruct wf as [HN _].
    destruct (enq_nil s) eqn:En.
    2:{ destruct (enq s) as [|j0 rest] eqn:Ee.
        - exists ALoopEnqClosed. unfold step, stepc. rewrite El, En, Ee, Hcl. destruct (exit_test _ _). eauto.
        - exists ALoopEnqRecv. unfold step, stepc. rewrite El, En, Ee. destruct (exit_test _ _). eauto. }
    pose proof (r5_noexit _ R5 El) as Ne. rewrite En, andb_true_r in Ne. apply Z.eqb_neq in Ne.
    pose proof (i1_pending _ _ I1 El) as Hp. pose proof (i1_ongoing _ _ I1) as Ho. rewrite Hb in Ho.
    destruct (donec s) as [|[j0 r0] dc] eqn:Ed.
    2:{ exists (ALoopDone 0). unfold step, stepc. rewrite El, Ed. cbn [nth_error].
        destruct r0 as [e|].
        - destruct (negb (ccoe c)); [eauto|]. destruct (notify _ _ _ _) as [[? ?] ?]. destruct (exit_test _ _). eauto.
        - destruct (notify _ _ _ _) as [[? ?] ?]. destruct (exit_test _ _). eauto. }
    cbn in Ho.
    destruct (ready s) as [|j0 rest] eqn:Er.
    - exfalso. destruct (r3_counts _ _ R El) as [_ B].
      rewrite (cnt_ext _ (fun _ => false)) in B.
      + rewrite cnt_false in B. cbn in Hp. lia.
      + intros x _. apply (no_wait_deadlock s R El Er Hb Ed).
    - exists (ALoopDispatch 0). unfold step, stepc. rewrite El, Er.
      assert (W0 : wk s 0 = WIdle).
      { destruct (Hidle 0 ltac:(lia)) as [E|E]; [exact E|].
        pose proof (r_pool _ _ R0 0 ltac:(lia) E). congruence. }
      rewrite W0. replace (ongoing s <? Z.of_nat (cN c))%Z with true by (symmetry; apply Z.ltb_lt; lia).
      rewrite orb_true_r. destruct (exit_test _ _). eauto.
  Qed.

  Theorem progress acts (s : st) :
    run c (init c) acts = Some s -> cgated c = true -> is_final s = false ->
    exists a s', is_env a = false /\ step c s a = Some s'.
  Proof.
    intros Hrun G Hf. pose proof (run_rinv5 _ _ Hrun) as R5. pose proof (run_rinv c _ _ Hrun) as R0.
    pose proof (r5_inv4 _ R5) as R4. pose proof (r4_inv3 _ _ R4) as R.
    pose proof (r3_inv1 _ _ R) as I1. pose proof (i1_workers _ _ I1) as Lw.
    destruct wf as [HN _].
    (* a busy worker always can move *)
    destruct (Nat.eq_dec (countb busy (workers s)) 0) as [Hb|Hb].
    2:{ destruct (countb_pos_ex busy (workers s) WExit) as (w & L & P); [lia|].
        apply (busy_progress s w R G); [lia|exact P]. }
    assert (Hidle : forall w, w < cN c -> wk s w = WIdle \/ wk s w = WExit).
    { intros w Hw. pose proof (countb_zero_nth busy (workers s) w WExit Hb ltac:(lia)) as Z.
      unfold wk. destruct (nth w (workers s) WExit); try discriminate Z; auto. }
    pose proof (i1_closed _ _ I1) as Hcl. pose proof (i1_enq _ _ I1) as Henq.
    unfold step.
    (* the caller still enqueues *)
    destruct (cp s) as [k| |r] eqn:Ecp.
    - destruct (Nat.eq_dec k n) as [->|Hk].
      + exists ACallerWait. unfold stepc. rewrite Ecp, Nat.eqb_refl. eauto.
      + pose proof (i1_sent _ _ I1) as Hs. unfold sentn in Hs. rewrite Ecp in Hs.
        destruct (enq s) as [|j0 rest] eqn:Ee.
        * exists ACallerEnq. unfold stepc. rewrite Ecp, Ee.
          replace (k <? n) with true by (symmetry; apply Nat.ltb_lt; lia). eauto.
        * destruct (lp s) eqn:El.
          -- exists ALoopEnqRecv. unfold stepc. rewrite El, Ee.
             destruct (enq_nil s) eqn:En; [destruct (i1_nil _ _ I1 En) as [_ X]; congruence|].
             destruct (exit_test _ _). eauto.
          -- exists ALoopDrain. unfold stepc. rewrite El, Ee. eauto.
          -- destruct (i1_fin _ _ I1 El) as [_ X]. congruence.
    - (* the caller waits *)
      destruct (lp s) eqn:El.
      + apply (loop_running_progress s R0 R5 G El Hb Hidle). exact Hcl.
      + destruct (enq s) as [|j0 rest] eqn:Ee.
        * exists ALoopFinish. unfold stepc. rewrite El, Ee, Hcl. eauto.
        * exists ALoopDrain. unfold stepc. rewrite El, Ee. eauto.
      + exists ACallerRetFin. unfold stepc. rewrite Ecp, El. eauto.
    - (* the caller has returned *)
      destruct (lp s) eqn:El.
      + apply (loop_running_progress s R0 R5 G El Hb Hidle). exact Hcl.
      + destruct (enq s) as [|j0 rest] eqn:Ee.
        * exists ALoopFinish. unfold stepc. rewrite El, Ee, Hcl. eauto.
        * exists ALoopDrain. unfold stepc. rewrite El, Ee. eauto.
      + (* everything is over except workers that have not returned yet *)
        unfold is_final in Hf. rewrite Ecp, El in Hf. unfold all_exited in Hf.
        assert (Hex : exists w, w < cN c /\ wk s w = WIdle).
        { destruct (forallb_exists_false (workers s) _ Hf) as (w & L & P).
          exists w. split; [lia|]. destruct (Hidle w ltac:(lia)) as [E|E]; [exact E|].
          unfold wk in E. rewrite E in P. discriminate. }
        destruct Hex as (w & Hw & E). exists (AWorkerExit w). unfold stepc. rewrite E, El. eauto.
  Qed.
End Live.
