(* Bridge between the validator model (C14) and the operational model (C02): every flow the
   model of compileFlow accepts has unique providers, the hypothesis of the dataflow
   theorems. *)
From CffVerif Require Import ValidateModel ValidateProofs FlowOpModel FlowOpProofs.

Definition to_ftask (t : task) : ftask :=
  {| kins := tins t; kouts := ValidateModel.touts t; kpred := tpred t; kinvoke := tinvoke t; kfallback := false; khaserr := false |}.
Definition to_fflow (f : flow) : fflow :=
  {| gparams := fparams f; gresults := fresults f; gtasks := map to_ftask (ftasks f) |}.

Lemma find_idx_complete t l : forall i0, In t l -> exists i, find_idx t l i0 = Some i.
Proof.
  induction l as [|x l IH]; intros i0 H; [contradiction|]. cbn.
  destruct (Nat.eqb x t) eqn:E; [eauto|]. destruct H as [->|H]; [rewrite Nat.eqb_refl in E; discriminate|].
  now apply IH.
Qed.

Lemma prov_from_in ts : forall k0 t p, prov_from k0 ts t = Some p -> In t (flat_map kouts ts).
Proof.
  induction ts as [|x r IH]; cbn [prov_from flat_map]; intros k0 t p H; [discriminate|].
  apply in_or_app. destruct (prov_from (S k0) r t) eqn:E.
  - right. eapply IH; eauto.
  - left. destruct (find_idx t (kouts x) 0) eqn:F; [|discriminate]. eapply find_idx_in; eauto.
Qed.

Lemma NoDup_app_r {A} (l1 l2 : list A) : NoDup (l1 ++ l2) -> NoDup l2.
Proof. induction l1 as [|a l1 IH]; cbn; intros H; [assumption|]. inversion H; subst. now apply IH. Qed.

Lemma NoDup_app_disj {A} (l1 l2 : list A) x : NoDup (l1 ++ l2) -> In x l1 -> ~ In x l2.
Proof.
  induction l1 as [|a l1 IH]; cbn; intros Hn H1 H2; [contradiction|]. inversion Hn as [|? ? Ha Hl]; subst.
  destruct H1 as [->|H1]; [apply Ha; apply in_or_app; now right | now apply (IH Hl H1)].
Qed.

Lemma nodup_unique ts : forall k0 k t, NoDup (flat_map kouts ts) -> k < length ts ->
  In t (kouts (nth k ts ktask0)) -> exists i, prov_from k0 ts t = Some (k0 + k, i).
Proof.
  induction ts as [|x r IH]; intros k0 k t Hn Hk Hin; [cbn in Hk; lia|].
  cbn [flat_map] in Hn. cbn [prov_from]. destruct k as [|k].
  - cbn [nth] in Hin.
    assert (Hnot : ~ In t (flat_map kouts r)) by (eapply NoDup_app_disj; eauto).
    destruct (prov_from (S k0) r t) eqn:E; [exfalso; apply Hnot; eapply prov_from_in; eauto|].
    destruct (find_idx_complete t (kouts x) 0 Hin) as [i ->]. exists i. f_equal. f_equal. lia.
  - cbn [nth] in Hin. cbn [length] in Hk.
    destruct (IH (S k0) k t (NoDup_app_r _ _ Hn) ltac:(lia) Hin) as [i ->].
    exists i. f_equal. f_equal. lia.
Qed.

Lemma nodup_unique_providers (f : fflow) : NoDup (flat_map kouts (gtasks f)) -> unique_providers f.
Proof.
  intros Hn k t Hk Hin. unfold gprov. destruct (nodup_unique (gtasks f) 0 k t Hn Hk Hin) as [i H].
  exists i. exact H.
Qed.

(* the user-typed outputs of the compiled functions are the outputs of the tasks *)
Definition is_user (t : ty) : bool := match t with TUser _ => true | _ => false end.

Lemma filter_user_map l : filter is_user (map TUser l) = map TUser l.
Proof. induction l as [|a l IH]; cbn; [reflexivity | now rewrite IH]. Qed.

Lemma funcs_user_outs ts : forall pc ic,
  filter is_user (flat_map fouts (funcs_from pc ic ts)) = map TUser (flat_map ValidateModel.touts ts).
Proof.
  induction ts as [|t ts IH]; intros pc ic; [reflexivity|].
  cbn [funcs_from flat_map]. destruct (tpred t); cbn [flat_map fouts];
    rewrite ?filter_app, ?filter_user_map, IH, map_app; cbn [filter is_user app]; reflexivity.
Qed.

Lemma NoDup_map_TUser l : NoDup (map TUser l) -> NoDup l.
Proof.
  induction l as [|a l IH]; cbn; intros H; [constructor|]. inversion H as [|? ? Ha Hl]; subst.
  constructor; [|now apply IH]. intros Hin. apply Ha. now apply in_map.
Qed.

Lemma flat_map_map {A B C} (g : A -> B) (h : B -> list C) l : flat_map h (map g l) = flat_map (fun x => h (g x)) l.
Proof. induction l as [|a l IH]; cbn; [reflexivity | now rewrite IH]. Qed.

Theorem accepted_unique_providers f : accepts f = true -> unique_providers (to_fflow f).
Proof.
  intros H. apply nodup_unique_providers. cbn [to_fflow gtasks]. rewrite flat_map_map.
  rewrite (flat_map_ext (fun x => kouts (to_ftask x)) ValidateModel.touts) by reflexivity.
  apply NoDup_map_TUser. rewrite <- (funcs_user_outs (ftasks f) 0 0). apply NoDup_filter.
  apply chk_dup_provider_spec. unfold accepts, validate in H.
  destruct (chk_dup_param f); [discriminate|]. destruct (chk_no_output f); [discriminate|].
  destruct (chk_invoke_outputs f); [discriminate|]. destruct (chk_dup_provider f); [discriminate | reflexivity].
Qed.

(* the same for any decoration of the flow (FallbackWith, error results): only the output
   types matter *)
Theorem accepted_unique_providers_gen f g : accepts f = true ->
  map kouts (gtasks g) = map ValidateModel.touts (ftasks f) -> unique_providers g.
Proof.
  intros H E. apply nodup_unique_providers.
  rewrite flat_map_concat_map, E, <- flat_map_concat_map.
  pose proof (accepted_unique_providers f H) as _.
  apply NoDup_map_TUser. rewrite <- (funcs_user_outs (ftasks f) 0 0). apply NoDup_filter.
  apply chk_dup_provider_spec. unfold accepts, validate in H.
  destruct (chk_dup_param f); [discriminate|]. destruct (chk_no_output f); [discriminate|].
  destruct (chk_invoke_outputs f); [discriminate|]. destruct (chk_dup_provider f); [discriminate | reflexivity].
Qed.

(* ---- and every consumed type of an accepted flow has a source (the second hypothesis of
   C02_semantics_is_the_generated_code), by the soundness of the provider walk *)
From CffVerif Require Import ValidateWalk FlowComplete.

Lemma funcs_task_deps ts : forall pc ic t u, In t ts ->
  (In u (tins t) -> In (TUser u) (flat_map fdeps (funcs_from pc ic ts))) /\
  (forall pins, tpred t = Some pins -> In u pins -> In (TUser u) (flat_map fdeps (funcs_from pc ic ts))).
Proof.
  induction ts as [|a ts IH]; intros pc ic t u Ht; [contradiction|]. cbn [funcs_from].
  destruct Ht as [->|Ht].
  - destruct (tpred t) as [pins|] eqn:Ep; cbn [flat_map fdeps]; split.
    + intros Hu. apply in_or_app. left. apply in_or_app. left. now apply in_map.
    + intros pins' E Hu. injection E as <-. apply in_or_app. right. apply in_or_app. left. now apply in_map.
    + intros Hu. apply in_or_app. left. now apply in_map.
    + intros pins' E. discriminate.
  - destruct (tpred a) as [pa|]; cbn [flat_map]; split.
    + intros Hu. apply in_or_app. right. apply in_or_app. right. now apply (IH _ _ t u Ht).
    + intros pins E Hu. apply in_or_app. right. apply in_or_app. right. now apply (proj2 (IH _ _ t u Ht) pins E).
    + intros Hu. apply in_or_app. right. now apply (IH _ _ t u Ht).
    + intros pins E Hu. apply in_or_app. right. now apply (proj2 (IH _ _ t u Ht) pins E).
Qed.

Lemma user_out_task ts : forall pc ic u, In (TUser u) (flat_map fouts (funcs_from pc ic ts)) -> In u (flat_map ValidateModel.touts ts).
Proof.
  intros pc ic u H.
  assert (Hf : In (TUser u) (filter is_user (flat_map fouts (funcs_from pc ic ts)))) by (apply filter_In; split; [exact H | reflexivity]).
  rewrite funcs_user_outs in Hf. apply in_map_iff in Hf. destruct Hf as [x [E Hx]]. now injection E as <-.
Qed.

Theorem accepted_all_provided f : accepts f = true -> all_provided_b (to_fflow f) = true.
Proof.
  intros Hacc. pose proof (accepts_wellformed f Hacc) as [Huniq Hprov _ _ _].
  pose proof (accepted_unique_providers f Hacc) as Hu.
  assert (Hsrc : forall u, In (TUser u) (consumed f) -> has_source (to_fflow f) u = true).
  { intros u Hc. specialize (Hprov _ Hc). unfold provided in Hprov. apply in_app_or in Hprov. unfold has_source.
    destruct Hprov as [Hp|Ho].
    - apply in_map_iff in Hp. destruct Hp as [x [E Hx]]. injection E as ->.
      destruct (gprov (to_fflow f) u); [reflexivity|]. cbn [to_fflow gparams].
      apply existsb_exists. exists u. split; [exact Hx | apply Nat.eqb_refl].
    - apply user_out_task in Ho. apply in_flat_map in Ho. destruct Ho as (t & Ht & Hut).
      destruct (In_nth _ _ (nth 0 [] t) Ht) as (k & Hk & Ek).
      destruct (Hu k u) as [i ->]; [cbn [to_fflow gtasks]; now rewrite map_length| |reflexivity].
      unfold taskof. cbn [to_fflow gtasks].
      replace ktask0 with (to_ftask (ValidateModel.Build_task [] [] None false)) by reflexivity.
      rewrite map_nth. cbn [to_ftask kouts].
      rewrite (nth_indep _ _ (nth 0 [] t) Hk), Ek. exact Hut. }
  unfold all_provided_b. apply andb_true_iff. split.
  - apply forallb_forall. intros k Hk. apply in_seq in Hk. cbn [to_fflow gtasks] in Hk. rewrite map_length in Hk.
    unfold taskof. cbn [to_fflow gtasks].
    replace ktask0 with (to_ftask (ValidateModel.Build_task [] [] None false)) by reflexivity.
    rewrite map_nth. set (t := nth k (ftasks f) _). assert (Ht : In t (ftasks f)) by (apply nth_In; lia).
    cbn [to_ftask kins kpred]. apply andb_true_iff. split.
    + apply forallb_forall. intros u Hu'. apply Hsrc. unfold consumed. apply in_or_app. right.
      now apply (proj1 (funcs_task_deps (ftasks f) 0 0 t u Ht)).
    + destruct (tpred t) as [pins|] eqn:Ep; [|reflexivity]. apply forallb_forall. intros u Hu'. apply Hsrc.
      unfold consumed. apply in_or_app. right. now apply (proj2 (funcs_task_deps (ftasks f) 0 0 t u Ht) pins Ep).
  - apply forallb_forall. intros u Hu'. cbn [to_fflow gresults] in Hu'. apply Hsrc. unfold consumed. apply in_or_app. left. now apply in_map.
Qed.

(* the same for any decoration of the tasks (FallbackWith, error results, Invoke flags):
   both hypotheses depend only on parameters, results and the types each task consumes and produces *)
Definition shape (t : ftask) : list nat * list nat * option (list nat) := (kins t, kouts t, kpred t).

Lemma prov_from_shape ts ts' : map kouts ts = map kouts ts' -> forall k t, prov_from k ts t = prov_from k ts' t.
Proof.
  revert ts'. induction ts as [|a ts IH]; intros [|b ts'] H k t; try discriminate; [reflexivity|].
  cbn in H. injection H as Hab Hr. cbn [prov_from]. rewrite (IH ts' Hr (S k) t), Hab. reflexivity.
Qed.

Lemma map_shape_kouts ts ts' : map shape ts = map shape ts' -> map kouts ts = map kouts ts'.
Proof.
  revert ts'. induction ts as [|a ts IH]; intros [|b ts'] H; try discriminate; [reflexivity|].
  cbn in H. injection H as _ Ho _ Hr. cbn. now rewrite Ho, (IH ts' Hr).
Qed.

Lemma taskof_shape g g' k : map shape (gtasks g) = map shape (gtasks g') -> shape (taskof g k) = shape (taskof g' k).
Proof.
  intros H. unfold taskof. change (shape (nth k (gtasks g) ktask0)) with (shape (nth k (gtasks g) ktask0)).
  rewrite <- (map_nth shape (gtasks g) ktask0 k), <- (map_nth shape (gtasks g') ktask0 k), H. reflexivity.
Qed.

Lemma forallb_ext' {A} (p q : A -> bool) l : (forall x, p x = q x) -> forallb p l = forallb q l.
Proof. intros H. induction l as [|a l IH]; cbn; [reflexivity | now rewrite H, IH]. Qed.

Theorem accepted_qualifies f g : accepts f = true ->
  gparams g = fparams f -> gresults g = fresults f -> map shape (gtasks g) = map shape (gtasks (to_fflow f)) ->
  unique_providers g /\ all_provided_b g = true.
Proof.
  intros Hacc Hp Hr Hs.
  assert (Hk : map kouts (gtasks g) = map kouts (gtasks (to_fflow f))) by now apply map_shape_kouts.
  assert (Hg : forall t, gprov g t = gprov (to_fflow f) t) by (intros t; unfold gprov; now apply prov_from_shape).
  assert (Hlen : length (gtasks g) = length (gtasks (to_fflow f))) by (rewrite <- (map_length shape), Hs, map_length; reflexivity).
  split.
  - apply (accepted_unique_providers_gen f g Hacc). rewrite Hk. cbn [to_fflow gtasks]. rewrite map_map. reflexivity.
  - pose proof (accepted_all_provided f Hacc) as Ha. unfold all_provided_b in *.
    assert (Hsrc : forall t, has_source g t = has_source (to_fflow f) t).
    { intros t. unfold has_source. rewrite Hg, Hp. reflexivity. }
    rewrite Hlen, Hr. apply andb_true_iff in Ha. destruct Ha as [Ha1 Ha2]. apply andb_true_iff. split.
    + apply forallb_forall. intros k Hk'. rewrite forallb_forall in Ha1. specialize (Ha1 k Hk').
      pose proof (taskof_shape g (to_fflow f) k Hs) as E. unfold shape in E. injection E as E1 E2 E3.
      rewrite E1, E3. rewrite !(forallb_ext' (has_source g) (has_source (to_fflow f)) _ Hsrc).
      destruct (kpred (taskof (to_fflow f) k)); [|exact Ha1].
      rewrite !(forallb_ext' (has_source g) (has_source (to_fflow f)) _ Hsrc). exact Ha1.
    + cbn [to_fflow gresults] in Ha2. rewrite !(forallb_ext' (has_source g) (has_source (to_fflow f)) _ Hsrc). exact Ha2.
Qed.
