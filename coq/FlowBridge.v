(* Bridge between the validator model (C14) and the operational model (C02): every flow the
   model of compileFlow accepts has unique providers, the hypothesis of the dataflow
   theorems. *)
From CffVerif Require Import ValidateModel ValidateProofs FlowOpModel FlowOpProofs.

Definition to_ftask (t : task) : ftask :=
  {| kins := tins t; kouts := ValidateModel.touts t; kpred := tpred t; kinvoke := tinvoke t; kfallback := false; khaserr := false |}.
Definition to_fflow (f : flow) : fflow :=
  {| gparams := fparams f; gresults := fresults f; gtasks := map to_ftask (ftasks f) |}.

Lemma find_idx_complete t l : forall i0, In t l -> exists i, find_idx t l i0 = Some i.
Proof.
  induction l as [|x l IH]; intros i0 H; [contradiction|]. cbn.
  destruct (Nat.eqb x t) eqn:E; [eauto|]. destruct H as [->|H]; [rewrite Nat.eqb_refl in E; discriminate|].
  now apply IH.
Qed.

Lemma prov_from_in ts : forall k0 t p, prov_from k0 ts t = Some p -> In t (flat_map kouts ts).
Proof.
  induction ts as [|x r IH]; cbn [prov_from flat_map]; intros k0 t p H; [discriminate|].
  apply in_or_app. destruct (prov_from (S k0) r t) eqn:E.
  - right. eapply IH; eauto.
  - left. destruct (find_idx t (kouts x) 0) eqn:F; [|discriminate]. eapply find_idx_in; eauto.
Qed.

Lemma NoDup_app_r {A} (l1 l2 : list A) : NoDup (l1 ++ l2) -> NoDup l2.
Proof. induction l1 as [|a l1 IH]; cbn; intros H; [assumption|]. inversion H; subst. now apply IH. Qed.

Lemma NoDup_app_disj {A} (l1 l2 : list A) x : NoDup (l1 ++ l2) -> In x l1 -> ~ In x l2.
Proof.
  induction l1 as [|a l1 IH]; cbn; intros Hn H1 H2; [contradiction|]. inversion Hn as [|? ? Ha Hl]; subst.
  destruct H1 as [->|H1]; [apply Ha; apply in_or_app; now right | now apply (IH Hl H1)].
Qed.

Lemma nodup_unique ts : forall k0 k t, NoDup (flat_map kouts ts) -> k < length ts ->
  In t (kouts (nth k ts ktask0)) -> exists i, prov_from k0 ts t = Some (k0 + k, i).
Proof.
  induction ts as [|x r IH]; intros k0 k t Hn Hk Hin; [cbn in Hk; lia|].
  cbn [flat_map] in Hn. cbn [prov_from]. destruct k as [|k].
  - cbn [nth] in Hin.
    assert (Hnot : ~ In t (flat_map kouts r)) by (eapply NoDup_app_disj; eauto).
    destruct (prov_from (S k0) r t) eqn:E; [exfalso; apply Hnot; eapply prov_from_in; eauto|].
    destruct (find_idx_complete t (kouts x) 0 Hin) as [i ->]. exists i. f_equal. f_equal. lia.
  - cbn [nth] in Hin. cbn [length] in Hk.
    destruct (IH (S k0) k t (NoDup_app_r _ _ Hn) ltac:(lia) Hin) as [i ->].
    exists i. f_equal. f_equal. lia.
Qed.

Lemma nodup_unique_providers (f : fflow) : NoDup (flat_map kouts (gtasks f)) -> unique_providers f.
Proof.
  intros Hn k t Hk Hin. unfold gprov. destruct (nodup_unique (gtasks f) 0 k t Hn Hk Hin) as [i H].
  exists i. exact H.
Qed.

(* the user-typed outputs of the compiled functions are the outputs of the tasks *)
Definition is_user (t : ty) : bool := match t with TUser _ => true | _ => false end.

Lemma filter_user_map l : filter is_user (map TUser l) = map TUser l.
Proof. induction l as [|a l IH]; cbn; [reflexivity | now rewrite IH]. Qed.

Lemma funcs_user_outs ts : forall pc ic,
  filter is_user (flat_map fouts (funcs_from pc ic ts)) = map TUser (flat_map ValidateModel.touts ts).
Proof.
  induction ts as [|t ts IH]; intros pc ic; [reflexivity|].
  cbn [funcs_from flat_map]. destruct (tpred t); cbn [flat_map fouts];
    rewrite ?filter_app, ?filter_user_map, IH, map_app; cbn [filter is_user app]; reflexivity.
Qed.

Lemma NoDup_map_TUser l : NoDup (map TUser l) -> NoDup l.
Proof.
  induction l as [|a l IH]; cbn; intros H; [constructor|]. inversion H as [|? ? Ha Hl]; subst.
  constructor; [|now apply IH]. intros Hin. apply Ha. now apply in_map.
Qed.

Lemma flat_map_map {A B C} (g : A -> B) (h : B -> list C) l : flat_map h (map g l) = flat_map (fun x => h (g x)) l.
Proof. induction l as [|a l IH]; cbn; [reflexivity | now rewrite IH]. Qed.

Theorem accepted_unique_providers f : accepts f = true -> unique_providers (to_fflow f).
Proof.
  intros H. apply nodup_unique_providers. cbn [to_fflow gtasks]. rewrite flat_map_map.
  rewrite (flat_map_ext (fun x => kouts (to_ftask x)) ValidateModel.touts) by reflexivity.
  apply NoDup_map_TUser. rewrite <- (funcs_user_outs (ftasks f) 0 0). apply NoDup_filter.
  apply chk_dup_provider_spec. unfold accepts, validate in H.
  destruct (chk_dup_param f); [discriminate|]. destruct (chk_no_output f); [discriminate|].
  destruct (chk_invoke_outputs f); [discriminate|]. destruct (chk_dup_provider f); [discriminate | reflexivity].
Qed.

(* the same for any decoration of the flow (FallbackWith, error results): only the output
   types matter *)
Theorem accepted_unique_providers_gen f g : accepts f = true ->
  map kouts (gtasks g) = map ValidateModel.touts (ftasks f) -> unique_providers g.
Proof.
  intros H E. apply nodup_unique_providers.
  rewrite flat_map_concat_map, E, <- flat_map_concat_map.
  pose proof (accepted_unique_providers f H) as _.
  apply NoDup_map_TUser. rewrite <- (funcs_user_outs (ftasks f) 0 0). apply NoDup_filter.
  apply chk_dup_provider_spec. unfold accepts, validate in H.
  destruct (chk_dup_param f); [discriminate|]. destruct (chk_no_output f); [discriminate|].
  destruct (chk_invoke_outputs f); [discriminate|]. destruct (chk_dup_provider f); [discriminate | reflexivity].
Qed.
