(* Which calls the tool takes for directives (internal/compile.go compileFile): it walks the
   file and looks at call expressions; before fix "dot-import" only a selector expression
   pkg.Flow / pkg.Parallel resolving to the cff package was considered, so a directive spelled
   through a dot-import of cff (an identifier call) was silently left in place and - being the
   file's only directive - no output was written at all. The repaired walk reports such a
   call with its position. A file is a sequence of items: plain code, or a top-level
   directive call with its spelling and the generated text that replaces it. *)
From Coq Require Export List Arith Bool Lia.
Export ListNotations.

Inductive spelling := Qualified | Dotted.

Inductive item :=
| Code (c : nat)
| Dir (sp : spelling) (gen : list nat).      (* gen: the generated replacement, plain code *)

Inductive otok := OCode (c : nat) | ODir (sp : spelling).   (* ODir: a directive call left in the output *)

Definition is_dotted (i : item) : bool := match i with Dir Dotted _ => true | _ => false end.
Definition is_dir (i : item) : bool := match i with Dir _ _ => true | _ => false end.

(* the walk of the repaired code: an error for every dotted directive *)
Definition errors (f : list item) : nat := length (filter is_dotted f).

(* what is written for an item: recognised directives are replaced, everything else is copied *)
Definition emit (i : item) : list otok :=
  match i with
  | Code c => [OCode c]
  | Dir Qualified gen => map OCode gen
  | Dir Dotted _ => [ODir Dotted]
  end.

Definition recognised (f : list item) : nat :=
  length (filter (fun i => match i with Dir Qualified _ => true | _ => false end) f).

(* the tool before the fix: never an error; an output only if some directive was recognised *)
Definition run_old (f : list item) : option (list otok) :=
  if Nat.eqb (recognised f) 0 then None else Some (flat_map emit f).

(* the repaired tool: refuses a file with a dotted directive *)
Definition run_fixed (f : list item) : (option (list otok)) + nat :=
  if Nat.eqb (errors f) 0 then inl (if Nat.eqb (recognised f) 0 then None else Some (flat_map emit f))
  else inr (errors f).

Definition left_in (o : list otok) : nat :=
  length (filter (fun t => match t with ODir _ => true | _ => false end) o).
