(* C13, "no call to a directive remains": GenerateFile replaces the source interval of
   every top-level directive by generated text (BuildTagModel.splice). Tokens are marked
   when they begin a call to a code-generation directive. *)
From CffVerif Require Import BuildTagModel.

Inductive stok := SCode (c : nat) | SDir (c : nat).   (* SDir: the selector of a directive call *)

Definition dir_count (l : list stok) : nat :=
  length (filter (fun t => match t with SDir _ => true | _ => false end) l).

Lemma dir_count_app a b : dir_count (a ++ b) = dir_count a + dir_count b.
Proof. unfold dir_count. now rewrite filter_app, app_length. Qed.

(* the directive calls in the output: those of the untouched segments plus those of the
   generated texts *)
Theorem dir_count_splice src : forall gens last,
  dir_count (splice src last gens) =
  fold_right (fun s n => dir_count s + n) 0 (segments src last gens) +
  fold_right (fun g n => dir_count (dtext g) + n) 0 gens.
Proof.
  induction gens as [|g gs IH]; intros last; cbn [splice segments fold_right].
  - lia.
  - rewrite !dir_count_app, IH. lia.
Qed.

(* if every directive call of the source lies in a replaced interval (the untouched
   segments contain none) and the generated texts contain none, the output contains none *)
Theorem no_directive_left src gens last :
  (forall s, In s (segments src last gens) -> dir_count s = 0) ->
  (forall g, In g gens -> dir_count (dtext g) = 0) ->
  dir_count (splice src last gens) = 0.
Proof.
  intros Hs Hg. rewrite dir_count_splice.
  assert (H1 : forall l, (forall s, In s l -> dir_count s = 0) -> fold_right (fun s n => dir_count s + n) 0 l = 0).
  { induction l as [|a l IH]; cbn; intros H; [reflexivity|]. rewrite (H a (or_introl eq_refl)), IH; [reflexivity|]. intros s Hin. apply H. now right. }
  assert (H2 : forall l, (forall g, In g l -> dir_count (dtext g) = 0) -> fold_right (fun g n => dir_count (dtext g) + n) 0 l = 0).
  { induction l as [|a l IH]; cbn; intros H; [reflexivity|]. rewrite (H a (or_introl eq_refl)), IH; [reflexivity|]. intros s Hin. apply H. now right. }
  rewrite (H1 _ Hs), (H2 _ Hg). reflexivity.
Qed.

(* the generated text of a directive: template text, which contains no directive call,
   interleaved with the user's argument expressions copied verbatim (the prologue) *)
Definition gen_text (template : list (list stok)) (hoisted : list (list stok)) : list stok :=
  interleave template hoisted.

Lemma dir_count_interleave : forall (tpl hs : list (list stok)),
  (forall t, In t tpl -> dir_count t = 0) ->
  dir_count (interleave tpl hs) <= fold_right (fun h n => dir_count h + n) 0 hs.
Proof.
  induction tpl as [|t tpl IH]; intros hs Ht; [cbn; lia|].
  destruct hs as [|h hs]; cbn [interleave fold_right].
  - rewrite (Ht t (or_introl eq_refl)). lia.
  - rewrite !dir_count_app, (Ht t (or_introl eq_refl)).
    specialize (IH hs (fun x Hx => Ht x (or_intror Hx))). lia.
Qed.

(* hence: no directive call inside any argument expression => none in the generated text *)
Corollary gen_text_clean tpl hs :
  (forall t, In t tpl -> dir_count t = 0) -> (forall h, In h hs -> dir_count h = 0) ->
  dir_count (gen_text tpl hs) = 0.
Proof.
  intros Ht Hh. pose proof (dir_count_interleave tpl hs Ht) as H.
  assert (fold_right (fun h n => dir_count h + n) 0 hs = 0).
  { clear H. induction hs as [|a l IH]; cbn; [reflexivity|]. rewrite (Hh a (or_introl eq_refl)), IH; [reflexivity|]. intros s Hin. apply Hh. now right. }
  unfold gen_text. lia.
Qed.
