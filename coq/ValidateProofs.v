(* Proofs about the flow validator model. *)
From CffVerif Require Import ValidateModel.

Lemma ty_eqb_eq a b : ty_eqb a b = true <-> a = b.
Proof.
  destruct a, b; cbn; split; intros H; try discriminate; try (apply Nat.eqb_eq in H; congruence);
    injection H as ->; apply Nat.eqb_refl.
Qed.

Lemma ty_eqb_refl a : ty_eqb a a = true.
Proof. now apply ty_eqb_eq. Qed.

Lemma mem_In t l : mem t l = true <-> In t l.
Proof.
  unfold mem. rewrite existsb_exists. split.
  - intros (x & Hx & E). apply ty_eqb_eq in E. now subst.
  - intros H. exists t. split; [exact H|apply ty_eqb_refl].
Qed.

Lemma mem_false t l : mem t l = false <-> ~ In t l.
Proof. rewrite <- mem_In. destruct (mem t l); split; intros; congruence. Qed.
