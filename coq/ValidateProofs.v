(* Proofs about the flow validator model. *)
From CffVerif Require Import ValidateModel.

Lemma ty_eqb_eq a b : ty_eqb a b = true <-> a = b.
Proof.
  destruct a, b; cbn; split; intros H; try discriminate; try (apply Nat.eqb_eq in H; congruence);
    injection H as ->; apply Nat.eqb_refl.
Qed.

Lemma ty_eqb_refl a : ty_eqb a a = true.
Proof. now apply ty_eqb_eq. Qed.

Lemma mem_In t l : mem t l = true <-> In t l.
Proof.
  unfold mem. rewrite existsb_exists. split.
  - intros (x & Hx & E). apply ty_eqb_eq in E. now subst.
  - intros H. exists t. split; [exact H|apply ty_eqb_refl].
Qed.

Lemma mem_false t l : mem t l = false <-> ~ In t l.
Proof. rewrite <- mem_In. destruct (mem t l); split; intros; congruence. Qed.

(* ---------- list-level checks ---------- *)
Lemma has_dup_NoDup l : has_dup l = false <-> NoDup l.
Proof.
  induction l as [|x l IH]; cbn; split; intros H; try constructor; auto.
  - apply orb_false_iff in H as [H1 H2]. now apply mem_false.
  - apply orb_false_iff in H as [H1 H2]. now apply IH.
  - inversion H as [|? ? Hn Hd]; subst. apply orb_false_iff. split; [now apply mem_false|now apply IH].
Qed.

Lemma chk_dup_param_spec f : chk_dup_param f = false <-> NoDup (map TUser (fparams f)).
Proof. apply has_dup_NoDup. Qed.

Lemma chk_dup_provider_spec f : chk_dup_provider f = false <-> NoDup (flat_map fouts (funcs f)).
Proof. apply has_dup_NoDup. Qed.

Lemma existsb_false {A} (p : A -> bool) l : existsb p l = false <-> forall x, In x l -> p x = false.
Proof.
  induction l as [|y l IH]; cbn; split; intros H; auto.
  - tauto.
  - apply orb_false_iff in H as [H1 H2]. intros x [->|Hx]; auto. now apply IH.
  - apply orb_false_iff. split; [apply H; now left|apply IH; intros; apply H; now right].
Qed.

Lemma chk_invoke_spec f :
  chk_no_output f = false /\ chk_invoke_outputs f = false <->
  forall t, In t (ftasks f) -> (touts t = [] <-> tinvoke t = true).
Proof.
  unfold chk_no_output, chk_invoke_outputs. rewrite !existsb_false. split.
  - intros [H1 H2] t Ht. specialize (H1 t Ht). specialize (H2 t Ht).
    destruct (touts t), (tinvoke t); cbn in *; split; intros; try discriminate; auto.
  - intros H. split; intros t Ht; specialize (H t Ht); destruct (touts t), (tinvoke t); cbn; auto;
      destruct H as [A B]; try (discriminate (A eq_refl)); try (discriminate (B eq_refl)).
Qed.

Lemma received_spec f t : received f t = true <-> In t (consumed f).
Proof.
  unfold received, consumed. rewrite orb_true_iff, mem_In, in_app_iff, existsb_exists, in_flat_map.
  split; intros [H|H]; auto.
  - right. destruct H as (x & Hx & E). exists x. split; [exact Hx|now apply mem_In].
  - right. destruct H as (x & Hx & E). exists x. split; [exact Hx|now apply mem_In].
Qed.

Lemma chk_unused_output_spec f :
  chk_unused_output f = false <-> forall o, In o (flat_map fouts (funcs f)) -> In o (consumed f).
Proof.
  unfold chk_unused_output. rewrite existsb_false. split.
  - intros H o Ho. apply in_flat_map in Ho as (x & Hx & Hox). specialize (H x Hx).
    rewrite existsb_false in H. specialize (H o Hox). apply negb_false_iff in H. now apply received_spec.
  - intros H x Hx. apply existsb_false. intros o Ho. apply negb_false_iff. apply received_spec.
    apply H. apply in_flat_map. eauto.
Qed.

(* ---------- the cycle search ---------- *)
Section Cycle.
  Variable f : flow.
  Notation U := (all_types f).

  Lemma provider_from_some i fs t j : provider_from i fs t = Some j ->
    i <= j /\ j < i + length fs /\ mem t (fprov (nth (j - i) fs fn0)) = true.
  Proof.
    revert i. induction fs as [|x fs IH]; intros i H; cbn in H; [discriminate|].
    destruct (provider_from (S i) fs t) as [k|] eqn:E.
    - injection H as <-. destruct (IH _ E) as (A & B & C). cbn [length]. split; [lia|]. split; [lia|].
      replace (k - i) with (S (k - S i)) by lia. exact C.
    - destruct (mem t (fprov x)) eqn:M; [|discriminate]. injection H as <-. cbn [length].
      split; [lia|]. split; [lia|]. rewrite Nat.sub_diag. exact M.
  Qed.

  Lemma provider_in_U t i : provider f t = Some i -> In t U /\ i < length (funcs f).
  Proof.
    unfold provider. intros H. destruct (provider_from_some _ _ _ _ H) as (_ & B & C).
    rewrite Nat.sub_0_r in C. split; [|lia]. apply mem_In in C.
    unfold all_types. apply in_or_app. right. apply in_or_app. right. apply in_flat_map.
    exists (nth i (funcs f) fn0). split; [apply nth_In; lia|]. apply in_or_app. now right.
  Qed.

  Lemma succs_in_U t d : In d (succs f t) -> In d U /\ exists i, provider f t = Some i.
  Proof.
    unfold succs. destruct (provider f t) as [i|] eqn:E; [|contradiction]. intros H.
    destruct (provider_in_U _ _ E) as [_ Li]. split; [|eauto].
    unfold all_types. apply in_or_app. right. apply in_or_app. right. apply in_flat_map.
    exists (nth i (funcs f) fn0). split; [apply nth_In; exact Li|]. apply in_or_app. now left.
  Qed.

  (* the current search path, newest first: each element needs the one before it *)
  Fixpoint chain (path : list ty) (t : ty) : Prop :=
    match path with [] => True | p :: rest => In t (succs f p) /\ chain rest p end.

  Lemma chain_reaches path t x : chain path t -> In x path -> needs_plus f x t.
  Proof.
    revert t. induction path as [|p rest IH]; intros t Hc Hx; [destruct Hx|].
    destruct Hc as [Ht Hr]. destruct Hx as [->|Hx].
    - now apply np_one.
    - specialize (IH p Hr Hx). clear - IH Ht.
      induction IH as [a b Hab|a b c0 Hab Hbc IH2].
      + eapply np_step; [exact Hab|now apply np_one].
      + eapply np_step; [exact Hab|]. apply IH2. exact Ht.
  Qed.

  Lemma dfs_sound fuel : forall path t,
    dfs f fuel path t = true -> chain path t -> NoDup path -> incl path U ->
    length U < length path + fuel -> exists x, needs_plus f x x.
  Proof.
    induction fuel as [|fuel IH]; intros path t H Hc Hn Hi Hl; cbn in H;
      destruct (provider f t) as [i|] eqn:Ep; try discriminate.
    - destruct (mem t path) eqn:M.
      + apply mem_In in M. exists t. eapply chain_reaches; eauto.
      + pose proof (NoDup_incl_length Hn Hi). lia.
    - destruct (mem t path) eqn:M.
      + apply mem_In in M. exists t. eapply chain_reaches; eauto.
      + apply existsb_exists in H as (d & Hd & Hdfs).
        apply (IH (t :: path) d Hdfs).
        * split; [|exact Hc]. unfold succs. rewrite Ep. exact Hd.
        * constructor; [now apply mem_false|exact Hn].
        * intros x [->|Hx]; [apply (provider_in_U _ _ Ep)|now apply Hi].
        * cbn [length]. lia.
  Qed.

  Lemma dfs_false_notin fuel path d :
    dfs f fuel path d = false -> provider f d <> None -> ~ In d path.
  Proof.
    intros H Hp Hin. apply mem_In in Hin.
    destruct fuel; cbn [dfs] in H; destruct (provider f d); try congruence; rewrite Hin in H; discriminate.
  Qed.

  Lemma dfs_complete fuel : forall path t,
    dfs f fuel path t = false -> (forall p, In p path -> provider f p <> None) ->
    forall x, needs_plus f t x -> ~ needs_plus f x x /\ ~ In x (t :: path).
  Proof.
    induction fuel as [|fuel IH]; intros path t H Hp x Hx; cbn in H;
      destruct (provider f t) as [i|] eqn:Ep.
    - destruct (mem t path); discriminate.
    - exfalso. inversion Hx as [a b Hab|a b c0 Hab Hbc]; subst; unfold succs in Hab; rewrite Ep in Hab; destruct Hab.
    - destruct (mem t path) eqn:M; [discriminate|]. apply mem_false in M.
      rewrite existsb_false in H.
      assert (Hp' : forall p, In p (t :: path) -> provider f p <> None)
        by (intros p [->|Hin]; [congruence|now apply Hp]).
      (* every direct need d of t is clean *)
      assert (Hd : forall d, In d (succs f t) ->
                 (forall y, needs_plus f d y -> ~ needs_plus f y y /\ ~ In y (d :: t :: path)) /\ ~ In d (t :: path)).
      { intros d Hd. unfold succs in Hd. rewrite Ep in Hd. specialize (H d Hd).
        split; [intros y Hy; apply (IH (t :: path) d H Hp' y Hy)|].
        intros Hin. apply (dfs_false_notin _ _ _ H); [now apply Hp'|exact Hin]. }
      (* x is reached through one of them *)
      assert (Hvia : exists d, In d (succs f t) /\ (x = d \/ needs_plus f d x)).
      { inversion Hx as [a b Hab|a b c0 Hab Hbc]; subst; eauto. }
      destruct Hvia as (d & Hdt & Hdx). destruct (Hd d Hdt) as [Hclean Hnd].
      assert (Hxt : x <> t -> ~ In x (t :: path)).
      { intros Hne Hin. destruct Hdx as [->|Hdx]; [now apply Hnd|].
        destruct (Hclean x Hdx) as [_ A]. apply A. now right. }
      assert (Hnc : ~ needs_plus f x x).
      { destruct Hdx as [->|Hdx]; [|apply (Hclean x Hdx)].
        intros Hc. (* d on a cycle: then d reaches d, which the search from d excludes *)
        destruct (Hclean d Hc) as [A _]. now apply A. }
      split; [exact Hnc|]. intros Hin.
      destruct (ty_eqb x t) eqn:E.
      + apply ty_eqb_eq in E. subst x. (* t reaches t: t is reached from d *)
        destruct Hdx as [->|Hdx]; [apply Hnd; now left|].
        destruct (Hclean t Hdx) as [_ A]. apply A. right. now left.
      + apply Hxt; [|exact Hin]. intros ->. rewrite ty_eqb_refl in E. discriminate.
    - exfalso. inversion Hx as [a b Hab|a b c0 Hab Hbc]; subst; unfold succs in Hab; rewrite Ep in Hab; destruct Hab.
  Qed.

  Theorem chk_cycle_spec : chk_cycle f = false <-> forall t, ~ needs_plus f t t.
  Proof.
    unfold chk_cycle. split.
    - intros H t Hc. rewrite existsb_false in H.
      (* t is needed by its predecessor on the cycle, hence a dependency of some function *)
      assert (Hpre : exists y, In t (succs f y)).
      { clear H. assert (G : forall a b, needs_plus f a b -> exists y, In b (succs f y)).
        { intros a b Hab. induction Hab as [a b Hab|a b c0 Hab Hbc IH]; eauto. }
        eapply G; eauto. }
      destruct Hpre as (y & Hy). unfold succs in Hy. destruct (provider f y) as [i|] eqn:Ep; [|destruct Hy].
      destruct (provider_in_U _ _ Ep) as [_ Li].
      specialize (H (nth i (funcs f) fn0) (nth_In _ _ Li)). rewrite existsb_false in H. specialize (H t Hy).
      destruct (dfs_complete _ [] t H ltac:(intros p []) t Hc) as [A _]. now apply A.
    - intros Hac. apply existsb_false. intros x Hx. apply existsb_false. intros d Hd.
      destruct (dfs f (S (length U)) [] d) eqn:E; [exfalso|reflexivity].
      destruct (dfs_sound _ [] d E I (NoDup_nil _) (incl_nil_l _) ltac:(cbn; lia)) as (z & Hz).
      now apply (Hac z).
  Qed.
End Cycle.
