(* Further run-level facts: what the caller's return value is made of, how many
   jobs were submitted, and the consistency bounds of state reports. *)
From CffVerif Require Import SchedModel SchedLemmas SchedInv SchedInv2 SchedProps SchedInv3.

Section Inv4.
  Variable c : cfg.
  Hypothesis wf : wf_cfg c.
  Notation n := (length (cprog c)).
  Notation deps j := (jdeps (spec c j)).

  Definition is_done_act (a : act) : bool := match a with ALoopDone _ => true | _ => false end.

  (* a summary of what a step that is not the result arm can change *)
  Lemma stepc_frame s a s' evs :
    stepc c s a = Some (s', evs) -> is_done_act a = false ->
    (forall x, jdone (job s' x) = jdone (job s x) /\ jerr (job s' x) = jerr (job s x)) /\
    serr s' = serr s /\
    (lp s = LFin -> lp s' = LFin) /\ (lp s <> LRun -> lp s' <> LRun) /\
    (forall j r, ~ In (EvDoneRecv j r) evs) /\
    (forall j, In (EvEnqSent j) evs -> a = ACallerEnq) /\
    (forall p r w i cc, In (EvTick p r w i cc) evs -> a = ALoopTick) /\
    (forall cx, In (EvCancel cx) evs -> a = ACancel cx) /\
    (forall r, In (EvRet r) evs -> a = ACallerRetCtx \/ a = ACallerRetFin) /\
    (cp s' = cp s \/ a = ACallerEnq \/ a = ACallerWait \/ a = ACallerRetCtx \/ a = ACallerRetFin) /\
    (forall cx, memc cx (cancelled s) = true -> memc cx (cancelled s') = true).
  Proof.
    intros H Hd. destruct a; try discriminate Hd; stepc_inv H; fin_step H.
    all: try match goal with |- context [if ?b then set_ready _ _ else _] => destruct b end.
    all: cbn -[memc]; unfold job; cbn -[memc].
    all: repeat split; auto; try congruence; try tauto;
         try solve [intros; intuition (try discriminate; try congruence)].
    all: try solve [intros x; apply reg_deps_done_err | apply (reg_deps_done_err _ _ _ _)].
    all: try solve [intros cx Hm; unfold memc in *; cbn; rewrite Hm; apply orb_true_r].
  Qed.

  Definition has_deps (j : nat) : bool := match deps j with [] => false | _ => true end.

  (* jobs submitted so far, and those of them that have dependencies *)
  Fixpoint nsent (l : list event) : nat :=
    match l with [] => 0 | EvEnqSent _ :: l' => S (nsent l') | _ :: l' => nsent l' end.
  Fixpoint nsentd (l : list event) : nat :=
    match l with
    | [] => 0
    | EvEnqSent j :: l' => (if has_deps j then 1 else 0) + nsentd l'
    | _ :: l' => nsentd l'
    end.

  Fixpoint h2_ok (l : list event) : Prop :=
    match l with
    | [] => True
    | e :: l' =>
        h2_ok l' /\
        match e with
        | EvDoneRecv j _ => forall r, ~ In (EvDoneRecv j r) l'
        | EvTick p _ w _ _ => (0 <= w /\ p <= Z.of_nat (nsent l') /\ w <= Z.of_nat (nsentd l'))%Z
        | _ => True
        end
    end.

  Definition plain (e : event) : bool :=
    match e with EvDoneRecv _ _ | EvTick _ _ _ _ _ | EvEnqSent _ => false | _ => true end.

  Lemma nsent_plain l1 l2 : forallb plain l1 = true -> nsent (l1 ++ l2) = nsent l2 /\ nsentd (l1 ++ l2) = nsentd l2.
  Proof.
    induction l1 as [|e l1 IH]; cbn; intros H; [auto|].
    apply andb_true_iff in H as [He H]. destruct e; try discriminate He; cbn; auto.
  Qed.

  Definition nosent (e : event) : bool := match e with EvEnqSent _ => false | _ => true end.

  Lemma nsent_nosent l1 l2 : forallb nosent l1 = true -> nsent (l1 ++ l2) = nsent l2 /\ nsentd (l1 ++ l2) = nsentd l2.
  Proof.
    induction l1 as [|e l1 IH]; cbn; intros H; [auto|].
    apply andb_true_iff in H as [He H]. destruct e; try discriminate He; cbn; auto.
  Qed.

  Lemma h2_ok_plain l1 l2 : forallb plain l1 = true -> h2_ok l2 -> h2_ok (l1 ++ l2).
  Proof.
    induction l1 as [|e l1 IH]; cbn; intros H H2; [auto|].
    apply andb_true_iff in H as [He H]. split; [auto|]. destruct e; try discriminate He; exact I.
  Qed.

  Lemma cnt_restrict (f : nat -> bool) m k : m <= k -> cnt (fun x => (x <? m) && f x) k = cnt f m.
  Proof.
    induction k as [|k IH]; intros H.
    - assert (m = 0) by lia. subst. reflexivity.
    - destruct (Nat.eq_dec m (S k)) as [->|Hne].
      + apply cnt_ext. intros x Hx. replace (x <? S k) with true by (symmetry; now apply Nat.ltb_lt). reflexivity.
      + cbn [cnt]. rewrite IH by lia. replace (k <? m) with false by (symmetry; apply Nat.ltb_ge; lia). cbn. lia.
  Qed.

  Record RInv4 (s : st) : Prop := {
    r4_inv3 : RInv3 c s;
    r4_serr_ff : ccoe c = false ->
                 (serr s = [] /\ forall j e, ~ In (EvDoneRecv j (Some e)) (log s)) \/
                 (lp s <> LRun /\ exists j e, serr s = [e] /\ In (EvDoneRecv j (Some e)) (log s));
    r4_jdone_recv : forall j, jdone (job s j) = true -> In (EvDoneRecv j (jerr (job s j))) (log s);
    r4_ret : forall r, cp s = CRet r ->
             (r = [ECtx (cwctx c)] /\ In (EvCancel (cwctx c)) (log s)) \/ (lp s = LFin /\ r = serr s);
    r4_sent : sentn c s = nsent (log s) /\ nsentd (log s) = cnt has_deps (sentn c s);
    r4_hist2 : h2_ok (log s);
  }.

  Lemma rinv4_init : RInv4 (init c).
  Proof.
    constructor.
    - apply rinv3_init.
    - intros _. left. split; [reflexivity|]. intros j e [].
    - intros j. change (job (init c) j) with (job (initc c) j). rewrite job_init. discriminate.
    - cbn. discriminate.
    - cbn. auto.
    - exact I.
  Qed.

  Lemma tick_bounds (s : st) :
    RInv3 c s -> lp s = LRun -> sentn c s = nsent (log s) -> nsentd (log s) = cnt has_deps (sentn c s) ->
    (0 <= waiting s /\ pending s <= Z.of_nat (nsent (log s)) /\ waiting s <= Z.of_nat (nsentd (log s)))%Z.
  Proof.
    intros R Hl Hs Hd. destruct (r3_counts _ _ R Hl) as [A B].
    pose proof (r3_inv2 _ _ R) as I2. unfold Inv2 in I2. rewrite Hl in I2.
    pose proof (r3_inv1 _ _ R) as I1.
    assert (Hnr : nrecv c s <= sentn c s) by (unfold nrecv; lia).
    pose proof (i1_sent _ _ I1) as Hsn.
    split; [lia|]. split; [lia|].
    rewrite B, Hd. apply inj_le.
    rewrite <- (cnt_restrict has_deps (sentn c s) n Hsn). apply cnt_imp.
    intros x Hx W. apply andb_true_iff.
    assert (Hxr : x < nrecv c s).
    { destruct (Nat.lt_ge_cases x (nrecv c s)); auto.
      pose proof (i2_pristine _ _ _ _ _ I2 eq_refl x H) as P. unfold waitingj in W. rewrite P in W. discriminate. }
    split; [apply Nat.ltb_lt; lia|].
    pose proof (i2_rem _ _ _ _ _ I2 eq_refl x Hxr) as Rm. unfold waitingj in W. apply Z.ltb_lt in W.
    unfold has_deps. destruct (deps x); [cbn in Rm; lia|reflexivity].
  Qed.

  Lemma in_rev_app {A} (e : A) evs l : In e (rev evs ++ l) -> In e evs \/ In e l.
  Proof. intros H. apply in_app_or in H as [H|H]; [left; now apply in_rev|now right]. Qed.

  Lemma sentn_same (k k' : core) : cp k' = cp k -> sentn c k' = sentn c k.
  Proof. unfold sentn. now intros ->. Qed.

  Lemma rinv4_step_other s a s' :
    is_done_act a = false -> RInv4 s -> step c s a = Some s' -> RInv4 s'.
  Proof.
    intros Hd R H. pose proof (rinv3_step c wf _ _ _ (r4_inv3 _ R) H) as R3'.
    destruct (step_stepc _ _ _ _ H) as (evs & Hc & Hl).
    destruct (stepc_frame _ _ _ _ Hc Hd) as (Fj & Fs & Ffin & Flp & Fdr & Fes & Ftk & Fcn & Frt & Fcp & Fcm).
    destruct R as [R3 Rsf Rjr Rrt [Rs1 Rs2] Rh].
    destruct s as [k l]. destruct s' as [k' l']. cbn [core_of log] in *. subst l'.
    assert (Hmono : forall e, In e l -> In e (rev evs ++ l)) by (intros; apply in_or_app; now right).
    constructor; cbn [core_of log]; auto.
    - (* serr_ff *)
      intros Hff. rewrite Fs. destruct (Rsf Hff) as [[A B]|[A (j & e & B1 & B2)]].
      + left. split; [exact A|]. intros j e F. apply in_rev_app in F as [F|F]; [eapply Fdr; eauto|eapply B; eauto].
      + right. split; [auto|]. exists j, e. auto.
    - intros j Hj. rewrite (proj1 (Fj j)) in Hj. rewrite (proj2 (Fj j)). auto.
    - (* ret *)
      intros r Hr. destruct Fcp as [E|[->|[->|[->| ->]]]].
      + rewrite E in Hr. destruct (Rrt r Hr) as [[A B]|[A B]]; [left; auto|right; rewrite Fs; auto].
      + exfalso. stepc_inv Hc; fin_step Hc. cbn in Hr. discriminate.
      + exfalso. stepc_inv Hc; fin_step Hc. cbn in Hr. discriminate.
      + left. stepc_inv Hc; fin_step Hc. cbn in Hr. injection Hr as <-. split; [reflexivity|].
        apply Hmono. apply (r3_cancelled _ _ R3). assumption.
      + stepc_inv Hc; fin_step Hc. cbn in Hr. injection Hr as <-. cbn [lp serr set_cp].
        destruct (serr k) eqn:Es.
        * destruct (memc (cwctx c) (cancelled k)) eqn:Em.
          -- left. split; [reflexivity|]. apply Hmono. now apply (r3_cancelled _ _ R3).
          -- right. auto.
        * right. auto.
    - (* sent *)
      destruct (Nat.eq_dec 0 0) as [_|]; [|congruence].
      destruct a; try discriminate Hd.
      all: try (match goal with |- sentn c ?k2 = nsent (rev ?ev ++ ?ll) /\ _ =>
                assert (Hpl : forallb nosent (rev ev) = true) by (stepc_inv Hc; fin_step Hc; reflexivity);
                destruct (nsent_nosent (rev ev) ll Hpl) as [-> ->];
                assert (Ecp : sentn c k2 = nsent ll)
                  by (rewrite <- Rs1; stepc_inv Hc; fin_step Hc; unfold sentn; cbn;
                      try match goal with E : cp _ = _ |- _ => rewrite E end;
                      try match goal with |- context [if ?b then set_ready _ _ else _] => destruct b end; reflexivity);
                rewrite Ecp; split; [reflexivity|]; rewrite Rs2, <- Rs1; reflexivity end).
      + (* CallerEnq *)
        stepc_inv Hc; fin_step Hc. cbn. unfold sentn in *.
        match goal with E : cp k = CEnq ?kk |- _ => rewrite E in *; cbn end.
        split; [lia|]. rewrite Rs2. lia.
      + (* CallerWait *)
        stepc_inv Hc; fin_step Hc. cbn. unfold sentn in *.
        match goal with E : cp k = CEnq ?kk |- _ => rewrite E in *; cbn end.
        match goal with E : (_ =? _) = true |- _ => apply Nat.eqb_eq in E; rewrite <- E end. auto.
    - (* hist2 *)
      destruct a; try discriminate Hd.
      all: try (apply h2_ok_plain; [stepc_inv Hc; fin_step Hc; reflexivity|exact Rh]).
      + (* CallerEnq: EnqSent is not plain but harmless *)
        stepc_inv Hc; fin_step Hc. cbn. auto.
      + (* Tick *)
        pose proof Hc as Hc0. stepc_inv Hc.
        match goal with E : lp k = LRun |- _ =>
          destruct (tick_bounds {| core_of := k; log := l |} R3 E Rs1 Rs2) as (T1 & T2 & T3) end.
        fin_step Hc; cbn; repeat split; auto.
  Qed.

  Lemma rinv4_step_done s i s' : RInv4 s -> step c s (ALoopDone i) = Some s' -> RInv4 s'.
  Proof.
    intros R H. pose proof (rinv3_step c wf _ _ _ (r4_inv3 _ R) H) as R3'.
    destruct (step_stepc _ _ _ _ H) as (evs & Hc & Hl).
    destruct R as [R3 Rsf Rjr Rrt [Rs1 Rs2] Rh].
    destruct s as [k l]. destruct s' as [k' l']. cbn [core_of log] in *. subst l'.
    pose proof (r3_inv1 _ _ R3) as I1. pose proof (r3_inv2 _ _ R3) as I2. cbn [core_of] in I1, I2.
    assert (Hlk : lp k = LRun).
    { unfold stepc in Hc. destruct (lp k); try discriminate. reflexivity. }
    destruct (nth_error (donec k) i) as [[j0 r]|] eqn:Hn.
    2:{ unfold stepc in Hc. rewrite Hlk, Hn in Hc. discriminate. }
    destruct (done_effect c k i j0 r k' evs I1 I2 Hlk Hn Hc) as [I2' DF].
    pose proof (done_frame_holds c k i j0 r k' evs Hlk Hn Hc) as FR.
    destruct DF as (Hd0 & Hj0n & Fd & Fe & Fe0 & Fi1 & Fi2 & _).
    destruct FR as (Ew & Ed & Ecn & Ecp & Eenq & Enil & Ecl & Epd & Fcase).
    assert (Hevs : forall e, In e (rev evs ++ l) -> e = EvDoneRecv j0 r \/ e = EvLoopExit \/ In e l).
    { intros e He. destruct Fcase as [(_ & _ & _ & Ee)|(_ & _ & [[_ Ee]|(_ & Ee & _)])]; rewrite Ee in He; cbn in He; intuition congruence. }
    assert (Hnew : In (EvDoneRecv j0 r) (rev evs ++ l)).
    { destruct Fcase as [(_ & _ & _ & Ee)|(_ & _ & [[_ Ee]|(_ & Ee & _)])]; rewrite Ee; cbn; tauto. }
    assert (Hmono : forall e, In e l -> In e (rev evs ++ l)) by (intros; apply in_or_app; now right).
    constructor; cbn [core_of log]; auto.
    - (* serr_ff *)
      intros Hff. destruct Fcase as [(_ & Hl' & (e & Er & Es) & _)|(Hor & Es & Fc)].
      + right. split; [congruence|]. exists j0, e. split; [exact Es|]. now rewrite <- Er.
      + destruct Hor as [Hcoe|Er]; [congruence|]. destruct r; [discriminate Er|].
        destruct (Rsf Hff) as [[A B]|[A _]]; [|congruence]. left. rewrite Es. split; [exact A|].
        intros j e F. apply Hevs in F. destruct F as [F|[F|F]]; [discriminate F|discriminate F|]. eapply B; eauto.
    - (* jdone_recv *)
      intros j Hj. rewrite Fd in Hj. destruct (Nat.eq_dec j j0) as [->|Hne].
      + now rewrite Fe0.
      + destruct (Nat.eqb_spec j j0); [congruence|]. rewrite orb_false_r in Hj. rewrite Fe by auto. auto.
    - (* ret *)
      intros r0 Hr. rewrite Ecp in Hr. destruct (Rrt r0 Hr) as [[A B]|[A B]]; [left; auto|congruence].
    - (* sent *)
      assert (Hpl : forallb nosent (rev evs) = true).
      { destruct Fcase as [(_ & _ & _ & Ee)|(_ & _ & [[_ Ee]|(_ & Ee & _)])]; rewrite Ee; reflexivity. }
      destruct (nsent_nosent (rev evs) l Hpl) as [-> ->].
      replace (sentn c k') with (sentn c k) by (unfold sentn; now rewrite Ecp). auto.
    - (* hist2 *)
      assert (Hu : forall r', ~ In (EvDoneRecv j0 r') l).
      { intros r' F. destruct (r3_donerecv _ _ R3 j0 r' F) as [D _]. cbn in D. congruence. }
      destruct Fcase as [(_ & _ & _ & Ee)|(_ & _ & [[_ Ee]|(_ & Ee & _)])]; rewrite Ee; cbn; auto.
  Qed.

  Lemma rinv4_step s a s' : RInv4 s -> step c s a = Some s' -> RInv4 s'.
  Proof.
    intros R H. destruct (is_done_act a) eqn:E.
    - destruct a; try discriminate E. eapply rinv4_step_done; eauto.
    - eapply rinv4_step_other; eauto.
  Qed.

  Lemma run_rinv4 acts s : run c (init c) acts = Some s -> RInv4 s.
  Proof. apply run_invariant; [apply rinv4_init | apply rinv4_step]. Qed.
End Inv4.
