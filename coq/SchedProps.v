(* Run-level invariants of the scheduler model (state + history) and the state forms
   of the scheduler properties that need only the structural invariants. *)
From CffVerif Require Import SchedModel SchedLemmas SchedInv.

Section Props.
  Variable c : cfg.
  Hypothesis wf : wf_cfg c.
  Notation n := (length (cprog c)).
  Notation jc j := (jctx (spec c j)).

  (* ---------- induction over runs ---------- *)
  Lemma run_app s acts1 acts2 :
    run c s (acts1 ++ acts2) =
    match run c s acts1 with Some s' => run c s' acts2 | None => None end.
  Proof.
    revert s. induction acts1 as [|a acts1 IH]; intros s; cbn; auto.
    destruct (step c s a); auto.
  Qed.

  Lemma run_invariant_from (P : st -> Prop) :
    (forall s a s', P s -> step c s a = Some s' -> P s') ->
    forall acts s0 s, P s0 -> run c s0 acts = Some s -> P s.
  Proof.
    intros Hs acts. induction acts as [|a acts IH]; intros s0 s H0 H; cbn in H.
    - now injection H as <-.
    - destruct (step c s0 a) as [s1|] eqn:E; [|discriminate].
      apply (IH s1 s); [eapply Hs; eauto | exact H].
  Qed.

  Lemma run_invariant (P : st -> Prop) :
    P (init c) ->
    (forall s a s', P s -> step c s a = Some s' -> P s') ->
    forall acts s, run c (init c) acts = Some s -> P s.
  Proof. intros H0 Hs acts s H. eapply run_invariant_from; eauto. Qed.

  Lemma step_stepc s a s' :
    step c s a = Some s' ->
    exists evs, stepc c s a = Some (core_of s', evs) /\ log s' = rev evs ++ log s.
  Proof.
    unfold step. destruct (stepc c s a) as [[k evs]|]; [|discriminate].
    intros H; injection H as <-. eauto.
  Qed.

  (* ---------- history predicates ---------- *)
  Definition tick_ok (e : event) : Prop :=
    match e with
    | EvTick p r w i cc =>
        exists x, (p = r + w + x /\ 0 <= r /\ 0 <= x <= Z.of_nat (cN c) /\
                   i = Z.of_nat (cN c) - x /\ cc = Z.of_nat (cN c) /\ 0 <= i)%Z
    | _ => True
    end.

  (* a start is never preceded by the cancellation of its context; ticks are
     consistent; nothing is reported after the loop finished *)
  Fixpoint hist_ok (l : list event) : Prop :=
    match l with
    | [] => True
    | e :: l' =>
        hist_ok l' /\
        match e with
        | EvStart j => ~ In (EvCancel (jc j)) l'
        | EvTick _ _ _ _ _ => (cgated c = true -> tick_ok e) /\ ~ In EvFinish l'
        | _ => True
        end
    end.

  Record RInv (s : st) : Prop := {
    r_inv1 : Inv1 c s;
    r_cancel : forall cx, In (EvCancel cx) (log s) -> memc cx (cancelled s) = true;
    r_finish : In EvFinish (log s) -> lp s = LFin;
    r_hist : hist_ok (log s);
    r_pool : forall w, w < cN c -> wk s w = WExit -> lp s = LFin;
  }.

  Lemma rinv_init : RInv (init c).
  Proof.
    constructor; cbn; try tauto.
    - apply inv1_init.
    - intros w Hw. unfold wk. cbn. rewrite nth_repeat_lt by auto. discriminate.
  Qed.

  Lemma memc_cons cx y l : memc cx (y :: l) = (cx =? y) || memc cx l.
  Proof. reflexivity. Qed.

  Lemma tick_from_inv1 k :
    Inv1 c k -> lp k = LRun -> cgated c = true ->
    exists x : Z,
      pending k = (Z.of_nat (length (ready k)) + waiting k + x)%Z /\
      (0 <= Z.of_nat (length (ready k)))%Z /\
      (0 <= x <= Z.of_nat (cN c))%Z /\
      idle_workers (cN c) (ongoing k) = (Z.of_nat (cN c) - x)%Z /\
      Z.of_nat (cN c) = Z.of_nat (cN c) /\
      (0 <= idle_workers (cN c) (ongoing k))%Z.
  Proof.
    intros I L G. exists (ongoing k).
    pose proof (i1_gated _ _ I G). pose proof (i1_pending _ _ I L). pose proof (i1_ongoing _ _ I).
    assert (0 <= ongoing k)%Z by lia.
    unfold idle_workers. destruct (Z.ltb_spec (Z.of_nat (cN c) - ongoing k) 0); lia.
  Qed.

  Ltac ev_cases :=
    repeat match goal with
    | H : _ \/ _ |- _ => destruct H as [H|H]
    | H : @eq event _ _ |- _ => first [discriminate H | injection H as ?; subst]
    | H : False |- _ => destruct H
    end.

  Lemma rinv_step s a s' : RInv s -> step c s a = Some s' -> RInv s'.
  Proof.
    intros R H. destruct (step_stepc _ _ _ H) as (evs & Hc & Hl).
    pose proof (inv1_step c _ _ _ _ (r_inv1 _ R) Hc) as I1'.
    destruct R as [I1 Rc Rf Rh Rp]. destruct s as [k l]. destruct s' as [k' l'].
    cbn [core_of log] in *. subst l'. clear H.
    destruct a; stepc_inv Hc; fin_step Hc.
    all: try match goal with |- context [if ?b then set_ready _ _ else _] => destruct b end.
    all: constructor; auto; cbn -[Z.of_nat Z.add Z.sub Nat.ltb Z.ltb memc wk] in *.
    all: try solve [ intros; ev_cases; eauto; try congruence;
                     try (match goal with H : In EvFinish _ |- _ => apply Rf in H; congruence end)
                   | tauto
                   | intros w0 Hw0; unfold wk; cbn; rewrite nth_upd; intros E;
                     destruct (_ && _); [discriminate | eauto; try (apply Rp in E; auto; congruence)]
                   | intros w0 Hw0 E; apply Rp in E; auto; congruence ].
    - split; [auto|split; [|intros F; apply Rf in F; discriminate]].
      apply tick_from_inv1; auto.
    - split; [|exact I]. split; [auto|split; [|intros F; apply Rf in F; discriminate]].
      apply tick_from_inv1; auto.
    - split; [auto|]. intros F. apply Rc in F. congruence.
    - intros cx [E|E].
      + injection E as ->. rewrite memc_cons, Nat.eqb_refl. reflexivity.
      + rewrite memc_cons. rewrite (Rc _ E). apply orb_true_r.
  Qed.

  Lemma run_rinv acts s : run c (init c) acts = Some s -> RInv s.
  Proof. apply run_invariant; [apply rinv_init | apply rinv_step]. Qed.

  (* ---------- consequences on histories ---------- *)
  Lemma hist_ok_app l1 l2 : hist_ok (l1 ++ l2) -> hist_ok l2.
  Proof. induction l1 as [|e l1 IH]; cbn; [auto|]. intros [H _]. auto. Qed.

  Lemma no_start_after_cancel acts s post j pre :
    run c (init c) acts = Some s -> log s = post ++ EvStart j :: pre ->
    ~ In (EvCancel (jc j)) pre.
  Proof.
    intros Hr Hl. pose proof (r_hist _ (run_rinv _ _ Hr)) as Hh. rewrite Hl in Hh.
    apply hist_ok_app in Hh. cbn in Hh. tauto.
  Qed.

  Lemma ticks_ok acts s p r w i cc :
    cgated c = true -> run c (init c) acts = Some s -> In (EvTick p r w i cc) (log s) ->
    tick_ok (EvTick p r w i cc).
  Proof.
    intros G Hr Hin. pose proof (r_hist _ (run_rinv _ _ Hr)) as Hh.
    apply in_split in Hin as (l1 & l2 & E). rewrite E in Hh.
    apply hist_ok_app in Hh. cbn [hist_ok] in Hh. destruct Hh as [_ [Ht _]]. auto.
  Qed.

  Lemma no_tick_after_finish acts s post pre p r w i cc :
    run c (init c) acts = Some s -> log s = post ++ EvFinish :: pre ->
    ~ In (EvTick p r w i cc) post.
  Proof.
    intros Hr Hl Hin. pose proof (r_hist _ (run_rinv _ _ Hr)) as Hh. rewrite Hl in Hh.
    apply in_split in Hin as (l1 & l2 & E). rewrite E in Hh. rewrite <- app_assoc in Hh.
    apply hist_ok_app in Hh. cbn [hist_ok app] in Hh. destruct Hh as [_ [_ Hn]].
    apply Hn. apply in_or_app. right. now left.
  Qed.

  (* ---------- bounded concurrency ---------- *)
  Definition running (w : wst) : bool := match w with WRun _ => true | _ => false end.
  Definition alive (w : wst) : bool := match w with WExit => false | _ => true end.

  Lemma running_bound acts s :
    run c (init c) acts = Some s ->
    countb running (workers s) <= cN c /\
    countb alive (workers s) + (match lp s with LFin => 0 | _ => 1 end) <= cN c + 1.
  Proof.
    intros Hr. pose proof (i1_workers _ _ (r_inv1 _ (run_rinv _ _ Hr))) as L.
    pose proof (countb_le running (workers s)). pose proof (countb_le alive (workers s)).
    destruct (lp s); lia.
  Qed.

  Lemma pool_intact acts s w :
    run c (init c) acts = Some s -> lp s <> LFin -> w < cN c -> wk s w <> WExit.
  Proof. intros Hr Hl Hw E. apply Hl. eapply r_pool; eauto. now apply run_rinv with acts. Qed.

  Lemma countb_idle_lt l w : nth w l WExit = WIdle -> countb busy l < length l.
  Proof.
    revert w. induction l as [|x l IH]; intros [|w] H; cbn in *; try discriminate.
    - subst x. unfold countb; cbn. pose proof (countb_le busy l). unfold countb in *. lia.
    - specialize (IH _ H). unfold countb in *; cbn. destruct (busy x); cbn; lia.
  Qed.

  (* the loop never has to wait for user code to use an idle worker: either the
     dispatch is enabled, or a result is waiting to be received (a loop-only action) *)
  Lemma capacity_real acts s j rest w :
    run c (init c) acts = Some s -> lp s = LRun -> ready s = j :: rest -> wk s w = WIdle ->
    (exists s', step c s (ALoopDispatch w) = Some s') \/ (exists s', step c s (ALoopDone 0) = Some s').
  Proof.
    intros Hr Hl Hrd Hw. pose proof (r_inv1 _ (run_rinv _ _ Hr)) as I.
    destruct (negb (cgated c) || (ongoing s <? Z.of_nat (cN c))%Z) eqn:G.
    - left. unfold step, stepc. rewrite Hl, Hrd, Hw, G.
      destruct (exit_test _ _) as [k evs]. eauto.
    - right. apply orb_false_iff in G as [G1 G2]. apply Z.ltb_ge in G2.
      pose proof (i1_ongoing _ _ I) as Ho. pose proof (i1_workers _ _ I) as Lw.
      pose proof (countb_idle_lt _ _ Hw) as Lt.
      destruct (donec s) as [|[j0 r0] dc] eqn:Ed; [cbn in Ho; lia|].
      unfold step, stepc. rewrite Hl, Ed. cbn [nth_error].
      destruct r0 as [e|].
      + destruct (negb (ccoe c)); [eauto|].
        destruct (notify _ _ _ _) as [[js4 wt] rd]. destruct (exit_test _ _) as [k evs]. eauto.
      + destruct (notify _ _ _ _) as [[js4 wt] rd]. destruct (exit_test _ _) as [k evs]. eauto.
  Qed.

  Lemma prompt_return acts s :
    run c (init c) acts = Some s -> cp s = CWait -> memc (cwctx c) (cancelled s) = true ->
    exists s', step c s ACallerRetCtx = Some s' /\ cp s' = CRet [ECtx (cwctx c)].
  Proof.
    intros _ Hc Hm. unfold step, stepc. rewrite Hc, Hm. eexists. split; reflexivity.
  Qed.
End Props.
