(* C07 — fail-fast soundness: nil means everything ran; an error is a real task failure. *)
From CffVerif Require Import SchedModel SchedLemmas SchedInv SchedInv2 SchedProps SchedInv3 SchedInv4 SchedTheorems.

(* Without ContinueOnError, Wait returns nil only if every submitted job was started
   and ended successfully, and none ended any other way (it started at most once: C01). *)
Theorem C07_nil :
  forall c acts s,
    wf_cfg c -> run c (init c) acts = Some s -> ccoe c = false -> cp s = CRet [] ->
    forall j, j < length (cprog c) ->
      In (EvStart j) (log s) /\ In (EvEnd j OOk) (log s) /\ (forall o, In (EvEnd j o) (log s) -> o = OOk).
Proof. intros c acts s W. exact (ff_nil c W acts s). Qed.
Print Assumptions C07_nil.

(* ... and the context was not cancelled at the moment Wait returned nil. *)
Theorem C07_nil_ctx :
  forall c acts s a s',
    run c (init c) acts = Some s -> step c s a = Some s' ->
    (forall r, cp s <> CRet r) -> cp s' = CRet [] ->
    memc (cwctx c) (cancelled s) = false /\ ~ In (EvCancel (cwctx c)) (log s).
Proof. exact ff_nil_ctx. Qed.
Print Assumptions C07_nil_ctx.

(* A non-nil return is exactly one error, and it is real: the context's error of a
   context that was cancelled, or the error some job actually ended with (user error,
   Goexit, or a skip for its cancelled context) - never the internal sentinel. *)
Theorem C07_error :
  forall c acts s r,
    wf_cfg c -> run c (init c) acts = Some s -> ccoe c = false -> cp s = CRet r -> r <> [] ->
    exists e, r = [e] /\
      ((e = ECtx (cwctx c) /\ In (EvCancel (cwctx c)) (log s)) \/
       (exists j, resjust c (log s) j (Some e) /\ e <> EInvalid)).
Proof. intros c acts s r W. exact (ff_error c W acts s r). Qed.
Print Assumptions C07_error.

(* No job that transitively depends on a job that failed (or never finished) is ever started. *)
Theorem C07_downstream :
  forall c acts s j d o,
    wf_cfg c -> run c (init c) acts = Some s -> reach c d j ->
    In (EvEnd d o) (log s) -> o <> OOk -> ~ In (EvStart j) (log s).
Proof.
  intros c acts s j d o W Hr Hre He Hne Hs.
  destruct (downstream c W acts s j d Hr Hs Hre) as [_ U]. apply Hne. now apply U.
Qed.
Print Assumptions C07_downstream.

(* non-vacuity: job 1 fails, its dependent 2 never starts, Wait returns that very error *)
Definition c07_cfg : cfg :=
  {| cN := 2; ccoe := false; cgated := true;
     cprog := [ {| jdeps := []; jctx := 0 |}; {| jdeps := []; jctx := 0 |}; {| jdeps := [1]; jctx := 0 |} ];
     cwctx := 0 |}.
Example C07_example :
  exists s, run c07_cfg (init c07_cfg)
              [ACallerEnq; ALoopEnqRecv; ACallerEnq; ALoopEnqRecv; ALoopDispatch 0; ALoopDispatch 1;
               AWorkerCheck 1; AWorkerEnd 1 (OErr 7); AWorkerPost 1; ALoopDone 0;
               ACallerEnq; ALoopDrain; ACallerWait; ALoopFinish; ACallerRetFin] = Some s
            /\ cp s = CRet [EUser 7] /\ ~ In (EvStart 2) (log s).
Proof. eexists. split; [vm_compute; reflexivity|]. split; [reflexivity|]. cbn. intuition discriminate. Qed.

(* ---- the generated code (Layer 2, FlowOpModel): the same two clauses for the jobs of a
   generated Flow or Parallel, for every execution the scheduler can produce. Names of the
   two layers clash (jdeps, run, step): Layer 2 is used qualified. *)
From CffVerif Require FlowOpModel FlowOpProofs.

(* nothing transitively downstream of a job that failed, or never ran, is ever run *)
Theorem C07_generated_downstream :
  forall f sc, FlowOpProofs.unique_providers f ->
  forall e x d, FlowOpProofs.reach f sc e -> FlowOpProofs.depends_plus f x d ->
    (~ In d (FlowOpModel.ran e) \/
     exists efd er, In (d, efd) (FlowOpModel.xlog e) /\ FlowOpModel.je_res efd = FlowOpModel.JFail er) ->
    ~ In x (FlowOpModel.ran e).
Proof. exact FlowOpProofs.failed_starves_downstream. Qed.
Print Assumptions C07_generated_downstream.

(* cff.Results targets are written only when no job failed *)
Theorem C07_generated_results_untouched :
  forall f e, FlowOpModel.xfail e <> [] -> FlowOpModel.results f e = None.
Proof. exact FlowOpProofs.results_untouched_on_failure. Qed.
Print Assumptions C07_generated_results_untouched.

(* nil means everything ran: a saturated execution (nothing more can run) of an acyclic job
   graph in which no job failed has run every job of the directive, each returning nil *)
From CffVerif Require FlowComplete FlowSaturated.

Theorem C07_generated_nil_means_all_ran :
  forall f sc, FlowOpProofs.unique_providers f ->
  forall (rk : FlowOpModel.fid -> nat) e,
    (forall x d, In d (FlowOpModel.jdeps f x) -> rk d < rk x) ->
    FlowOpProofs.reach f sc e -> FlowSaturated.saturated f e -> FlowOpModel.xfail e = [] ->
    FlowOpModel.complete f e = true.
Proof. exact FlowSaturated.saturated_no_failure_complete. Qed.
Print Assumptions C07_generated_nil_means_all_ran.
