(* C04 — Panic containment: a panicking user function becomes a *cff.PanicError.

   Model level (FlowSemModel.task_step, every flow, scenario, task, valuation): a panic in
   a task or predicate function is either reported as that task's failure (FPanic k /
   FPredPanic k, the model's *cff.PanicError carrying the panic value) or absorbed by the
   task's FallbackWith; it never makes another task fail, and nothing else can make a task
   fail. That the real generated code and scheduler turn the panic into the directive's
   returned error (errors.As finds the PanicError, Value is the panic value) and that the
   process survives is what the correspondence runs establish on every execution: panics
   with struct, error, string and *cff.PanicError values, in tasks and predicates.
   Scheduler level: a panicking job is a failing job (SchedModel: AFinish with an error);
   C12/C06 cover the worker's recovery. *)
From CffVerif Require Import FlowSemModel FlowSemProofs FlowOpModel FlowOpProofs FlowAdequacy.

Theorem C04_panic_reported :
  forall f sc tv k a, kfallback (tk f k) = false -> sc_task sc k = OPANIC ->
    tcall_of (task_step f sc tv k) = Some a ->
    exists pc, task_step f sc tv k = RFail (FPanic k) pc (Some a).
Proof. exact panic_reported. Qed.
Print Assumptions C04_panic_reported.

(* a task fails the flow only because of what its own function or predicate did *)
Theorem C04_failure_is_own :
  forall f sc tv k e pc tc, task_step f sc tv k = RFail e pc tc ->
    kfallback (tk f k) = false /\
    ((e = FErr k /\ sc_task sc k = OERR /\ tc <> None) \/
     (e = FPanic k /\ sc_task sc k = OPANIC /\ tc <> None) \/
     (e = FPredPanic k /\ sc_pred sc k = PPANIC /\ kpred (tk f k) <> None /\ tc = None)).
Proof. exact fail_cause. Qed.
Print Assumptions C04_failure_is_own.

Theorem C04_fallback_absorbs :
  forall f sc tv k e pc tc, kfallback (tk f k) = true -> task_step f sc tv k <> RFail e pc tc.
Proof. exact fallback_never_fails. Qed.
Print Assumptions C04_fallback_absorbs.

(* other tasks are unaffected: a task that does not depend on the panicking one computes
   what it computes in the scenario without the panic *)
Theorem C04_others_unaffected :
  forall f sc1 sc2 tv k, sc_task sc1 k = sc_task sc2 k -> sc_pred sc1 k = sc_pred sc2 k ->
    task_step f sc1 tv k = task_step f sc2 tv k.
Proof. intros f sc1 sc2 tv k H1 H2. unfold task_step. rewrite H1, H2. reflexivity. Qed.
Print Assumptions C04_others_unaffected.

(* the statements above are about FlowSemModel; FlowAdequacy proves that this semantics is
   what the generated jobs do in every execution the scheduler can produce: whatever outcome
   it assigns to task k (at any fuel), the job of k has that outcome - result, values
   assigned, calls with their arguments - whenever it runs, on every schedule *)
Theorem C04_on_every_schedule :
  forall f sc, unique_providers f -> forall n k e ef, reach f sc e -> In (FT k, ef) (xlog e) ->
    match tresult f sc n k with
    | RBlocked _ => True
    | ROuts outs _ tc => je_res ef = JOk /\ je_outs ef = Some outs /\ je_calls ef = call_of k tc
    | RFail er _ tc => je_res ef = JFail er /\ je_calls ef = call_of k tc
    end.
Proof. intros f sc Hu n. exact (proj1 (proj2 (sem_sound f sc Hu n))). Qed.
Print Assumptions C04_on_every_schedule.

Example C04_witness :
  let f := {| gparams := [0]; gresults := [1; 2];
              gtasks := [ {| kins := [0]; kouts := [1]; kpred := None; kinvoke := false; kfallback := false; khaserr := false |};
                          {| kins := [0]; kouts := [2]; kpred := None; kinvoke := false; kfallback := false; khaserr := false |} ] |} in
  let sc := {| sc_task := fun k => if Nat.eqb k 0 then OPANIC else OOK; sc_pred := fun _ => PTRUE |} in
  failures f sc = [FPanic 0] /\ result_values f sc = None /\
  In (false, 1, [TmParam 0]) (calls f sc).
Proof. vm_compute. repeat split. right. left. reflexivity. Qed.

(* why the edge from a task's job to the job of its own predicate matters (the ties report a
   generated Dependencies list that lacks it): FlowOpModel.run executes any order of jobs,
   valid or not; the order task-before-predicate is exactly what the scheduler may produce when
   the edge is missing. In it a panic of the predicate is reported to nobody - the directive
   returns no failure - whereas the order the edge enforces reports it. *)
Theorem C04_lost_predicate_edge_refuted :
  let f := {| gparams := [0]; gresults := [1];
              gtasks := [ {| kins := [0]; kouts := [1]; kpred := Some [0]; kinvoke := false; kfallback := false; khaserr := false |} ] |} in
  let sc := {| sc_task := fun _ => OOK; sc_pred := fun _ => PPANIC |} in
  valid f sc [FP 0; FT 0] = true /\ xfail (run f sc [FP 0; FT 0]) = [FPredPanic 0] /\
  valid f sc [FT 0; FP 0] = false /\ xfail (run f sc [FT 0; FP 0]) = [].
Proof. vm_compute. repeat split. Qed.
Print Assumptions C04_lost_predicate_edge_refuted.
