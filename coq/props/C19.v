(* C19 — scheduler state reports are consistent with each other and with reality. *)
From CffVerif Require Import SchedModel SchedLemmas SchedInv SchedInv2 SchedProps SchedInv3 SchedInv4 SchedTheorems.

(* Every report ever emitted, in every run (any DAG, N >= 1, both modes, any
   interleaving, any instant at which the ticker fires), for the current code
   (dispatch gated on ongoing < N): Pending = Ready + Waiting + executing with
   0 <= executing <= Concurrency, IdleWorkers = Concurrency - executing,
   Concurrency is the configured limit, and the counts are non-negative.
   (Waiting >= 0, Pending <= submitted and Waiting <= submitted-with-deps are
   C19_bounds below.) *)
Theorem C19_reports :
  forall c acts s p r w i cc,
    wf_cfg c -> cgated c = true ->
    run c (init c) acts = Some s -> In (EvTick p r w i cc) (log s) ->
    exists x, (p = r + w + x /\ 0 <= r /\ 0 <= x <= Z.of_nat (cN c) /\
               i = Z.of_nat (cN c) - x /\ cc = Z.of_nat (cN c) /\ 0 <= i)%Z.
Proof. intros c acts s p r w i cc _ G Hr Hin. exact (ticks_ok c acts s p r w i cc G Hr Hin). Qed.
Print Assumptions C19_reports.

(* The remaining clauses: Waiting is non-negative, Pending never exceeds the number of
   jobs submitted so far, Waiting never exceeds the number of submitted jobs that have
   dependencies (for both variants of the dispatch guard). *)
Theorem C19_bounds :
  forall c acts s post pre p r w i cc,
    wf_cfg c -> run c (init c) acts = Some s -> log s = post ++ EvTick p r w i cc :: pre ->
    (0 <= w /\ p <= Z.of_nat (nsent pre) /\ w <= Z.of_nat (nsentd c pre))%Z.
Proof. intros c acts s post pre p r w i cc W. exact (report_bounds c W acts s post pre p r w i cc). Qed.
Print Assumptions C19_bounds.

(* Reports stop once the loop has finished (Wait returns through finishedc only after that). *)
Theorem C19_stop :
  forall c acts s post pre p r w i cc,
    run c (init c) acts = Some s -> log s = post ++ EvFinish :: pre ->
    ~ In (EvTick p r w i cc) post.
Proof. exact no_tick_after_finish. Qed.
Print Assumptions C19_stop.

(* The defect repaired by c428103, kept as a refutation: without the gate a
   report with executing = N + 1 is reachable (N = 1, two independent jobs). *)
Definition c19_cfg : cfg :=
  {| cN := 1; ccoe := false; cgated := false; cprog := [ {| jdeps := []; jctx := 0 |}; {| jdeps := []; jctx := 0 |} ]; cwctx := 0 |}.
Definition c19_acts : list act :=
  [ACallerEnq; ALoopEnqRecv; ACallerEnq; ALoopEnqRecv; ALoopDispatch 0; AWorkerCheck 0; AWorkerEnd 0 OOk;
   AWorkerPost 0; ALoopDispatch 0; ALoopTick].
Theorem C19_refuted_ungated :
  exists s, run c19_cfg (init c19_cfg) c19_acts = Some s /\
            In (EvTick 2 0 0 0 1) (log s) /\ (2 - 0 - 0 > Z.of_nat (cN c19_cfg))%Z.
Proof. eexists. split; [vm_compute; reflexivity|]. split; [cbn; auto | cbn; lia]. Qed.
Print Assumptions C19_refuted_ungated.

(* non-vacuity: a gated run that emits reports in a non-trivial state *)
Definition c19_cfg_g : cfg :=
  {| cN := 1; ccoe := false; cgated := true; cprog := cprog c19_cfg; cwctx := 0 |}.
Example C19_example :
  exists s, run c19_cfg_g (init c19_cfg_g)
              [ACallerEnq; ALoopEnqRecv; ACallerEnq; ALoopEnqRecv; ALoopDispatch 0; ALoopTick] = Some s
            /\ In (EvTick 2 1 0 0 1) (log s).
Proof. eexists. split; [vm_compute; reflexivity | cbn; auto]. Qed.
