(* C15 — Directive arguments are evaluated once, in source order, before any task starts.

   Model (PrologueModel): the generator records the user expressions the body templates
   mention in a map and emits one assignment `_<line>_<col> := <expr>` per recorded
   expression, sorted by position, before the body; the body only reads the variables.
   Proved for every list of mentions (any order, any repetitions - template traversal
   order and Go's map iteration order included): the emitted prologue is strictly sorted
   by position, has no duplicates, contains exactly the mentioned expressions, depends
   only on the *set* of mentions, and - when the templates mention exactly the expressions
   the user wrote - evaluating it is evaluating the user's expressions in source order,
   each once (C15_source_order). Distinct positions give distinct variables.
   Tie to the code, on every run: (1) in every generated function the assignments
   `_L_C := ...` must equal `prologue` of the `_L_C` identifiers mentioned in the body
   (static comparison over the generated corpus); (2) every argument expression of every
   generated directive logs its evaluation: the log must be 0..n-1 in order, complete
   before the first task starts; bare-identifier arguments are reassigned by the last
   argument and a plain non-call argument reads an evaluation clock, so late or reordered
   reads are visible; local variables are named like the identifiers generated code
   declares. "On the calling goroutine, before any task starts" and the absence of
   capture are runtime/Go-scoping facts: observed by the correspondence, not theorems. *)
From CffVerif Require Import PrologueModel PrologueProofs ScopeModel ScopeProofs.
From Coq Require Import Sorted.

Theorem C15_sorted : forall uses, StronglySorted lt (prologue uses).
Proof. exact prologue_sorted. Qed.
Print Assumptions C15_sorted.

Theorem C15_once : forall uses, NoDup (prologue uses).
Proof. intros uses. apply sorted_nodup. apply prologue_sorted. Qed.
Print Assumptions C15_once.

Theorem C15_exactly_the_mentioned : forall uses x, In x (prologue uses) <-> In x uses.
Proof. exact prologue_in. Qed.
Print Assumptions C15_exactly_the_mentioned.

Theorem C15_order_of_mentions_irrelevant :
  forall u1 u2, (forall x, In x u1 <-> In x u2) -> prologue u1 = prologue u2.
Proof. exact prologue_set_ext. Qed.
Print Assumptions C15_order_of_mentions_irrelevant.

Theorem C15_source_order :
  forall (state : Type) (effect : nat -> state -> state) exprs uses s,
    StronglySorted lt exprs -> (forall x, In x uses <-> In x exprs) ->
    eval_prologue state effect uses s = eval_source state effect exprs s /\
    snd (eval_prologue state effect uses s) = exprs.
Proof.
  intros state effect exprs uses s S H. split; [now apply eval_as_source|].
  rewrite (eval_as_source state effect exprs uses s S H). unfold eval_source. apply eval_log.
Qed.
Print Assumptions C15_source_order.

Theorem C15_distinct_variables : forall l1 c1 l2 c2, varname l1 c1 = varname l2 c2 -> l1 = l2 /\ c1 = c2.
Proof. intros l1 c1 l2 c2 H. injection H as -> ->. split; reflexivity. Qed.
Print Assumptions C15_distinct_variables.

(* capture (ScopeModel): a hoisted expression is evaluated inside the closure
   func() (err error) { ... } before the body declares anything; its free identifiers are
   bound as in the source unless one of them is the closure's result name `err` or the name
   of an earlier hoisted variable (C15_no_capture). The exception is real: known finding F9
   (C15_capture_refuted is its model-level witness, probe ErrCapture its replay on the tool). *)
Theorem C15_no_capture :
  forall earlier locals file x, x <> id_err -> ~ In x earlier ->
    bound_in_generated earlier locals file x = bound_in_source locals file x.
Proof. exact no_capture. Qed.
Print Assumptions C15_no_capture.

Theorem C15_capture_refuted :
  exists earlier locals file,
    bound_in_source locals file id_err = BUserLocal /\ bound_in_generated earlier locals file id_err = BClosure.
Proof. exact capture_refuted. Qed.
Print Assumptions C15_capture_refuted.

Example C15_witness :
  prologue [24; 21; 22; 24; 23; 21] = [21; 22; 23; 24] /\
  snd (eval_prologue nat (fun p s => s + p) [3; 1; 2; 3; 1] 0) = [1; 2; 3] /\
  fst (eval_prologue nat (fun p s => s + p) [3; 1; 2; 3; 1] 0) = 6.
Proof. vm_compute. repeat split. Qed.
