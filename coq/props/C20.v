(* C20 — Generation modes agree.

   Source-map mode (GenOutModel): the two template functions that differ between the modes
   (lineDir, magic) print nothing in base mode and only comments / line directives in
   source-map mode, and resetMagicTokens rewrites comments only; hence for every template
   output the code of the source-map file is exactly the code of the base file
   (C20_sourcemap_same_code), for any token values. Tie: the token streams (comments and
   line directives skipped) of the two real outputs are compared for every generated file.
   Modifier mode: no model of internal/modifier's templates is built; the claim for the
   supported subset (Params, Results, Concurrency, plain Tasks) is decided by differential
   execution only - base-mode and modifier-mode code of the same flows are run on the same
   task outcomes {ok, error, panic} and compared with each other and with FlowSemModel
   (whose theorems, C02/C04/C07/C11, therefore transfer to the modifier output only as far
   as the runs go): partial, labelled so. *)
From CffVerif Require Import GenOutModel GenOutProofs.

Theorem C20_sourcemap_same_code :
  forall tok1 tok2 ts, code_of (output SourceMap tok1 ts) = code_of (output Base tok2 ts).
Proof. exact sourcemap_same_code. Qed.
Print Assumptions C20_sourcemap_same_code.

Theorem C20_sourcemap_no_magic : forall tok ts, ~ In (OComment tok) (output SourceMap tok ts).
Proof. exact no_magic_left. Qed.
Print Assumptions C20_sourcemap_no_magic.

Example C20_witness :
  code_of (output SourceMap 7 [TLineDir 3; TCode 1; TMagic; TUserComment 5; TCode 2]) = [1; 2] /\
  output Base 7 [TLineDir 3; TCode 1; TMagic; TUserComment 5; TCode 2] = [OCode 1; OComment 5; OCode 2].
Proof. vm_compute. split; reflexivity. Qed.
