(* C16 — only directives rewritten; build tags exactly inverted; output names.
   This file holds nothing but the property theorems; each is closed by [exact]
   of a lemma proved in BuildTagProofs.v and followed by Print Assumptions. *)
From CffVerif Require Import BuildTagModel BuildTagProofs.

(* For every constraint expression (any nesting of !, &&, ||) and every tag
   assignment: the inverted expression selects exactly when the source would
   with the cff tag flipped. *)
Theorem C16_invert : forall e tags, eval tags (invert e) = eval (flip_cff tags) e.
Proof. exact invert_correct. Qed.
Print Assumptions C16_invert.

(* Header as a whole: the //go:build line, the conjunction of the // +build
   lines, and every other line (unchanged, in order).  [plus_lines] is Go's
   constraint.PlusBuildLines, an oracle whose contract is the hypothesis. *)
Theorem C16_header :
  forall (plus_lines : expr -> list expr),
    (forall e tags, forallb (eval tags) (plus_lines e) = eval tags e) ->
    forall h tags,
      option_map (eval tags) (gobuild_of (invert_header plus_lines h))
        = option_map (eval (flip_cff tags)) (gobuild_of h)
      /\ plusbuild_sel tags (invert_header plus_lines h) = plusbuild_sel (flip_cff tags) h
      /\ others (invert_header plus_lines h) = others h.
Proof. exact header_selected. Qed.
Print Assumptions C16_header.

(* The rewritten constraint can be printed and parsed back: it never contains
   a double negation, which Go's constraint parser rejects (defect F11). *)
Theorem C16_printable : forall e, printable (invert e) = true.
Proof. exact invert_printable. Qed.
Print Assumptions C16_printable.

(* A (printable) constraint that does not mention cff is not rewritten at all. *)
Theorem C16_untouched : forall e, has_cff e = false -> printable e = true -> invert e = e.
Proof. exact invert_no_cff. Qed.
Print Assumptions C16_untouched.

(* Splicing: output and source are the same interleaving of untouched
   segments; only the directive intervals differ (whatever the generated text). *)
Theorem C16_splice :
  forall (A : Type) (src : list A) (gens : list (dgen A)) (last : nat),
    wf_gens (length src) last gens ->
    splice src last gens = interleave (segments src last gens) (map dtext gens)
    /\ skipn last src =
       interleave (segments src last gens) (map (fun g => slice src (dpos g) (dend g)) gens).
Proof.
  intros A src gens last H. split;
    [exact (splice_interleave A src gens last) | exact (source_interleave A src gens last H)].
Qed.
Print Assumptions C16_splice.

Theorem C16_names :
  (forall p, gen_filename (p ++ s_test_go) = p ++ s_gen_test_go)
  /\ (forall p, has_suffix (p ++ s_go) s_test_go = false -> gen_filename (p ++ s_go) = p ++ s_gen_go)
  /\ (forall a b, has_suffix a s_go = true -> has_suffix b s_go = true ->
                  gen_filename a = gen_filename b -> a = b)
  /\ (forall a, has_suffix a s_go = true -> gen_filename a <> a).
Proof.
  exact (conj gen_filename_test (conj gen_filename_plain
        (conj gen_filename_injective gen_filename_not_fixpoint))).
Qed.
Print Assumptions C16_names.

(* non-vacuity: a header with both syntaxes, nested cff, and a splice with two directives *)
Example C16_example_expr :
  invert (Or (And (Tag 0) (Tag 1)) (Not (And (Tag 2) (Not (Tag 0)))))
  = Or (And (Not (Tag 0)) (Tag 1)) (Not (And (Tag 2) (Tag 0))).
Proof. reflexivity. Qed.

Example C16_example_splice :
  wf_gens 10 2 [ {| dpos := 3; dend := 5; dtext := [100;101;102] |};
                 {| dpos := 7; dend := 7; dtext := [200] |} ]
  /\ splice [0;1;2;3;4;5;6;7;8;9] 2
       [ {| dpos := 3; dend := 5; dtext := [100;101;102] |};
         {| dpos := 7; dend := 7; dtext := [200] |} ]
     = [2;100;101;102;5;6;200;7;8;9].
Proof. split; [cbn; lia | reflexivity]. Qed.

(* the input of defect F11: cff && !(!linux) *)
Example C16_example_double_negation :
  invert (And (Tag 0) (Not (Not (Tag 1)))) = And (Not (Tag 0)) (Tag 1).
Proof. reflexivity. Qed.

(* which files a run touches, and its exit status (cmd/cff/main.go run; FileSelModel): an
   output is written exactly for the selected files that compile and contain a directive, at
   their target; a file that --file does not name by its exact base name is never written
   for; nothing is written for a rejected file; the exit status is non-zero exactly when a
   selected file failed or the selection repeats an input; without --file no two files of
   different (directory, name) share an output. *)
From CffVerif Require Import FileSelModel FileSelProofs.

Theorem C16_written_exactly :
  forall s files o f, In (o, f) (written (run_files s files)) <->
    In f files /\ target s f = Some o /\ sf_fail f = false /\ sf_emits f = true.
Proof. exact written_spec. Qed.
Print Assumptions C16_written_exactly.

Theorem C16_unselected_untouched :
  forall s files f, selected s f = false -> forall o, ~ In (o, f) (written (run_files s files)).
Proof. exact unselected_untouched. Qed.
Print Assumptions C16_unselected_untouched.

Theorem C16_selected_by_exact_name :
  forall s f, selected s f = true <-> (s = [] \/ exists o, In (sf_base f, o) s).
Proof. exact selected_spec. Qed.
Print Assumptions C16_selected_by_exact_name.

Theorem C16_exit_status :
  forall s files, exit_nonzero (run_tool s files) = true <->
    (dup_input s = true \/ exists f, In f files /\ selected s f = true /\ sf_fail f = true).
Proof. exact exit_spec. Qed.
Print Assumptions C16_exit_status.

Theorem C16_rejected_not_written :
  forall s files f, sf_fail f = true -> forall o, ~ In (o, f) (written (run_files s files)).
Proof. exact rejected_not_written. Qed.
Print Assumptions C16_rejected_not_written.

Theorem C16_default_outputs_distinct :
  forall files, NoDup (map (fun f => (sf_dir f, sf_base f)) files) ->
    (forall f, In f files -> has_suffix (sf_base f) s_go = true) ->
    NoDup (map fst (written (run_files [] files))).
Proof. exact default_outputs_distinct. Qed.
Print Assumptions C16_default_outputs_distinct.
