(* C17 — Generation is deterministic and independent of what else is processed.

   Gallina functions are deterministic; what the theorems settle is that the places where
   the Go generator consults something unordered or random cannot leak into the text:
   - the hoisted expressions are recorded in a map and emitted sorted by position: the
     prologue depends only on the set recorded (C17_prologue_order_irrelevant);
   - the new imports live in a map and are added in sorted path order
     (C17_import_order_irrelevant); the names taken by the file's imports form a set: seeding
     them in any order gives the same names and the same addImports (C17_alias_seed_irrelevant);
   - the random magic token of source-map mode is completely replaced and the output does not
     depend on its value, unless the user's file contains that very comment
     (C17_no_magic_left, C17_token_irrelevant).
   Independence of -file selections and of the other files of the package rests on "fresh
   compiler and generator per file" (process.go), i.e. on the absence of state shared between
   files - not a theorem: observed. Tie, on every run: byte comparison of the outputs of
   repeated cff processes, of every file processed alone versus with its package, in base and
   source-map mode, on the generated corpus. *)
From CffVerif Require Import GenOutModel GenOutProofs PrologueModel PrologueProofs AliasModel AliasProofs.

Theorem C17_prologue_order_irrelevant :
  forall u1 u2, (forall x, In x u1 <-> In x u2) -> prologue u1 = prologue u2.
Proof. exact prologue_set_ext. Qed.
Print Assumptions C17_prologue_order_irrelevant.

Theorem C17_import_order_irrelevant :
  forall k1 k2, (forall x, In x k1 <-> In x k2) -> imports_emitted k1 = imports_emitted k2.
Proof. exact imports_order_irrelevant. Qed.
Print Assumptions C17_import_order_irrelevant.

Theorem C17_alias_seed_irrelevant :
  forall reqs init1 init2 l1 l2 e1 e2, (forall x, In x init1 <-> In x init2) ->
    requests reqs (start init1) = Some (l1, e1) -> requests reqs (start init2) = Some (l2, e2) ->
    l1 = l2 /\ adds e1 = adds e2.
Proof.
  intros reqs init1 init2 l1 l2 e1 e2 H. apply seed_order_irrelevant. split; [reflexivity | exact H].
Qed.
Print Assumptions C17_alias_seed_irrelevant.

Theorem C17_no_magic_left : forall tok ts, ~ In (OComment tok) (output SourceMap tok ts).
Proof. exact no_magic_left. Qed.
Print Assumptions C17_no_magic_left.

Theorem C17_token_irrelevant :
  forall m t1 t2 ts, ~ In t1 (user_comments ts) -> ~ In t2 (user_comments ts) -> output m t1 ts = output m t2 ts.
Proof. exact token_irrelevant. Qed.
Print Assumptions C17_token_irrelevant.

Example C17_witness :
  output SourceMap 77 [TLineDir 3; TCode 1; TMagic; TUserComment 5; TCode 2] =
  output SourceMap 99 [TLineDir 3; TCode 1; TMagic; TUserComment 5; TCode 2] /\
  prologue [5; 3; 9; 3] = prologue [9; 5; 3].
Proof. vm_compute. split; reflexivity. Qed.
