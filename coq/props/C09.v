(* C09 — cancellation: nothing starts after the context is done; the call returns at once. *)
From CffVerif Require Import SchedModel SchedLemmas SchedInv SchedProps.

(* In every history, with or without ContinueOnError: no job starts after the
   cancellation of its context (functions already running may finish). *)
Theorem C09_no_start_after_cancel :
  forall c acts s post j pre,
    run c (init c) acts = Some s -> log s = post ++ EvStart j :: pre ->
    ~ In (EvCancel (jctx (spec c j))) pre.
Proof. exact no_start_after_cancel. Qed.
Print Assumptions C09_no_start_after_cancel.

(* Wait returns promptly: once its context is done the return is enabled whatever
   the loop and the workers are doing, and it returns the context's error. *)
Theorem C09_prompt :
  forall c acts s,
    run c (init c) acts = Some s -> cp s = CWait -> memc (cwctx c) (cancelled s) = true ->
    exists s', step c s ACallerRetCtx = Some s' /\ cp s' = CRet [ECtx (cwctx c)].
Proof. exact prompt_return. Qed.
Print Assumptions C09_prompt.

(* non-vacuity: a dependent of the cancelling job is skipped with the context error *)
Example C09_example :
  let c := {| cN := 1; ccoe := false; cgated := true;
              cprog := [ {| jdeps := []; jctx := 0 |}; {| jdeps := [0]; jctx := 0 |} ]; cwctx := 0 |} in
  exists s, run c (init c) [ACallerEnq; ALoopEnqRecv; ACallerEnq; ALoopEnqRecv; ALoopDispatch 0; AWorkerCheck 0;
                            ACancel 0; AWorkerEnd 0 OOk; AWorkerPost 0; ALoopDone 0; ALoopDispatch 0;
                            AWorkerCheck 0] = Some s
            /\ log s = EvSkip 1 (ECtx 0) :: tl (log s) /\ ~ In (EvStart 1) (log s).
Proof.
  eexists. split; [vm_compute; reflexivity|]. split; [reflexivity|].
  cbn. intuition discriminate.
Qed.
