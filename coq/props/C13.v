(* C13 — cff output compiles and has no unexpanded directive; cff itself never crashes.

   Partial, labelled so. What is a theorem here:
   (1) no directive call remains (DirectiveLeftProofs over BuildTagModel.splice): the calls in
       the output are exactly those of the untouched source segments plus those of the
       generated texts (C13_directive_count); if every directive call of the source lies in a
       replaced interval and no argument expression contains one, none remains
       (C13_no_directive_left, C13_generated_text_clean). A directive nested inside an argument
       expression of another one is copied verbatim and does remain: C13_nested_refuted is the
       model-level witness of known finding F8.
   (2) the imports the generated code adds never clash (AliasModel = printImportAlias + the
       per-file maps): one name per path, the same each time, distinct for distinct paths,
       never a name the file's own imports occupy; the mangling loop always terminates
       (C13_import_names, C13_import_loop_terminates).
   What is not a theorem: "the package type-checks" and "the tool does not panic" are facts
   about go/types and the Go runtime; they are observed on every run: the generated corpus
   (spelling variants: cff / context / time imported under other names, generic enclosing
   functions, types from unimported packages with colliding names, locals named like
   generated identifiers) is pushed through the real cff in base, source-map and
   -auto-instrument modes and type-checked without the cff tag; probes F7/F8 are known
   findings. *)
From CffVerif Require Import BuildTagModel DirectiveLeftProofs AliasModel AliasProofs ScopeModel ScopeProofs.

Theorem C13_directive_count :
  forall src gens last,
    dir_count (splice src last gens) =
    fold_right (fun s n => dir_count s + n) 0 (segments src last gens) +
    fold_right (fun g n => dir_count (dtext g) + n) 0 gens.
Proof. exact dir_count_splice. Qed.
Print Assumptions C13_directive_count.

Theorem C13_no_directive_left :
  forall src gens last,
    (forall s, In s (segments src last gens) -> dir_count s = 0) ->
    (forall g, In g gens -> dir_count (dtext g) = 0) ->
    dir_count (splice src last gens) = 0.
Proof. exact no_directive_left. Qed.
Print Assumptions C13_no_directive_left.

Theorem C13_generated_text_clean :
  forall tpl hs, (forall t, In t tpl -> dir_count t = 0) -> (forall h, In h hs -> dir_count h = 0) ->
    dir_count (gen_text tpl hs) = 0.
Proof. exact gen_text_clean. Qed.
Print Assumptions C13_generated_text_clean.

(* F8: a directive inside an argument expression of another directive survives *)
Example C13_nested_refuted :
  let src := [SCode 1; SDir 2; SCode 3; SDir 4; SCode 5; SCode 6; SCode 7] in
  (* outer directive = tokens 1..6, its argument expression = tokens 3..5 containing a directive *)
  let hoisted := [slice src 3 5] in
  let g := {| dpos := 1; dend := 6; dtext := gen_text [[SCode 90]; [SCode 91]] hoisted |} in
  dir_count (splice src 0 [g]) = 1.
Proof. vm_compute. reflexivity. Qed.

(* package references written by the templates (time, debug, context, the cff import) reach
   the file's import unless the closure or the enclosing function declares that name
   (C13_template_reference); a local of the enclosing function with that name shadows it:
   C13_shadow_refuted is the model-level witness of known finding F7 (probe ShadowTime) *)
Theorem C13_template_reference :
  forall body locals file pkg, pkg <> id_err -> ~ In pkg body -> ~ In pkg locals -> In pkg file ->
    template_ref body locals file pkg = BFileLevel.
Proof. exact template_ref_ok. Qed.
Print Assumptions C13_template_reference.

Theorem C13_shadow_refuted :
  exists body locals file pkg, In pkg file /\ template_ref body locals file pkg = BUserLocal.
Proof. exact shadow_refuted. Qed.
Print Assumptions C13_shadow_refuted.

Theorem C13_import_names :
  forall init reqs names s,
    (forall p n, In (p, n) reqs -> n <> []) ->
    requests reqs (start init) = Some (names, s) ->
    forall i j p q n m a b,
      nth_error reqs i = Some (p, n) -> nth_error reqs j = Some (q, m) ->
      nth_error names i = Some a -> nth_error names j = Some b ->
      (p = q <-> a = b) /\ ~ In a init.
Proof. exact alias_names. Qed.
Print Assumptions C13_import_names.

Theorem C13_import_loop_terminates : forall reqs s, requests reqs s <> None.
Proof. exact requests_total. Qed.
Print Assumptions C13_import_loop_terminates.

(* html/template then text/template in a file that imports neither: "template", "_template" *)
Example C13_alias_witness :
  let t := [116; 101] in   (* "te" stands for "template" *)
  option_map fst (requests [(([104], t), t); (([120], t), t); (([104], t), t)] (start [[99]])) =
  Some [t; 95 :: t; t].
Proof. vm_compute. reflexivity. Qed.

(* which calls are taken for directives (compileFile's walk; RecogniseModel): with the repaired
   walk (fix "dot-import") a file is either refused, one positioned diagnostic per directive
   spelled through a dot-import of cff, or every directive call of it is replaced - an output is
   written exactly when the file contains a directive and no directive call is left in it.
   C13_dot_import_refuted keeps the repaired defect as a witness: before the fix a file whose
   only directive was dot-imported got neither output nor diagnostic, and next to a qualified
   directive the dot-imported one was left in the output (the probes DotImport and DotMixed
   are these two files). *)
From CffVerif Require Import RecogniseModel RecogniseProofs.

Theorem C13_directives_processed_or_refused :
  forall f, match run_fixed f with
            | inr n => n = errors f /\ 0 < n
            | inl None => forall i, In i f -> is_dir i = false
            | inl (Some o) => left_in o = 0 /\ exists i, In i f /\ is_dir i = true
            end.
Proof. exact fixed_processes_or_refuses. Qed.
Print Assumptions C13_directives_processed_or_refused.

Theorem C13_dot_import_refuted :
  run_old [Code 1; Dir Dotted [7]] = None /\
  exists o, run_old [Dir Qualified [5]; Dir Dotted [7]] = Some o /\ left_in o = 1.
Proof. exact old_refuted. Qed.
Print Assumptions C13_dot_import_refuted.
