(* C11 — Predicate gates its task; FallbackWith substitutes values on failure only.

   Stated over the flow semantics FlowSemModel.task_step, for every flow f, scenario sc
   (what each user function does), task k and valuation tv of the types (hence for every
   fuel level of tresult, by tresult_S). FlowSemModel is tied to the generated code by
   the correspondence of lib/gen_common.py: programs generated from abstract flows are
   compiled by the real cff, executed under scenario tables, and compared call by call. *)
From CffVerif Require Import FlowSemModel FlowSemProofs FlowOpModel FlowOpProofs FlowAdequacy.

(* predicate false: the task function is never called, its outputs are the zero values,
   and the task does not fail the flow *)
Theorem C11_false_not_called :
  forall f sc tv k pins, kpred (tk f k) = Some pins -> sc_pred sc k = PFALSE ->
    tcall_of (task_step f sc tv k) = None.
Proof. exact pred_false_not_called. Qed.
Print Assumptions C11_false_not_called.

Theorem C11_false_zero_values :
  forall f sc tv k pins outs pc tc, kpred (tk f k) = Some pins -> sc_pred sc k = PFALSE ->
    task_step f sc tv k = ROuts outs pc tc -> outs = map (fun _ => TmZero) (kouts (tk f k)) /\ tc = None.
Proof. exact pred_false_zero. Qed.
Print Assumptions C11_false_zero_values.

Theorem C11_false_no_failure :
  forall f sc tv k pins e pc tc, kpred (tk f k) = Some pins -> sc_pred sc k = PFALSE ->
    task_step f sc tv k <> RFail e pc tc.
Proof.
  intros f sc tv k pins e pc tc Hp Hf H.
  destruct (fail_cause f sc tv k e pc tc H) as [_ [(_ & _ & Hc)|[(_ & _ & Hc)|(_ & Hc & _)]]].
  - apply Hc. pose proof (pred_false_not_called f sc tv k pins Hp Hf) as Hn. rewrite H in Hn. exact Hn.
  - apply Hc. pose proof (pred_false_not_called f sc tv k pins Hp Hf) as Hn. rewrite H in Hn. exact Hn.
  - congruence.
Qed.
Print Assumptions C11_false_no_failure.

(* the task function is invoked only if the predicate returned true *)
Theorem C11_invoked_only_if_true :
  forall f sc tv k a, tcall_of (task_step f sc tv k) = Some a ->
    kpred (tk f k) = None \/ sc_pred sc k = PTRUE.
Proof. exact called_pred_true. Qed.
Print Assumptions C11_invoked_only_if_true.

(* the predicate is evaluated with exactly the values of its own inputs, as soon as those
   exist - whether or not the task's inputs do *)
Theorem C11_predicate_own_inputs :
  forall f sc tv k pins pargs, kpred (tk f k) = Some pins ->
    all_some (map tv pins) = Some pargs -> pcall_of (task_step f sc tv k) = Some pargs.
Proof. exact pred_called_own_inputs. Qed.
Print Assumptions C11_predicate_own_inputs.

(* FallbackWith: the task never fails the flow; on error, panic or predicate panic its
   outputs are the fallback values; on success they are the function's results *)
Theorem C11_fallback_absorbs :
  forall f sc tv k e pc tc, kfallback (tk f k) = true -> task_step f sc tv k <> RFail e pc tc.
Proof. exact fallback_never_fails. Qed.
Print Assumptions C11_fallback_absorbs.

Theorem C11_fallback_on_task_failure :
  forall f sc tv k outs pc a, kfallback (tk f k) = true -> sc_task sc k <> OOK ->
    task_step f sc tv k = ROuts outs pc (Some a) -> outs = fallback_outs f k.
Proof. exact task_failure_uses_fallback. Qed.
Print Assumptions C11_fallback_on_task_failure.

Theorem C11_fallback_on_predicate_panic :
  forall f sc tv k pins outs pc tc, kfallback (tk f k) = true -> kpred (tk f k) = Some pins ->
    sc_pred sc k = PPANIC -> task_step f sc tv k = ROuts outs pc tc -> outs = fallback_outs f k /\ tc = None.
Proof. exact pred_panic_uses_fallback. Qed.
Print Assumptions C11_fallback_on_predicate_panic.

Theorem C11_fallback_unused_on_success :
  forall f sc tv k outs pc a, sc_task sc k = OOK -> task_step f sc tv k = ROuts outs pc (Some a) ->
    outs = map (fun i => TmOut k i a) (seq 0 (length (kouts (tk f k)))).
Proof. exact success_ignores_fallback. Qed.
Print Assumptions C11_fallback_unused_on_success.

(* the statements above are about FlowSemModel; FlowAdequacy proves that this semantics is
   what the generated jobs do in every execution the scheduler can produce: whatever outcome
   it assigns to task k (at any fuel), the job of k has that outcome - result, values
   assigned, calls with their arguments - whenever it runs, on every schedule *)
Theorem C11_on_every_schedule :
  forall f sc, unique_providers f -> forall n k e ef, reach f sc e -> In (FT k, ef) (xlog e) ->
    match tresult f sc n k with
    | RBlocked _ => True
    | ROuts outs _ tc => je_res ef = JOk /\ je_outs ef = Some outs /\ je_calls ef = call_of k tc
    | RFail er _ tc => je_res ef = JFail er /\ je_calls ef = call_of k tc
    end.
Proof. intros f sc Hu n. exact (proj1 (proj2 (sem_sound f sc Hu n))). Qed.
Print Assumptions C11_on_every_schedule.

(* non-vacuity: a two-task flow where the predicate of the second task is false *)
Example C11_witness :
  let f := {| gparams := [0]; gresults := [2];
              gtasks := [ {| kins := [0]; kouts := [1]; kpred := None; kinvoke := false; kfallback := false; khaserr := true |};
                          {| kins := [1]; kouts := [2]; kpred := Some [0]; kinvoke := false; kfallback := true; khaserr := true |} ] |} in
  let sc := {| sc_task := fun _ => OOK; sc_pred := fun _ => PFALSE |} in
  result_values f sc = Some [TmZero] /\ failures f sc = [] /\
  calls f sc = [(false, 0, [TmParam 0]); (true, 1, [TmParam 0])].
Proof. vm_compute. repeat split. Qed.

(* the same order for a predicate that returns true: the task job, run before the predicate's
   job, finds the flag unset - the task function is never invoked and the Results hold the
   zero value instead of the task's output *)
Theorem C11_lost_predicate_edge_refuted :
  let f := {| gparams := [0]; gresults := [1];
              gtasks := [ {| kins := [0]; kouts := [1]; kpred := Some [0]; kinvoke := false; kfallback := false; khaserr := false |} ] |} in
  let sc := {| sc_task := fun _ => OOK; sc_pred := fun _ => PTRUE |} in
  xcalls (run f sc [FP 0; FT 0]) = [(true, 0, [Some (TmParam 0)]); (false, 0, [Some (TmParam 0)])] /\
  results f (run f sc [FP 0; FT 0]) = Some [Some (TmOut 0 0 [TmParam 0])] /\
  valid f sc [FT 0; FP 0] = false /\
  xcalls (run f sc [FT 0; FP 0]) = [(true, 0, [Some (TmParam 0)])] /\
  results f (run f sc [FT 0; FP 0]) = Some [Some TmZero].
Proof. vm_compute. repeat split. Qed.
Print Assumptions C11_lost_predicate_edge_refuted.
