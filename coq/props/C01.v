(* C01 — a job never runs before its dependencies succeeded, and never runs twice. *)
From CffVerif Require Import SchedModel SchedLemmas SchedInv SchedInv2 SchedProps SchedInv3 SchedInv4 SchedTheorems.

(* For every DAG (duplicate dependencies, dependencies already finished at enqueue
   time included), every N >= 1, both error modes, gated or not, and every
   interleaving of caller, loop, workers and cancellations: whenever a job starts,
   it has not started before, and every dependency it names has already ended
   without error. *)
Theorem C01_order_once :
  forall c acts s post j pre,
    wf_cfg c -> run c (init c) acts = Some s -> log s = post ++ EvStart j :: pre ->
    ~ In (EvStart j) pre /\ (forall d, In d (jdeps (spec c j)) -> In (EvEnd d OOk) pre).
Proof. intros c acts s post j pre W. exact (order_once c W acts s post j pre). Qed.
Print Assumptions C01_order_once.

(* The same through chains: every transitive dependency of a started job ended
   successfully, and has no other end. *)
Theorem C01_transitive :
  forall c acts s j d,
    wf_cfg c -> run c (init c) acts = Some s -> In (EvStart j) (log s) -> reach c d j ->
    In (EvEnd d OOk) (log s) /\ forall o, In (EvEnd d o) (log s) -> o = OOk.
Proof. intros c acts s j d W. exact (downstream c W acts s j d). Qed.
Print Assumptions C01_transitive.

(* non-vacuity: a diamond with a duplicated dependency, the last job enqueued after
   one of its dependencies has already finished; it starts last *)
Definition c01_cfg : cfg :=
  {| cN := 2; ccoe := true; cgated := true;
     cprog := [ {| jdeps := []; jctx := 0 |}; {| jdeps := [0]; jctx := 0 |};
                {| jdeps := [0; 0; 1]; jctx := 0 |} ]; cwctx := 0 |}.
Example C01_example :
  wf_cfg_b c01_cfg = true /\
  exists s, run c01_cfg (init c01_cfg)
              [ACallerEnq; ALoopEnqRecv; ALoopDispatch 0; AWorkerCheck 0; AWorkerEnd 0 OOk; AWorkerPost 0;
               ALoopDone 0; ACallerEnq; ALoopEnqRecv; ACallerEnq; ALoopEnqRecv; ALoopDispatch 1;
               AWorkerCheck 1; AWorkerEnd 1 OOk; AWorkerPost 1; ALoopDone 0; ALoopDispatch 0; AWorkerCheck 0] = Some s
            /\ hd EvFinish (log s) = EvStart 2.
Proof. split; [reflexivity|]. eexists. split; [vm_compute; reflexivity|reflexivity]. Qed.
