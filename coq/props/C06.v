(* C06 — no goroutine leak: all scheduler goroutines exit after the directive is over. *)
From CffVerif Require Import SchedModel SchedLemmas SchedInv SchedInv2 SchedProps SchedInv3 SchedInv4 SchedLive.

(* Current code (dispatch gated on ongoing < N): a reachable state in which no action of
   caller, loop or workers is enabled any more is final - Wait has returned, the loop has
   finished and every worker slot has exited. With C05_bounded every run reaches such a
   state: whatever the DAG, faults, worker count, mode and interleaving, nothing is left
   behind. Executions are independent (each Config.New makes its own channels and
   goroutines), so histories of consecutive or concurrent executions leak nothing either. *)
Theorem C06_no_leak :
  forall c acts s, wf_cfg c -> cgated c = true -> run c (init c) acts = Some s ->
    (forall a, is_env a = false -> step c s a = None) ->
    is_final s = true /\ lp s = LFin /\ forall w, w < cN c -> wk s w = WExit.
Proof.
  intros c acts s W G Hr Hstuck.
  destruct (is_final s) eqn:F.
  - split; [reflexivity|]. unfold is_final in F. destruct (cp s); try discriminate. destruct (lp s); try discriminate.
    split; [reflexivity|]. intros w Hw. unfold all_exited in F. rewrite forallb_forall in F.
    pose proof (i1_workers _ _ (r3_inv1 _ _ (r4_inv3 _ _ (r5_inv4 _ _ (run_rinv5 c W _ _ Hr))))) as L.
    assert (Hin : In (wk s w) (workers s)) by (unfold wk; apply nth_In; lia).
    specialize (F _ Hin). destruct (wk s w); try discriminate. reflexivity.
  - exfalso. destruct (progress c W acts s Hr G F) as (a & s' & Ha & Hs). rewrite (Hstuck a Ha) in Hs. discriminate.
Qed.
Print Assumptions C06_no_leak.

(* a worker can always hand over its result once the loop has left: the key fact *)
Theorem C06_post_enabled :
  forall c acts s w j r, wf_cfg c -> cgated c = true -> run c (init c) acts = Some s ->
    w < cN c -> wk s w = WPost j r -> exists s', step c s (AWorkerPost w) = Some s'.
Proof.
  intros c acts s w j r W G Hr Hw E.
  pose proof (r3_inv1 _ _ (r4_inv3 _ _ (r5_inv4 _ _ (run_rinv5 c W _ _ Hr)))) as I1.
  unfold step, stepc. rewrite E.
  assert (L : length (donec s) < cN c).
  { pose proof (i1_ongoing _ _ I1) as O. pose proof (i1_gated _ _ I1 G) as Gd.
    assert (B : 1 <= countb busy (workers s)).
    { apply (countb_nth_pos busy (workers s) w WExit); [rewrite (i1_workers _ _ I1); exact Hw|].
      unfold wk in E. rewrite E. reflexivity. }
    lia. }
  apply Nat.ltb_lt in L. rewrite L. eauto.
Qed.
Print Assumptions C06_post_enabled.

(* The defect repaired by c428103, kept as a refutation: without the gate, N = 2, four
   independent jobs of which the first fails: the run below ends in a state where nothing
   is enabled any more and worker 1 is blocked forever on its result send. *)
Definition c06_cfg : cfg :=
  {| cN := 2; ccoe := false; cgated := false; cprog := repeat {| jdeps := []; jctx := 0 |} 4; cwctx := 0 |}.
Definition c06_acts : list act :=
  [ACallerEnq; ALoopEnqRecv; ACallerEnq; ALoopEnqRecv; ACallerEnq; ALoopEnqRecv; ACallerEnq; ALoopEnqRecv;
   ACallerWait; ALoopEnqClosed; ALoopDispatch 0; ALoopDispatch 1;
   AWorkerCheck 0; AWorkerEnd 0 (OErr 7); AWorkerPost 0; AWorkerCheck 1; AWorkerEnd 1 OOk; AWorkerPost 1;
   ALoopDispatch 0; ALoopDispatch 1; AWorkerCheck 0; AWorkerEnd 0 OOk; AWorkerCheck 1; AWorkerEnd 1 OOk;
   ALoopDone 0; ALoopFinish; ACallerRetFin; AWorkerPost 0; AWorkerExit 0].
Definition all_sched_acts (nw : nat) : list act :=
  [ACallerEnq; ACallerWait; ACallerRetCtx; ACallerRetFin; ALoopEnqRecv; ALoopEnqClosed; ALoopDrain; ALoopFinish;
   ALoopDone 0; ALoopDone 1; ALoopDone 2]
  ++ flat_map (fun w => [ALoopDispatch w; AWorkerCheck w; AWorkerEnd w OOk; AWorkerPost w; AWorkerExit w]) (seq 0 nw).
Theorem C06_refuted_ungated :
  exists s, run c06_cfg (init c06_cfg) c06_acts = Some s /\
            cp s = CRet [EUser 7] /\ lp s = LFin /\ wk s 1 = WPost 3 None /\
            forallb (fun a => match step c06_cfg s a with None => true | Some _ => false end) (all_sched_acts 2) = true.
Proof. eexists. split; [vm_compute; reflexivity|]. repeat split; vm_compute; reflexivity. Qed.
Print Assumptions C06_refuted_ungated.
